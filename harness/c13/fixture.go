package c13

import (
	"context"
	"encoding/json"
	"errors"
	"io"
	"net/http"
	"strconv"
	"sync"
	"time"

	"github.com/renbou/grpcbridge/bridgedesc"
	"github.com/renbou/grpcbridge/grpcadapter"
	"github.com/renbou/grpcbridge/routing"
	"github.com/renbou/grpcbridge/transcoding"
	"google.golang.org/grpc/codes"
	"google.golang.org/grpc/metadata"
	"google.golang.org/grpc/status"
	"google.golang.org/protobuf/proto"
	"google.golang.org/protobuf/reflect/protodesc"
	"google.golang.org/protobuf/reflect/protoreflect"
	"google.golang.org/protobuf/reflect/protoregistry"
	"google.golang.org/protobuf/types/descriptorpb"
	"google.golang.org/protobuf/types/dynamicpb"
)

// ---- the message type used on both sides of every scripted call -------------------------------
//
//	message Msg { string text = 1; repeated string items = 2; Msg sub = 3; }
//
// built at run time (dynamicpb), so the harness needs nothing from the repo's internal test protos.

var (
	msgDesc   protoreflect.MessageDescriptor
	fdText    protoreflect.FieldDescriptor
	fdItems   protoreflect.FieldDescriptor
	fdSub     protoreflect.FieldDescriptor
	testTypes *dynamicpb.Types
	testFiles *protoregistry.Files
)

func init() {
	lbl := descriptorpb.FieldDescriptorProto_LABEL_OPTIONAL
	rep := descriptorpb.FieldDescriptorProto_LABEL_REPEATED
	str := descriptorpb.FieldDescriptorProto_TYPE_STRING
	msg := descriptorpb.FieldDescriptorProto_TYPE_MESSAGE
	fdp := &descriptorpb.FileDescriptorProto{
		Name:    proto.String("c13.proto"),
		Package: proto.String("c13"),
		Syntax:  proto.String("proto3"),
		MessageType: []*descriptorpb.DescriptorProto{{
			Name: proto.String("Msg"),
			Field: []*descriptorpb.FieldDescriptorProto{
				{Name: proto.String("text"), JsonName: proto.String("text"), Number: proto.Int32(1), Label: &lbl, Type: &str},
				{Name: proto.String("items"), JsonName: proto.String("items"), Number: proto.Int32(2), Label: &rep, Type: &str},
				{Name: proto.String("sub"), JsonName: proto.String("sub"), Number: proto.Int32(3), Label: &lbl, Type: &msg, TypeName: proto.String(".c13.Msg")},
			},
		}},
	}
	fd, err := protodesc.NewFile(fdp, nil)
	if err != nil {
		panic(err)
	}
	testFiles = new(protoregistry.Files)
	if err := testFiles.RegisterFile(fd); err != nil {
		panic(err)
	}
	testTypes = dynamicpb.NewTypes(testFiles)
	msgDesc = fd.Messages().ByName("Msg")
	fdText = msgDesc.Fields().ByName("text")
	fdItems = msgDesc.Fields().ByName("items")
	fdSub = msgDesc.Fields().ByName("sub")
}

// fillMsg sets text = s, items = [s, s], sub.text = s: whichever response body path is bound,
// the record carries s.
func fillMsg(m protoreflect.Message, s string) {
	m.Set(fdText, protoreflect.ValueOfString(s))
	l := m.Mutable(fdItems).List()
	l.Append(protoreflect.ValueOfString(s))
	l.Append(protoreflect.ValueOfString(s))
	m.Mutable(fdSub).Message().Set(fdText, protoreflect.ValueOfString(s))
}

func newMsg(s string) *dynamicpb.Message {
	m := dynamicpb.NewMessage(msgDesc)
	fillMsg(m, s)
	return m
}

// ---- a binary marshaler (whole messages only, no streaming support) ----------------------------

const binMime = "application/x-protobuf"

type binMarshaler struct{}

func (binMarshaler) Marshal(_ bridgedesc.TypeResolver, msg protoreflect.Message, fd protoreflect.FieldDescriptor) ([]byte, error) {
	if fd != nil {
		return nil, errors.New("binMarshaler: only whole messages")
	}
	return proto.MarshalOptions{Deterministic: true}.Marshal(msg.Interface())
}

func (binMarshaler) Unmarshal(_ bridgedesc.TypeResolver, b []byte, msg protoreflect.Message, fd protoreflect.FieldDescriptor) error {
	if fd != nil {
		return errors.New("binMarshaler: only whole messages")
	}
	return proto.Unmarshal(b, msg.Interface())
}

func (binMarshaler) ContentType() (string, bool) { return binMime, true }

func newTranscoder() *transcoding.StandardTranscoder {
	return transcoding.NewStandardTranscoder(transcoding.StandardTranscoderOpts{
		Marshalers: []transcoding.Marshaler{transcoding.DefaultJSONMarshaler, binMarshaler{}},
	})
}

// ---- fake router ------------------------------------------------------------------------------

type fakeRouter struct {
	conn  grpcadapter.ClientConn
	route routing.HTTPRoute
}

func (r *fakeRouter) RouteHTTP(*http.Request) (grpcadapter.ClientConn, routing.HTTPRoute, error) {
	return r.conn, r.route, nil
}

func newRoute(cs, ss bool, reqBodyPath, respBodyPath string) routing.HTTPRoute {
	target := &bridgedesc.Target{Name: "c13", FileResolver: testFiles, TypeResolver: testTypes}
	method := &bridgedesc.Method{
		RPCName:         "/c13.Svc/Call",
		Input:           bridgedesc.DynamicMessage(msgDesc),
		Output:          bridgedesc.DynamicMessage(msgDesc),
		ClientStreaming: cs,
		ServerStreaming: ss,
	}
	svc := &bridgedesc.Service{Name: "c13.Svc", Methods: []bridgedesc.Method{*method}}
	return routing.HTTPRoute{
		Target:  target,
		Service: svc,
		Method:  method,
		Binding: &bridgedesc.Binding{HTTPMethod: "POST", Pattern: "/call", RequestBodyPath: reqBodyPath, ResponseBodyPath: respBodyPath},
	}
}

// ---- scripted target --------------------------------------------------------------------------

type endSpec struct {
	kind string // "ok" | "hang" | "err"
	code codes.Code
	msg  string
}

// script is one scripted target call. The target records every request message it is sent, and
// answers with resp… then end, once barrier is closed (the client has delivered all its frames)
// and wantCount request messages have arrived.
type script struct {
	resp      []string
	end       endSpec
	wantCount int
	barrier   chan struct{}
	// lockstep (HTTP): response i+1 is only released after the client has parsed record i
	lockstep bool
	clientN  func() int
	// trace (HTTP): the event log shared with the recording ResponseWriter
	trace *traceLog

	mu       sync.Mutex
	received []string
	streams  int
	late     bool
	hung     chan struct{}
	hungOnce sync.Once
}

func newScript() *script {
	return &script{barrier: make(chan struct{}), hung: make(chan struct{})}
}

func (s *script) count() int {
	s.mu.Lock()
	defer s.mu.Unlock()
	return len(s.received)
}

func (s *script) snapshot() []string {
	s.mu.Lock()
	defer s.mu.Unlock()
	return append([]string(nil), s.received...)
}

type fakeConn struct{ s *script }

func (c *fakeConn) Stream(ctx context.Context, method string) (grpcadapter.ClientStream, error) {
	c.s.mu.Lock()
	c.s.streams++
	c.s.mu.Unlock()
	return &fakeStream{s: c.s}, nil
}
func (c *fakeConn) Close() {}

type fakeStream struct {
	s       *script
	idx     int
	started bool
}

func (f *fakeStream) Send(ctx context.Context, msg proto.Message) error {
	text := msg.ProtoReflect().Get(fdText).String()
	f.s.mu.Lock()
	f.s.received = append(f.s.received, text)
	f.s.mu.Unlock()
	return nil
}

func ctxErr(ctx context.Context) error { return status.FromContextError(ctx.Err()).Err() }

func waitUntil(ctx context.Context, d time.Duration, cond func() bool) bool {
	deadline := time.Now().Add(d)
	for !cond() {
		if time.Now().After(deadline) {
			return false
		}
		select {
		case <-ctx.Done():
			return cond()
		case <-time.After(200 * time.Microsecond):
		}
	}
	return true
}

func (f *fakeStream) Recv(ctx context.Context, msg proto.Message) error {
	s := f.s
	if !f.started {
		f.started = true
		select {
		case <-s.barrier:
		case <-ctx.Done():
			return ctxErr(ctx)
		}
		waitUntil(ctx, 2*time.Second, func() bool { return s.count() >= s.wantCount })
		if ctx.Err() != nil {
			return ctxErr(ctx)
		}
	}
	if f.idx < len(s.resp) {
		if s.lockstep && f.idx > 0 {
			want := f.idx
			if !waitUntil(ctx, 2*time.Second, func() bool { return s.clientN() >= want }) {
				s.mu.Lock()
				s.late = true
				s.mu.Unlock()
			}
		}
		fillMsg(msg.ProtoReflect(), s.resp[f.idx])
		s.trace.add("R" + strconv.Itoa(f.idx))
		f.idx++
		return nil
	}
	switch s.end.kind {
	case "ok":
		return io.EOF
	case "err":
		return status.Error(s.end.code, s.end.msg)
	default: // hang until the call is torn down
		s.hungOnce.Do(func() { close(s.hung) })
		<-ctx.Done()
		return ctxErr(ctx)
	}
}

func (f *fakeStream) Header() metadata.MD  { return nil }
func (f *fakeStream) Trailer() metadata.MD { return nil }
func (f *fakeStream) CloseSend()           {}
func (f *fakeStream) Close()               {}

// ---- independent record decoding --------------------------------------------------------------

// decodeRecord extracts the scripted string from one record with encoding/json (not protojson):
// whole message → .text (and checks items/sub agree), "text" → the string, "items" → [s, s], "sub" → .text.
func decodeRecord(rbp string, rec []byte) (string, bool) {
	switch rbp {
	case "text":
		var s string
		if json.Unmarshal(rec, &s) != nil {
			return "", false
		}
		return s, true
	case "items":
		var l []string
		if json.Unmarshal(rec, &l) != nil || len(l) != 2 || l[0] != l[1] {
			return "", false
		}
		return l[0], true
	case "sub":
		var o struct {
			Text *string `json:"text"`
		}
		if json.Unmarshal(rec, &o) != nil || o.Text == nil {
			return "", false
		}
		return *o.Text, true
	default:
		var o struct {
			Text  *string  `json:"text"`
			Items []string `json:"items"`
			Sub   *struct {
				Text *string `json:"text"`
			} `json:"sub"`
		}
		if json.Unmarshal(rec, &o) != nil || o.Text == nil || len(o.Items) != 2 || o.Items[0] != *o.Text ||
			o.Items[1] != *o.Text || o.Sub == nil || o.Sub.Text == nil || *o.Sub.Text != *o.Text {
			return "", false
		}
		return *o.Text, true
	}
}

// lineSplitter is an incremental NDJSON reader: a record is everything up to a '\n'.
type lineSplitter struct {
	cur  []byte
	recs [][]byte
}

func (p *lineSplitter) feed(b []byte) {
	for _, c := range b {
		if c == '\n' {
			p.recs = append(p.recs, p.cur)
			p.cur = nil
		} else {
			p.cur = append(p.cur, c)
		}
	}
}

// sseParser is an incremental text/event-stream reader written from the WHATWG algorithm
// (lines end in LF, CR or CRLF; "data" lines accumulate; a blank line dispatches).
type sseParser struct {
	line    []byte
	prevCR  bool
	data    []byte
	hasData bool
	recs    [][]byte
}

func (p *sseParser) feed(b []byte) {
	for _, c := range b {
		switch {
		case c == '\n' && p.prevCR:
			p.prevCR = false
		case c == '\n' || c == '\r':
			p.prevCR = c == '\r'
			p.endLine()
		default:
			p.prevCR = false
			p.line = append(p.line, c)
		}
	}
}

func (p *sseParser) endLine() {
	line := p.line
	p.line = nil
	if len(line) == 0 {
		if p.hasData {
			d := p.data
			if n := len(d); n > 0 && d[n-1] == '\n' {
				d = d[:n-1]
			}
			p.recs = append(p.recs, d)
		}
		p.data, p.hasData = nil, false
		return
	}
	if line[0] == ':' {
		return
	}
	field, value := line, []byte(nil)
	for i, c := range line {
		if c == ':' {
			field, value = line[:i], line[i+1:]
			if len(value) > 0 && value[0] == ' ' {
				value = value[1:]
			}
			break
		}
	}
	if string(field) == "data" {
		p.data = append(append(p.data, value...), '\n')
		p.hasData = true
	}
}
