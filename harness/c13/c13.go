// Package c13 is the correspondence area of property C13: streamed responses are framed one
// message per record. Every case runs the REAL webbridge.TranscodedHTTPBridge or
// webbridge.TranscodedWebSocketBridge behind an httptest.Server, with a fake routing.HTTPRouter and
// a scripted target ClientConn; an independent NDJSON / SSE / WebSocket client reads the records back.
package c13

import (
	"fmt"
	"math/rand"
	"strings"
	"sync"

	"verif/harness/common"
)

type Area struct{}

func (Area) Name() string { return "c13" }

func (Area) Exec(input string) string {
	f := strings.Fields(input)
	if len(f) == 0 {
		return "BADOP"
	}
	switch f[0] {
	case "http":
		return execHTTP(f)
	case "ws":
		return execWS(f)
	case "bind":
		return execBind(f)
	case "wsup":
		return execWSUp(f)
	case "glue":
		return execGlue(f)
	case "cr":
		return execCR(f)
	}
	return "BADOP"
}

var (
	distMu sync.Mutex
	dist   = map[string]int{}
)

func note(k string) {
	distMu.Lock()
	dist[k]++
	distMu.Unlock()
}

func (Area) Extra() map[string]any {
	distMu.Lock()
	defer distMu.Unlock()
	out := map[string]any{}
	for k, v := range dist {
		out[k] = v
	}
	return map[string]any{"generator_distribution": out}
}

// ---- generators -----------------------------------------------------------------------------------

var nasty = []string{
	"", "a", "hello world", `"`, `\`, `"quoted" \back\`, "line1\nline2", "\n", "\n\n", "\r", "\r\n", "a\r\n\r\nb",
	"tab\there", " ", " ", "x y z", "ünïcödé", "日本語テキスト", "😀🎉", "data:", "data: x\n\ndata: y",
	"\ndata:injected\n\n", ":comment", " leading space", "trailing space ", "</script><!--", "&<>'", "{\"text\":\"nested\"}",
	"\x00", "\x01\x02\x1f", "\x7f", "null", "[]", "0", "event: x\nid: 1", "retry: 10", "\u0085", "\ufeff", "a,b;c:d",
}

func randText(r *rand.Rand, maxLen int) string {
	switch r.Intn(10) {
	case 0, 1, 2:
		return common.Pick(r, nasty)
	case 3, 4:
		return common.Pick(r, nasty) + common.Pick(r, nasty)
	case 5:
		// random runes including separators and controls
		n := r.Intn(12)
		var sb strings.Builder
		pool := []rune{'\n', '\r', '"', '\\', ' ', ':', 'd', 'a', 't', 0x2028, 0x2029, 'é', '世', 0x1F600, '\t', '{', '}', ',', 0, 0x1f}
		for i := 0; i < n; i++ {
			sb.WriteRune(pool[r.Intn(len(pool))])
		}
		return sb.String()
	case 6:
		n := r.Intn(maxLen + 1)
		return strings.Repeat(common.Pick(r, []string{"x", "é", "\n", "\"", "世"}), n)
	default:
		n := r.Intn(20)
		b := common.RandBytes(r, n, []byte("abcdefghij klmnop\"\\\n:,{}[]"))
		return string(b)
	}
}

func hexTexts(xs []string) string {
	var out []string
	for _, x := range xs {
		out = append(out, common.HexS(x))
	}
	return joinList(out)
}

var acceptMenu = [][]string{
	nil, {"text/event-stream"}, {"text/event-stream"}, {"application/json"}, {"application/json", "text/event-stream"},
	{"text/event-stream", "application/json"}, {"*/*"}, {"text/event-stream, application/json"}, {"application/x-protobuf"},
	{"text/event-stream; q=1"}, {"TEXT/EVENT-STREAM"}, {"text/html", "text/event-stream"}, {"text/html"},
	{"text/event-stream", "application/x-protobuf"}, {"text/event-stream", "text/event-stream"}, {""},
}

var ctypeMenu = [][]string{
	nil, nil, nil, {"application/json"}, {"application/json; charset=utf-8"}, {"APPLICATION/JSON"}, {" application/json "},
	{"text/plain"}, {"application/x-protobuf"}, {"text/plain", "application/json"}, {"text/event-stream"}, {"application/jsonx"},
}

var errCodes = []int{1, 2, 3, 4, 5, 6, 7, 8, 9, 10, 11, 12, 13, 14, 15, 16, 17, 99}

// invalidUTF8Msgs: status messages that are not valid UTF-8 (only for WebSocket cases, where the message ends up in the
// close reason; over HTTP such a status cannot be marshaled and is rendered as plain text — error rendering, C10)
var invalidUTF8Msgs = []string{
	"bad \xff\xfe bytes", strings.Repeat("a", 107) + "\xe4\xb8", strings.Repeat("a", 106) + "\xf0\x9f\x98" + "zz", strings.Repeat("\x80", 150),
	strings.Repeat("a", 105) + "\xed\xa0\x80\xed\xa0\x80", strings.Repeat("é", 50) + "\xc3" + strings.Repeat("世", 20),
}

func randEnd(r *rand.Rand, allowInvalidUTF8 bool) string {
	if r.Intn(3) > 0 {
		return "ok"
	}
	if allowInvalidUTF8 && r.Intn(4) == 0 {
		return fmt.Sprintf("e%d:%s", common.Pick(r, errCodes), common.HexS(common.Pick(r, invalidUTF8Msgs)))
	}
	msg := common.Pick(r, []string{"boom", "", "something failed: x", "naïve ünïcödé message", strings.Repeat("long ", 30),
		strings.Repeat("é", 70), strings.Repeat("a", 114) + "é", strings.Repeat("a", 113) + "é", strings.Repeat("a", 112) + "世",
		strings.Repeat("x", 200), "multi\nline"})
	return fmt.Sprintf("e%d:%s", common.Pick(r, errCodes), common.HexS(msg))
}

func b01(b bool) string {
	if b {
		return "1"
	}
	return "0"
}

func genHTTP(r *rand.Rand, maxMsgs int) string {
	cs, ss := false, true
	switch r.Intn(10) {
	case 0:
		cs, ss = false, false
	case 1:
		cs, ss = true, true
	case 2:
		cs, ss = true, false
	}
	acc := common.Pick(r, acceptMenu)
	ct := common.Pick(r, ctypeMenu)
	rbp := common.Pick(r, []string{"w", "w", "w", "text", "items", "sub"})
	n := r.Intn(maxMsgs + 1)
	if !ss {
		n = 1
	}
	var msgs []string
	for i := 0; i < n; i++ {
		msgs = append(msgs, randText(r, 300))
	}
	end := randEnd(r, false)
	if !ss && end != "ok" {
		msgs = nil
	}
	lock := ss && n >= 2 && n <= 6 && r.Intn(3) == 0
	note(fmt.Sprintf("http cs=%v ss=%v sseAccept=%v", cs, ss, contains(acc, "text/event-stream")))
	return fmt.Sprintf("http %s %s %s %s %s %s %s %s", b01(cs), b01(ss), hexTexts(acc), hexTexts(ct), rbp, b01(lock), hexTexts(msgs), end)
}

func contains(xs []string, s string) bool {
	for _, x := range xs {
		if x == s {
			return true
		}
	}
	return false
}

func genWS(r *rand.Rand, maxFrames int, sseAccept bool) string {
	cs, ss := r.Intn(2) == 0, r.Intn(4) > 0
	if sseAccept {
		// a handshake that binds the response transcoder as SSE: server-streaming, not client-streaming, no marshaler named in Accept
		cs, ss = false, true
	}
	body := r.Intn(4) > 0
	if cs {
		body = r.Intn(8) > 0
	}
	// request codec × response codec, chosen through Content-Type × Accept; a single letter sends
	// no Accept header (response falls back to the request marshaler)
	codec := common.Pick(r, []string{"j", "j", "j", "b", "jj", "bb", "jb", "jb", "bj", "bj"})
	// one more Accept value on the handshake which matches no marshaler: SSE (binds the transcoder as SSE for a server-streaming,
	// non-client-streaming method, is refused with 400 otherwise), */*, a quality list, upper case
	variant := ""
	if r.Intn(3) == 0 {
		variant = common.Pick(r, []string{"e", "e", "e", "s", "q", "E"})
	}
	if sseAccept {
		codec, variant = common.Pick(r, []string{"j", "j", "b"}), "e"
	}
	expectBinary := codec[0] == 'b'
	nf := r.Intn(maxFrames + 1)
	var frames []string
	good, terminal, started := 0, false, cs || !body
	for i := 0; i < nf; i++ {
		bin := expectBinary
		mal := false
		switch r.Intn(12) {
		case 0:
			bin = !bin
		case 1:
			mal = true
		}
		txt := randText(r, 40)
		if len(txt) > 100 {
			txt = txt[:0]
		}
		op, kind := "t", "g"
		if bin {
			op = "b"
		}
		if mal {
			kind = "m"
		}
		frames = append(frames, fmt.Sprintf("%s%s:%s", op, kind, common.HexS(txt)))
		effective := cs || (body && i == 0)
		if effective {
			if bin != expectBinary || (mal && body) {
				terminal = true
				break // nothing is sent after the frame that ends the call
			}
			good++
			started = true
		}
	}
	nr := r.Intn(5)
	if !ss {
		nr = 1
	}
	var resp []string
	for i := 0; i < nr; i++ {
		resp = append(resp, randText(r, 200))
	}
	end := randEnd(r, true)
	closeMode := "srv"
	readN := 0
	if !terminal {
		switch {
		case !started:
			// nothing will ever start the call: only the client can end it
			end = "hang"
		case r.Intn(4) == 0:
			end = "hang"
		}
		if end == "hang" {
			closeMode = common.Pick(r, []string{"cli", "cli", "drop"})
			if started && ss {
				readN = len(resp)
			}
		}
	}
	if !ss && end != "ok" && end != "hang" && r.Intn(2) == 0 {
		resp = nil
	}
	gap := common.Pick(r, []int{0, 0, 0, 100, 500, 2000})
	if variant != "" {
		note(fmt.Sprintf("ws accept-variant=%s cs=%v ss=%v", variant, cs, ss))
		codec += "~" + variant
	}
	note(fmt.Sprintf("ws cs=%v ss=%v body=%v codec=%s terminal=%v close=%s", cs, ss, body, codec, terminal, closeMode))
	return fmt.Sprintf("ws %s %s %s %s %s %s %s %d %s %d", b01(cs), b01(ss), b01(body), codec, joinList(frames), hexTexts(resp), end, gap, closeMode, readN)
}

func (Area) Gen(r *rand.Rand, tier string, emit func(string)) {
	nHTTP, nWS, maxMsgs, maxFrames := 260, 140, 6, 5
	if tier == "thorough" {
		nHTTP, nWS, maxMsgs, maxFrames = 12000, 4000, 40, 12
	}
	// Bind itself, exhaustively: 4 RPC kinds x every Accept x every Content-Type of the menus
	seenA := map[string]bool{}
	for _, cs := range []bool{false, true} {
		for _, ss := range []bool{false, true} {
			for _, acc := range acceptMenu {
				for _, ct := range ctypeMenu {
					line := fmt.Sprintf("bind %s %s %s %s", b01(cs), b01(ss), hexTexts(acc), hexTexts(ct))
					if !seenA[line] {
						seenA[line] = true
						emit(line)
					}
				}
			}
		}
	}
	note(fmt.Sprintf("bind exhaustive=%d", len(seenA)))
	// WebSocket handshakes: every RPC kind x every Accept of the menu (x a few Content-Types)
	wsCT := [][]string{nil, {"application/json"}, {"application/x-protobuf"}, {"text/plain"}}
	nUp := 0
	for _, cs := range []bool{false, true} {
		for _, ss := range []bool{false, true} {
			for ai, acc := range acceptMenu {
				for ci, ct := range wsCT {
					if tier != "thorough" && (ai+ci)%2 == 1 && !contains(acc, "text/event-stream") {
						continue
					}
					emit(fmt.Sprintf("wsup %s %s %s %s %s", b01(cs), b01(ss), b01(r.Intn(2) == 0), hexTexts(acc), hexTexts(ct)))
					nUp++
				}
			}
		}
	}
	note(fmt.Sprintf("wsup handshakes=%d", nUp))
	// the root constructor: option sets x entry points x RPC kinds x Content-Type x Accept (x client frames)
	glueOpts := []string{"none", "mj", "mjb", "mb", "db", "mjb+db", "mb+db", "db+mjb"}
	glueFrames := []string{"t", "b", "tb", "bb"}
	if tier == "thorough" {
		glueFrames = []string{"t", "b", "tt", "tb", "bt", "bb", "ttb", "bbt"}
	}
	nGlue := 0
	for _, o := range glueOpts {
		for _, kind := range []string{"ss", "bidi"} {
			for _, ct := range []string{"-", "j", "b"} {
				for _, acc := range []string{"-", "j", "b"} {
					resp := hexTexts([]string{"r1", common.Pick(r, nasty), "r3"})
					emit(fmt.Sprintf("glue %s http %s %s %s - %s", o, kind, ct, acc, resp))
					if acc == "-" {
						emit(fmt.Sprintf("glue %s sse %s %s - - %s", o, kind, ct, resp))
					}
					for _, fr := range glueFrames {
						emit(fmt.Sprintf("glue %s ws %s %s %s %s %s", o, kind, ct, acc, fr, resp))
						nGlue++
					}
					nGlue++
				}
			}
		}
	}
	note(fmt.Sprintf("glue sessions=%d", nGlue))
	// closeReason / ValidUTF8 / ToValidUTF8 against the real functions: every malformed shape at every offset around
	// the cut, then random byte strings with invalid sequences at the cut point
	crEdges(emit)
	nCR := 400
	if tier == "thorough" {
		nCR = 8000
	}
	for i := 0; i < nCR; i++ {
		emit(genCR(r))
	}
	// the TARGET ends the call with every status code — all 16 named error codes incl. Canceled (1) and DeadlineExceeded (4),
	// and two unnamed ones — while the client is connected and listening (close mode srv): the client must see a non-1000
	// close whose reason carries that code. (Distinct from the client-went-away scenarios, where the bridge itself produces
	// Canceled and nobody observes the close frame.)
	for _, code := range errCodes {
		msg := common.HexS(common.Pick(r, []string{"boom", "", "context canceled", "naïve ünïcödé message"}))
		emit(fmt.Sprintf("ws 0 1 0 j - %s e%d:%s 0 srv 0", hexTexts([]string{"r1", "r2"}), code, msg))
		emit(fmt.Sprintf("ws 0 1 0 j - - e%d:%s 0 srv 0", code, msg))
		emit(fmt.Sprintf("ws 1 1 1 j tg:%s %s e%d:%s 0 srv 0", common.HexS("q"), hexTexts([]string{"r1"}), code, msg))
		emit(fmt.Sprintf("ws 0 0 0 j - - e%d:%s 0 srv 0", code, msg))
		emit(fmt.Sprintf("ws 0 1 1 bb bg:%s %s e%d:%s 0 srv 0", common.HexS("q"), hexTexts([]string{"r1"}), code, msg))
	}
	note(fmt.Sprintf("ws target-error-with-listening-client codes=%d x5", len(errCodes)))
	for i := 0; i < nHTTP; i++ {
		emit(genHTTP(r, maxMsgs))
	}
	for i := 0; i < nWS; i++ {
		emit(genWS(r, maxFrames, i%5 == 4))
	}
}
