// Package c13 is the correspondence area of property C13 (stub: the slice is not built yet).
package c13

import (
	"math/rand"
)

type Area struct{}

func (Area) Name() string { return "c13" }

func (Area) Exec(input string) string { return "UNIMPLEMENTED" }

func (Area) Gen(r *rand.Rand, tier string, emit func(string)) {}
