package c13

import (
	"bytes"
	"encoding/json"
	"fmt"
	"io"
	"net/http"
	"net/http/httptest"
	"strconv"
	"strings"
	"sync"
	"time"

	"github.com/gorilla/websocket"
	"github.com/renbou/grpcbridge/transcoding"
	"github.com/renbou/grpcbridge/webbridge"
	"google.golang.org/grpc/codes"
	"google.golang.org/grpc/status"
	"google.golang.org/protobuf/proto"
	"google.golang.org/protobuf/reflect/protoreflect"
	"google.golang.org/protobuf/types/dynamicpb"
	"verif/harness/common"
)

// ---- list fields on the line protocol: comma separated, "-" for the empty list -----------------

func splitList(s string) []string {
	if s == "-" || s == "" {
		return nil
	}
	return strings.Split(s, ",")
}

func joinList(xs []string) string {
	if len(xs) == 0 {
		return "-"
	}
	return strings.Join(xs, ",")
}

func hexList(s string) []string {
	var out []string
	for _, x := range splitList(s) {
		out = append(out, string(common.MustUnHex(x)))
	}
	return out
}

func parseEnd(s string) endSpec {
	switch {
	case s == "ok":
		return endSpec{kind: "ok"}
	case s == "hang":
		return endSpec{kind: "hang"}
	case strings.HasPrefix(s, "e"):
		c, m, _ := strings.Cut(s[1:], ":")
		n, err := strconv.Atoi(c)
		if err != nil {
			panic("bad end " + s)
		}
		return endSpec{kind: "err", code: codes.Code(n), msg: string(common.MustUnHex(m))}
	}
	panic("bad end " + s)
}

func rbpPath(s string) string {
	if s == "w" {
		return ""
	}
	return s
}

func rbpField(s string) protoreflect.FieldDescriptor {
	switch s {
	case "text":
		return fdText
	case "items":
		return fdItems
	case "sub":
		return fdSub
	}
	return nil
}

// jsonPayloads is what the real JSON marshaler produces for each scripted response: the
// environment input of the framing model (protojson output is not byte-stable across builds).
func jsonPayloads(rbp string, msgs []string) []string {
	var out []string
	for _, s := range msgs {
		b, err := transcoding.DefaultJSONMarshaler.Marshal(testTypes, newMsg(s).ProtoReflect(), rbpField(rbp))
		if err != nil {
			out = append(out, "!")
			continue
		}
		out = append(out, common.Hex(b))
	}
	return out
}

// ---- http ---------------------------------------------------------------------------------------
//
//	http <cs> <ss> <accept…> <content-type…> <rbp> <lockstep> <msgs…> <end>
//	  => <status> <content-type|-> <body> <payloads…> <records…> <flush ok|late>
func execHTTP(f []string) string {
	if len(f) != 9 {
		return "BADARITY"
	}
	cs, ss := f[1] == "1", f[2] == "1"
	accept, ctype := hexList(f[3]), hexList(f[4])
	rbp, lock := f[5], f[6] == "1"
	msgs := hexList(f[7])
	end := parseEnd(f[8])

	sc := newScript()
	sc.resp, sc.end = msgs, end
	sc.lockstep = lock
	close(sc.barrier)

	var mu sync.Mutex
	nrec := 0
	sc.clientN = func() int { mu.Lock(); defer mu.Unlock(); return nrec }

	router := &fakeRouter{conn: &fakeConn{s: sc}, route: newRoute(cs, ss, "*", rbpPath(rbp))}
	bridge := webbridge.NewTranscodedHTTPBridge(router, webbridge.TranscodedHTTPBridgeOpts{Transcoder: newTranscoder()})
	// event trace of the response loop: R<i> = the target handed out response i, W<n> = one Write of n bytes on the
	// ResponseWriter the bridge was given, F = one Flush on it (recorded in the order the real code performs them)
	tr := &traceLog{}
	sc.trace = tr
	srv := httptest.NewServer(http.HandlerFunc(func(w http.ResponseWriter, r *http.Request) {
		bridge.ServeHTTP(&recWriter{ResponseWriter: w, tr: tr}, r)
	}))
	defer srv.Close()

	var body []byte
	isBin := false
	for _, c := range ctype {
		if strings.Contains(strings.ToLower(c), "protobuf") {
			isBin = true
		}
	}
	if isBin {
		body, _ = proto.Marshal(newMsg("q"))
	} else {
		body = []byte(`{"text":"q"}`)
	}
	req, err := http.NewRequest("POST", srv.URL+"/call", bytes.NewReader(body))
	if err != nil {
		return "REQERR"
	}
	if len(accept) > 0 {
		req.Header["Accept"] = accept
	}
	if len(ctype) > 0 {
		req.Header["Content-Type"] = ctype
	}
	client := &http.Client{Timeout: 20 * time.Second, Transport: &http.Transport{DisableCompression: true}}
	defer client.CloseIdleConnections()
	resp, err := client.Do(req)
	if err != nil {
		return "DOERR " + common.HexS(err.Error())
	}
	defer resp.Body.Close()

	respCT := "-"
	if v := resp.Header["Content-Type"]; len(v) > 0 {
		respCT = common.HexS(v[0])
	}
	isSSEResp := len(resp.Header["Content-Type"]) > 0 && resp.Header["Content-Type"][0] == "text/event-stream"

	// independent incremental client: parser chosen by the response Content-Type, as a real client would
	var lines lineSplitter
	var sse sseParser
	var raw []byte
	var chunks []string // sizes of the chunks the network handed to the client, in order
	buf := make([]byte, 4096)
	for {
		n, rerr := resp.Body.Read(buf)
		if n > 0 {
			raw = append(raw, buf[:n]...)
			chunks = append(chunks, strconv.Itoa(n))
			mu.Lock()
			if isSSEResp {
				sse.feed(buf[:n])
				nrec = len(sse.recs)
			} else {
				lines.feed(buf[:n])
				nrec = len(lines.recs)
			}
			mu.Unlock()
		}
		if rerr != nil {
			break
		}
	}

	var records [][]byte
	switch {
	case isSSEResp:
		records = sse.recs
	case ss:
		records = lines.recs
	default:
		records = [][]byte{raw}
	}
	var recs []string
	if resp.StatusCode == 200 {
		for _, r := range records {
			if s, ok := decodeRecord(rbpPath(rbp), r); ok {
				recs = append(recs, common.HexS(s))
			} else {
				recs = append(recs, "!"+common.Hex(r)[1:])
			}
		}
	}
	flush := "ok"
	sc.mu.Lock()
	if sc.late {
		flush = "late"
	}
	sc.mu.Unlock()

	return fmt.Sprintf("%d %s %s %s %s %s %s %s", resp.StatusCode, respCT, common.Hex(raw), joinList(jsonPayloads(rbp, msgs)), joinList(recs), flush,
		joinList(tr.snapshot()), joinList(chunks))
}

// traceLog is the shared, ordered event log of one HTTP case.
type traceLog struct {
	mu  sync.Mutex
	evs []string
}

func (t *traceLog) add(e string) {
	if t == nil {
		return
	}
	t.mu.Lock()
	t.evs = append(t.evs, e)
	t.mu.Unlock()
}

func (t *traceLog) snapshot() []string {
	t.mu.Lock()
	defer t.mu.Unlock()
	return append([]string(nil), t.evs...)
}

// recWriter is the http.ResponseWriter handed to the bridge: it records every Write and Flush before passing it on.
type recWriter struct {
	http.ResponseWriter
	tr *traceLog
}

func (w *recWriter) Write(b []byte) (int, error) {
	w.tr.add("W" + strconv.Itoa(len(b)))
	return w.ResponseWriter.Write(b)
}

func (w *recWriter) Flush() {
	w.tr.add("F")
	if f, ok := w.ResponseWriter.(http.Flusher); ok {
		f.Flush()
	}
}

// ---- ws -----------------------------------------------------------------------------------------
//
//	ws <cs> <ss> <body> <codec> <frames…> <resp…> <end> <gap_us> <close srv|cli|drop> <readn>
//
// codec = <request codec><response codec>, each j (JSON) or b (binary): the request codec is chosen
// through the handshake's Content-Type, the response codec through Accept. A single letter sends
// no Accept header (the response falls back to the request marshaler).
//	  => <upgrade status> <messages op:payload…> <records…> <close> <target received…> <ret> <payloads…>
//
// frame = <t|b><g|m>:<hex text>   (opcode text/binary; payload good or malformed)
func execWS(f []string) string {
	if len(f) != 11 {
		return "BADARITY"
	}
	cs, ss, bodyExpected := f[1] == "1", f[2] == "1", f[3] == "1"
	// codec[~variant]: the variant adds one more Accept value to the handshake which matches no marshaler
	// (e = text/event-stream, s = */*, q = a quality list, E = TEXT/EVENT-STREAM): the WebSocket record format must not depend on it
	codec, variant, _ := strings.Cut(f[4], "~")
	extraAccept, okVariant := wsExtraAccept[variant]
	if !okVariant {
		return "BADCODEC"
	}
	frames := splitList(f[5])
	resp := hexList(f[6])
	end := parseEnd(f[7])
	gapUS, _ := strconv.Atoi(f[8])
	closeMode := f[9]
	readN, _ := strconv.Atoi(f[10])

	if codec != "j" && codec != "b" && codec != "jj" && codec != "jb" && codec != "bj" && codec != "bb" {
		return "BADCODEC"
	}
	expectBinary := codec[0] == 'b'         // request marshaler: frame-type check, request payloads
	respBinary := codec[len(codec)-1] == 'b' // response marshaler: opcode and payload of every response
	type frame struct {
		binary, malformed bool
		text              string
	}
	var fr []frame
	for _, s := range frames {
		head, hx, _ := strings.Cut(s, ":")
		if len(head) != 2 {
			return "BADFRAME"
		}
		fr = append(fr, frame{binary: head[0] == 'b', malformed: head[1] == 'm', text: string(common.MustUnHex(hx))})
	}
	// which frames reach the request transcoder, and does the last one end the call?
	good, terminal := 0, false
	for i, x := range fr {
		effective := cs || (bodyExpected && i == 0)
		if !effective {
			continue
		}
		if x.binary != expectBinary || (x.malformed && bodyExpected) {
			terminal = true
			break
		}
		good++
	}

	sc := newScript()
	sc.resp, sc.end = resp, end
	if cs {
		sc.wantCount = good
	}
	reqBody := ""
	if bodyExpected {
		reqBody = "*"
	}
	router := &fakeRouter{conn: &fakeConn{s: sc}, route: newRoute(cs, ss, reqBody, "")}
	bridge := webbridge.NewTranscodedWebSocketBridge(router, webbridge.TranscodedWebSocketBridgeOpts{Transcoder: newTranscoder()})
	returned := make(chan struct{})
	srv := httptest.NewServer(http.HandlerFunc(func(w http.ResponseWriter, r *http.Request) {
		defer close(returned)
		bridge.ServeHTTP(w, r)
	}))
	defer srv.Close()

	hdr := http.Header{}
	if expectBinary {
		hdr.Set("Content-Type", binMime)
	} else if len(codec) == 2 {
		hdr.Set("Content-Type", "application/json")
	}
	if len(codec) == 2 {
		if respBinary {
			hdr.Set("Accept", binMime)
		} else {
			hdr.Set("Accept", "application/json")
		}
	}
	if extraAccept != "" {
		hdr["Accept"] = append(hdr["Accept"], extraAccept)
	}
	dialer := websocket.Dialer{HandshakeTimeout: 5 * time.Second}
	conn, hresp, err := dialer.Dial("ws"+strings.TrimPrefix(srv.URL, "http")+"/call", hdr)
	if err != nil {
		st := 0
		if hresp != nil {
			st = hresp.StatusCode
		}
		close(sc.barrier)
		select {
		case <-returned:
		case <-time.After(5 * time.Second):
			return fmt.Sprintf("%d - - none - noreturn -", st)
		}
		return fmt.Sprintf("%d - - none - noupgrade -", st)
	}
	defer conn.Close()

	// report the peer's close frame as it arrived (the default handler would try to answer it)
	// answer the peer's close frame (the bridge now waits for the answer before it closes the connection, fix D32) but
	// never turn a failure of that write into the read error: the close code is what is observed
	conn.SetCloseHandler(func(code int, _ string) error {
		_ = conn.WriteControl(websocket.CloseMessage, websocket.FormatCloseMessage(code, ""), time.Now().Add(time.Second))
		return nil
	})
	pong := make(chan struct{}, 1)
	conn.SetPongHandler(func(string) error {
		select {
		case pong <- struct{}{}:
		default:
		}
		return nil
	})

	var mu sync.Mutex
	var msgs, recs []string
	closeOut := "none"
	readerDone := make(chan struct{})
	go func() {
		defer close(readerDone)
		for {
			mt, data, err := conn.ReadMessage()
			if err != nil {
				if ce, ok := err.(*websocket.CloseError); ok {
					closeOut = fmt.Sprintf("c%d:%s", ce.Code, common.HexS(ce.Text))
				} else if strings.Contains(err.Error(), "invalid utf8") || strings.Contains(err.Error(), "invalid UTF-8") {
					closeOut = "badutf8"
				}
				return
			}
			op := "t"
			if mt == websocket.BinaryMessage {
				op = "b"
			}
			var rec string
			if respBinary {
				m := dynamicpb.NewMessage(msgDesc)
				if proto.Unmarshal(data, m) == nil {
					rec = common.HexS(m.Get(fdText).String())
				} else {
					rec = "!" + common.Hex(data)[1:]
				}
			} else if s, ok := decodeRecord("", data); ok {
				rec = common.HexS(s)
			} else {
				rec = "!" + common.Hex(data)[1:]
			}
			mu.Lock()
			msgs = append(msgs, op+":"+common.Hex(data))
			recs = append(recs, rec)
			mu.Unlock()
		}
	}()
	nread := func() int { mu.Lock(); defer mu.Unlock(); return len(msgs) }

	for i, x := range fr {
		if i > 0 && gapUS > 0 {
			time.Sleep(time.Duration(gapUS) * time.Microsecond)
		}
		var payload []byte
		switch {
		case x.malformed && expectBinary:
			payload = []byte{0x0a, 0x7f, 0x01} // length prefix overruns the buffer
		case x.malformed:
			payload = []byte(`{"text":` + x.text)
		case expectBinary:
			m := dynamicpb.NewMessage(msgDesc)
			m.Set(fdText, protoreflect.ValueOfString(x.text))
			payload, _ = proto.Marshal(m)
		default:
			payload, _ = json.Marshal(map[string]string{"text": x.text})
		}
		mt := websocket.TextMessage
		if x.binary {
			mt = websocket.BinaryMessage
		}
		if err := conn.WriteMessage(mt, payload); err != nil {
			break
		}
	}
	if !terminal {
		// barrier: the read loop handles frames one at a time, so a pong means every frame
		// before the ping has been through OnMessage
		_ = conn.WriteControl(websocket.PingMessage, nil, time.Now().Add(time.Second))
		select {
		case <-pong:
		case <-readerDone:
		case <-time.After(3 * time.Second):
		}
	} else {
		// the last frame ends the call: let the client see the close before the target may answer
		select {
		case <-readerDone:
		case <-time.After(5 * time.Second):
		}
	}
	close(sc.barrier)

	switch closeMode {
	case "cli", "drop":
		deadline := time.Now().Add(3 * time.Second)
		for nread() < readN && time.Now().Before(deadline) {
			time.Sleep(200 * time.Microsecond)
		}
		if closeMode == "cli" {
			_ = conn.WriteControl(websocket.CloseMessage, websocket.FormatCloseMessage(1000, ""), time.Now().Add(time.Second))
		} else {
			_ = conn.UnderlyingConn().Close()
		}
	}
	select {
	case <-readerDone:
	case <-time.After(5 * time.Second):
	}
	ret := "ok"
	select {
	case <-returned:
	case <-time.After(5 * time.Second):
		ret = "timeout"
	}
	_ = conn.Close()
	<-readerDone

	var recv []string
	for _, s := range sc.snapshot() {
		recv = append(recv, common.HexS(s))
	}
	var payloads []string
	if respBinary {
		for _, s := range resp {
			b, _ := binMarshaler{}.Marshal(nil, newMsg(s).ProtoReflect(), nil)
			payloads = append(payloads, common.Hex(b))
		}
	} else {
		payloads = jsonPayloads("w", resp)
	}
	mu.Lock()
	defer mu.Unlock()
	return fmt.Sprintf("101 %s %s %s %s %s %s", joinList(msgs), joinList(recs), closeOut, joinList(recv), ret, joinList(payloads))
}

var _ = io.EOF

var wsExtraAccept = map[string]string{
	"": "", "e": "text/event-stream", "s": "*/*", "q": "text/event-stream;q=0.9, application/json;q=0.8", "E": "TEXT/EVENT-STREAM",
}

// ---- bind ---------------------------------------------------------------------------------------
//
//	bind <cs> <ss> <accept…> <content-type…>
//	  => ok <request mime> <request binary> <response content-type> <response binary> <streams 0|1>
//	   | err <grpc code> <HTTPStatus() override or 0>
//
// Calls the REAL StandardTranscoder.Bind directly (no bridge in front of it).
func execBind(f []string) string {
	if len(f) != 5 {
		return "BADARITY"
	}
	cs, ss := f[1] == "1", f[2] == "1"
	accept, ctype := hexList(f[3]), hexList(f[4])
	route := newRoute(cs, ss, "*", "")
	raw, err := http.NewRequest("POST", "http://c13.invalid/call", nil)
	if err != nil {
		return "REQERR"
	}
	if len(accept) > 0 {
		raw.Header["Accept"] = accept
	}
	if len(ctype) > 0 {
		raw.Header["Content-Type"] = ctype
	}
	reqtc, resptc, err := newTranscoder().Bind(transcoding.HTTPRequest{
		Target: route.Target, Service: route.Service, Method: route.Method, Binding: route.Binding,
		RawRequest: raw, PathParams: nil,
	})
	if err != nil {
		override := 0
		if h, ok := err.(interface{ HTTPStatus() int }); ok {
			override = h.HTTPStatus()
		}
		return fmt.Sprintf("err %d %d", int(status.Code(err)), override)
	}
	reqMime, reqBin := reqtc.ContentType()
	respCT, respBin := resptc.ContentType(newMsg("x"))
	_, streams := resptc.(transcoding.ResponseStreamTranscoder)
	// the per-message Transcode of the bound response transcoder next to the bare output of the marshaler it was bound to:
	// record framing (SSE `data:`, NDJSON line feed) belongs to the stream encoder, never to Transcode (WebSocket frames are built from it)
	doc, terr := resptc.Transcode(newMsg("x"))
	var bare []byte
	if respBin {
		bare, _ = binMarshaler{}.Marshal(nil, newMsg("x").ProtoReflect(), nil)
	} else {
		bare, _ = transcoding.DefaultJSONMarshaler.Marshal(testTypes, newMsg("x").ProtoReflect(), nil)
	}
	docS := common.Hex(doc)
	if terr != nil {
		docS = "!"
	}
	return fmt.Sprintf("ok %s %s %s %s %s %s %s", common.HexS(reqMime), b01(reqBin), common.HexS(respCT), b01(respBin), b01(streams), docS, common.Hex(bare))
}

// ---- wsup ---------------------------------------------------------------------------------------
//
//	wsup <cs> <ss> <body> <accept…> <content-type…>  =>  <handshake status>
//
// The WebSocket handshake only: 101 when the bridge upgrades, otherwise the status of the refusal
// written before the upgrade (the client drops the connection right after a successful upgrade).
func execWSUp(f []string) string {
	if len(f) != 6 {
		return "BADARITY"
	}
	cs, ss, bodyExpected := f[1] == "1", f[2] == "1", f[3] == "1"
	accept, ctype := hexList(f[4]), hexList(f[5])
	sc := newScript()
	sc.end = endSpec{kind: "hang"}
	close(sc.barrier)
	reqBody := ""
	if bodyExpected {
		reqBody = "*"
	}
	router := &fakeRouter{conn: &fakeConn{s: sc}, route: newRoute(cs, ss, reqBody, "")}
	bridge := webbridge.NewTranscodedWebSocketBridge(router, webbridge.TranscodedWebSocketBridgeOpts{Transcoder: newTranscoder()})
	returned := make(chan struct{})
	srv := httptest.NewServer(http.HandlerFunc(func(w http.ResponseWriter, r *http.Request) {
		defer close(returned)
		bridge.ServeHTTP(w, r)
	}))
	defer srv.Close()
	hdr := http.Header{}
	if len(accept) > 0 {
		hdr["Accept"] = accept
	}
	if len(ctype) > 0 {
		hdr["Content-Type"] = ctype
	}
	dialer := websocket.Dialer{HandshakeTimeout: 5 * time.Second}
	conn, hresp, err := dialer.Dial("ws"+strings.TrimPrefix(srv.URL, "http")+"/call", hdr)
	st := 0
	if hresp != nil {
		st = hresp.StatusCode
	}
	if err == nil {
		_ = conn.UnderlyingConn().Close()
	}
	select {
	case <-returned:
	case <-time.After(5 * time.Second):
		return fmt.Sprintf("%d-noreturn", st)
	}
	return fmt.Sprintf("%d", st)
}
