package c16

// Unreachable / dying targets with the REAL constructor: no WithConnFunc — the router's pool runs grpc.NewClient itself.
//
//	dial <mode> <poll 0|1> <removeAtMs>
//
// modes whose construction SUCCEEDS (grpc.NewClient is lazy; the failure shows up in the poller and in Streams):
//
//	closed     TCP address 127.0.0.1:<port> on which nothing listens (connection refused)
//	bufrefuse  WithDialOpts(WithContextDialer(closed bufconn listener)): every connection attempt fails
//	silent     a TCP listener that accepts and never says anything (no HTTP/2 preface, no reflection answer): the
//	           resolver runs into its request timeout (10 s; the router offers no option for it)
//	dies       a healthy reflection-serving gRPC server over TCP that is stopped right after Add returned (between
//	           Add and the first / second poll)
//
// modes whose construction FAILS inside grpc.NewClient:
//
//	nocreds    no transport credentials configured ("no transport security set")
//	badcfg     WithDefaultServiceConfig with invalid JSON
//
// output, succeeding construction (each token is a clause of the property; values fixed on a correct tree):
//
//	add=ok get=usable rm=t pollers=0 open=0 get2=absent stream=unavail readd=ok pollers2=1 rm2=t leak=0
//	  open = TCP connections of the router's client that the target still sees open after Remove returned
//
// failing construction:
//
//	add=conn get=absent n=0 readd=conn rm=f pollers=0 leak=0

import (
	"context"
	"errors"
	"fmt"
	"net"
	"strconv"
	"strings"
	"sync"
	"sync/atomic"
	"time"

	"github.com/renbou/grpcbridge"
	"github.com/renbou/grpcbridge/grpcadapter"
	"github.com/renbou/grpcbridge/routing"
	"google.golang.org/grpc"
	"google.golang.org/grpc/codes"
	"google.golang.org/grpc/credentials/insecure"
	"google.golang.org/grpc/metadata"
	"google.golang.org/grpc/reflection"
	"google.golang.org/grpc/status"
	"google.golang.org/grpc/test/bufconn"
)

// silentListener accepts TCP connections, never writes, and counts the ones its peer has not closed yet.
type silentListener struct {
	lis  net.Listener
	open atomic.Int32
	mu   sync.Mutex
	all  []net.Conn
}

func newSilentListener() (*silentListener, error) {
	l, err := net.Listen("tcp", "127.0.0.1:0")
	if err != nil {
		return nil, err
	}
	s := &silentListener{lis: l}
	go func() {
		for {
			c, err := l.Accept()
			if err != nil {
				return
			}
			s.open.Add(1)
			s.mu.Lock()
			s.all = append(s.all, c)
			s.mu.Unlock()
			go func() {
				buf := make([]byte, 4096)
				for {
					if _, err := c.Read(buf); err != nil { // the client closed (or reset) its side
						s.open.Add(-1)
						return
					}
				}
			}()
		}
	}()
	return s, nil
}

func (s *silentListener) stop() {
	_ = s.lis.Close()
	s.mu.Lock()
	for _, c := range s.all {
		_ = c.Close()
	}
	s.mu.Unlock()
}

func errClass(err error) string {
	switch {
	case err == nil:
		return "ok"
	case errors.Is(err, grpcadapter.ErrAlreadyDialed):
		return "dialed"
	case errors.Is(err, routing.ErrAlreadyWatching):
		return "watch"
	case strings.Contains(err.Error(), "adding the same target twice"):
		return "dup"
	default:
		return "conn"
	}
}

func execDial(f []string) string {
	if len(f) != 4 {
		return "BADOP"
	}
	mode := f[1]
	at, err := strconv.Atoi(f[3])
	if err != nil || at < 0 || at > 30000 || (f[2] != "0" && f[2] != "1") {
		return "BADOP"
	}
	base := goroutineIDs()

	var dialOpts []grpc.DialOption
	target := "127.0.0.1:1"
	openConns := func() int { return 0 }
	stopTarget := func() {}
	afterAdd := func() {}
	switch mode {
	case "closed":
		l, err := net.Listen("tcp", "127.0.0.1:0")
		if err != nil {
			return "BADENV"
		}
		target = l.Addr().String()
		_ = l.Close()
		dialOpts = []grpc.DialOption{grpc.WithTransportCredentials(insecure.NewCredentials())}
	case "bufrefuse":
		l := bufconn.Listen(1 << 16)
		_ = l.Close()
		target = "passthrough:///c16-refuse"
		dialOpts = []grpc.DialOption{grpc.WithTransportCredentials(insecure.NewCredentials()),
			grpc.WithContextDialer(func(ctx context.Context, _ string) (net.Conn, error) { return l.DialContext(ctx) })}
	case "silent":
		s, err := newSilentListener()
		if err != nil {
			return "BADENV"
		}
		target = s.lis.Addr().String()
		openConns = func() int { return int(s.open.Load()) }
		stopTarget = s.stop
		dialOpts = []grpc.DialOption{grpc.WithTransportCredentials(insecure.NewCredentials())}
	case "dies":
		l, err := net.Listen("tcp", "127.0.0.1:0")
		if err != nil {
			return "BADENV"
		}
		target = l.Addr().String()
		srv := grpc.NewServer()
		reflection.Register(srv)
		go func() { _ = srv.Serve(l) }()
		afterAdd = func() { srv.Stop() }
		stopTarget = func() { srv.Stop() }
		dialOpts = []grpc.DialOption{grpc.WithTransportCredentials(insecure.NewCredentials())}
	case "nocreds":
	case "badcfg":
		dialOpts = []grpc.DialOption{grpc.WithTransportCredentials(insecure.NewCredentials()),
			grpc.WithDefaultServiceConfig("{not json")}
	default:
		return "BADOP"
	}

	opts := []grpcbridge.RouterOption{grpcbridge.WithDialOpts(dialOpts...)}
	if f[2] == "1" {
		opts = append(opts, grpcbridge.WithReflectionPollInterval(time.Second))
	} else {
		opts = append(opts, grpcbridge.WithDisabledReflectionPolling())
	}
	rr := grpcbridge.NewReflectionRouter(opts...)
	pool := rr.VerifConnPool()
	add := func() string {
		ok, err := rr.Add("dead", target)
		if ok != (err == nil) {
			return "incons"
		}
		return errClass(err)
	}
	remove := func() string {
		if rr.Remove("dead") {
			return "t"
		}
		return "f"
	}
	get := func() (grpcadapter.ClientConn, string) {
		c, ok := pool.Get("dead")
		switch {
		case !ok:
			return nil, "absent"
		case c == nil:
			return nil, "nil"
		}
		return c, "usable"
	}
	var out []string
	finish := func() string {
		stopTarget()
		var left []gor
		waitFor(leakTimeout, func() bool { left = leaked(base); return len(left) == 0 })
		if len(left) > 0 {
			contaminated.Store(true)
		}
		out = append(out, fmt.Sprintf("leak=%d", len(left)))
		return joinToks(out)
	}

	r := guarded(add)
	out = append(out, "add="+r)
	kept, g := get()
	out = append(out, "get="+g)
	if mode == "nocreds" || mode == "badcfg" {
		out = append(out, fmt.Sprintf("n=%d", rr.VerifTargetCount()))
		out = append(out, "readd="+guarded(add))
		out = append(out, "rm="+guardedLong(remove))
		waitFor(leakTimeout, func() bool { return countPollers(base) == 0 })
		out = append(out, fmt.Sprintf("pollers=%d", countPollers(base)))
		return finish()
	}
	if r != "ok" {
		out = append(out, "aborted")
		return finish()
	}
	afterAdd()
	time.Sleep(ms(at))

	r = guardedLong(remove)
	out = append(out, "rm="+r)
	if r == "hang" || r == "panic" {
		contaminated.Store(true)
		out = append(out, "aborted")
		return joinToks(out)
	}
	waitFor(leakTimeout, func() bool { return countPollers(base) == 0 })
	waitFor(leakTimeout, func() bool { return openConns() == 0 })
	out = append(out, fmt.Sprintf("pollers=%d", countPollers(base)), fmt.Sprintf("open=%d", openConns()))
	_, g = get()
	out = append(out, "get2="+g)
	st := "nohandle"
	if kept != nil {
		ctx, cancel := context.WithTimeout(metadata.NewOutgoingContext(context.Background(), metadata.MD{}), 2*time.Second)
		_, err := kept.Stream(ctx, waitMethod)
		cancel()
		switch status.Code(err) {
		case codes.OK:
			st = "ok"
		case codes.Unavailable:
			st = "unavail"
		default:
			st = "code" + strconv.Itoa(int(status.Code(err)))
		}
	}
	out = append(out, "stream="+st)

	out = append(out, "readd="+guarded(add))
	out = append(out, fmt.Sprintf("pollers2=%d", countPollers(base)))
	stopTarget() // the last removal is quick: connection attempts to a stopped target fail at once
	out = append(out, "rm2="+guardedLong(remove))
	return finish()
}

// shareconn <shared|preclosed> <poll 0|1>
//
// The underlying *grpc.ClientConn is ALREADY closed when a target is removed (seeded C16-m11): `shared` — the connection
// constructor (WithConnFunc) hands the SAME client to two names, both are added, both removed (the second removal finds
// the client closed by the first); `preclosed` — one name, and the owner of the client closes it directly before Remove.
// Whatever grpc.ClientConn.Close answers, after Remove returned a kept connection must answer Unavailable.
//
// output: addA=ok addB=ok getA=usable getB=usable rmA=t sA=unavail rmB=t sB=unavail getA2=absent getB2=absent leak=0
func execShareConn(f []string) string {
	if len(f) != 3 || (f[1] != "shared" && f[1] != "preclosed") || (f[2] != "0" && f[2] != "1") {
		return "BADOP"
	}
	base := goroutineIDs()
	lis := bufconn.Listen(1 << 16)
	srv := grpc.NewServer()
	go func() { _ = srv.Serve(lis) }()
	newClient := func() (*grpc.ClientConn, error) {
		return grpc.NewClient("passthrough:///c16-shared",
			grpc.WithContextDialer(func(ctx context.Context, _ string) (net.Conn, error) { return lis.DialContext(ctx) }),
			grpc.WithTransportCredentials(insecure.NewCredentials()))
	}
	var shared *grpc.ClientConn
	var made []*grpc.ClientConn
	connFunc := func(string, ...grpc.DialOption) (*grpc.ClientConn, error) {
		if f[1] == "shared" && shared != nil {
			return shared, nil
		}
		c, err := newClient()
		if err == nil {
			shared = c
			made = append(made, c)
		}
		return c, err
	}
	opts := []grpcbridge.RouterOption{grpcbridge.WithConnFunc(connFunc)}
	if f[2] == "1" {
		opts = append(opts, grpcbridge.WithReflectionPollInterval(time.Second))
	} else {
		opts = append(opts, grpcbridge.WithDisabledReflectionPolling())
	}
	rr := grpcbridge.NewReflectionRouter(opts...)
	pool := rr.VerifConnPool()
	var out []string
	tok := func(k, v string) { out = append(out, k+"="+v) }
	add := func(n string) string {
		return guarded(func() string {
			ok, err := rr.Add(n, "c16-shared")
			if ok != (err == nil) {
				return "incons"
			}
			return errClass(err)
		})
	}
	get := func(n string) (grpcadapter.ClientConn, string) {
		c, ok := pool.Get(n)
		switch {
		case !ok:
			return nil, "absent"
		case c == nil:
			return nil, "nil"
		}
		return c, "usable"
	}
	rm := func(n string) string {
		return guardedLong(func() string {
			if rr.Remove(n) {
				return "t"
			}
			return "f"
		})
	}
	stream := func(c grpcadapter.ClientConn) string {
		if c == nil {
			return "nohandle"
		}
		ctx, cancel := context.WithTimeout(metadata.NewOutgoingContext(context.Background(), metadata.MD{}), 2*time.Second)
		defer cancel()
		st, err := c.Stream(ctx, waitMethod)
		switch status.Code(err) {
		case codes.OK:
			st.Close()
			return "ok"
		case codes.Unavailable:
			return "unavail"
		}
		return "code" + strconv.Itoa(int(status.Code(err)))
	}
	tok("addA", add("a"))
	tok("addB", add("b"))
	ca, g := get("a")
	tok("getA", g)
	cb, g := get("b")
	tok("getB", g)
	if f[1] == "preclosed" {
		for _, c := range made { // the owner of the clients closes them behind the router's back
			_ = c.Close()
		}
	}
	tok("rmA", rm("a"))
	tok("sA", stream(ca))
	tok("rmB", rm("b"))
	tok("sB", stream(cb))
	_, g = get("a")
	tok("getA2", g)
	_, g = get("b")
	tok("getB2", g)
	srv.Stop()
	_ = lis.Close()
	for _, c := range made {
		_ = c.Close()
	}
	var left []gor
	waitFor(leakTimeout, func() bool { left = leaked(base); return len(left) == 0 })
	if len(left) > 0 {
		contaminated.Store(true)
	}
	tok("leak", strconv.Itoa(len(left)))
	return joinToks(out)
}
