package c16

// The connectivity state machine as environment of AdaptedClientConn.waitForReady (seeded C01-m10, C12-m9):
//
//	cidle <restart|idletimeout> <Dms>
//	    real AdaptClient(*grpc.ClientConn) to a real gRPC server over bufconn. Stream #1 (IDLE -> READY) must succeed.
//	    Then the channel falls back to IDLE — `restart`: the server is stopped and a new one serves the same listener;
//	    `idletimeout`: grpc.WithIdleTimeout(1 s) and 1.6 s without calls. Stream #2 (deadline D ms, 0 = none) must be
//	    established promptly: Connect() is the only way out of IDLE and every wait that observes IDLE has to ask for it.
//	    output: first=<code> idle=<t|f> second=<code> slow=<0|1>      (slow: #2 took more than 1 s)
//	cunreach <refuse|hang> <Dms>
//	    target that refuses / never completes connections, call with deadline D: Stream must END (any error) by D + 1 s
//	    — the wait returns when WaitForStateChange reports that the (halved) context is over.
//	    output: ended=<t|f> code=<code>

import (
	"context"
	"errors"
	"fmt"
	"net"
	"strconv"
	"sync/atomic"
	"time"

	"github.com/renbou/grpcbridge/grpcadapter"
	"google.golang.org/grpc"
	"google.golang.org/grpc/connectivity"
	"google.golang.org/grpc/credentials/insecure"
	"google.golang.org/grpc/metadata"
	"google.golang.org/grpc/status"
	"google.golang.org/grpc/test/bufconn"
)

func idleServer(lis net.Listener) *grpc.Server {
	srv := grpc.NewServer(grpc.UnknownServiceHandler(func(_ any, ss grpc.ServerStream) error {
		<-ss.Context().Done()
		return nil
	}))
	go func() { _ = srv.Serve(lis) }()
	return srv
}

func streamCode(cc *grpcadapter.AdaptedClientConn, d time.Duration, watchdog time.Duration) (string, time.Duration) {
	ctx := metadata.NewOutgoingContext(context.Background(), metadata.MD{})
	var cancel context.CancelFunc
	if d > 0 {
		ctx, cancel = context.WithTimeout(ctx, d)
	} else {
		ctx, cancel = context.WithCancel(ctx)
	}
	defer cancel()
	t := time.AfterFunc(watchdog, cancel)
	defer t.Stop()
	start := time.Now()
	st, err := cc.Stream(ctx, waitMethod)
	el := time.Since(start)
	if err == nil {
		st.Close()
		return "ok", el
	}
	return "code" + strconv.Itoa(int(status.Code(err))), el
}

func execCIdle(f []string) string {
	if len(f) != 3 {
		return "BADOP"
	}
	dms, err := strconv.Atoi(f[2])
	if err != nil || dms < 0 || dms > 60000 || (f[1] != "restart" && f[1] != "idletimeout") {
		return "BADOP"
	}
	var cur atomic.Pointer[bufconn.Listener]
	lis := bufconn.Listen(1 << 16)
	cur.Store(lis)
	srv := idleServer(lis)
	opts := []grpc.DialOption{grpc.WithTransportCredentials(insecure.NewCredentials()),
		grpc.WithContextDialer(func(ctx context.Context, _ string) (net.Conn, error) { return cur.Load().DialContext(ctx) })}
	if f[1] == "idletimeout" {
		opts = append(opts, grpc.WithIdleTimeout(time.Second))
	}
	gc, err := grpc.NewClient("passthrough:///c16-idle", opts...)
	if err != nil {
		return "BADENV"
	}
	cc := grpcadapter.AdaptClient(gc)
	first, _ := streamCode(cc, 5*time.Second, 6*time.Second)

	if f[1] == "restart" {
		srv.Stop()
		_ = lis.Close()
		l2 := bufconn.Listen(1 << 16)
		cur.Store(l2)
		srv = idleServer(l2)
	}
	idle := waitFor0(4*time.Second, func() bool { return gc.GetState() == connectivity.Idle })
	second, el := streamCode(cc, ms(dms), 2500*time.Millisecond)
	slow := 0
	if el > time.Second {
		slow = 1
	}
	cc.Close()
	srv.Stop()
	return fmt.Sprintf("first=%s idle=%s second=%s slow=%d", first, tf(idle), second, slow)
}

func tf(b bool) string {
	if b {
		return "t"
	}
	return "f"
}

func execCUnreach(f []string) string {
	if len(f) != 3 {
		return "BADOP"
	}
	dms, err := strconv.Atoi(f[2])
	if err != nil || dms < 100 || dms > 60000 || (f[1] != "refuse" && f[1] != "hang") {
		return "BADOP"
	}
	release := make(chan struct{})
	dialer := func(ctx context.Context, _ string) (net.Conn, error) {
		if f[1] == "refuse" {
			return nil, errors.New("c16: connection refused")
		}
		select {
		case <-ctx.Done():
		case <-release:
		}
		return nil, errors.New("c16: connection attempt given up")
	}
	gc, err := grpc.NewClient("passthrough:///c16-unreach", grpc.WithTransportCredentials(insecure.NewCredentials()),
		grpc.WithContextDialer(dialer))
	if err != nil {
		return "BADENV"
	}
	cc := grpcadapter.AdaptClient(gc)
	type res struct{ code string }
	done := make(chan res, 1)
	go func() {
		ctx, cancel := context.WithTimeout(metadata.NewOutgoingContext(context.Background(), metadata.MD{}), ms(dms))
		defer cancel()
		st, err := cc.Stream(ctx, waitMethod)
		if err == nil {
			st.Close()
			done <- res{"ok"}
			return
		}
		done <- res{"code" + strconv.Itoa(int(status.Code(err)))}
	}()
	out := ""
	select {
	case r := <-done:
		out = "ended=t code=" + r.code
	case <-time.After(ms(dms) + time.Second):
		contaminated.Store(true) // the call is still running (possibly spinning): later cases run in child processes
		out = "ended=f code=-"
	}
	close(release)
	cc.Close()
	return out
}
