package c16

// AdaptedClientConn in detail, and exclusive pool.New — executed on the real code.
//
//	cstream <Dms> <mode> <md 0|1>
//	    one real AdaptedClientConn (grpcadapter.AdaptClient over a *grpc.ClientConn whose dialer the harness controls):
//	    Stream(ctx) with deadline D (0 = none), with/without outgoing metadata. One quarter Q = D/4 (300 ms if D = 0).
//	    mode: ready  the connection is Ready before the call
//	          hold<k> the dialer holds the connection attempt until k quarters after the call, then connects
//	          hang   the dialer never returns (Connecting for ever)
//	          refuse every connection attempt fails at once (TransientFailure)
//	    output: <code> q=<elapsed, rounded to quarters> sdl=<deadline of the STREAM as the target sees it: none | le (not later
//	    than the call's) | gt | - (no stream)>
//	connrace <seed> <n>
//	    n goroutines call Stream on one real AdaptedClientConn while one or two call Close, at seeded sub-millisecond
//	    offsets. Every Stream must answer ok, gRPC's closing error (Canceled) or Unavailable (bad = anything else),
//	    promptly (slow = calls that took over a second; half of them have no deadline at all), nothing may panic,
//	    and a Stream after everything has returned must be Unavailable.
//	newrace <seed> <k>
//	    30 rounds: k goroutines call pool.New(same name) from a barrier, constructor succeeding (exactly one winner,
//	    the others ErrAlreadyDialed, constructor invoked once, lookup usable, after Close absent) or failing (no winner,
//	    every caller gets the constructor's error or ErrAlreadyDialed, constructor invoked as often as its error was
//	    returned, lookup absent afterwards).

import (
	"context"
	"errors"
	"fmt"
	"math/rand"
	"net"
	"runtime"
	"strconv"
	"strings"
	"sync"
	"sync/atomic"
	"time"

	"github.com/renbou/grpcbridge"
	"github.com/renbou/grpcbridge/grpcadapter"
	"google.golang.org/grpc"
	"google.golang.org/grpc/codes"
	"google.golang.org/grpc/connectivity"
	"google.golang.org/grpc/credentials/insecure"
	"google.golang.org/grpc/metadata"
	"google.golang.org/grpc/status"
	"google.golang.org/grpc/test/bufconn"
)

func execCStream(f []string) (out string) {
	if len(f) != 4 {
		return "BADOP"
	}
	dms, err := strconv.Atoi(f[1])
	if err != nil || dms < 0 || dms > 20000 || (f[3] != "0" && f[3] != "1") {
		return "BADOP"
	}
	mode := f[2]
	hold := -1
	switch {
	case mode == "ready" || mode == "hang" || mode == "refuse":
	case strings.HasPrefix(mode, "hold"):
		hold, err = strconv.Atoi(mode[4:])
		if err != nil || hold < 0 || hold > 8 {
			return "BADOP"
		}
	default:
		return "BADOP"
	}
	q := 300 * time.Millisecond
	if dms > 0 {
		q = time.Duration(dms) * time.Millisecond / 4
	}
	defer func() {
		if r := recover(); r != nil {
			out = "panic"
		}
	}()

	// the target: reports the deadline of every stream it receives
	type seen struct {
		has bool
		dl  time.Time
	}
	seenCh := make(chan seen, 4)
	lis := bufconn.Listen(1 << 16)
	srv := grpc.NewServer(grpc.UnknownServiceHandler(func(_ any, stream grpc.ServerStream) error {
		dl, ok := stream.Context().Deadline()
		seenCh <- seen{ok, dl}
		<-stream.Context().Done()
		return status.Error(codes.Canceled, "c16: done")
	}))
	go func() { _ = srv.Serve(lis) }()
	defer srv.Stop()

	var release atomic.Int64 // unix nanos after which the dialer lets a connection attempt through
	dialer := func(ctx context.Context, _ string) (net.Conn, error) {
		switch {
		case mode == "refuse":
			return nil, errors.New("c16: connection refused")
		case mode == "hang":
			<-ctx.Done()
			return nil, ctx.Err()
		case hold >= 0:
			for release.Load() == 0 || time.Now().UnixNano() < release.Load() {
				select {
				case <-ctx.Done():
					return nil, ctx.Err()
				case <-time.After(time.Millisecond):
				}
			}
		}
		return lis.DialContext(ctx)
	}
	gc, err := grpc.NewClient("passthrough:///c16-cstream", grpc.WithContextDialer(dialer),
		grpc.WithTransportCredentials(insecure.NewCredentials()))
	if err != nil {
		return "setup-err"
	}
	cc := grpcadapter.AdaptClient(gc)
	defer cc.Close()

	if mode == "ready" {
		gc.Connect()
		wctx, cancel := context.WithTimeout(context.Background(), 3*time.Second)
		for st := gc.GetState(); st != connectivity.Ready; st = gc.GetState() {
			if !gc.WaitForStateChange(wctx, st) {
				cancel()
				return "setup-not-ready"
			}
		}
		cancel()
	}

	ctx := context.Background()
	var callDL time.Time
	if dms > 0 {
		var cancel context.CancelFunc
		ctx, cancel = context.WithTimeout(ctx, time.Duration(dms)*time.Millisecond)
		defer cancel()
		callDL, _ = ctx.Deadline()
	}
	if f[3] == "1" {
		ctx = metadata.NewOutgoingContext(ctx, metadata.Pairs("x-c16", "1"))
	}
	start := time.Now()
	if hold >= 0 {
		release.Store(start.Add(time.Duration(hold) * q).UnixNano())
	}
	// watchdog: a Stream attempt that has not returned 3 s after its deadline (no deadline: after 8 quarters + 3 s; every
	// mode without a deadline becomes ready by then) is reported as `hang` — a wait loop that spins or sleeps for ever
	// must not hold the whole check (seeded C12-m9)
	type sres struct {
		st  grpcadapter.ClientStream
		err error
	}
	sch := make(chan sres, 1)
	go func() {
		st, err := cc.Stream(ctx, waitMethod)
		sch <- sres{st, err}
	}()
	limit := 8*q + 3*time.Second
	if dms > 0 {
		limit = time.Duration(dms)*time.Millisecond + 3*time.Second
	}
	var st grpcadapter.ClientStream
	var serr error
	select {
	case r := <-sch:
		st, serr = r.st, r.err
	case <-time.After(limit):
		contaminated.Store(true) // the attempt is still running (possibly spinning)
		return "hang"
	}
	elapsed := time.Since(start)
	// load can only delay the return, never hasten it: round with a quarter of slack below and three quarters above
	quarters := int((elapsed + q/4) / q)
	sdl := "-"
	if serr == nil {
		select {
		case s := <-seenCh:
			switch {
			case !s.has:
				sdl = "none"
			case dms > 0 && !s.dl.After(callDL.Add(20*time.Millisecond)):
				sdl = "le"
			default:
				sdl = "gt"
			}
		case <-time.After(3 * time.Second):
			sdl = "unseen"
		}
		st.Close()
	}
	return fmt.Sprintf("%s q=%d sdl=%s", codeTok(serr), quarters, sdl)
}

var (
	raceMu   sync.Mutex
	raceHist = map[string]int{}
)

func execConnRace(f []string) string {
	if len(f) != 3 {
		return "BADOP"
	}
	seed, e1 := strconv.ParseInt(f[1], 10, 64)
	n, e2 := strconv.Atoi(f[2])
	if e1 != nil || e2 != nil || n < 1 || n > 64 {
		return "BADOP"
	}
	r := rand.New(rand.NewSource(seed))
	e := newEnv(false)
	defer func() { e.srv.Stop(); _ = e.lis.Close() }()
	gc, err := grpc.NewClient("passthrough:///c16-race",
		grpc.WithContextDialer(func(ctx context.Context, _ string) (net.Conn, error) { return e.lis.DialContext(ctx) }),
		grpc.WithTransportCredentials(insecure.NewCredentials()))
	if err != nil {
		return "setup-err"
	}
	cc := grpcadapter.AdaptClient(gc)
	// make the connection Ready first so that the race is about Close, not about connecting
	if st, err := cc.Stream(context.Background(), waitMethod); err == nil {
		st.Close()
	}
	closers := 1 + r.Intn(2)
	delays := make([]time.Duration, n+closers)
	for i := range delays {
		delays[i] = time.Duration(r.Intn(400)) * time.Microsecond
	}
	var bad, panics, slow int32
	var wg sync.WaitGroup
	start := make(chan struct{})
	for i := 0; i < n; i++ {
		wg.Add(1)
		go func(i int, d time.Duration) {
			defer wg.Done()
			defer func() {
				if recover() != nil {
					atomic.AddInt32(&panics, 1)
				}
			}()
			<-start
			time.Sleep(d)
			// even goroutines: a call without any deadline (a watchdog cancels it after 3 s so that the case ends);
			// odd ones: a 6 s deadline. Racing Close must not make either wait: slow = calls that took over a second.
			ctx, cancel := context.WithCancel(context.Background())
			if i%2 == 1 {
				ctx, cancel = context.WithTimeout(context.Background(), 6*time.Second)
			}
			defer cancel()
			watchdog := time.AfterFunc(3*time.Second, cancel)
			defer watchdog.Stop()
			t0 := time.Now()
			st, err := cc.Stream(ctx, waitMethod)
			if time.Since(t0) > time.Second {
				atomic.AddInt32(&slow, 1)
				err = nil // counted as slow, whatever it finally answered
				if st != nil {
					st.Close()
				}
				return
			}
			tok := codeTok(err)
			if err == nil {
				st.Close()
			}
			raceMu.Lock()
			raceHist[tok]++
			raceMu.Unlock()
			if tok != "ok" && tok != "unavail" && tok != "code1" {
				atomic.AddInt32(&bad, 1)
			}
		}(i, delays[i])
	}
	for j := 0; j < closers; j++ {
		wg.Add(1)
		go func(d time.Duration) {
			defer wg.Done()
			defer func() {
				if recover() != nil {
					atomic.AddInt32(&panics, 1)
				}
			}()
			<-start
			time.Sleep(d)
			cc.Close()
		}(delays[n+j])
	}
	close(start)
	done := make(chan struct{})
	go func() { wg.Wait(); close(done) }()
	select {
	case <-done:
	case <-time.After(opTimeout):
		return "hang"
	}
	after := guarded(func() string {
		ctx, cancel := context.WithTimeout(context.Background(), 2*time.Second)
		defer cancel()
		st, err := cc.Stream(ctx, waitMethod)
		if err == nil {
			st.Close()
		}
		return codeTok(err)
	})
	return fmt.Sprintf("bad=%d panic=%d slow=%d after=%s", bad, panics, slow, after)
}

func execNewRace(f []string) string {
	if len(f) != 3 {
		return "BADOP"
	}
	seed, e1 := strconv.ParseInt(f[1], 10, 64)
	k, e2 := strconv.Atoi(f[2])
	if e1 != nil || e2 != nil || k < 2 || k > 64 {
		return "BADOP"
	}
	r := rand.New(rand.NewSource(seed))
	e := newEnv(false)
	defer func() { e.srv.Stop(); _ = e.lis.Close() }()
	var ctor int32
	var failing atomic.Bool
	pool := grpcadapter.NewAdaptedClientPool(grpcadapter.AdaptedClientPoolOpts{
		NewClientFunc: func(string, ...grpc.DialOption) (*grpc.ClientConn, error) {
			atomic.AddInt32(&ctor, 1)
			runtime.Gosched()
			time.Sleep(50 * time.Microsecond)
			if failing.Load() {
				return nil, errInjected
			}
			return grpc.NewClient("passthrough:///c16-newrace",
				grpc.WithContextDialer(func(ctx context.Context, _ string) (net.Conn, error) { return e.lis.DialContext(ctx) }),
				grpc.WithTransportCredentials(insecure.NewCredentials()))
		},
	})
	bad := 0
	const name = "raced"
	for round := 0; round < 30; round++ {
		failing.Store(r.Intn(3) == 0)
		atomic.StoreInt32(&ctor, 0)
		ctrls := make([]*grpcadapter.AdaptedClientPoolController, k)
		errs := make([]error, k)
		var wg sync.WaitGroup
		start := make(chan struct{})
		for i := 0; i < k; i++ {
			wg.Add(1)
			go func(i int) {
				defer wg.Done()
				<-start
				ctrls[i], errs[i] = pool.New(name, "x")
			}(i)
		}
		close(start)
		wg.Wait()
		winners, dialed, injected, other := 0, 0, 0, 0
		var winner *grpcadapter.AdaptedClientPoolController
		for i := range errs {
			switch {
			case errs[i] == nil && ctrls[i] != nil:
				winners++
				winner = ctrls[i]
			case errors.Is(errs[i], grpcadapter.ErrAlreadyDialed):
				dialed++
			case errors.Is(errs[i], errInjected):
				injected++
			default:
				other++
			}
		}
		c, ok := pool.Get(name)
		if failing.Load() {
			if winners != 0 || other != 0 || injected < 1 || int(atomic.LoadInt32(&ctor)) != injected || ok {
				bad++
			}
		} else {
			if winners != 1 || dialed != k-1 || other != 0 || atomic.LoadInt32(&ctor) != 1 || !ok || isNilConn(c) {
				bad++
			}
		}
		if winner != nil {
			func() {
				defer func() {
					if recover() != nil {
						bad++
					}
				}()
				winner.Close()
			}()
		}
		if _, ok := pool.Get(name); ok {
			bad++
		}
	}
	return fmt.Sprintf("bad=%d", bad)
}

// execCClose: Close / Remove while Stream attempts WAIT on a connection that is not ready.
//
//	cclose <Dms> <hang|refuse> <n>   one real AdaptedClientConn whose dialer blocks for ever (Connecting) or fails at once
//	                                 every time (TransientFailure); n goroutines call Stream — even ones without any
//	                                 deadline, odd ones with deadline D — and once the first dial is in progress (plus
//	                                 30 ms, so that they all sit in WaitForStateChange) the connection is closed.
//	rclose <Dms> <hang|refuse> <n>   the same through a real ReflectionRouter: Add (the backend is down), the callers
//	                                 fetch the pooled connection and start their Streams, then Remove(name) — which
//	                                 first waits for the resolver's own attempt (5–10 s) and then closes the connection.
//
// Every Stream must return within a second of the Close / of Remove's return (slow = those that did not; a watchdog
// cancels them after 2.5 s so that the case ends) with gRPC's closing error or Unavailable (bad = anything else);
// none returns before the close (early); a Stream afterwards answers Unavailable.
func execCClose(f []string) string {
	if len(f) != 4 {
		return "BADOP"
	}
	dms, e1 := strconv.Atoi(f[1])
	n, e2 := strconv.Atoi(f[3])
	mode := f[2]
	if e1 != nil || e2 != nil || dms < 0 || dms > 60000 || n < 1 || n > 32 || (mode != "hang" && mode != "refuse") {
		return "BADOP"
	}
	router := f[0] == "rclose"
	dialing := make(chan struct{}, 1)
	dialer := func(ctx context.Context, _ string) (net.Conn, error) {
		select {
		case dialing <- struct{}{}:
		default:
		}
		if mode == "refuse" {
			return nil, errors.New("c16: connection refused")
		}
		<-ctx.Done()
		return nil, ctx.Err()
	}
	newConn := func(string, ...grpc.DialOption) (*grpc.ClientConn, error) {
		return grpc.NewClient("passthrough:///c16-cclose", grpc.WithContextDialer(dialer),
			grpc.WithTransportCredentials(insecure.NewCredentials()))
	}
	var cc grpcadapter.ClientConn
	var closeIt func() string
	if router {
		rr := grpcbridge.NewReflectionRouter(grpcbridge.WithConnFunc(newConn), grpcbridge.WithDisabledReflectionPolling())
		if ok, err := rr.Add("down", "c16-down"); !ok || err != nil {
			return "setup-add-failed"
		}
		c, ok := rr.VerifConnPool().Get("down")
		if !ok || isNilConn(c) {
			return "setup-no-conn"
		}
		cc = c
		closeIt = func() string {
			if rr.Remove("down") {
				return "t"
			}
			return "f"
		}
	} else {
		gc, err := newConn("")
		if err != nil {
			return "setup-err"
		}
		ac := grpcadapter.AdaptClient(gc)
		cc = ac
		closeIt = func() string { ac.Close(); return "t" }
	}

	type res struct {
		at  time.Time
		tok string
	}
	results := make([]res, n)
	cancels := make([]context.CancelFunc, n)
	var wg sync.WaitGroup
	var panics int32
	for i := 0; i < n; i++ {
		ctx, cancel := context.WithCancel(context.Background())
		if i%2 == 1 && dms > 0 {
			ctx, cancel = context.WithTimeout(context.Background(), time.Duration(dms)*time.Millisecond)
		}
		cancels[i] = cancel
		wg.Add(1)
		go func(i int, ctx context.Context) {
			defer wg.Done()
			defer func() {
				if recover() != nil {
					atomic.AddInt32(&panics, 1)
					results[i] = res{time.Now(), "panic"}
				}
			}()
			st, err := cc.Stream(ctx, waitMethod)
			results[i] = res{time.Now(), codeTok(err)}
			if err == nil {
				st.Close()
			}
		}(i, ctx)
	}
	select {
	case <-dialing:
	case <-time.After(3 * time.Second):
	}
	time.Sleep(30 * time.Millisecond)
	closeStart := time.Now()
	rm := guardedLong(closeIt)
	closed := time.Now()
	ref := closed // Remove: the connection is closed just before it returns; Close: when it returns
	if !router {
		ref = closeStart
	}
	watchdog := time.AfterFunc(2500*time.Millisecond, func() {
		for _, c := range cancels {
			c()
		}
	})
	done := make(chan struct{})
	go func() { wg.Wait(); close(done) }()
	select {
	case <-done:
	case <-time.After(opTimeout):
		watchdog.Stop()
		return "hang"
	}
	watchdog.Stop()
	for _, c := range cancels {
		c()
	}
	bad, slow, early := 0, 0, 0
	for _, r := range results {
		switch {
		case r.at.Before(closeStart):
			early++
		case r.at.After(ref.Add(time.Second)):
			slow++
		case r.tok != "code1" && r.tok != "unavail":
			bad++
		}
		raceMu.Lock()
		raceHist["waiting:"+r.tok]++
		raceMu.Unlock()
	}
	after := guarded(func() string {
		ctx, cancel := context.WithTimeout(context.Background(), 2*time.Second)
		defer cancel()
		st, err := cc.Stream(ctx, waitMethod)
		if err == nil {
			st.Close()
		}
		return codeTok(err)
	})
	return fmt.Sprintf("close=%s bad=%d slow=%d early=%d panic=%d after=%s", rm, bad, slow, early, panics, after)
}
