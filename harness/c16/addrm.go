package c16

// Add(name) ‖ Remove(name) on a real ReflectionRouter while the name's poller is busy.
//
//	addrm <seed> <rounds> <holdMs> <poll 0|1>
//
// The target serves no reflection API, so every resolution fails at once and the resolver reports it through the
// logger; the router's logger (WithLogger) holds that Error() call for holdMs — a slow logging backend — which keeps the
// poller busy for a controlled time. Each round: the name is present and its poller is busy; Remove(name) is started and,
// a seeded offset later (before, inside or after the time Remove spends waiting for the poller), a concurrent Add(name).
// Whatever the schedule the outcome must be one of the two sequential ones
//
//	Remove = true then Add = ok  (present afterwards)      |      Add = "same target twice" then Remove = true (absent)
//
// and afterwards everything agrees with the present set: len(targets), the pool lookup, the number of poller
// goroutines; then the name must be removable iff present, addable again and removable again.
//
// output: bad=<rounds with another outcome> incons=<rounds where something disagreed afterwards>
//
//	stuck=<rounds after which the name could not be added/removed consistently> first=<first bad outcome | -> leak=<goroutines left>

import (
	"fmt"
	"math/rand"
	"strconv"
	"strings"
	"sync"
	"time"

	"github.com/renbou/grpcbridge"
	"github.com/renbou/grpcbridge/bridgelog"
)

type holdLogger struct {
	hold    time.Duration
	entered chan struct{}
}

func (holdLogger) Debug(string, ...any) {}
func (holdLogger) Info(string, ...any)  {}
func (holdLogger) Warn(string, ...any)  {}

func (l holdLogger) Error(msg string, _ ...any) {
	if !strings.Contains(msg, "resolution unrecoverably failed") {
		return
	}
	select {
	case l.entered <- struct{}{}:
	default:
	}
	time.Sleep(l.hold)
}

func (l holdLogger) With(...any) bridgelog.Logger          { return l }
func (l holdLogger) WithComponent(string) bridgelog.Logger { return l }

func classifyAdd(ok bool, err error) string {
	switch {
	case ok && err == nil:
		return "ok"
	case ok || err == nil:
		return "inconsistent"
	case strings.Contains(err.Error(), "adding the same target twice"):
		return "dup"
	case strings.Contains(err.Error(), "already dialed"):
		return "dialed"
	case strings.Contains(err.Error(), "already being watched"):
		return "watch"
	default:
		return "err"
	}
}

func execAddRm(f []string) string {
	if len(f) != 5 {
		return "BADOP"
	}
	seed, e1 := strconv.ParseInt(f[1], 10, 64)
	rounds, e2 := strconv.Atoi(f[2])
	holdMs, e3 := strconv.Atoi(f[3])
	if e1 != nil || e2 != nil || e3 != nil || rounds < 1 || rounds > 200 || holdMs < 1 || holdMs > 2000 || (f[4] != "0" && f[4] != "1") {
		return "BADOP"
	}
	r := rand.New(rand.NewSource(seed))
	hold := time.Duration(holdMs) * time.Millisecond
	base := goroutineIDs()
	e := newEnv(false) // no reflection service: resolutions fail at once
	lg := holdLogger{hold: hold, entered: make(chan struct{}, 1)}
	opts := []grpcbridge.RouterOption{grpcbridge.WithConnFunc(e.connFunc), grpcbridge.WithLogger(lg)}
	if f[4] == "1" {
		opts = append(opts, grpcbridge.WithReflectionPollInterval(time.Second))
	} else {
		opts = append(opts, grpcbridge.WithDisabledReflectionPolling())
	}
	rr := grpcbridge.NewReflectionRouter(opts...)
	e.rr, e.pool = rr, rr.VerifConnPool()
	const name = "raced"
	e.probeName = name
	add := func() string { ok, err := rr.Add(name, "c16-addrm"); return classifyAdd(ok, err) }

	bad, incons, stuck := 0, 0, 0
	first := "-"
	present := false
	abort := func(why string) string {
		contaminated.Store(true)
		go e.srv.Stop()
		return fmt.Sprintf("bad=%d incons=%d stuck=%d first=%s aborted:%s", bad, incons, stuck, first, why)
	}
	for round := 0; round < rounds; round++ {
		if !present {
			select { // forget a stale signal
			case <-lg.entered:
			default:
			}
			if a := guarded(add); a != "ok" {
				stuck++
				if first == "-" {
					first = "setup-add:" + a
				}
				break
			}
			present = true
		}
		// wait until the poller is busy (inside the held Error call)
		select {
		case <-lg.entered:
		case <-time.After(5 * time.Second):
			return abort("poller-never-reported")
		}
		offset := time.Duration(r.Int63n(int64(hold) * 3 / 2)) // before, inside or after Remove's wait
		if r.Intn(6) == 0 {
			offset = 0
		}
		addFirst := r.Intn(8) == 0 // sometimes the Add starts first
		var rmRes, addRes string
		var wg sync.WaitGroup
		wg.Add(2)
		go func() {
			defer wg.Done()
			if addFirst {
				time.Sleep(offset / 4)
			}
			rmRes = guardedLong(func() string {
				if rr.Remove(name) {
					return "t"
				}
				return "f"
			})
		}()
		go func() {
			defer wg.Done()
			if !addFirst {
				time.Sleep(offset)
			}
			addRes = guardedLong(add)
		}()
		wg.Wait()
		if rmRes == "hang" || addRes == "hang" {
			return abort("hang")
		}
		switch {
		case rmRes == "t" && addRes == "ok":
			present = true
		case rmRes == "t" && addRes == "dup":
			present = false
		default:
			bad++
			if first == "-" {
				first = "rm:" + rmRes + "/add:" + addRes
			}
			present = addRes == "ok"
		}
		// afterwards everything agrees with the present set
		want := 0
		if present {
			want = 1
		}
		pollersOK := waitFor(leakTimeout, func() bool { return countPollers(base) == want })
		usable := e.getKind(name) == "u"
		if rr.VerifTargetCount() != want || usable != present || !pollersOK {
			incons++
			if first == "-" {
				first = fmt.Sprintf("after:n=%d,get=%s,pollers=%d,want=%d", rr.VerifTargetCount(), e.getKind(name), countPollers(base), want)
			}
		}
		// removable iff present, then addable and removable again (every second round, to keep rounds short)
		if round%2 == 1 || bad > 0 {
			rm := guardedLong(func() string {
				if rr.Remove(name) {
					return "t"
				}
				return "f"
			})
			if (rm == "t") != present {
				stuck++
				if first == "-" {
					first = "remove-after:" + rm
				}
			}
			present = false
			select {
			case <-lg.entered:
			default:
			}
			if a := guarded(add); a != "ok" {
				stuck++
				if first == "-" {
					first = "add-after:" + a
				}
				break
			}
			present = true
		}
	}
	// teardown
	guardedLong(func() string { rr.Remove(name); return "ok" })
	e.srv.Stop()
	_ = e.lis.Close()
	var left []gor
	waitFor(leakTimeout, func() bool { left = leaked(base); return len(left) == 0 })
	if len(left) > 0 {
		contaminated.Store(true)
	}
	return fmt.Sprintf("bad=%d incons=%d stuck=%d first=%s leak=%d", bad, incons, stuck, first, len(left))
}
