package c16

// Slow-target scenarios: Remove / Resolver.Close called WHILE a reflection resolution is in flight that, as a whole,
// outlasts the per-request timeout (several requests, each with its own timeout).
//
//	slowrr  <firstDelayMs> <removeAtMs> <poll 0|1> <obsMs>
//	    real ReflectionRouter (request timeout fixed at 10 s): Add; once the first reflection stream has arrived wait
//	    removeAtMs; Remove; observe; re-Add; observe; Remove; leak census.
//	slowres <reqTimeoutMs> <firstDelayMs> <closeAtMs> <poll 0|1> <obsMs>
//	    the same one level down: reflection.NewResolverBuilder(pool, ResolverOpts{ReqTimeout, PollInterval 1s | PollManually})
//	    Build; Close while resolving; observe; Build again; observe; Close; leak census.
//
// The target answers the first request of every reflection stream (ListServices) after firstDelay and never answers
// anything else, so one resolution takes firstDelay + one request timeout.
//
// output (every value is fixed on a correct tree, whatever the timing parameters):
//
//	rm=t|close=ok   the removal returned (hang = not within 60 s)
//	pollers=0       resolver poller goroutines left once it has returned (waited for up to 3 s)
//	late=0          reflection streams that arrived after it returned (until obsMs after the pollers were counted)
//	readd=ok pollers2=1 streams2=1   after adding the same name again: exactly one poller, exactly one stream (within min(obsMs, 600) ms)
//	rm2=t|close2=ok leak=0

import (
	"context"
	"fmt"
	"net"
	"os"
	"strconv"
	"sync/atomic"
	"time"

	"github.com/renbou/grpcbridge"
	"github.com/renbou/grpcbridge/bridgedesc"
	"github.com/renbou/grpcbridge/grpcadapter"
	"github.com/renbou/grpcbridge/reflection"
	"google.golang.org/grpc"
	"google.golang.org/grpc/credentials/insecure"
	reflectionpb "google.golang.org/grpc/reflection/grpc_reflection_v1"
	"google.golang.org/grpc/test/bufconn"
)

type slowTarget struct {
	reflectionpb.UnimplementedServerReflectionServer
	firstDelay time.Duration
	streams    atomic.Int32
	entered    chan struct{}
	lis        *bufconn.Listener
	srv        *grpc.Server
}

func (s *slowTarget) ServerReflectionInfo(stream reflectionpb.ServerReflection_ServerReflectionInfoServer) error {
	s.streams.Add(1)
	select {
	case s.entered <- struct{}{}:
	default:
	}
	if _, err := stream.Recv(); err != nil {
		return err
	}
	select {
	case <-time.After(s.firstDelay):
	case <-stream.Context().Done():
		return stream.Context().Err()
	}
	err := stream.Send(&reflectionpb.ServerReflectionResponse{
		MessageResponse: &reflectionpb.ServerReflectionResponse_ListServicesResponse{
			ListServicesResponse: &reflectionpb.ListServiceResponse{
				Service: []*reflectionpb.ServiceResponse{{Name: "c16.Slow"}},
			},
		},
	})
	if err != nil {
		return err
	}
	<-stream.Context().Done() // every further request stays unanswered until the client gives up
	return stream.Context().Err()
}

func newSlowTarget(firstDelay time.Duration) *slowTarget {
	s := &slowTarget{firstDelay: firstDelay, entered: make(chan struct{}, 1)}
	s.lis = bufconn.Listen(1 << 16)
	s.srv = grpc.NewServer()
	reflectionpb.RegisterServerReflectionServer(s.srv, s)
	go func() { _ = s.srv.Serve(s.lis) }()
	return s
}

func (s *slowTarget) dial(string, ...grpc.DialOption) (*grpc.ClientConn, error) {
	return grpc.NewClient("passthrough:///c16-slow",
		grpc.WithContextDialer(func(ctx context.Context, _ string) (net.Conn, error) { return s.lis.DialContext(ctx) }),
		grpc.WithTransportCredentials(insecure.NewCredentials()))
}

func (s *slowTarget) waitEntered() bool {
	select {
	case <-s.entered:
		return true
	case <-time.After(5 * time.Second):
		return false
	}
}

func (s *slowTarget) drain() {
	select {
	case <-s.entered:
	default:
	}
}

type nopWatcher struct{}

func (nopWatcher) UpdateDesc(*bridgedesc.Target) {}
func (nopWatcher) ReportError(error)             {}

// guardedLong is `guarded` with a limit that covers a removal waiting for a whole slow resolution.
func guardedLong(f func() string) string {
	ch := make(chan string, 1)
	go func() {
		defer func() {
			if r := recover(); r != nil {
				ch <- "panic"
			}
		}()
		ch <- f()
	}()
	select {
	case s := <-ch:
		return s
	case <-time.After(60 * time.Second):
		return "hang"
	}
}

// slowScenario is shared by both levels: add/build, remove/close while resolving, observe, again, census.
func slowScenario(tgt *slowTarget, at, obs time.Duration, rmTok, rm2Tok string,
	add func() string, remove func() string, cleanup func(),
) string {
	base := goroutineIDs()
	var out []string
	abort := func() string {
		contaminated.Store(true)
		go tgt.srv.Stop()
		return fmt.Sprint(joinToks(out), " aborted")
	}

	if r := guarded(add); r != "ok" {
		out = append(out, "add="+r)
		return abort()
	}
	if !tgt.waitEntered() {
		out = append(out, "add=never-polled")
		return abort()
	}
	time.Sleep(at)

	// the removal under test, with a resolution in flight (or just finished, depending on `at`)
	r := guardedLong(remove)
	out = append(out, rmTok+"="+r)
	if r == "hang" || r == "panic" {
		return abort()
	}
	atReturn := tgt.streams.Load()
	waitFor(leakTimeout, func() bool { return countPollers(base) == 0 })
	time.Sleep(obs)
	out = append(out, fmt.Sprintf("pollers=%d", countPollers(base)), fmt.Sprintf("late=%d", tgt.streams.Load()-atReturn))

	// the same name again: exactly one poller, exactly one reflection stream
	tgt.drain()
	atReadd := tgt.streams.Load()
	r = guarded(add)
	out = append(out, "readd="+r)
	if r != "ok" {
		return abort()
	}
	p2 := countPollers(base)
	entered := tgt.waitEntered()
	// one poller starts its next resolution no earlier than the poll interval (>= 1 s) after the previous one:
	// within 600 ms of the first stream exactly one stream can have arrived
	time.Sleep(min(obs, 600*time.Millisecond))
	out = append(out, fmt.Sprintf("pollers2=%d", p2), fmt.Sprintf("streams2=%d", tgt.streams.Load()-atReadd))
	if !entered {
		out = append(out, "readd-never-polled")
	}

	// stop the target while the new resolution is in flight: it fails at once and the last removal is quick
	tgt.srv.Stop()
	r = guardedLong(remove)
	out = append(out, rm2Tok+"="+r)
	if r == "hang" {
		return abort()
	}
	if cleanup != nil {
		guarded(func() string { cleanup(); return "ok" })
	}
	_ = tgt.lis.Close()
	var left []gor
	waitFor(leakTimeout, func() bool { left = leaked(base); return len(left) == 0 })
	if len(left) > 0 {
		contaminated.Store(true)
		if os.Getenv("C16_DEBUG") != "" {
			for _, g := range left {
				fmt.Fprintln(os.Stderr, "left:", g.stack)
			}
		}
	}
	out = append(out, fmt.Sprintf("leak=%d", len(left)))
	return joinToks(out)
}

func joinToks(t []string) string {
	s := ""
	for i, x := range t {
		if i > 0 {
			s += " "
		}
		s += x
	}
	return s
}

func msArgs(f []string, n int) ([]int, bool) {
	if len(f) != n+1 {
		return nil, false
	}
	v := make([]int, n)
	for i := range v {
		x, err := strconv.Atoi(f[i+1])
		if err != nil || x < 0 || x > 60000 {
			return nil, false
		}
		v[i] = x
	}
	return v, true
}

func ms(x int) time.Duration { return time.Duration(x) * time.Millisecond }

// execSlowRouter: slowrr <firstDelayMs> <removeAtMs> <poll> <obsMs>
func execSlowRouter(f []string) string {
	v, ok := msArgs(f, 4)
	if !ok {
		return "BADOP"
	}
	tgt := newSlowTarget(ms(v[0]))
	opts := []grpcbridge.RouterOption{grpcbridge.WithConnFunc(tgt.dial)}
	if v[2] == 1 {
		opts = append(opts, grpcbridge.WithReflectionPollInterval(time.Second))
	} else {
		opts = append(opts, grpcbridge.WithDisabledReflectionPolling())
	}
	rr := grpcbridge.NewReflectionRouter(opts...)
	add := func() string {
		if ok, err := rr.Add("slow", "c16-slow"); !ok || err != nil {
			return "err"
		}
		return "ok"
	}
	remove := func() string {
		if rr.Remove("slow") {
			return "t"
		}
		return "f"
	}
	return slowScenario(tgt, ms(v[1]), ms(v[3]), "rm", "rm2", add, remove, nil)
}

// execSlowResolver: slowres <reqTimeoutMs> <firstDelayMs> <closeAtMs> <poll> <obsMs>
func execSlowResolver(f []string) string {
	v, ok := msArgs(f, 5)
	if !ok || v[0] < 1 {
		return "BADOP"
	}
	tgt := newSlowTarget(ms(v[1]))
	pool := grpcadapter.NewAdaptedClientPool(grpcadapter.AdaptedClientPoolOpts{NewClientFunc: tgt.dial})
	ctrl, err := pool.New("slow", "c16-slow")
	if err != nil {
		return "add=pool-err aborted"
	}
	ropts := reflection.ResolverOpts{ReqTimeout: ms(v[0])}
	if v[3] == 1 {
		ropts.PollInterval = time.Second
	} else {
		ropts.PollManually = true
	}
	builder := reflection.NewResolverBuilder(pool, ropts)
	var cur *reflection.Resolver
	add := func() string { cur = builder.Build("slow", nopWatcher{}); return "ok" }
	remove := func() string { cur.Close(); return "ok" }
	return slowScenario(tgt, ms(v[2]), ms(v[4]), "close", "close2", add, remove, ctrl.Close)
}
