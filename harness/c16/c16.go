// Package c16 is the correspondence area of property C16 (stub: the slice is not built yet).
package c16

import (
	"math/rand"
)

type Area struct{}

func (Area) Name() string { return "c16" }

func (Area) Exec(input string) string { return "UNIMPLEMENTED" }

func (Area) Gen(r *rand.Rand, tier string, emit func(string)) {}
