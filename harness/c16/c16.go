// Package c16 is the correspondence area of property C16 (targets can be added, removed and re-added cleanly).
//
// Two kinds of case lines, both executed on the REAL code:
//
//	rr   <cfg> <op>...   a history on a real grpcbridge.ReflectionRouter (WithConnFunc injects construction failures,
//	                     connections are real *grpc.ClientConn over bufconn to a real gRPC server)
//	pool <cfg> <op>...   a history on a real grpcadapter.AdaptedClientPool used directly (New / Get / controller Close)
//
//	conc <seed> <goroutines> <ops>   goroutines use one real AdaptedClientPool concurrently (see execConc)
//	slowrr / slowres …               removal while a slow reflection resolution is in flight (see slow.go)
//	addrm …                          Add(name) ‖ Remove(name) on a real router while the poller is busy (see addrm.go)
//	cstream / connrace / newrace …   AdaptedClientConn.Stream timing and context, Close racing Stream, New racing New (see conn.go)
//
// cfg = p<0|1>r<0|1>: p1 = reflection polling enabled (1s interval), p0 = WithDisabledReflectionPolling;
// r1 = the target server serves the reflection API, r0 = it does not (every resolution fails).
//
// ops (i = name index 0..3, k = index of the k-th successfully issued pool controller):
//
//	A<i>o|f|p  router.Add(name_i): connection construction ok | fails | Add is called with a per-target option
//	R<i>       router.Remove(name_i)
//	N<i>o|f    pool.New(name_i): construction ok | fails
//	K<k>       controller_k.Close()
//	G<i>       pool.Get(name_i); a usable result is kept as the caller's handle for name_i
//	S<i>       handle_i.Stream(...) (opened and closed again)
//	C<i>       open an in-flight call on handle_i (a stream on which the server never answers) and keep it
//
// output = one token per op, then "w=<resolver poller goroutines> n=<len(targets)> alive=<call ids>" observed
// after the history, then "leak=<goroutines left>" observed after removing every target / closing every controller.
// While the injected connection constructor runs it probes pool.Get(name) — the "~a|~u|~n" suffix
// (absent | usable | present-but-nil) is the pool lookup as seen mid-construction.
package c16

import (
	"context"
	"errors"
	"fmt"
	"math/rand"
	"net"
	"os"
	"os/exec"
	"path/filepath"
	"runtime"
	"sort"
	"strconv"
	"strings"
	"sync"
	"sync/atomic"
	"time"

	"github.com/renbou/grpcbridge"
	"github.com/renbou/grpcbridge/grpcadapter"
	"github.com/renbou/grpcbridge/routing"
	"google.golang.org/grpc"
	"google.golang.org/grpc/codes"
	"google.golang.org/grpc/credentials/insecure"
	"google.golang.org/grpc/reflection"
	"google.golang.org/grpc/status"
	"google.golang.org/grpc/test/bufconn"
	"google.golang.org/protobuf/types/known/emptypb"
)

type Area struct{}

func (Area) Name() string { return "c16" }

var names = []string{"alpha", "beta", "gamma", "delta"}

var errInjected = errors.New("c16: injected connection construction failure")

const waitMethod = "/c16.Svc/Wait"

const (
	opTimeout   = 20 * time.Second // an operation of the real code that takes longer is reported as "hang"
	endTimeout  = 3 * time.Second  // how long an in-flight call may take to end after its connection was removed
	leakTimeout = 3 * time.Second  // how long background goroutines may take to exit
)

// ---- goroutine accounting (runtime stack diff; no third-party dependency) ----

type gor struct {
	id    string
	stack string
}

func goroutines() []gor {
	buf := make([]byte, 1<<20)
	for {
		n := runtime.Stack(buf, true)
		if n < len(buf) {
			buf = buf[:n]
			break
		}
		buf = make([]byte, 2*len(buf))
	}
	var out []gor
	for _, blk := range strings.Split(string(buf), "\n\n") {
		blk = strings.TrimSpace(blk)
		if !strings.HasPrefix(blk, "goroutine ") {
			continue
		}
		rest := blk[len("goroutine "):]
		sp := strings.IndexByte(rest, ' ')
		if sp < 0 {
			continue
		}
		out = append(out, gor{id: rest[:sp], stack: blk})
	}
	return out
}

func goroutineIDs() map[string]bool {
	m := map[string]bool{}
	for _, g := range goroutines() {
		m[g.id] = true
	}
	return m
}

// countPollers counts the resolver poller goroutines started since the baseline was taken.
func countPollers(base map[string]bool) int {
	n := 0
	for _, g := range goroutines() {
		if base[g.id] {
			continue
		}
		// a goroutine that has not run yet shows only its "created by" line
		if strings.Contains(g.stack, "reflection.(*Resolver).watch") ||
			strings.Contains(g.stack, "created by github.com/renbou/grpcbridge/reflection.(*ResolverBuilder).Build") {
			n++
		}
	}
	return n
}

// leaked returns the goroutines that are neither in the baseline nor part of the harness frame.
func leaked(base map[string]bool) []gor {
	var out []gor
	for _, g := range goroutines() {
		if base[g.id] || strings.Contains(g.stack, "c16.goroutines") ||
			strings.Contains(g.stack, "c16.prefetch") || strings.Contains(g.stack, "os/exec.(*Cmd)") {
			continue
		}
		out = append(out, g)
	}
	return out
}

// patience: the first few waits that run into their time limit get the full limit; once the tree under
// test has shown that it leaves things behind, later waits are cut short so that a broken tree is
// reported in minutes instead of hours (a correct tree never exhausts a wait).
var slowHits int32

func patience(d time.Duration) time.Duration {
	if atomic.LoadInt32(&slowHits) >= 4 {
		return d / 60
	}
	return d
}

var warming atomic.Bool // during the warm-up histories nothing is waited for

func waitFor(d time.Duration, cond func() bool) bool {
	if warming.Load() {
		return cond()
	}
	d = patience(d)
	ok := waitFor0(d, cond)
	if !ok {
		atomic.AddInt32(&slowHits, 1)
	}
	return ok
}

func waitFor0(d time.Duration, cond func() bool) bool {
	deadline := time.Now().Add(d)
	for pause := 50 * time.Microsecond; ; pause *= 2 {
		if cond() {
			return true
		}
		if time.Now().After(deadline) {
			return false
		}
		if pause > 20*time.Millisecond {
			pause = 20 * time.Millisecond
		}
		time.Sleep(pause)
	}
}

// ---- environment of one history ----

type call struct {
	id   int
	conn grpcadapter.ClientConn
	st   grpcadapter.ClientStream
	done chan struct{}
	code codes.Code
}

type env struct {
	lis  *bufconn.Listener
	srv  *grpc.Server
	pool *grpcadapter.AdaptedClientPool
	rr   *grpcbridge.ReflectionRouter

	// set before each Add/New: what the injected constructor does and which name it probes
	fail      bool
	probeName string
	probe     string // result of the mid-construction pool lookup ("" = constructor not invoked)

	handles map[int]grpcadapter.ClientConn
	calls   []*call
	ctrls   []*grpcadapter.AdaptedClientPoolController
	ctrlCon []grpcadapter.ClientConn // the connection each issued controller owns (looked up right after New)
	live    int                      // successful Adds minus successful Removes, from the return values
}

var (
	statMu    sync.Mutex
	statCodes = map[string]int{} // how in-flight calls ended
	statOps   = map[string]int{}
	statLeak  []string
)

// Extra is copied into the evidence.
func (Area) Extra() map[string]any {
	statMu.Lock()
	defer statMu.Unlock()
	raceMu.Lock()
	rh := map[string]int{}
	for k, v := range raceHist {
		rh[k] = v
	}
	raceMu.Unlock()
	return map[string]any{"stream_vs_close_race_results": rh, "inflight_call_end_codes": statCodes, "op_result_histogram": statOps, "leak_samples": statLeak}
}

func newEnv(refl bool) *env {
	e := &env{handles: map[int]grpcadapter.ClientConn{}}
	e.lis = bufconn.Listen(1 << 16)
	e.srv = grpc.NewServer(grpc.UnknownServiceHandler(func(_ any, stream grpc.ServerStream) error {
		if m, _ := grpc.MethodFromServerStream(stream); m != waitMethod {
			return status.Error(codes.Unimplemented, "c16: unknown method") // e.g. reflection when r0
		}
		<-stream.Context().Done() // never answers: the call stays in flight until the client side ends it
		return status.Error(codes.Canceled, "c16: call ended")
	}))
	if refl {
		reflection.Register(e.srv)
	}
	go func() { _ = e.srv.Serve(e.lis) }()
	return e
}

func (e *env) connFunc(target string, _ ...grpc.DialOption) (*grpc.ClientConn, error) {
	// the pool lookup as another goroutine would see it while the connection is being constructed
	e.probe = e.getKind(e.probeName)
	if e.fail {
		return nil, errInjected
	}
	return grpc.NewClient("passthrough:///c16-bufnet",
		grpc.WithContextDialer(func(ctx context.Context, _ string) (net.Conn, error) { return e.lis.DialContext(ctx) }),
		grpc.WithTransportCredentials(insecure.NewCredentials()))
}

func isNilConn(c grpcadapter.ClientConn) bool {
	if c == nil {
		return true
	}
	if ac, ok := c.(*grpcadapter.AdaptedClientConn); ok && ac == nil {
		return true
	}
	return false
}

func (e *env) getKind(name string) string {
	c, ok := e.pool.Get(name)
	switch {
	case !ok:
		return "a"
	case isNilConn(c):
		return "n"
	default:
		return "u"
	}
}

func (e *env) get(i int) string {
	c, ok := e.pool.Get(names[i])
	switch {
	case !ok:
		return "absent"
	case isNilConn(c):
		return "nil"
	default:
		e.handles[i] = c
		return "usable"
	}
}

func codeTok(err error) string {
	switch c := status.Code(err); c {
	case codes.OK:
		return "ok"
	case codes.Unavailable:
		return "unavail"
	default:
		return "code" + strconv.Itoa(int(c))
	}
}

func (e *env) stream(i int, keep bool) string {
	h, ok := e.handles[i]
	if !ok {
		return "nohandle"
	}
	ctx, cancel := context.WithTimeout(context.Background(), 5*time.Second)
	defer cancel()
	st, err := h.Stream(ctx, waitMethod)
	if err != nil {
		return codeTok(err)
	}
	if !keep {
		st.Close()
		return "ok"
	}
	c := &call{id: len(e.calls), conn: h, st: st, done: make(chan struct{})}
	e.calls = append(e.calls, c)
	go func() {
		err := st.Recv(context.Background(), new(emptypb.Empty))
		c.code = status.Code(err)
		close(c.done)
	}()
	return "ok"
}

// waitEnded waits for the in-flight calls on conn to end; returns how many did not.
func (e *env) waitEnded(conn grpcadapter.ClientConn) int {
	stuck := 0
	for _, c := range e.calls {
		if c.conn != conn {
			continue
		}
		select {
		case <-c.done:
		case <-time.After(patience(endTimeout)):
			stuck++
			atomic.AddInt32(&slowHits, 1)
		}
	}
	return stuck
}

func (e *env) alive() string {
	var ids []string
	for _, c := range e.calls {
		select {
		case <-c.done:
		default:
			ids = append(ids, strconv.Itoa(c.id))
		}
	}
	if len(ids) == 0 {
		return "-"
	}
	return strings.Join(ids, ",")
}

func (e *env) add(i int, mode byte) string {
	e.fail, e.probeName, e.probe = mode == 'f', names[i], ""
	var opts []grpcbridge.RouterOption
	if mode == 'p' {
		opts = append(opts, grpcbridge.WithDialOpts())
	}
	ok, err := e.rr.Add(names[i], "c16-target-"+names[i], opts...)
	res := ""
	switch {
	case ok && err == nil:
		res = "ok"
		e.live++
	case ok || err == nil:
		res = "inconsistent" // (true, err) or (false, nil): never documented
	case errors.Is(err, errInjected):
		res = "conn"
	case errors.Is(err, grpcadapter.ErrAlreadyDialed):
		res = "dialed"
	case errors.Is(err, routing.ErrAlreadyWatching):
		res = "watch"
	case strings.Contains(err.Error(), "adding the same target twice"):
		res = "dup"
	case strings.Contains(err.Error(), "per-target option overrides"):
		res = "opts"
	default:
		res = "err"
	}
	if e.probe != "" {
		res += "~" + e.probe
	}
	return res
}

func (e *env) remove(i int) string {
	before, _ := e.pool.Get(names[i])
	if !e.rr.Remove(names[i]) {
		return "f"
	}
	e.live--
	stuck := 0
	if !isNilConn(before) {
		stuck = e.waitEnded(before)
	}
	return "t:" + strconv.Itoa(stuck)
}

func (e *env) poolNew(i int, mode byte) string {
	e.fail, e.probeName, e.probe = mode == 'f', names[i], ""
	ctrl, err := e.pool.New(names[i], "c16-target-"+names[i])
	res := ""
	switch {
	case err == nil && ctrl != nil:
		res = "ok"
		own, _ := e.pool.Get(names[i])
		e.ctrls = append(e.ctrls, ctrl)
		e.ctrlCon = append(e.ctrlCon, own)
	case err == nil:
		res = "inconsistent"
	case errors.Is(err, errInjected):
		res = "conn"
	case errors.Is(err, grpcadapter.ErrAlreadyDialed):
		res = "dialed"
	default:
		res = "err"
	}
	if e.probe != "" {
		res += "~" + e.probe
	}
	return res
}

func (e *env) ctrlClose(k int) string {
	if k >= len(e.ctrls) {
		return "nosuch"
	}
	conn := e.ctrlCon[k]
	e.ctrls[k].Close()
	stuck := 0
	if !isNilConn(conn) {
		stuck = e.waitEnded(conn)
	}
	return "closed:" + strconv.Itoa(stuck)
}

// guarded runs one operation of the real code; a panic becomes "panic", no return within opTimeout becomes "hang".
func guarded(f func() string) string {
	ch := make(chan string, 1)
	go func() {
		defer func() {
			if r := recover(); r != nil {
				ch <- "panic"
			}
		}()
		ch <- f()
	}()
	select {
	case s := <-ch:
		return s
	case <-time.After(opTimeout):
		return "hang"
	}
}

var warm sync.Once

// contaminated: a case left goroutines behind (or hung). Goroutines leaked by one case keep spawning others
// (pollers re-poll), which would be charged to later, innocent cases; from then on every case runs in a
// fresh child process so that each output stays a function of its input line alone.
var contaminated atomic.Bool

func execInChild(input string) (string, bool) { return execInChildOpt(input, true) }

// prefetch: the long, mostly sleeping scenarios (slow resolutions, timed connection attempts) are started in child
// processes when generation begins and run beside the other cases; Exec of such a line waits for its child. A child
// is a fresh process running exactly that line, so the output is the same function of the input as in-process.
var prefetched sync.Map // input line -> chan string

func prefetch(lines []string) {
	if os.Getenv("C16_CHILD") != "" || os.Getenv("C16_NO_PREFETCH") != "" {
		return
	}
	for _, l := range lines {
		ch := make(chan string, 1)
		if _, dup := prefetched.LoadOrStore(l, ch); dup {
			continue
		}
		go func(l string) {
			out, ok := execInChildOpt(l, false)
			if !ok {
				out = ""
			}
			ch <- out
		}(l)
	}
}

func execInChildOpt(input string, impatient bool) (string, bool) {
	exe, err := os.Executable()
	if err != nil {
		return "", false
	}
	dir, err := os.MkdirTemp("", "c16child")
	if err != nil {
		return "", false
	}
	defer os.RemoveAll(dir)
	rp := filepath.Join(dir, "replay.txt")
	if os.WriteFile(rp, []byte(input+"\n"), 0o644) != nil {
		return "", false
	}
	ctx, cancel := context.WithTimeout(context.Background(), 3*time.Minute)
	defer cancel()
	cmd := exec.CommandContext(ctx, exe, "-area", "c16", "-replay", rp, "-out", filepath.Join(dir, "out"))
	cmd.Env = append(os.Environ(), "C16_CHILD=1")
	if impatient {
		// these children only exist once the tree has shown that it leaves things behind: they wait briefly
		cmd.Env = append(cmd.Env, "C16_IMPATIENT=1")
	}
	if cmd.Run() != nil {
		return "", false
	}
	b, err := os.ReadFile(filepath.Join(dir, "out", "cases.txt"))
	if err != nil {
		return "", false
	}
	line := strings.TrimRight(string(b), "\n")
	i := strings.Index(line, " => ")
	if i < 0 || strings.Contains(line, "\n") {
		return "", false
	}
	return line[i+4:], true
}

func (a Area) Exec(input string) string {
	if ch, ok := prefetched.LoadAndDelete(strings.TrimSpace(input)); ok {
		if out := <-ch.(chan string); out != "" {
			return out
		}
	}
	if os.Getenv("C16_CHILD") == "" && contaminated.Load() {
		if out, ok := execInChild(input); ok {
			return out
		}
	}
	warm.Do(func() { // start lazily created process-wide goroutines before any baseline is taken
		if os.Getenv("C16_IMPATIENT") != "" {
			atomic.StoreInt32(&slowHits, 4)
		}
		base0 := goroutineIDs()
		warming.Store(true)
		execLine("rr p0r1 A0o G0 S0 R0")
		execLine("pool p0r0 N0o G0 S0 K0")
		warming.Store(false)
		// a tree that leaks already during the warm-up contaminates this process from the start
		if !waitFor(leakTimeout, func() bool { return len(leaked(base0)) == 0 }) {
			if os.Getenv("C16_DEBUG") != "" {
				for _, g := range leaked(base0) {
					fmt.Fprintln(os.Stderr, "after warm-up:", g.stack)
				}
			}
			contaminated.Store(true)
		}
	})
	return execLine(input)
}

// execConc: "conc <seed> <goroutines> <ops>" — goroutines use ONE real pool concurrently (New with succeeding and
// failing constructors, Get, Close of their own controllers, over two names). Whatever the schedule, the counts
// reported must all be zero: nil = lookups that were present-but-missing, panic = first Close of an own controller
// panicked, incons = after quiescence a name held by some goroutine is not usable / a name held by nobody is,
// stuck = after closing everything a name cannot be dialed again, leak = goroutines left.
func execConc(f []string) string {
	if len(f) != 4 {
		return "BADOP"
	}
	seed, e1 := strconv.ParseInt(f[1], 10, 64)
	ng, e2 := strconv.Atoi(f[2])
	nops, e3 := strconv.Atoi(f[3])
	if e1 != nil || e2 != nil || e3 != nil || ng < 1 || ng > 64 || nops < 1 {
		return "BADOP"
	}
	base := goroutineIDs()
	e := newEnv(false)
	var nilGets, panics int32
	lookup := func(name string) (grpcadapter.ClientConn, bool) {
		c, ok := e.pool.Get(name)
		if ok && isNilConn(c) {
			atomic.AddInt32(&nilGets, 1)
			return nil, false
		}
		return c, ok
	}
	e.pool = grpcadapter.NewAdaptedClientPool(grpcadapter.AdaptedClientPoolOpts{
		NewClientFunc: func(target string, _ ...grpc.DialOption) (*grpc.ClientConn, error) {
			mode, name, _ := strings.Cut(target, ":")
			lookup(name)
			runtime.Gosched()
			if mode == "fail" {
				return nil, errInjected
			}
			return grpc.NewClient("passthrough:///c16-bufnet",
				grpc.WithContextDialer(func(ctx context.Context, _ string) (net.Conn, error) { return e.lis.DialContext(ctx) }),
				grpc.WithTransportCredentials(insecure.NewCredentials()))
		},
	})
	cnames := names[:2]
	held := make([]map[string]*grpcadapter.AdaptedClientPoolController, ng)
	var wg sync.WaitGroup
	for gi := 0; gi < ng; gi++ {
		held[gi] = map[string]*grpcadapter.AdaptedClientPoolController{}
		wg.Add(1)
		go func(gi int) {
			defer wg.Done()
			r := rand.New(rand.NewSource(seed*1000 + int64(gi)))
			mine := held[gi]
			for i := 0; i < nops; i++ {
				name := cnames[r.Intn(len(cnames))]
				switch x := r.Intn(10); {
				case x < 4:
					mode := "ok"
					if r.Intn(3) == 0 {
						mode = "fail"
					}
					if _, have := mine[name]; have {
						continue
					}
					if c, err := e.pool.New(name, mode+":"+name); err == nil {
						mine[name] = c
					}
				case x < 8:
					lookup(name)
				default:
					if c, have := mine[name]; have {
						func() {
							defer func() {
								if recover() != nil {
									atomic.AddInt32(&panics, 1)
								}
							}()
							c.Close()
						}()
						delete(mine, name)
					}
				}
				if r.Intn(4) == 0 {
					runtime.Gosched()
				}
			}
		}(gi)
	}
	done := make(chan struct{})
	go func() { wg.Wait(); close(done) }()
	select {
	case <-done:
	case <-time.After(opTimeout):
		contaminated.Store(true)
		return "hang aborted"
	}
	incons, stuck := 0, 0
	for _, name := range cnames {
		holders := 0
		for gi := range held {
			if _, ok := held[gi][name]; ok {
				holders++
			}
		}
		_, ok := lookup(name)
		if holders > 1 || (holders == 1) != ok {
			incons++
		}
	}
	for gi := range held {
		for _, c := range held[gi] {
			func() {
				defer func() {
					if recover() != nil {
						atomic.AddInt32(&panics, 1)
					}
				}()
				c.Close()
			}()
		}
	}
	for _, name := range cnames {
		if _, ok := lookup(name); ok {
			incons++
		}
		c, err := e.pool.New(name, "ok:"+name)
		if err != nil {
			stuck++
			continue
		}
		c.Close()
	}
	e.srv.Stop()
	_ = e.lis.Close()
	var left []gor
	waitFor(leakTimeout, func() bool { left = leaked(base); return len(left) == 0 })
	if len(left) > 0 {
		contaminated.Store(true)
	}
	return fmt.Sprintf("nil=%d panic=%d incons=%d stuck=%d leak=%d", nilGets, panics, incons, stuck, len(left))
}

func execLine(input string) string {
	f := strings.Fields(input)
	if len(f) > 0 && f[0] == "conc" {
		return execConc(f)
	}
	if len(f) > 0 && f[0] == "addrm" {
		return execAddRm(f)
	}
	if len(f) > 0 && (f[0] == "cclose" || f[0] == "rclose") {
		return execCClose(f)
	}
	if len(f) > 0 && f[0] == "cstream" {
		return execCStream(f)
	}
	if len(f) > 0 && f[0] == "connrace" {
		return execConnRace(f)
	}
	if len(f) > 0 && f[0] == "newrace" {
		return execNewRace(f)
	}
	if len(f) > 0 && f[0] == "slowrr" {
		return execSlowRouter(f)
	}
	if len(f) > 0 && f[0] == "cidle" {
		return execCIdle(f)
	}
	if len(f) > 0 && f[0] == "cunreach" {
		return execCUnreach(f)
	}
	if len(f) > 0 && f[0] == "shareconn" {
		return execShareConn(f)
	}
	if len(f) > 0 && f[0] == "dial" {
		return execDial(f)
	}
	if len(f) > 0 && f[0] == "slowres" {
		return execSlowResolver(f)
	}
	if len(f) < 2 || (f[0] != "rr" && f[0] != "pool") || len(f[1]) != 4 {
		return "BADOP"
	}
	isRouter := f[0] == "rr"
	poll, refl := f[1][1] == '1', f[1][3] == '1'

	base := goroutineIDs()
	e := newEnv(refl)
	if isRouter {
		opts := []grpcbridge.RouterOption{grpcbridge.WithConnFunc(e.connFunc)}
		if poll {
			opts = append(opts, grpcbridge.WithReflectionPollInterval(time.Second))
		} else {
			opts = append(opts, grpcbridge.WithDisabledReflectionPolling())
		}
		e.rr = grpcbridge.NewReflectionRouter(opts...)
		e.pool = e.rr.VerifConnPool()
	} else {
		e.pool = grpcadapter.NewAdaptedClientPool(grpcadapter.AdaptedClientPoolOpts{NewClientFunc: e.connFunc})
	}

	var out []string
	hung := false
	for _, op := range f[2:] {
		if len(op) < 2 {
			return "BADOP"
		}
		idx, err := strconv.Atoi(strings.TrimRight(op[1:], "ofp"))
		if err != nil || (op[0] != 'K' && idx >= len(names)) {
			return "BADOP"
		}
		mode := op[len(op)-1]
		var tok string
		switch {
		case op[0] == 'A' && isRouter:
			tok = guarded(func() string { return e.add(idx, mode) })
		case op[0] == 'R' && isRouter:
			tok = guarded(func() string { return e.remove(idx) })
		case op[0] == 'N' && !isRouter:
			tok = guarded(func() string { return e.poolNew(idx, mode) })
		case op[0] == 'K' && !isRouter:
			tok = guarded(func() string { return e.ctrlClose(idx) })
		case op[0] == 'G':
			tok = guarded(func() string { return e.get(idx) })
		case op[0] == 'S':
			tok = guarded(func() string { return e.stream(idx, false) })
		case op[0] == 'C':
			tok = guarded(func() string { return e.stream(idx, true) })
		default:
			return "BADOP"
		}
		out = append(out, tok)
		statMu.Lock()
		statOps[string(op[0])+":"+strings.SplitN(tok, ":", 2)[0]]++
		statMu.Unlock()
		if tok == "hang" {
			hung = true
			break
		}
	}
	if hung {
		contaminated.Store(true)
		// the real code is stuck inside an operation: nothing further can be observed safely
		go e.srv.Stop()
		return strings.Join(append(out, "aborted"), " ")
	}

	// observations after the history
	if isRouter {
		waitFor(leakTimeout, func() bool { return countPollers(base) <= e.live })
		out = append(out, fmt.Sprintf("w=%d", countPollers(base)), fmt.Sprintf("n=%d", e.rr.VerifTargetCount()))
	}
	out = append(out, "alive="+e.alive())

	// teardown through the operations under test: remove every target / close every controller
	tearOK := guarded(func() string {
		if isRouter {
			for i := range names {
				e.remove(i)
			}
		} else {
			for k := range e.ctrls {
				func() {
					defer func() { _ = recover() }() // closed before by the history
					e.ctrlClose(k)
				}()
			}
		}
		return "ok"
	})
	stuckAtEnd := 0
	for _, c := range e.calls {
		select {
		case <-c.done:
		default:
			// a call still alive after every target is gone: on a connection that was never closed
			stuckAtEnd++
			c.st.Close()
			<-c.done
		}
		statMu.Lock()
		statCodes[c.code.String()]++
		statMu.Unlock()
	}
	e.srv.Stop()
	_ = e.lis.Close()
	var left []gor
	waitFor(leakTimeout, func() bool { left = leaked(base); return len(left) == 0 })
	if (len(left) > 0 || tearOK != "ok") && !warming.Load() {
		contaminated.Store(true)
	}
	if len(left) > 0 {
		statMu.Lock()
		if len(statLeak) < 3 {
			lines := strings.Split(left[0].stack, "\n")
			if len(lines) > 6 {
				lines = lines[:6]
			}
			statLeak = append(statLeak, input+" :: "+strings.Join(lines, " | "))
		}
		statMu.Unlock()
	}
	if tearOK != "ok" {
		out = append(out, "teardown="+tearOK)
	}
	out = append(out, fmt.Sprintf("leak=%d", len(left)+stuckAtEnd))
	return strings.Join(out, " ")
}

// ---- generator ----

func (Area) Gen(r *rand.Rand, tier string, emit func(string)) {
	cfgs := []string{"p0r1", "p0r0", "p1r1", "p1r0"}
	line := func(kind, cfg string, ops []string) { emit(kind + " " + cfg + " " + strings.Join(ops, " ")) }

	// the long, mostly sleeping scenarios run in child processes beside everything else (see prefetch)
	slowresQ := []string{
		"slowres 300 150 0 1 0", "slowres 300 150 60 1 1300", "slowres 300 150 120 0 0",
		"slowres 300 150 250 1 0", "slowres 300 100 700 1 0", "slowres 200 400 30 0 200",
	}
	slowT := []string{
		"slowres 300 150 30 1 2300", "slowres 500 100 0 0 0", "slowres 100 350 200 1 1200", "slowres 300 290 280 1 0",
		"slowres 1000 50 0 1 0", "slowres 300 150 449 1 0", "slowres 300 150 460 1 0",
		"slowrr 2000 0 1 1200", "slowrr 1000 500 0 0", "slowrr 3000 2500 1 0", "slowrr 500 2000 1 0",
	}
	cstreamQ := []string{
		"cstream 1600 ready 1", "cstream 1600 ready 0", "cstream 1600 hold1 1", "cstream 1600 hold3 0",
		"cstream 1600 refuse 0", "cstream 1600 hang 1", "cstream 0 hold1 0", "cstream 0 ready 1",
	}
	cstreamT := []string{
		"cstream 2000 hold1 0", "cstream 2000 hold3 1", "cstream 2000 refuse 1", "cstream 2000 hang 0",
		"cstream 1200 hold3 1", "cstream 1200 refuse 0", "cstream 2400 hold2 1", "cstream 0 hold2 1",
	}
	rcloseT := []string{"rclose 30000 refuse 4", "rclose 0 hang 3"}
	// unreachable / dying targets with the REAL constructor (dial.go); `silent` costs ~15 s (10 s request timeout)
	dialQ := []string{
		"dial nocreds 1 0", "dial badcfg 0 0", "dial closed 1 300", "dial closed 0 0", "dial bufrefuse 1 1200",
		"dial dies 1 1300", "dial dies 0 0", "dial silent 1 6000",
	}
	dialT := []string{
		"dial closed 1 2500", "dial bufrefuse 0 100", "dial dies 1 100", "dial dies 1 2600", "dial silent 0 200",
		"dial silent 1 11000", "dial nocreds 0 0", "dial badcfg 1 0",
	}
	idleQ := []string{"cidle restart 0", "cidle restart 8000", "cidle idletimeout 0", "cidle idletimeout 8000",
		"cunreach refuse 1200", "cunreach hang 1200"}
	pre := append(append(append(append([]string{"slowrr 1500 50 1 0"}, slowresQ...), cstreamQ...), dialQ...), idleQ...)
	if tier == "thorough" {
		pre = append(append(append(append(pre, slowT...), cstreamT...), rcloseT...), dialT...)
	}
	prefetch(pre)
	// the ~12 s router-level lines are emitted last, so that everything else runs while their children do
	emitNow := emit
	var late []string
	emit = func(l string) {
		if strings.HasPrefix(l, "slowrr ") || strings.HasPrefix(l, "rclose ") || (strings.HasPrefix(l, "dial ") && !strings.Contains(l, "nocreds") && !strings.Contains(l, "badcfg")) {
			late = append(late, l)
			return
		}
		emitNow(l)
	}
	defer func() {
		for _, l := range late {
			emitNow(l)
		}
	}()

	// 0. short lines that must be reported even when a wait loop never ends: unreachable target with a deadline (idle.go),
	// and removal of targets whose underlying client is already closed (dial.go, seeded C16-m11)
	for _, l := range idleQ {
		if strings.HasPrefix(l, "cunreach ") {
			emit(l)
		}
	}
	for _, l := range []string{"shareconn shared 0", "shareconn shared 1", "shareconn preclosed 0", "shareconn preclosed 1"} {
		emit(l)
	}

	// 1. hand-written edge cases (the D17 witness first)
	for _, h := range []string{
		"A0f A0o G0", "A0f G0", "A0f A0f A0o R0 A0o", "A0o R0 A0o R0 A0o", "A0o A0o A0f A0p R0 R0",
		"A0o G0 C0 C0 R0 S0 G0", "A0o G0 R0 A0o S0 G0 S0", "A0o A1o G0 G1 C0 C1 R0 S0 S1", "A0p A0o A0p",
		"A0o A1f A2o R1 A1o R0 R2 R1", "R0 G0 S0 C0", "A0o G0 C0 A1o G1 C1 R1 R0",
	} {
		for _, c := range cfgs {
			line("rr", c, strings.Fields(h))
		}
	}
	for _, h := range []string{
		"N0f N0o G0", "N0f G0", "N0o K0 N0o K1", "N0o N0o K0 K0", "N0o G0 C0 K0 S0 G0", "N0o G0 K0 N0o S0 G0 S0",
		"N0o N1f N1o G1 C1 K1 K0", "K0 G0 S0", "N0o K0 K0", "N0f N0f N0o K0 N0f N0o",
	} {
		line("pool", "p0r0", strings.Fields(h))
	}

	// 1b. removal while a slow reflection resolution is in flight (see slow.go). Resolver level (request timeout
	// 300 ms, < 2 s each): closed 0/60/120 ms into a 450 ms resolution (the rest outlasts one request timeout),
	// during the second request (rest shorter than a timeout), and when the poller is idle; with and without polling,
	// with and without an observation window longer than the poll interval.
	for _, l := range slowresQ {
		emit(l)
	}
	// 1c. AdaptedClientConn in detail (conn.go): Stream against controlled connectivity with the halved wait, the
	// deadline the target is told, Close racing Stream; and pool.New racing itself.
	for _, l := range cstreamQ {
		emit(l)
	}
	// Close while Streams WAIT on a not-ready connection (dial blocked / failing): they must all return at once
	for _, l := range []string{
		"cclose 8000 hang 6", "cclose 8000 refuse 6", "cclose 0 hang 3", "cclose 0 refuse 4", "cclose 8000 hang 1", "cclose 8000 refuse 2",
	} {
		emit(l)
	}
	if tier == "thorough" {
		for k := 0; k < 30; k++ {
			emit(fmt.Sprintf("cclose %d %s %d", []int{0, 8000, 20000}[r.Intn(3)], []string{"hang", "refuse"}[k%2], 1+r.Intn(12)))
		}
		// through ReflectionRouter.Remove with the backend down (Remove first waits 5–10 s for the resolver's own attempt)
		for _, l := range rcloseT {
			emit(l)
		}
	}
	nrace := 25
	if tier == "thorough" {
		nrace = 300
		for _, l := range cstreamT {
			emit(l)
		}
	}
	for k := 0; k < nrace; k++ {
		emit(fmt.Sprintf("connrace %d %d", r.Intn(1_000_000), 2+r.Intn(10)))
		emit(fmt.Sprintf("newrace %d %d", r.Intn(1_000_000), 2+r.Intn(7)))
	}

	// 1d. Add(name) ‖ Remove(name) on a real router while the name's poller is busy (addrm.go)
	nar := 6
	if tier == "thorough" {
		nar = 40
	}
	for k := 0; k < nar; k++ {
		emit(fmt.Sprintf("addrm %d %d %d %d", r.Intn(1_000_000), 6+r.Intn(6), 15+r.Intn(30), k%2))
	}

	// 1d'. the channel falls back to IDLE between two calls; unreachable target with a deadline (idle.go)
	for _, l := range idleQ {
		if !strings.HasPrefix(l, "cunreach ") {
			emit(l)
		}
	}
	// 1e. unreachable / dying targets through the real grpc.NewClient (dial.go)
	for _, l := range dialQ {
		emit(l)
	}
	if tier == "thorough" {
		for _, l := range dialT {
			emit(l)
		}
	}

	// Router level: the request timeout is the fixed 10 s default, one case costs 11–13 s.
	emit("slowrr 1500 50 1 0")
	if tier == "thorough" {
		for _, l := range slowT {
			emit(l)
		}
	}

	// 2. every history up to a small length over a small alphabet
	rrAlpha := []string{"A0o", "A0f", "R0", "G0", "S0", "A1o", "R1"}
	plAlpha := []string{"N0o", "N0f", "K0", "K1", "G0", "S0"}
	maxLen := 3
	if tier == "thorough" {
		maxLen = 4
	}
	var rec func(kind, cfg string, alpha, prefix []string)
	rec = func(kind, cfg string, alpha, prefix []string) {
		if len(prefix) > 0 {
			line(kind, cfg, prefix)
		}
		if len(prefix) == maxLen {
			return
		}
		for _, a := range alpha {
			rec(kind, cfg, alpha, append(append([]string{}, prefix...), a))
		}
	}
	rec("rr", "p0r1", rrAlpha, nil)
	rec("pool", "p0r0", plAlpha, nil)

	// 2b. concurrent use of one real pool (all counts must be zero whatever the schedule)
	nconc := 40
	if tier == "thorough" {
		nconc = 1000
	}
	for k := 0; k < nconc; k++ {
		emit(fmt.Sprintf("conc %d %d %d", r.Intn(1_000_000), 2+r.Intn(7), 20+r.Intn(200)))
	}

	// 3. seeded random histories, biased towards re-adding after failures/removals with calls in flight
	n, maxOps, nNames := 1200, 12, 3
	if tier == "thorough" {
		n, maxOps, nNames = 15000, 30, 4
	}
	for k := 0; k < n; k++ {
		cfg := common_pick(r, cfgs)
		router := r.Intn(4) != 0
		l := 1 + r.Intn(maxOps)
		var ops []string
		present := map[int]bool{}
		issued := 0
		var looked []int
		for j := 0; j < l; j++ {
			i := r.Intn(nNames)
			x := r.Intn(100)
			if len(present) == 0 && r.Intn(3) != 0 {
				x = r.Intn(30) // nothing there yet: mostly start by adding
			}
			pickPresent := func() {
				if len(present) > 0 && r.Intn(4) != 0 {
					keys := make([]int, 0, len(present))
					for k := range present {
						keys = append(keys, k)
					}
					sort.Ints(keys)
					i = keys[r.Intn(len(keys))]
				}
			}
			switch {
			case x < 30:
				m := "o"
				if y := r.Intn(10); y < 3 {
					m = "f"
				} else if y == 3 && router {
					m = "p"
				}
				if router {
					ops = append(ops, fmt.Sprintf("A%d%s", i, m))
				} else {
					ops = append(ops, fmt.Sprintf("N%d%s", i, m))
					if m == "o" && !present[i] {
						issued++
					}
				}
				if m == "o" {
					present[i] = true
				}
			case x < 50:
				if router {
					if len(present) > 0 && r.Intn(4) != 0 { // usually remove something that is there
						keys := make([]int, 0, len(present))
						for k := range present {
							keys = append(keys, k)
						}
						sort.Ints(keys)
						i = keys[r.Intn(len(keys))]
					}
					ops = append(ops, fmt.Sprintf("R%d", i))
					delete(present, i)
				} else {
					kk := r.Intn(issued + 1)
					ops = append(ops, fmt.Sprintf("K%d", kk))
					if r.Intn(3) == 0 {
						present = map[int]bool{} // lose track on purpose: some double closes and stale New
					}
				}
			case x < 62:
				if len(looked) > 0 && r.Intn(4) == 0 { // sometimes names that were looked up before
					i = looked[r.Intn(len(looked))]
				}
				if len(present) > 0 && r.Intn(3) != 0 { // and mostly names that are (believed) present
					keys := make([]int, 0, len(present))
					for k := range present {
						keys = append(keys, k)
					}
					sort.Ints(keys)
					i = keys[r.Intn(len(keys))]
				}
				ops = append(ops, fmt.Sprintf("G%d", i))
				if present[i] {
					looked = append(looked, i)
				}
			case x < 82:
				if len(looked) > 0 && r.Intn(8) != 0 { // mostly on a kept connection (possibly of a removed target)
					i = looked[r.Intn(len(looked))]
				}
				ops = append(ops, fmt.Sprintf("S%d", i))
			case x < 90:
				if len(looked) > 0 && r.Intn(8) != 0 {
					i = looked[r.Intn(len(looked))]
				}
				ops = append(ops, fmt.Sprintf("C%d", i))
			default:
				pickPresent()
				ops = append(ops, fmt.Sprintf("G%d", i), fmt.Sprintf("C%d", i))
				if present[i] {
					looked = append(looked, i)
				}
			}
		}
		if router {
			line("rr", cfg, ops)
		} else {
			line("pool", cfg, ops)
		}
	}
}

func common_pick(r *rand.Rand, xs []string) string { return xs[r.Intn(len(xs))] }
