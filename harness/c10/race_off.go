//go:build !race

package c10

const raceBuild = false
