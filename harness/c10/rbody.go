package c10

// `rb` cases: response_body selection on NESTED response messages (round 5).
//
//	rb <schema> <msg> <path hex>  =>  <oracle> <ok:<body hex>|err:<code>> <ok:<stream hex>|err:<code>:<written hex>|nostream>
//
// schema = message types "M0;M1;…" (M0 = response type), each "name:type,name:type,…" ("-" = no fields); types:
// b i32 i64 u32 u64 s y (singular scalar), R<t> (repeated scalar), M<kt>/<t> (map<kt, scalar>), m<i> (singular
// sub-message Mi), r<i> (repeated Mi), p<i> (map<string, Mi>). The schema is built at run time (descriptorpb ->
// protodesc -> dynamicpb), never registered globally. msg = populated fields "a.b=cell;…" ("-" = empty): P = present
// sub-message, S<v> singular, L<v>,<v> list, K<k>~<v>,… map, O<n> = repeated / map-of message field with n elements.
// values: b0 b1 i<dec> s<x-hex> y<x-hex>.
//
// The REAL transcoder runs: StandardTranscoder.Bind(binding with ResponseBodyPath = path) -> response
// transcoder.Transcode(message). The oracle (output side) lists what protojson itself prints for every message-valued
// field reachable through singular sub-messages ("*" = whole message) — obtained by navigating protoreflect directly on a
// clone, before the transcoder touches the message, and independent of traverseFieldPath.

import (
	"bytes"
	"fmt"
	"math"
	"math/rand"
	"net/http"
	"net/url"
	"sort"
	"strconv"
	"strings"
	"unicode"

	"github.com/renbou/grpcbridge/bridgedesc"
	"github.com/renbou/grpcbridge/transcoding"
	"google.golang.org/grpc/status"
	"google.golang.org/protobuf/encoding/protojson"
	"google.golang.org/protobuf/proto"
	"google.golang.org/protobuf/reflect/protodesc"
	"google.golang.org/protobuf/reflect/protoreflect"
	"google.golang.org/protobuf/reflect/protoregistry"
	"google.golang.org/protobuf/types/descriptorpb"
	"google.golang.org/protobuf/types/dynamicpb"
	"verif/harness/common"
)

type rbField struct {
	name string
	ty   string
}

func rbParseSchema(s string) ([][]rbField, error) {
	var out [][]rbField
	for _, d := range strings.Split(s, ";") {
		var fs []rbField
		if d != "-" {
			for _, f := range strings.Split(d, ",") {
				nt := strings.SplitN(f, ":", 2)
				if len(nt) != 2 {
					return nil, fmt.Errorf("field %q", f)
				}
				fs = append(fs, rbField{nt[0], nt[1]})
			}
		}
		out = append(out, fs)
	}
	return out, nil
}

var rbScalarTypes = map[string]descriptorpb.FieldDescriptorProto_Type{
	"b": descriptorpb.FieldDescriptorProto_TYPE_BOOL, "i32": descriptorpb.FieldDescriptorProto_TYPE_INT32,
	"i64": descriptorpb.FieldDescriptorProto_TYPE_INT64, "u32": descriptorpb.FieldDescriptorProto_TYPE_UINT32,
	"u64": descriptorpb.FieldDescriptorProto_TYPE_UINT64, "s": descriptorpb.FieldDescriptorProto_TYPE_STRING,
	"y": descriptorpb.FieldDescriptorProto_TYPE_BYTES,
}

func rbCamel(n string) string {
	var b strings.Builder
	up := true
	for _, c := range n {
		if c == '_' {
			up = true
			continue
		}
		if up {
			b.WriteRune(unicode.ToUpper(c))
			up = false
		} else {
			b.WriteRune(c)
		}
	}
	return b.String()
}

func rbBuild(spec [][]rbField) (protoreflect.FileDescriptor, error) {
	fdp := &descriptorpb.FileDescriptorProto{
		Name: proto.String("rb.proto"), Package: proto.String("rb"), Syntax: proto.String("proto3"),
	}
	lbl := func(rep bool) *descriptorpb.FieldDescriptorProto_Label {
		if rep {
			return descriptorpb.FieldDescriptorProto_LABEL_REPEATED.Enum()
		}
		return descriptorpb.FieldDescriptorProto_LABEL_OPTIONAL.Enum()
	}
	for i, fs := range spec {
		md := &descriptorpb.DescriptorProto{Name: proto.String(fmt.Sprintf("M%d", i))}
		for n, f := range fs {
			fd := &descriptorpb.FieldDescriptorProto{Name: proto.String(f.name), Number: proto.Int32(int32(n + 1))}
			entry := func(keyT descriptorpb.FieldDescriptorProto_Type, val *descriptorpb.FieldDescriptorProto) {
				en := rbCamel(f.name) + "Entry"
				val.Name, val.Number, val.Label = proto.String("value"), proto.Int32(2), lbl(false)
				md.NestedType = append(md.NestedType, &descriptorpb.DescriptorProto{
					Name: proto.String(en),
					Field: []*descriptorpb.FieldDescriptorProto{
						{Name: proto.String("key"), Number: proto.Int32(1), Label: lbl(false), Type: keyT.Enum()}, val,
					},
					Options: &descriptorpb.MessageOptions{MapEntry: proto.Bool(true)},
				})
				fd.Label, fd.Type = lbl(true), descriptorpb.FieldDescriptorProto_TYPE_MESSAGE.Enum()
				fd.TypeName = proto.String(fmt.Sprintf(".rb.M%d.%s", i, en))
			}
			t := f.ty
			switch {
			case rbScalarTypes[t] != 0:
				fd.Label, fd.Type = lbl(false), rbScalarTypes[t].Enum()
			case t[0] == 'R' && rbScalarTypes[t[1:]] != 0:
				fd.Label, fd.Type = lbl(true), rbScalarTypes[t[1:]].Enum()
			case t[0] == 'M':
				kv := strings.SplitN(t[1:], "/", 2)
				if len(kv) != 2 || rbScalarTypes[kv[0]] == 0 || rbScalarTypes[kv[1]] == 0 {
					return nil, fmt.Errorf("type %q", t)
				}
				entry(rbScalarTypes[kv[0]], &descriptorpb.FieldDescriptorProto{Type: rbScalarTypes[kv[1]].Enum()})
			case t[0] == 'm' || t[0] == 'r' || t[0] == 'p':
				ref, err := strconv.Atoi(t[1:])
				if err != nil || ref < 0 || ref >= len(spec) {
					return nil, fmt.Errorf("type %q", t)
				}
				tn := proto.String(fmt.Sprintf(".rb.M%d", ref))
				if t[0] == 'p' {
					entry(descriptorpb.FieldDescriptorProto_TYPE_STRING, &descriptorpb.FieldDescriptorProto{
						Type: descriptorpb.FieldDescriptorProto_TYPE_MESSAGE.Enum(), TypeName: tn,
					})
				} else {
					fd.Label, fd.Type, fd.TypeName = lbl(t[0] == 'r'), descriptorpb.FieldDescriptorProto_TYPE_MESSAGE.Enum(), tn
				}
			default:
				return nil, fmt.Errorf("type %q", t)
			}
			md.Field = append(md.Field, fd)
		}
		fdp.MessageType = append(fdp.MessageType, md)
	}
	return protodesc.NewFile(fdp, nil)
}

func rbScalar(fd protoreflect.FieldDescriptor, v string) (protoreflect.Value, error) {
	if v == "" {
		return protoreflect.Value{}, fmt.Errorf("empty value")
	}
	switch v[0] {
	case 'b':
		return protoreflect.ValueOfBool(v == "b1"), nil
	case 'i':
		switch fd.Kind() {
		case protoreflect.Int32Kind:
			n, err := strconv.ParseInt(v[1:], 10, 32)
			return protoreflect.ValueOfInt32(int32(n)), err
		case protoreflect.Int64Kind:
			n, err := strconv.ParseInt(v[1:], 10, 64)
			return protoreflect.ValueOfInt64(n), err
		case protoreflect.Uint32Kind:
			n, err := strconv.ParseUint(v[1:], 10, 32)
			return protoreflect.ValueOfUint32(uint32(n)), err
		case protoreflect.Uint64Kind:
			n, err := strconv.ParseUint(v[1:], 10, 64)
			return protoreflect.ValueOfUint64(n), err
		}
	case 's':
		b, err := common.UnHex(v[1:])
		return protoreflect.ValueOfString(string(b)), err
	case 'y':
		b, err := common.UnHex(v[1:])
		return protoreflect.ValueOfBytes(b), err
	}
	return protoreflect.Value{}, fmt.Errorf("value %q for %s", v, fd.Kind())
}

// rbPopulate sets one "path=cell" entry.
func rbPopulate(root protoreflect.Message, entry string) error {
	pc := strings.SplitN(entry, "=", 2)
	if len(pc) != 2 || pc[1] == "" {
		return fmt.Errorf("entry %q", entry)
	}
	els := strings.Split(pc[0], ".")
	msg := root
	for _, e := range els[:len(els)-1] {
		fd := msg.Descriptor().Fields().ByName(protoreflect.Name(e))
		if fd == nil || fd.Message() == nil || fd.Cardinality() == protoreflect.Repeated {
			return fmt.Errorf("entry %q: %q", entry, e)
		}
		msg = msg.Mutable(fd).Message()
	}
	fd := msg.Descriptor().Fields().ByName(protoreflect.Name(els[len(els)-1]))
	if fd == nil {
		return fmt.Errorf("entry %q: no field", entry)
	}
	cell := pc[1]
	switch cell[0] {
	case 'P':
		msg.Mutable(fd)
	case 'S':
		v, err := rbScalar(fd, cell[1:])
		if err != nil {
			return err
		}
		msg.Set(fd, v)
	case 'L':
		l := msg.Mutable(fd).List()
		for _, x := range strings.Split(cell[1:], ",") {
			v, err := rbScalar(fd, x)
			if err != nil {
				return err
			}
			l.Append(v)
		}
	case 'K':
		m := msg.Mutable(fd).Map()
		for _, x := range strings.Split(cell[1:], ",") {
			kv := strings.SplitN(x, "~", 2)
			if len(kv) != 2 {
				return fmt.Errorf("map entry %q", x)
			}
			k, err := rbScalar(fd.MapKey(), kv[0])
			if err != nil {
				return err
			}
			v, err := rbScalar(fd.MapValue(), kv[1])
			if err != nil {
				return err
			}
			m.Set(k.MapKey(), v)
		}
	case 'O':
		n, err := strconv.Atoi(cell[1:])
		if err != nil {
			return err
		}
		// element i: an Mi value whose first scalar int/string field (if any) carries i+1, so elements differ
		fill := func(e protoreflect.Message, i int) {
			fs := e.Descriptor().Fields()
			for j := 0; j < fs.Len(); j++ {
				f := fs.Get(j)
				if f.Cardinality() == protoreflect.Repeated {
					continue
				}
				switch f.Kind() {
				case protoreflect.Int32Kind:
					e.Set(f, protoreflect.ValueOfInt32(int32(i+1)))
					return
				case protoreflect.StringKind:
					e.Set(f, protoreflect.ValueOfString(fmt.Sprintf("e%d", i+1)))
					return
				}
			}
		}
		if fd.IsMap() {
			m := msg.Mutable(fd).Map()
			for i := 0; i < n; i++ {
				e := m.NewValue()
				fill(e.Message(), i)
				m.Set(protoreflect.ValueOfString(fmt.Sprintf("k%d", i)).MapKey(), e)
			}
		} else {
			l := msg.Mutable(fd).List()
			for i := 0; i < n; i++ {
				e := l.NewElement()
				fill(e.Message(), i)
				l.Append(e)
			}
		}
	default:
		return fmt.Errorf("cell %q", cell)
	}
	return nil
}

var rbJSON = protojson.MarshalOptions{EmitDefaultValues: true}

// rbOracle: protojson's own rendering of every message-valued field reachable through singular sub-messages.
func rbOracle(types *dynamicpb.Types, msg protoreflect.Message, pre string, out *[]string) {
	opts := rbJSON
	opts.Resolver = types
	one := func(m protoreflect.Message) string {
		b, err := opts.Marshal(m.Interface())
		if err != nil {
			return "null"
		}
		return string(b)
	}
	if pre == "" {
		*out = append(*out, "*:"+common.HexS(one(msg)))
	}
	fs := msg.Descriptor().Fields()
	for i := 0; i < fs.Len(); i++ {
		fd := fs.Get(i)
		if fd.Message() == nil || (fd.IsMap() && fd.MapValue().Message() == nil) {
			continue
		}
		p := pre + string(fd.Name())
		switch {
		case fd.IsMap():
			var parts []string
			msg.Get(fd).Map().Range(func(k protoreflect.MapKey, v protoreflect.Value) bool {
				parts = append(parts, strconv.Quote(k.String())+":"+one(v.Message()))
				return true
			})
			sort.Strings(parts)
			*out = append(*out, p+":"+common.HexS("{"+strings.Join(parts, ",")+"}"))
		case fd.IsList():
			var parts []string
			l := msg.Get(fd).List()
			for j := 0; j < l.Len(); j++ {
				parts = append(parts, one(l.Get(j).Message()))
			}
			*out = append(*out, p+":"+common.HexS("["+strings.Join(parts, ",")+"]"))
		default:
			sub := msg.Get(fd).Message() // unset ⇒ empty read-only message
			*out = append(*out, p+":"+common.HexS(one(sub)))
			rbOracle(types, sub, p+".", out)
		}
	}
}

func execRb(f []string) string {
	if len(f) != 4 {
		return "BADLINE"
	}
	spec, err := rbParseSchema(f[1])
	if err != nil {
		return "BADSCHEMA " + common.HexS(err.Error())
	}
	file, err := rbBuild(spec)
	if err != nil {
		return "BADSCHEMA " + common.HexS(err.Error())
	}
	md := file.Messages().ByName("M0")
	files := new(protoregistry.Files) // a private registry: never the global one
	if err := files.RegisterFile(file); err != nil {
		return "BADSCHEMA " + common.HexS(err.Error())
	}
	types := dynamicpb.NewTypes(files)
	msg := dynamicpb.NewMessage(md)
	if f[2] != "-" {
		for _, e := range strings.Split(f[2], ";") {
			if err := rbPopulate(msg, e); err != nil {
				return "BADMSG " + common.HexS(err.Error())
			}
		}
	}
	path, err := common.UnHex(f[3])
	if err != nil {
		return "BADPATH"
	}
	var oracle []string
	rbOracle(types, proto.Clone(msg).ProtoReflect(), "", &oracle)

	target := &bridgedesc.Target{Name: "t", FileResolver: files, TypeResolver: types}
	tr := transcoding.NewStandardTranscoder(transcoding.StandardTranscoderOpts{})
	method := &bridgedesc.Method{RPCName: "/rb.S/M", Input: bridgedesc.DynamicMessage(md), Output: bridgedesc.DynamicMessage(md)}
	req := transcoding.HTTPRequest{
		Target: target, Service: &bridgedesc.Service{Name: "rb.S"}, Method: method,
		Binding:    &bridgedesc.Binding{HTTPMethod: "GET", Pattern: "/x", ResponseBodyPath: string(path)},
		RawRequest: &http.Request{Method: "GET", Header: http.Header{}, URL: &url.URL{Path: "/x"}},
		PathParams: map[string]string{},
	}
	_, out, err := tr.Bind(req)
	if err != nil {
		return "BINDFAIL"
	}
	forStream := proto.Clone(msg)
	res := ""
	if b, err := out.Transcode(msg); err != nil {
		res = "err:" + status.Code(err).String()
	} else {
		res = "ok:" + common.Hex(b)
	}
	// the same binding as a response STREAM (standardResponseStream: the marshaler's Encoder): the same message twice —
	// the second pass sees the sub-messages the first pass's Mutable materialised
	stream := "nostream"
	if rst, ok := out.(transcoding.ResponseStreamTranscoder); ok {
		var buf bytes.Buffer
		ts := rst.Stream(&buf)
		stream = ""
		for i := 0; i < 2 && stream == ""; i++ {
			if err := ts.Transcode(forStream); err != nil {
				stream = "err:" + status.Code(err).String() + ":" + common.Hex(buf.Bytes())
			}
		}
		if stream == "" {
			stream = "ok:" + common.Hex(buf.Bytes())
		}
	}
	return strings.Join(oracle, ";") + " " + res + " " + stream
}

/* ---------- generator ---------- */

var rbNames = []string{"a", "b", "c", "d", "sub", "val", "id", "items", "x1", "my_val", "deep_sub", "m"}

type rbGen struct {
	r    *rand.Rand
	spec [][]rbField
}

func (g *rbGen) schema() {
	n := 2 + g.r.Intn(3)
	g.spec = make([][]rbField, n)
	scal := []string{"b", "i32", "i64", "u32", "u64", "s", "y"}
	keys := []string{"s", "i32", "i64", "u32", "u64", "b"}
	for i := 0; i < n; i++ {
		k := 2 + g.r.Intn(4)
		perm := g.r.Perm(len(rbNames))
		for j := 0; j < k; j++ {
			name := rbNames[perm[j]]
			var ty string
			c := g.r.Intn(10)
			switch {
			case i+1 < n && c < 3:
				ty = fmt.Sprintf("m%d", i+1+g.r.Intn(n-i-1))
			case i+1 < n && c == 3:
				ty = fmt.Sprintf("r%d", i+1+g.r.Intn(n-i-1))
			case i+1 < n && c == 4:
				ty = fmt.Sprintf("p%d", i+1+g.r.Intn(n-i-1))
			case c == 5:
				ty = "R" + scal[g.r.Intn(len(scal))]
			case c == 6:
				ty = "M" + keys[g.r.Intn(len(keys))] + "/" + scal[g.r.Intn(len(scal))]
			default:
				ty = scal[g.r.Intn(len(scal))]
			}
			g.spec[i] = append(g.spec[i], rbField{name, ty})
		}
		if i == 0 && n > 1 { // the response type always has a nested chain to walk
			g.spec[0][0].ty = "m1"
		}
	}
}

func (g *rbGen) schemaTok() string {
	var ds []string
	for _, fs := range g.spec {
		if len(fs) == 0 {
			ds = append(ds, "-")
			continue
		}
		var xs []string
		for _, f := range fs {
			xs = append(xs, f.name+":"+f.ty)
		}
		ds = append(ds, strings.Join(xs, ","))
	}
	return strings.Join(ds, ";")
}

func (g *rbGen) scalar(t string) string {
	r := g.r
	switch t {
	case "b":
		return fmt.Sprintf("b%d", r.Intn(2))
	case "i32":
		return "i" + strconv.FormatInt([]int64{0, 1, -1, 7, math.MaxInt32, math.MinInt32, int64(r.Int31()) - 1<<30}[r.Intn(7)], 10)
	case "i64":
		return "i" + strconv.FormatInt([]int64{0, 1, -1, math.MaxInt64, math.MinInt64, 1 << 53, r.Int63() - 1<<62}[r.Intn(7)], 10)
	case "u32":
		return "i" + strconv.FormatUint([]uint64{0, 1, math.MaxUint32, uint64(r.Uint32())}[r.Intn(4)], 10)
	case "u64":
		return "i" + strconv.FormatUint([]uint64{0, 1, math.MaxUint64, 1 << 63, r.Uint64()}[r.Intn(5)], 10)
	case "s":
		return "s" + common.HexS([]string{"", "x", "hello world", "q\"uo\\te", "tab\there", "<&>", "é€😀", "a.b"}[r.Intn(8)])
	case "y":
		b := make([]byte, r.Intn(5))
		r.Read(b)
		return "y" + common.Hex(b)
	}
	return "b0"
}

// message entries for type i under prefix pre
func (g *rbGen) message(i int, pre string, out *[]string) {
	for _, f := range g.spec[i] {
		p := pre + f.name
		t := f.ty
		switch {
		case rbScalarTypes[t] != 0:
			if g.r.Intn(3) > 0 {
				*out = append(*out, p+"=S"+g.scalar(t))
			}
		case t[0] == 'R':
			if n := g.r.Intn(4); n > 0 {
				var xs []string
				for j := 0; j < n; j++ {
					xs = append(xs, g.scalar(t[1:]))
				}
				*out = append(*out, p+"=L"+strings.Join(xs, ","))
			}
		case t[0] == 'M':
			kv := strings.SplitN(t[1:], "/", 2)
			if n := g.r.Intn(3); n > 0 {
				seen := map[string]bool{}
				var xs []string
				for j := 0; j < n; j++ {
					k := g.scalar(kv[0])
					if kv[0] == "s" {
						k = "s" + common.HexS(fmt.Sprintf("k%d", j))
					}
					if seen[k] {
						continue
					}
					seen[k] = true
					xs = append(xs, k+"~"+g.scalar(kv[1]))
				}
				*out = append(*out, p+"=K"+strings.Join(xs, ","))
			}
		case t[0] == 'm':
			if g.r.Intn(5) < 3 {
				ref, _ := strconv.Atoi(t[1:])
				*out = append(*out, p+"=P")
				g.message(ref, p+".", out)
			}
		default:
			if n := g.r.Intn(3); n > 0 {
				*out = append(*out, fmt.Sprintf("%s=O%d", p, n))
			}
		}
	}
}

// every field path of the schema (through singular sub-messages, set or not), plus paths through other fields
func (g *rbGen) paths(i int, pre string, out *[]string) {
	for _, f := range g.spec[i] {
		p := pre + f.name
		*out = append(*out, p)
		switch f.ty[0] {
		case 'm':
			ref, _ := strconv.Atoi(f.ty[1:])
			g.paths(ref, p+".", out)
		case 'r', 'p':
			ref, _ := strconv.Atoi(f.ty[1:])
			if len(g.spec[ref]) > 0 {
				*out = append(*out, p+"."+g.spec[ref][0].name) // through a repeated / map field
			}
			*out = append(*out, p+".key", p+".value", p+".0")
		default:
			*out = append(*out, p+".x", p+".value")
		}
	}
}

func genRb(r *rand.Rand, tier string, emit func(string), count func(string)) {
	g := &rbGen{r: r}
	nSchemas := 40
	if tier == "thorough" {
		nSchemas = 250
	}
	// hand-made schema first: three levels, repeated and map of messages, JSON-name trap
	fixed := "sub:m1,id:i32,items:r2,by_key:p2,tags:Rs,counts:Ms/i64,my_val:s;deep_sub:m2,val:s,n:i64;a:i32,b:s"
	for si := 0; si <= nSchemas; si++ {
		var st string
		if si == 0 {
			g.spec, _ = rbParseSchema(fixed)
			st = fixed
		} else {
			g.schema()
			st = g.schemaTok()
		}
		for mi := 0; mi < 2; mi++ {
			var es []string
			if mi == 1 || si == 0 {
				g.message(0, "", &es)
			}
			mt := "-"
			if len(es) > 0 {
				mt = strings.Join(es, ";")
			}
			var ps []string
			g.paths(0, "", &ps)
			ps = append(ps, "", "*", ".", "..", "nope", "sub.nope", "*.a", "a.*")
			var all []string
			for _, p := range ps {
				all = append(all, p)
				switch r.Intn(8) {
				case 0:
					all = append(all, p+".")
				case 1:
					all = append(all, "."+p)
				case 2:
					all = append(all, strings.Replace(p, ".", "..", 1))
				case 3:
					all = append(all, p+"..")
				case 4:
					all = append(all, strings.ReplaceAll(p, "_v", "V"), strings.ReplaceAll(p, "_s", "S")) // JSON names
				case 5:
					all = append(all, p+" ", strings.ToUpper(p))
				}
			}
			seen := map[string]bool{}
			for _, p := range all {
				if seen[p] {
					continue
				}
				seen[p] = true
				emit(fmt.Sprintf("rb %s %s %s", st, mt, common.HexS(p)))
				count("rb")
			}
		}
	}
}
