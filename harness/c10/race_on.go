//go:build race

package c10

// raceBuild: this binary was built with -race (area c10race).
const raceBuild = true
