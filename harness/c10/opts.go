package c10

// `opts` cases: the ROOT constructor's option plumbing.
//
//	opts o=<options> ct=<hex list|-> acc=<hex list|-> sc=<ok|fail:<code>|sfail:<code>>
//	  => st=<status> ct=<hex|-> codec=<json|J|text|bin|plain|empty|?> ds=<code:msg|-> dm=<m:name:owner|-> pm=<…>
//
// builds grpcbridge.NewWebBridge(router, options…) — nothing else: the transcoder, its marshaler registry and the
// bridges are whatever the constructor makes of the options — and sends one request through WebBridge.ServeHTTP:
// a unary success, a unary failure before any byte (target status), a server-streaming failure before the first
// message. Options (comma separated, applied in this order; "-" = none):
//
//	M:nil | M:empty | M:<letters>   WithMarshalers(nil / []Marshaler{} / the listed marshalers)
//	D:nil | D:<letter>              WithDefaultMarshaler(nil / that marshaler)
//	L | F                           WithLogger / WithForwarder (do not concern the transcoder)
//
// marshalers: j = transcoding.DefaultJSONMarshaler, J = a second marshaler claiming application/json (marks its output
// with a leading 'J'), t = a custom text codec (application/x-verif-text, "T(" json ")"), b = the binary test double.
// The output says which codec produced the body (by its marker) and what the body decodes to with that codec.

import (
	"context"
	"encoding/json"
	"errors"
	"fmt"
	"io"
	"mime"
	"net/http/httptest"
	"strconv"
	"strings"

	"github.com/renbou/grpcbridge"
	"github.com/renbou/grpcbridge/bridgedesc"
	"github.com/renbou/grpcbridge/bridgelog"
	"github.com/renbou/grpcbridge/grpcadapter"
	"github.com/renbou/grpcbridge/routing"
	"github.com/renbou/grpcbridge/transcoding"
	"google.golang.org/genproto/googleapis/rpc/errdetails"
	spb "google.golang.org/genproto/googleapis/rpc/status"
	"google.golang.org/grpc/codes"
	"google.golang.org/grpc/status"
	"google.golang.org/protobuf/encoding/protojson"
	"google.golang.org/protobuf/proto"
	"google.golang.org/protobuf/reflect/protoreflect"
	"verif/harness/common"
)

const mimeText = "application/x-verif-text"

// wrapJSON is a marshaler that delegates to DefaultJSONMarshaler and marks its output.
type wrapJSON struct {
	mime   string
	prefix string
	suffix string
}

func (w wrapJSON) ContentType() (string, bool) { return w.mime, false }

func (w wrapJSON) Marshal(tr bridgedesc.TypeResolver, msg protoreflect.Message, fd protoreflect.FieldDescriptor) ([]byte, error) {
	b, err := transcoding.DefaultJSONMarshaler.Marshal(tr, msg, fd)
	if err != nil {
		return nil, err
	}
	return []byte(w.prefix + string(b) + w.suffix), nil
}

func (w wrapJSON) Unmarshal(tr bridgedesc.TypeResolver, b []byte, msg protoreflect.Message, fd protoreflect.FieldDescriptor) error {
	s := string(b)
	if !strings.HasPrefix(s, w.prefix) || !strings.HasSuffix(s, w.suffix) || len(s) < len(w.prefix)+len(w.suffix) {
		return errors.New("wrapJSON: malformed body")
	}
	return transcoding.DefaultJSONMarshaler.Unmarshal(tr, []byte(s[len(w.prefix):len(s)-len(w.suffix)]), msg, fd)
}

var optMarshalers = map[byte]transcoding.Marshaler{
	'j': transcoding.DefaultJSONMarshaler,
	'J': wrapJSON{mime: mimeJSON, prefix: "J"},
	't': wrapJSON{mime: mimeText, prefix: "T(", suffix: ")"},
	'b': pbMarshaler{},
}

func parseBridgeOptions(spec string) []grpcbridge.BridgeOption {
	var out []grpcbridge.BridgeOption
	if spec == "-" {
		return out
	}
	for _, tok := range strings.Split(spec, ",") {
		switch {
		case tok == "L":
			out = append(out, grpcbridge.WithLogger(bridgelog.Discard()))
		case tok == "F":
			out = append(out, grpcbridge.WithForwarder(grpcbridge.NewForwarder()))
		case tok == "M:nil":
			out = append(out, grpcbridge.WithMarshalers(nil))
		case tok == "M:empty":
			out = append(out, grpcbridge.WithMarshalers([]transcoding.Marshaler{}))
		case strings.HasPrefix(tok, "M:"):
			ms := []transcoding.Marshaler{}
			for i := 2; i < len(tok); i++ {
				m, ok := optMarshalers[tok[i]]
				if !ok {
					panic("bad marshaler letter in " + tok)
				}
				ms = append(ms, m)
			}
			out = append(out, grpcbridge.WithMarshalers(ms))
		case tok == "D:nil":
			out = append(out, grpcbridge.WithDefaultMarshaler(nil))
		case strings.HasPrefix(tok, "D:") && len(tok) == 3:
			m, ok := optMarshalers[tok[2]]
			if !ok {
				panic("bad marshaler letter in " + tok)
			}
			out = append(out, grpcbridge.WithDefaultMarshaler(m))
		default:
			panic("bad option " + tok)
		}
	}
	return out
}

// rootRouter: grpcbridge.Router over the same scripted target as the e2e cases.
type rootRouter struct{ fakeRouter }

func (r *rootRouter) RouteGRPC(context.Context) (grpcadapter.ClientConn, routing.GRPCRoute, error) {
	return nil, routing.GRPCRoute{}, status.Error(codes.Unimplemented, "verif: no gRPC routes")
}

// classify says which codec produced a body (by the codec's marker) and strips the marker.
func classify(ct string, body []byte) (codec string, inner []byte) {
	s := string(body)
	switch {
	case len(body) == 0:
		return "empty", nil
	case strings.HasPrefix(ct, "text/plain"):
		return "plain", body
	case strings.HasPrefix(s, "T(") && strings.HasSuffix(s, ")"):
		return "text", body[2 : len(body)-1]
	case s[0] == 'J':
		return "J", body[1:]
	case s[0] == 'P' || s[0] == 'F':
		return "bin", body
	case s[0] == '{' || s[0] == '"':
		return "json", body
	}
	return "?", body
}

func execOpts(f []string) string {
	if len(f) != 5 && len(f) != 6 {
		panic("opts line needs 5 or 6 fields")
	}
	meth, bpath := "POST", "*"
	if len(f) == 6 { // m=GET (bodiless binding) | m=GET* (binding with body)
		meth, bpath = kv(f[5], "m"), ""
		if strings.HasSuffix(meth, "*") {
			meth, bpath = meth[:len(meth)-1], "*"
		}
	}
	options := parseBridgeOptions(kv(f[1], "o"))
	cts, accs := hexList(kv(f[2], "ct")), hexList(kv(f[3], "acc"))
	scn := kv(f[4], "sc")
	sc := &scenario{rpc: "u", inj: "none", n: 1, ra: "n", rb: "o", tmo: "-", meth: meth, bpath: bpath}
	wantCode := 0
	switch {
	case scn == "ok":
	case strings.HasPrefix(scn, "fail:"), strings.HasPrefix(scn, "sfail:"):
		wantCode, _ = strconv.Atoi(scn[strings.IndexByte(scn, ':')+1:])
		sc.inj, sc.n = "target", 0
		sc.err = status.Error(codes.Code(wantCode), fmt.Sprintf("boom %d", wantCode))
		if scn[0] == 's' {
			sc.rpc = "s"
		}
	default:
		panic("bad scenario " + scn)
	}
	rec := &record{cancel: func() {}}
	router := &rootRouter{fakeRouter{sc: sc, rec: rec, conn: &fakeConn{sc: sc, rec: rec}}}
	bridge := grpcbridge.NewWebBridge(router, options...)

	req := httptest.NewRequest(meth, "/x", strings.NewReader(""))
	for _, v := range cts {
		req.Header.Add("Content-Type", v)
	}
	for _, v := range accs {
		req.Header.Add("Accept", v)
	}
	baseline := goroutines()
	w := httptest.NewRecorder()
	bridge.ServeHTTP(w, req)
	if !quiesce(baseline) {
		return "HANG " + common.HexS("goroutines started by the handler are still running after it returned")
	}
	res := w.Result()
	body, _ := io.ReadAll(res.Body)
	ctVals := res.Header["Content-Type"]
	ct := ""
	if len(ctVals) == 1 {
		ct = ctVals[0]
	}
	codec, inner := classify(ct, body)

	ds, dm := "-", "-"
	switch codec {
	case "json", "J", "text":
		var st spb.Status
		if protojson.Unmarshal(inner, &st) == nil && res.StatusCode != 200 {
			ds = fmt.Sprintf("%d:%s", st.Code, common.HexS(st.Message))
		}
		var ri errdetails.ResourceInfo
		if res.StatusCode == 200 && (protojson.UnmarshalOptions{}).Unmarshal(inner, &ri) == nil {
			dm = "m:" + common.HexS(ri.ResourceName) + ":" + common.HexS(ri.Owner)
		}
	case "bin":
		if inner[0] == 'P' {
			var st spb.Status
			if res.StatusCode != 200 && proto.Unmarshal(inner[1:], &st) == nil {
				ds = fmt.Sprintf("%d:%s", st.Code, common.HexS(st.Message))
			}
			var ri errdetails.ResourceInfo
			if res.StatusCode == 200 && proto.Unmarshal(inner[1:], &ri) == nil {
				dm = "m:" + common.HexS(ri.ResourceName) + ":" + common.HexS(ri.Owner)
			}
		}
	}
	pm := "-"
	if len(cts) > 0 {
		ps := make([]string, len(cts))
		for i, v := range cts {
			if mt, _, err := mime.ParseMediaType(v); err == nil {
				ps[i] = common.HexS(mt)
			} else {
				ps[i] = "!"
			}
		}
		pm = strings.Join(ps, ",")
	}
	_ = json.Valid
	return fmt.Sprintf("st=%d ct=%s codec=%s ds=%s dm=%s pm=%s", res.StatusCode, hexOrDash(ctVals, len(ctVals) > 0), codec, ds, dm, pm)
}

// ---------------------------------------------------------------------------------------------
// generator

var (
	optMarshalerLists = []string{"", "M:nil", "M:empty", "M:j", "M:t", "M:jt", "M:tj", "M:b", "M:jJ", "M:Jj", "M:jtb"}
	optDefaults       = []string{"", "D:nil", "D:j", "D:t", "D:b"}
	optCTs            = [][]string{nil, {mimeJSON}, {"application/json; charset=utf-8"}, {mimeText}, {mimePB}, {"img/png"}, {"img/png", mimeJSON}}
	optAccs           = [][]string{nil, {mimeJSON}, {mimeText}, {mimePB}, {"text/html"}, {"text/html", mimeText}}
	optScenarios      = []string{"ok", "fail:5", "sfail:14"}
)

func joinOpts(parts ...string) string {
	var out []string
	for _, p := range parts {
		if p != "" {
			out = append(out, p)
		}
	}
	if len(out) == 0 {
		return "-"
	}
	return strings.Join(out, ",")
}

func genOpts(emit func(string), count func(string)) {
	line := func(o string, ct, acc []string, sc string) {
		emit(fmt.Sprintf("opts o=%s ct=%s acc=%s sc=%s", o, hexListOut(ct), hexListOut(acc), sc))
		count("opts")
	}
	var lists []string
	for _, m := range optMarshalerLists {
		for _, d := range optDefaults {
			lists = append(lists, joinOpts(m, d))
			if m != "" && d != "" {
				lists = append(lists, joinOpts(d, m)) // the other order
			}
		}
	}
	// repeats (last wins), resets by nil, options that do not concern the transcoder in between
	lists = append(lists,
		"M:t,M:jt", "M:jt,M:t", "M:t,M:nil", "D:t,D:nil", "D:t,D:j", "D:j,D:t", "L,D:t,F", "F,M:t,L,D:b", "D:t,L,M:nil,F",
		"M:j,D:t,M:tb,D:nil", "L", "F,L")
	for _, o := range lists {
		for _, ct := range optCTs {
			for _, acc := range optAccs {
				for _, sc := range optScenarios {
					line(o, ct, acc, sc)
				}
			}
		}
	}
	// the HTTP method is not an input of the negotiation (seeded C10-m8): GET / HEAD / DELETE bound routes, bindings with
	// and without a body, under JSON and non-JSON default marshalers
	for _, o := range []string{"-", "D:t", "D:b", "M:jt", "M:jt,D:t", "M:tb,D:b", "M:t"} {
		for _, meth := range []string{"GET", "GET*", "HEAD", "DELETE", "DELETE*", "PUT*"} {
			for _, ct := range optCTs {
				for _, acc := range optAccs {
					for _, sc := range optScenarios {
						emit(fmt.Sprintf("opts o=%s ct=%s acc=%s sc=%s m=%s", o, hexListOut(ct), hexListOut(acc), sc, meth))
						count("opts.method")
					}
				}
			}
		}
	}
	// all 17 codes through the default configuration and through the one that exposes C10-m5
	for code := 1; code <= 16; code++ {
		for _, o := range []string{"-", "D:t"} {
			line(o, []string{mimeJSON}, []string{mimeJSON}, fmt.Sprintf("fail:%d", code))
			line(o, nil, []string{mimeJSON}, fmt.Sprintf("sfail:%d", code))
		}
	}
}
