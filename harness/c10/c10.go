// Package c10 is the correspondence area of property C10: gRPC outcomes map to the right HTTP
// status and a decodable error body.
//
// Three kinds of case lines (see lean/GB/C10/Driver.lean for the judge):
//
//	tbl <code>                  => <http>                    real grpc-gateway runtime.HTTPStatusFromCode ("extracted by execution")
//	cvt <rawerr>                => <code> <msg> <det> <http> real webbridge.errorStatus on a constructed error value
//	e2e rpc=… inj=… err=… …     => st=… ct=… …               one HTTP request through the REAL TranscodedHTTPBridge.ServeHTTP
//
// The e2e scenario runs the real bridge (real StandardTranscoder.Bind and bound transcoders, real
// ProxyForwarder, real JSONMarshaler) behind httptest with a fake router and a scripted target
// ClientConn. Errors are injected at the six origins of the property (router, bind, request decode,
// stream creation, target status, deadline) or arise naturally (unsupported Content-Type, SSE on a
// unary method, malformed body, bad response_body path, target EOF without response).
// The output carries the observable HTTP response plus "post-library inputs" the model cannot compute
// (mime.ParseMediaType results, the bytes / error text the bound response transcoder produced, the
// message of errors whose text is made inside grpcbridge or a library).
package c10

import (
	"context"
	"encoding/json"
	"errors"
	"fmt"
	"io"
	"math/rand"
	"mime"
	"net/http"
	"net/http/httptest"
	"runtime"
	"sort"
	"strconv"
	"strings"
	"sync"
	"unicode/utf8"

	gwruntime "github.com/grpc-ecosystem/grpc-gateway/v2/runtime"
	"github.com/renbou/grpcbridge/bridgedesc"
	"github.com/renbou/grpcbridge/grpcadapter"
	"github.com/renbou/grpcbridge/routing"
	"github.com/renbou/grpcbridge/transcoding"
	"github.com/renbou/grpcbridge/verifx"
	"github.com/renbou/grpcbridge/webbridge"
	"google.golang.org/genproto/googleapis/rpc/errdetails"
	spb "google.golang.org/genproto/googleapis/rpc/status"
	"google.golang.org/grpc/codes"
	"google.golang.org/grpc/metadata"
	"google.golang.org/grpc/status"
	"google.golang.org/protobuf/encoding/protojson"
	"google.golang.org/protobuf/proto"
	"google.golang.org/protobuf/reflect/protoreflect"
	"google.golang.org/protobuf/reflect/protoregistry"
	"google.golang.org/protobuf/types/known/anypb"
	"google.golang.org/protobuf/types/known/durationpb"
	"verif/harness/common"
)

type Area struct{}

func (Area) Name() string { return "c10" }

// ---------------------------------------------------------------------------------------------
// detail payloads: one fixed google.protobuf.Any per letter

const (
	mimeJSON = "application/json"
	mimePB   = "application/x-test-pb"
	mimeSSE  = "text/event-stream"
)

var (
	detailLetters = "rqumeb"
	detailAny     = map[byte]*anypb.Any{}
	targetTypes   = new(protoregistry.Types) // the TARGET's resolver: knows ErrorInfo and ResourceInfo only
)

func mustAny(m proto.Message) *anypb.Any {
	b, err := proto.MarshalOptions{Deterministic: true}.Marshal(m)
	if err != nil {
		panic(err)
	}
	return &anypb.Any{TypeUrl: "type.googleapis.com/" + string(m.ProtoReflect().Descriptor().FullName()), Value: b}
}

func init() {
	detailAny['r'] = mustAny(&errdetails.ErrorInfo{Reason: "R", Domain: "d.example"})                    // resolvable
	detailAny['q'] = mustAny(&errdetails.ResourceInfo{ResourceType: "t", ResourceName: "n", Owner: "o"}) // resolvable
	detailAny['u'] = mustAny(&errdetails.RetryInfo{RetryDelay: durationpb.New(3_000_000_000)})           // type unknown to the target
	detailAny['m'] = &anypb.Any{TypeUrl: detailAny['r'].TypeUrl, Value: []byte{0xff, 0xff, 0xff}}        // known type, malformed value
	detailAny['e'] = &anypb.Any{TypeUrl: "", Value: []byte{1}}                                           // value without a type URL
	detailAny['b'] = &anypb.Any{TypeUrl: "garbage", Value: nil}                                          // type URL that names nothing
	if err := targetTypes.RegisterMessage((&errdetails.ErrorInfo{}).ProtoReflect().Type()); err != nil {
		panic(err)
	}
	if err := targetTypes.RegisterMessage((&errdetails.ResourceInfo{}).ProtoReflect().Type()); err != nil {
		panic(err)
	}
}

func detailsOf(letters string) []*anypb.Any {
	var out []*anypb.Any
	for i := 0; i < len(letters); i++ {
		a, ok := detailAny[letters[i]]
		if !ok {
			panic("bad detail letter " + letters)
		}
		out = append(out, proto.Clone(a).(*anypb.Any))
	}
	return out
}

func lettersOf(ds []*anypb.Any) string {
	if len(ds) == 0 {
		return "-"
	}
	var sb strings.Builder
	for _, d := range ds {
		l := byte('?')
		for i := 0; i < len(detailLetters); i++ {
			if proto.Equal(d, detailAny[detailLetters[i]]) {
				l = detailLetters[i]
				break
			}
		}
		sb.WriteByte(l)
	}
	return sb.String()
}

func dashLetters(s string) string {
	if s == "-" {
		return ""
	}
	return s
}

// ---------------------------------------------------------------------------------------------
// error values:  <wrapper>/<wrapper>/…/<base>
//   base     S:<code>:<msg>:<letters>      error implementing GRPCStatus() (status.Status.Err(); custom type for code 0)
//            P:<msg>                       errors.New(msg)
//            B<http>:<code>:<msg>:<letters> error implementing GRPCStatus() and HTTPStatus() itself
//   wrapper  H<http>                       httperr.Status(http, inner)   (grpcbridge's own HTTPStatus() carrier)
//            W<prefix>                     fmt.Errorf("%s: %w", prefix, inner)

type directStatusErr struct{ st *status.Status }

func (e *directStatusErr) Error() string {
	return fmt.Sprintf("rpc error: code = %s desc = %s", e.st.Code(), e.st.Message())
}
func (e *directStatusErr) GRPCStatus() *status.Status { return e.st }

type bothErr struct {
	directStatusErr
	http int
}

func (e *bothErr) HTTPStatus() int { return e.http }

func buildStatus(code int, msg string, letters string) *status.Status {
	return status.FromProto(&spb.Status{Code: int32(code), Message: msg, Details: detailsOf(dashLetters(letters))})
}

func parseErr(spec string) error {
	parts := strings.Split(spec, "/")
	base := parts[len(parts)-1]
	var err error
	f := strings.Split(base, ":")
	switch {
	case base[0] == 'S' && len(f) == 4:
		code, _ := strconv.Atoi(f[1])
		st := buildStatus(code, string(common.MustUnHex(f[2])), f[3])
		if code == 0 {
			err = &directStatusErr{st}
		} else {
			err = st.Err()
		}
	case base[0] == 'P' && len(f) == 2:
		err = errors.New(string(common.MustUnHex(f[1])))
	case base[0] == 'B' && len(f) == 4:
		h, _ := strconv.Atoi(f[0][1:])
		code, _ := strconv.Atoi(f[1])
		err = &bothErr{directStatusErr{buildStatus(code, string(common.MustUnHex(f[2])), f[3])}, h}
	default:
		panic("bad error spec " + spec)
	}
	for i := len(parts) - 2; i >= 0; i-- {
		w := parts[i]
		switch w[0] {
		case 'H':
			h, _ := strconv.Atoi(w[1:])
			err = verifx.HTTPStatusError(h, err)
		case 'W':
			err = fmt.Errorf("%s: %w", string(common.MustUnHex(w[1:])), err)
		default:
			panic("bad error wrapper " + spec)
		}
	}
	return err
}

// ---------------------------------------------------------------------------------------------
// scenario

type scenario struct {
	rpc   string // u unary | s server-streaming | c client-streaming
	srv   bool   // upper-case rpc letter: through a real net/http server on loopback instead of a ResponseRecorder
	inj   string // none router bind decode create target deadline
	err   error
	gone  bool     // the client's request context is cancelled right before the injected error is produced
	ct    []string // Content-Type header lines (nil = absent)
	acc   []string // Accept header lines
	body  []byte
	rbp   string // response_body path
	tmo   string // grpc-timeout header ("-" = none)
	n     int    // number of response messages the target sends before its final status
	ra    string // response ResourceInfo.resource_name
	rb    string // response ResourceInfo.owner
	hdr   [][2]string
	trl   [][2]string
	allH  []string
	allT  []string
	prefH string
	prefT string
	meth  string // HTTP method of the request and of the binding (default POST)
	bpath string // request body path of the binding: "*" (whole body) or "" (bodiless binding)
}

func (sc *scenario) methodOr() string {
	if sc.meth == "" {
		return "POST"
	}
	return sc.meth
}

func (sc *scenario) bodyPathOr() string {
	if sc.meth == "" {
		return "*"
	}
	return sc.bpath
}

func kv(tok, key string) string {
	if !strings.HasPrefix(tok, key+"=") {
		panic("expected " + key + "= in " + tok)
	}
	return tok[len(key)+1:]
}

func hexList(s string) []string {
	if s == "-" {
		return nil
	}
	var out []string
	for _, p := range strings.Split(s, ",") {
		out = append(out, string(common.MustUnHex(p)))
	}
	return out
}

func hexPairs(s string) [][2]string {
	if s == "-" {
		return nil
	}
	var out [][2]string
	for _, p := range strings.Split(s, ",") {
		kvp := strings.Split(p, ":")
		out = append(out, [2]string{string(common.MustUnHex(kvp[0])), string(common.MustUnHex(kvp[1]))})
	}
	return out
}

func parseScenario(f []string) *scenario {
	if len(f) != 13 && len(f) != 14 {
		panic(fmt.Sprintf("e2e line needs 13 or 14 fields, got %d", len(f)))
	}
	sc := &scenario{meth: "POST", bpath: "*"}
	if len(f) == 14 { // meth=GET (bodiless binding) | meth=GET* (binding with body: "*")
		m := kv(f[13], "meth")
		sc.bpath = ""
		if strings.HasSuffix(m, "*") {
			m, sc.bpath = m[:len(m)-1], "*"
		}
		sc.meth = m
	}
	sc.rpc = kv(f[1], "rpc")
	if sc.rpc == "U" || sc.rpc == "S" || sc.rpc == "C" {
		sc.srv = true
		sc.rpc = strings.ToLower(sc.rpc)
	}
	sc.inj = kv(f[2], "inj")
	if e := kv(f[3], "err"); e != "-" {
		sc.err = parseErr(e)
	}
	sc.gone = kv(f[4], "gone") == "1"
	sc.ct = hexList(kv(f[5], "ct"))
	sc.acc = hexList(kv(f[6], "acc"))
	sc.body = common.MustUnHex(kv(f[7], "body"))
	sc.rbp = string(common.MustUnHex(kv(f[8], "rbp")))
	sc.tmo = kv(f[9], "tmo")
	sc.n, _ = strconv.Atoi(kv(f[10], "n"))
	resp := strings.Split(kv(f[11], "resp"), "/")
	sc.ra, sc.rb = string(common.MustUnHex(resp[0])), string(common.MustUnHex(resp[1]))
	md := strings.Split(kv(f[12], "md"), "/")
	if len(md) != 6 {
		panic("md needs 6 parts")
	}
	sc.hdr, sc.trl = hexPairs(md[0]), hexPairs(md[1])
	sc.allH, sc.allT = hexList(md[2]), hexList(md[3])
	sc.prefH, sc.prefT = string(common.MustUnHex(md[4])), string(common.MustUnHex(md[5]))
	return sc
}

// ---------------------------------------------------------------------------------------------
// recording of what happened inside (post-library inputs of the model)

type record struct {
	mu       sync.Mutex
	finalErr error    // the error value handed to writeError (router / Bind / Forward), if any
	natural  error    // error the REAL request transcoder returned for the body (before requestTranscodingError)
	trans    []string // one entry per Transcode call on the bound response transcoder: S|M , ok|er , hex
	cancel   context.CancelFunc
}

func (r *record) addTrans(kind string, b []byte, err error) {
	r.mu.Lock()
	defer r.mu.Unlock()
	if err != nil {
		r.trans = append(r.trans, kind+":er:"+common.HexS(err.Error()))
	} else {
		r.trans = append(r.trans, kind+":ok:"+common.Hex(b))
	}
}

// ---------------------------------------------------------------------------------------------
// test-double marshaler: proto wire format behind a one-byte marker (never empty, not streamable)

type pbMarshaler struct{}

func (pbMarshaler) ContentType() (string, bool) { return mimePB, true }

func (pbMarshaler) Marshal(_ bridgedesc.TypeResolver, msg protoreflect.Message, fd protoreflect.FieldDescriptor) ([]byte, error) {
	if fd == nil {
		b, err := proto.MarshalOptions{Deterministic: true}.Marshal(msg.Interface())
		if err != nil {
			return nil, err
		}
		return append([]byte{'P'}, b...), nil
	}
	if fd.Kind() == protoreflect.StringKind && !fd.IsList() {
		return append([]byte{'F'}, msg.Get(fd).String()...), nil
	}
	return nil, errors.New("pb: unsupported field kind")
}

func (pbMarshaler) Unmarshal(_ bridgedesc.TypeResolver, b []byte, msg protoreflect.Message, fd protoreflect.FieldDescriptor) error {
	if fd != nil || len(b) == 0 || b[0] != 'P' {
		return errors.New("pb: malformed body")
	}
	return proto.Unmarshal(b[1:], msg.Interface())
}

// ---------------------------------------------------------------------------------------------
// wrappers around the REAL transcoder (bind/decode injection points, recording)

type wrapTranscoder struct {
	real transcoding.HTTPTranscoder
	sc   *scenario
	rec  *record
}

func (t *wrapTranscoder) Bind(req transcoding.HTTPRequest) (transcoding.HTTPRequestTranscoder, transcoding.HTTPResponseTranscoder, error) {
	if t.sc.inj == "bind" {
		if t.sc.gone {
			t.rec.cancel()
		}
		t.rec.finalErr = t.sc.err
		return nil, nil, t.sc.err
	}
	in, out, err := t.real.Bind(req)
	if err != nil {
		t.rec.finalErr = err
		return nil, nil, err
	}
	win := &wrapReq{real: in, sc: t.sc, rec: t.rec}
	wout := &wrapResp{real: out, rec: t.rec}
	if st, ok := out.(transcoding.ResponseStreamTranscoder); ok {
		return win, &wrapRespStream{wrapResp: wout, st: st}, nil
	}
	return win, wout, nil
}

type wrapReq struct {
	real transcoding.HTTPRequestTranscoder
	sc   *scenario
	rec  *record
}

func (t *wrapReq) Transcode(b []byte, m proto.Message) error {
	if t.sc.inj == "decode" {
		if t.sc.gone {
			t.rec.cancel()
		}
		return t.sc.err
	}
	err := t.real.Transcode(b, m)
	if err != nil {
		t.rec.mu.Lock()
		t.rec.natural = err
		t.rec.mu.Unlock()
	}
	return err
}
func (t *wrapReq) ContentType() (string, bool) { return t.real.ContentType() }

type wrapResp struct {
	real transcoding.HTTPResponseTranscoder
	rec  *record
}

func (t *wrapResp) Transcode(m proto.Message) ([]byte, error) {
	b, err := t.real.Transcode(m)
	kind := "M"
	if m.ProtoReflect().Descriptor().FullName() == "google.rpc.Status" {
		kind = "S"
	}
	t.rec.addTrans(kind, b, err)
	return b, err
}
func (t *wrapResp) ContentType(m proto.Message) (string, bool) { return t.real.ContentType(m) }

type wrapRespStream struct {
	*wrapResp
	st transcoding.ResponseStreamTranscoder
}

func (t *wrapRespStream) Stream(w io.Writer) transcoding.TranscodedStream { return t.st.Stream(w) }

type recForwarder struct {
	real grpcadapter.Forwarder
	rec  *record
}

func (f *recForwarder) Forward(ctx context.Context, p grpcadapter.ForwardParams) error {
	err := f.real.Forward(ctx, p)
	f.rec.finalErr = err
	return err
}

// ---------------------------------------------------------------------------------------------
// fake router and scripted target

type fakeRouter struct {
	sc   *scenario
	rec  *record
	conn *fakeConn
	real grpcadapter.ClientConn // `create` cases: the real adapter instead of the scripted connection
}

var (
	resourceInfoMsg = bridgedesc.ConcreteMessage[errdetails.ResourceInfo]()
	theTarget       = &bridgedesc.Target{Name: "verif-target", TypeResolver: targetTypes}
	theService      = &bridgedesc.Service{Name: "verif.S"}
)

func (r *fakeRouter) RouteHTTP(req *http.Request) (grpcadapter.ClientConn, routing.HTTPRoute, error) {
	if r.sc.inj == "router" {
		r.rec.finalErr = r.sc.err
		return nil, routing.HTTPRoute{}, r.sc.err
	}
	m := &bridgedesc.Method{
		RPCName: "/verif.S/M", Input: resourceInfoMsg, Output: resourceInfoMsg,
		ClientStreaming: r.sc.rpc == "c", ServerStreaming: r.sc.rpc == "s",
	}
	var conn grpcadapter.ClientConn = r.conn
	if r.real != nil {
		conn = r.real
	}
	return conn, routing.HTTPRoute{
		Target: theTarget, Service: theService, Method: m,
		Binding: &bridgedesc.Binding{HTTPMethod: r.sc.methodOr(), Pattern: "/x", RequestBodyPath: r.sc.bodyPathOr(), ResponseBodyPath: r.sc.rbp},
	}, nil
}

type fakeConn struct {
	sc  *scenario
	rec *record
}

func (c *fakeConn) Close() {}
func (c *fakeConn) Stream(ctx context.Context, method string) (grpcadapter.ClientStream, error) {
	if c.sc.inj == "create" {
		if c.sc.gone {
			c.rec.cancel()
		}
		return nil, c.sc.err
	}
	return &fakeStream{sc: c.sc, rec: c.rec}, nil
}

type fakeStream struct {
	sc   *scenario
	rec  *record
	sent int
}

func pairsMD(p [][2]string) metadata.MD {
	md := metadata.MD{}
	for _, kv := range p {
		md.Append(kv[0], kv[1])
	}
	return md
}

func (s *fakeStream) Send(context.Context, proto.Message) error { return nil }
func (s *fakeStream) CloseSend()                                {}
func (s *fakeStream) Close()                                    {}
func (s *fakeStream) Header() metadata.MD {
	if s.sc.inj == "deadline" {
		return nil
	}
	return pairsMD(s.sc.hdr)
}

func (s *fakeStream) Trailer() metadata.MD {
	if s.sc.inj == "deadline" {
		return nil
	}
	return pairsMD(s.sc.trl)
}

func (s *fakeStream) Recv(ctx context.Context, m proto.Message) error {
	if s.sent < s.sc.n {
		s.sent++
		ri := m.(*errdetails.ResourceInfo)
		ri.ResourceName, ri.Owner = s.sc.ra, s.sc.rb
		return nil
	}
	switch s.sc.inj {
	case "target":
		if s.sc.gone {
			s.rec.cancel()
		}
		return s.sc.err
	case "deadline":
		<-ctx.Done() // a ctx-aware stream: returns what grpc-go's toRPCErr makes of the expired context
		return status.FromContextError(ctx.Err()).Err()
	}
	return io.EOF
}

// ---------------------------------------------------------------------------------------------
// Exec

func hexOrDash(vals []string, present bool) string {
	if !present {
		return "-"
	}
	h := make([]string, len(vals))
	for i, v := range vals {
		h[i] = common.HexS(v)
	}
	return strings.Join(h, ",")
}

func headerMap(h http.Header, skip map[string]bool) string {
	keys := []string{}
	for k := range h {
		if !skip[k] {
			keys = append(keys, k)
		}
	}
	if len(keys) == 0 {
		return "-"
	}
	sort.Strings(keys)
	out := []string{}
	for _, k := range keys {
		vs := make([]string, len(h[k]))
		for i, v := range h[k] {
			vs[i] = common.HexS(v)
		}
		out = append(out, common.HexS(k)+":"+strings.Join(vs, "|"))
	}
	return strings.Join(out, ",")
}

func describeErr(err error) string {
	if err == nil {
		return "-"
	}
	st, hs := webbridgeErrorStatus(err)
	return fmt.Sprintf("%d:%s:%s:%d", int(st.Code()), common.HexS(st.Message()), lettersOf(statusDetails(st)), hs)
}

func webbridgeErrorStatus(err error) (*status.Status, int) { return webbridge.VerifErrorStatus(err) }

func statusDetails(st *status.Status) []*anypb.Any { return st.Proto().GetDetails() }

func decodeStatus(ct string, body []byte) string {
	var st spb.Status
	switch ct {
	case mimeJSON:
		if err := (protojson.UnmarshalOptions{}).Unmarshal(body, &st); err != nil {
			return "-"
		}
	case mimePB:
		if len(body) == 0 || body[0] != 'P' || proto.Unmarshal(body[1:], &st) != nil {
			return "-"
		}
	default:
		return "-"
	}
	return fmt.Sprintf("%d:%s:%s", st.Code, common.HexS(st.Message), lettersOf(st.Details))
}

func decodeOneMessage(ct string, b []byte, wholeMessage bool) string {
	switch ct {
	case mimeJSON:
		if wholeMessage {
			var ri errdetails.ResourceInfo
			if err := (protojson.UnmarshalOptions{}).Unmarshal(b, &ri); err != nil {
				return "?"
			}
			return "m:" + common.HexS(ri.ResourceName) + ":" + common.HexS(ri.Owner)
		}
		var s string
		if err := json.Unmarshal(b, &s); err != nil {
			return "?"
		}
		return "s:" + common.HexS(s)
	case mimePB:
		if len(b) > 0 && b[0] == 'P' && wholeMessage {
			var ri errdetails.ResourceInfo
			if proto.Unmarshal(b[1:], &ri) != nil {
				return "?"
			}
			return "m:" + common.HexS(ri.ResourceName) + ":" + common.HexS(ri.Owner)
		}
		if len(b) > 0 && b[0] == 'F' && !wholeMessage {
			return "s:" + common.Hex(b[1:])
		}
	}
	return "?"
}

// decodeMessages reads the success body the way a client of this API would: one value for a unary
// call, newline-delimited values for a JSON stream, "data:" records for SSE.
func decodeMessages(sc *scenario, ct string, body []byte, sse bool) string {
	whole := sc.rbp == ""
	if sc.rpc != "s" {
		return decodeOneMessage(ct, body, whole)
	}
	var items []string
	if sse {
		recs := strings.Split(string(body), "\n\n")
		if recs[len(recs)-1] != "" {
			return "?"
		}
		for _, r := range recs[:len(recs)-1] {
			if !strings.HasPrefix(r, "data:") {
				return "?"
			}
			items = append(items, decodeOneMessage(ct, []byte(r[len("data:"):]), whole))
		}
	} else {
		lines := strings.Split(string(body), "\n")
		if lines[len(lines)-1] != "" {
			return "?"
		}
		for _, l := range lines[:len(lines)-1] {
			items = append(items, decodeOneMessage(ct, []byte(l), whole))
		}
	}
	if len(items) == 0 {
		return "-"
	}
	framing := "nl|" // newline-delimited values
	if sse {
		framing = "sse|" // "data:" records
	}
	return framing + strings.Join(items, ";")
}

func (Area) Exec(input string) string {
	f := strings.Fields(input)
	switch f[0] {
	case "tbl":
		c, _ := strconv.Atoi(f[1])
		return strconv.Itoa(gwruntime.HTTPStatusFromCode(codes.Code(c)))
	case "cvt":
		err := parseErr(f[1])
		st, hs := webbridge.VerifErrorStatus(err)
		return fmt.Sprintf("%d %s %s %d", int(st.Code()), common.HexS(st.Message()), lettersOf(statusDetails(st)), hs)
	case "rb":
		return execRb(f)
	case "seq":
		return execSeq(f)
	case "e2e", "opts", "strag", "create":
		return execIsolated(input) // in a worker subprocess: a runtime fatal error becomes "CRASH …", not a dead harness
	}
	return "BADOP"
}

func execE2E(sc *scenario) string {
	rec := &record{}
	conn := &fakeConn{sc: sc, rec: rec}
	router := &fakeRouter{sc: sc, rec: rec, conn: conn}
	realTc := transcoding.NewStandardTranscoder(transcoding.StandardTranscoderOpts{
		Marshalers: []transcoding.Marshaler{transcoding.DefaultJSONMarshaler, pbMarshaler{}},
	})
	fwd := grpcadapter.NewProxyForwarder(grpcadapter.ProxyForwarderOpts{
		Filter: grpcadapter.NewProxyMDFilter(grpcadapter.ProxyMDFilterOpts{
			AllowResponseMD: sc.allH, PrefixResponseMD: sc.prefH,
			AllowTrailerMD: sc.allT, PrefixTrailerMD: sc.prefT,
		}),
	})
	bridge := webbridge.NewTranscodedHTTPBridge(router, webbridge.TranscodedHTTPBridgeOpts{
		Transcoder: &wrapTranscoder{real: realTc, sc: sc, rec: rec},
		Forwarder:  &recForwarder{real: fwd, rec: rec},
	})

	req := httptest.NewRequest(sc.methodOr(), "/x", strings.NewReader(string(sc.body)))
	for _, v := range sc.ct {
		req.Header.Add("Content-Type", v)
	}
	for _, v := range sc.acc {
		req.Header.Add("Accept", v)
	}
	if sc.tmo != "-" {
		req.Header.Set("Grpc-Timeout", sc.tmo)
	}
	ctx, cancel := context.WithCancel(req.Context())
	defer cancel()
	rec.cancel = cancel
	req = req.WithContext(ctx)
	if sc.gone && sc.inj == "router" {
		cancel()
	}

	var res *http.Response
	var body []byte
	late := 0
	if sc.srv && !sc.gone && sc.methodOr() != "HEAD" {
		// the same request over TCP through net/http's server and client (no client-side cancellation here)
		srv := httptest.NewServer(bridge)
		defer srv.Close()
		creq, err := http.NewRequest(sc.methodOr(), srv.URL+"/x", strings.NewReader(string(sc.body)))
		if err != nil {
			return "SRVERR " + common.HexS(err.Error())
		}
		creq.Header = req.Header.Clone()
		creq.Header["Accept-Encoding"] = []string{"identity"}
		cres, err := srv.Client().Do(creq)
		if err != nil {
			return "SRVERR " + common.HexS(err.Error())
		}
		body, _ = io.ReadAll(cres.Body)
		cres.Body.Close()
		res = cres
		for _, k := range []string{"Date", "Content-Length"} {
			res.Header.Del(k)
		}
	} else {
		baseline := runtime.NumGoroutine()
		lw := &lateWriter{rec: httptest.NewRecorder()}
		bridge.ServeHTTP(lw, req)
		lw.markReturned()
		// goroutines the bridge left behind (withCtx) must be done before the recorder is read
		if !quiesce(baseline) {
			return "HANG " + common.HexS("goroutines started by the handler are still running after it returned")
		}
		late = int(lw.late.Load())
		res = lw.rec.Result()
		body, _ = io.ReadAll(res.Body)
	}
	ctVals, ctPresent := res.Header["Content-Type"]
	xcto, xctoPresent := res.Header["X-Content-Type-Options"]
	ct := ""
	if len(ctVals) == 1 {
		ct = ctVals[0]
	}
	// post-library input: mime.ParseMediaType of every Content-Type request header line
	pm := "-"
	if len(sc.ct) > 0 {
		ps := make([]string, len(sc.ct))
		for i, v := range sc.ct {
			if mt, _, err := mime.ParseMediaType(v); err == nil {
				ps[i] = common.HexS(mt)
			} else {
				ps[i] = "!"
			}
		}
		pm = strings.Join(ps, ",")
	}
	sse := strings.HasPrefix(string(body), "data:") // framing as observed (a JSON value never starts like this)
	ds := decodeStatus(ct, body)
	dm := "-"
	if res.StatusCode == 200 && (ct == mimeJSON || ct == mimePB) {
		dm = decodeMessages(sc, ct, body, sse)
	} else if res.StatusCode == 200 && ct == mimeSSE {
		// events carry the values in the encoding of the only streamable marshaler (JSON)
		dm = decodeMessages(sc, mimeJSON, body, sse)
	}
	rec.mu.Lock()
	nat := "-"
	if rec.natural != nil {
		st := status.Convert(rec.natural)
		direct := 0
		if _, ok := rec.natural.(interface{ GRPCStatus() *status.Status }); ok {
			direct = 1
		}
		nat = fmt.Sprintf("%d:%d:%s", direct, int(st.Code()), common.HexS(st.Message()))
	}
	tr := "-"
	if len(rec.trans) > 0 {
		tr = strings.Join(rec.trans, ",")
	}
	rec.mu.Unlock()

	skip := map[string]bool{"Content-Type": true, "X-Content-Type-Options": true}
	return fmt.Sprintf("st=%d ct=%s xcto=%s body=%s ds=%s dm=%s hdr=%s trl=%s pm=%s fe=%s nat=%s tr=%s u8=%s late="+strconv.Itoa(late),
		res.StatusCode, hexOrDash(ctVals, ctPresent), hexOrDash(xcto, xctoPresent), common.Hex(body), ds, dm,
		headerMap(res.Header, skip), headerMap(res.Trailer, nil), pm, describeErr(rec.finalErr), nat, tr, utf8Flag(rec.finalErr))
}

// utf8Flag reports whether the final error's message is valid UTF-8 (post-library: unicode/utf8),
// the condition under which protobuf can carry it in a string field at all.
func utf8Flag(err error) string {
	if err == nil {
		return "-"
	}
	if utf8.ValidString(status.Convert(err).Message()) {
		return "1"
	}
	return "0"
}

// ---------------------------------------------------------------------------------------------
// Gen

var genStats = map[string]int{}

func (Area) Extra() map[string]any {
	out := map[string]any{}
	for k, v := range genStats {
		out[k] = v
	}
	return out
}

type ctCase struct {
	name string
	ct   []string
	acc  []string
}

// Content-Type / Accept combinations of the exhaustive part.
var ctCases = []ctCase{
	{"absent", nil, nil},
	{"json", []string{"application/json"}, nil},
	{"json+charset", []string{"application/json; charset=utf-8"}, []string{"application/json; charset=utf-8"}},
	{"unknown", []string{"img/png"}, nil},
	{"multiple", []string{"img/png", "APPLICATION/JSON;q=1", "text/plain"}, []string{"text/plain", "application/json"}},
	{"sse", []string{"application/json"}, []string{"text/event-stream"}},
	{"pb-in-json-out", []string{mimePB}, []string{mimeJSON}},
	{"json-in-pb-out", nil, []string{"*/*", mimePB}},
	{"malformed-ct", []string{"application/json; charset"}, nil},
	{"accept-one-line", []string{"application/json"}, []string{"application/x-test-pb, application/json"}},
}

var (
	injOrigins   = []string{"router", "bind", "decode", "create", "target"}
	detailCombos = []string{"-", "r", "u", "m", "rq", "ru", "e", "b"}
)

func hexListOut(xs []string) string {
	if len(xs) == 0 {
		return "-"
	}
	h := make([]string, len(xs))
	for i, x := range xs {
		h[i] = common.HexS(x)
	}
	return strings.Join(h, ",")
}

func hexPairsOut(p [][2]string) string {
	if len(p) == 0 {
		return "-"
	}
	h := make([]string, len(p))
	for i, kv := range p {
		h[i] = common.HexS(kv[0]) + ":" + common.HexS(kv[1])
	}
	return strings.Join(h, ",")
}

type mdSpec struct {
	hdr, trl     [][2]string
	allH, allT   []string
	prefH, prefT string
}

func (m mdSpec) String() string {
	return strings.Join([]string{hexPairsOut(m.hdr), hexPairsOut(m.trl), hexListOut(m.allH), hexListOut(m.allT), common.HexS(m.prefH), common.HexS(m.prefT)}, "/")
}

var noMD = mdSpec{}

var stdMD = mdSpec{
	hdr:   [][2]string{{"x-req-id", "abc"}, {"x-secret", "s3cr3t"}, {"x-multi", "1"}, {"x-multi", "2"}},
	trl:   [][2]string{{"x-cost", "42"}, {"x-internal", "no"}, {"x-req-id", "from-trailer"}},
	allH:  []string{"X-Req-Id", "x-multi", "x-absent"},
	allT:  []string{"x-cost", "x-req-id"},
	prefH: "", prefT: "Grpc-Trailer-",
}

type line struct {
	rpc, inj, err string
	gone          bool
	ct, acc       []string
	body          string
	rbp           string
	tmo           string
	n             int
	ra, rb        string
	md            mdSpec
	meth          string // "" = POST with body binding (13-field line)
}

func (l line) String() string {
	g := "0"
	if l.gone {
		g = "1"
	}
	e := l.err
	if e == "" {
		e = "-"
	}
	t := l.tmo
	if t == "" {
		t = "-"
	}
	out := fmt.Sprintf("e2e rpc=%s inj=%s err=%s gone=%s ct=%s acc=%s body=%s rbp=%s tmo=%s n=%d resp=%s/%s md=%s",
		l.rpc, l.inj, e, g, hexListOut(l.ct), hexListOut(l.acc), common.HexS(l.body), common.HexS(l.rbp), t, l.n,
		common.HexS(l.ra), common.HexS(l.rb), l.md.String())
	if l.meth != "" {
		out += " meth=" + l.meth
	}
	return out
}

func sErr(code int, msg, letters string) string {
	return fmt.Sprintf("S:%d:%s:%s", code, common.HexS(msg), letters)
}

var interestingMsgs = []string{
	"", "not found", "quote \" backslash \\ <tag> & amp", "line1\nline2\ttab", "ünïcödé ✓ 日本語", "bad utf8 \xff\xfe here",
	"percent %s %d %!", "\x00nul", strings.Repeat("long ", 200), "trailing newline\n", "{\"code\":0}",
}

func randMsg(r *rand.Rand) string {
	switch r.Intn(6) {
	case 0:
		return common.Pick(r, interestingMsgs)
	case 1:
		return string(common.RandBytes(r, r.Intn(24), nil)) // arbitrary bytes, mostly invalid UTF-8
	case 2:
		rs := []rune("aé✓日\U0001F600\"\\\n/<>&  ")
		n := r.Intn(16)
		var sb strings.Builder
		for i := 0; i < n; i++ {
			sb.WriteRune(rs[r.Intn(len(rs))])
		}
		return sb.String()
	default:
		return string(common.RandBytes(r, r.Intn(40), []byte("abcdefghijklmnopqrstuvwxyz ABC0123456789.:,-_/")))
	}
}

func randDetails(r *rand.Rand) string {
	switch r.Intn(4) {
	case 0:
		return "-"
	case 1:
		return common.Pick(r, detailCombos)
	default:
		n := 1 + r.Intn(3)
		b := make([]byte, n)
		for i := range b {
			b[i] = detailLetters[r.Intn(len(detailLetters))]
		}
		return string(b)
	}
}

func randErr(r *rand.Rand) string {
	code := r.Intn(17)
	if r.Intn(20) == 0 {
		code = 17 + r.Intn(4)
	}
	base := ""
	switch r.Intn(6) {
	case 0:
		base = "P:" + common.HexS(randMsg(r))
	case 1:
		base = fmt.Sprintf("B%d:%d:%s:%s", common.Pick(r, explicitCodes), code, common.HexS(randMsg(r)), randDetails(r))
	default:
		base = sErr(code, randMsg(r), randDetails(r))
	}
	for r.Intn(4) == 0 {
		if r.Intn(2) == 0 {
			base = fmt.Sprintf("H%d/%s", common.Pick(r, explicitCodes), base)
		} else {
			base = "W" + common.HexS(common.Pick(r, []string{"ctx", "routing failed", ""})) + "/" + base
		}
	}
	return base
}

var explicitCodes = []int{200, 400, 405, 413, 415, 418, 429, 451, 499, 500, 503, 599}

func (Area) Gen(r *rand.Rand, tier string, emit func(string)) {
	count := func(k string) { genStats[k]++ }
	// 0a. abandoned sends (D21): blocking ResponseWriter + deadline
	genStrag(emit, count)
	// 0b. failures while the outgoing stream is created, with the real AdaptedClientConn
	genCreate(tier, emit, count)
	if raceBuild {
		genRaceSubset(emit, count)
		return
	}

	// 0. the root constructor's option plumbing (finite, run completely every time)
	genOpts(emit, count)
	// 0c. response_body selection on nested response messages (run-time built schemas, real transcoder)
	genRb(r, tier, emit, count)
	// 0d. sequences of calls over two targets with different descriptor sets through one bridge: rendering is history-free
	genSeq(emit, count)

	// 1. the executed table of the third-party runtime.HTTPStatusFromCode
	for c := 0; c <= 20; c++ {
		emit(fmt.Sprintf("tbl %d", c))
		count("tbl")
	}

	// 2. errorStatus on constructed error values (all 17 codes x kinds, then random nests)
	for c := 0; c <= 16; c++ {
		for _, e := range []string{
			sErr(c, "m", "-"), sErr(c, "with details", "ru"),
			"H415/" + sErr(c, "wrapped", "r"), "W" + common.HexS("ctx") + "/" + sErr(c, "fmt-wrapped", "-"),
			fmt.Sprintf("B418:%d:%s:-", c, common.HexS("both")), "W" + common.HexS("outer") + "/H404/" + sErr(c, "hidden explicit", "-"),
		} {
			emit("cvt " + e)
			count("cvt")
		}
	}
	emit("cvt P:" + common.HexS("plain error"))
	emit("cvt H503/P:" + common.HexS("plain under explicit"))
	ncvt := 400
	if tier == "thorough" {
		ncvt = 20000
	}
	for i := 0; i < ncvt; i++ {
		emit("cvt " + randErr(r))
		count("cvt")
	}

	// 3. EXHAUSTIVE finite enumeration: 17 codes x injected origins x detail payloads x Content-Type/Accept combos
	//    (unary; status errors), every run.
	for _, cc := range ctCases {
		for _, origin := range injOrigins {
			for code := 0; code <= 16; code++ {
				for _, det := range detailCombos {
					l := line{rpc: "u", inj: origin, err: sErr(code, fmt.Sprintf("E%d at %s", code, origin), det), ct: cc.ct, acc: cc.acc, n: 0, ra: "name", rb: "owner"}
					if origin == "target" {
						l.md = stdMD
					}
					emit(l.String())
					count("e2e.exhaustive")
				}
			}
		}
		// the same through a real net/http server for one code per origin and detail payload
		for _, origin := range injOrigins {
			for _, det := range detailCombos {
				l := line{rpc: "U", inj: origin, err: sErr(5, "over tcp", det), ct: cc.ct, acc: cc.acc, ra: "name", rb: "owner"}
				if origin == "target" {
					l.md = stdMD
				}
				emit(l.String())
				count("e2e.server")
			}
		}
		emit(line{rpc: "U", inj: "none", ct: cc.ct, acc: cc.acc, n: 1, ra: "tcp", rb: "ok", rbp: "owner", md: stdMD}.String())
		emit(line{rpc: "S", inj: "none", ct: cc.ct, acc: cc.acc, n: 2, ra: "tcp", rb: "ok", md: stdMD}.String())
		emit(line{rpc: "S", inj: "target", err: sErr(13, "late", "-"), ct: cc.ct, acc: cc.acc, n: 1, ra: "tcp", rb: "ok", md: stdMD}.String())
		emit(line{rpc: "U", inj: "deadline", ct: cc.ct, acc: cc.acc, tmo: "1m"}.String())
		// deadline origin (real grpc-timeout expiry against a target that never answers), success, natural failures
		for _, tmo := range []string{"1n", "1m"} {
			emit(line{rpc: "u", inj: "deadline", ct: cc.ct, acc: cc.acc, tmo: tmo, ra: "a", rb: "b"}.String())
			count("e2e.deadline")
		}
		for _, rbp := range []string{"", "resource_name", "owner", "nope"} {
			emit(line{rpc: "u", inj: "none", ct: cc.ct, acc: cc.acc, n: 1, ra: "the name", rb: "the \"owner\"", rbp: rbp, md: stdMD}.String())
			count("e2e.success")
		}
		emit(line{rpc: "u", inj: "none", ct: cc.ct, acc: cc.acc, n: 0, md: stdMD}.String())                       // EOF without a response
		emit(line{rpc: "u", inj: "none", ct: cc.ct, acc: cc.acc, n: 2, ra: "first", rb: "x", md: stdMD}.String()) // misbehaving target: two responses
		emit(line{rpc: "u", inj: "none", ct: cc.ct, acc: cc.acc, n: 1, body: "bad{"}.String())                    // malformed body
		emit(line{rpc: "u", inj: "none", ct: cc.ct, acc: cc.acc, n: 1, body: "{\"owner\":1}"}.String())           // type mismatch in body
		emit(line{rpc: "u", inj: "none", ct: cc.ct, acc: cc.acc, n: 1, body: "{\"owner\":\"me\"}", ra: "r"}.String())
		emit(line{rpc: "c", inj: "none", ct: cc.ct, acc: cc.acc, n: 1}.String()) // client streaming: Unimplemented
		for n := 0; n <= 2; n++ {
			emit(line{rpc: "s", inj: "none", ct: cc.ct, acc: cc.acc, n: n, ra: "sn", rb: "so", md: stdMD}.String())
			emit(line{rpc: "s", inj: "target", err: sErr(14, "stream broke", "u"), ct: cc.ct, acc: cc.acc, n: n, ra: "sn", rb: "so", md: stdMD}.String())
			count("e2e.stream")
		}
		// the HTTP method is not an input of the negotiation: GET / HEAD / DELETE / PUT bound routes, bindings with
		// ("*") and without a body, success and failures at every origin
		for _, meth := range []string{"GET", "GET*", "HEAD", "DELETE", "DELETE*", "PUT*"} {
			emit(line{rpc: "u", inj: "none", ct: cc.ct, acc: cc.acc, n: 1, ra: "by method", rb: meth, md: stdMD, meth: meth}.String())
			emit(line{rpc: "s", inj: "none", ct: cc.ct, acc: cc.acc, n: 2, ra: "by method", rb: meth, meth: meth}.String())
			for _, origin := range injOrigins {
				emit(line{rpc: "u", inj: origin, err: sErr(5, "E5 via "+meth, "r"), ct: cc.ct, acc: cc.acc, meth: meth}.String())
				emit(line{rpc: "u", inj: origin, err: sErr(9, "E9 via "+meth, "u"), ct: cc.ct, acc: cc.acc, meth: meth}.String())
			}
			emit(line{rpc: "u", inj: "deadline", ct: cc.ct, acc: cc.acc, tmo: "1m", meth: meth}.String())
			count("e2e.method")
		}
		// UNARY target that sends its response message FIRST and then fails the call: non-OK status in the trailers
		// (17 codes x detail payloads), a transport error (not a status), a deadline that expires while waiting for
		// the status. forwardUnaryResponse holds the message back until the second Recv returned, nothing has been
		// written yet, so this must be rendered as a failure (canonical status + Status body), never as 200.
		for code := 0; code <= 16; code++ {
			for _, det := range detailCombos {
				emit(line{rpc: "u", inj: "target", err: sErr(code, fmt.Sprintf("E%d after the response message", code), det), ct: cc.ct, acc: cc.acc, n: 1, ra: "held back", rb: "never sent", md: stdMD}.String())
				count("e2e.message-then-status")
			}
		}
		emit(line{rpc: "u", inj: "target", err: "P:" + common.HexS("transport is closing"), ct: cc.ct, acc: cc.acc, n: 1, ra: "held back", rb: "never sent", md: stdMD}.String())
		emit(line{rpc: "u", inj: "target", err: "W" + common.HexS("recv") + "/" + sErr(14, "connection reset", "-"), ct: cc.ct, acc: cc.acc, n: 1, ra: "held back", rb: "never sent"}.String())
		for _, tmo := range []string{"1n", "1m"} {
			emit(line{rpc: "u", inj: "deadline", ct: cc.ct, acc: cc.acc, tmo: tmo, n: 1, ra: "held back", rb: "never sent"}.String())
			count("e2e.message-then-deadline")
		}
		emit(line{rpc: "U", inj: "target", err: sErr(9, "after the message, over tcp", "r"), ct: cc.ct, acc: cc.acc, n: 1, ra: "held back", rb: "never sent", md: stdMD}.String())
		// server streaming that fails before its first message, all 17 codes x encodable / unencodable details
		// (for the SSE combination: the status is one plain document in the marshaler's type, not an event)
		for code := 0; code <= 16; code++ {
			for _, det := range []string{"-", "r", "u"} {
				for _, origin := range []string{"decode", "create", "target"} {
					emit(line{rpc: "s", inj: origin, err: sErr(code, "stream failed early", det), ct: cc.ct, acc: cc.acc, n: 0, md: stdMD}.String())
					count("e2e.stream-early-error")
				}
			}
		}
		// client gone: 499 without a body, whatever the error is
		for _, origin := range injOrigins {
			emit(line{rpc: "u", inj: origin, err: sErr(5, "gone", "u"), gone: true, ct: cc.ct, acc: cc.acc}.String())
			count("e2e.gone")
		}
		// explicit HTTPStatus() carriers and plain errors at every origin
		for _, origin := range injOrigins {
			for _, e := range []string{
				"H415/" + sErr(3, "Unsupported Media Type", "-"), "H405/" + sErr(12, "Method Not Allowed", "-"),
				"P:" + common.HexS("plain failure"), "H503/P:" + common.HexS("plain under explicit"),
				fmt.Sprintf("B429:8:%s:ru", common.HexS("both kinds")), "W" + common.HexS("ctx") + "/" + sErr(7, "wrapped denied", "r"),
				sErr(17, "out of range code", "-"),
			} {
				emit(line{rpc: "u", inj: origin, err: e, ct: cc.ct, acc: cc.acc}.String())
				count("e2e.kinds")
			}
		}
	}

	// 4. seeded random scenarios: random messages (incl. invalid UTF-8), details, nests, headers
	n := 1500
	if tier == "thorough" {
		n = 200000
	}
	for i := 0; i < n; i++ {
		cc := common.Pick(r, ctCases)
		l := line{rpc: "u", ct: cc.ct, acc: cc.acc, ra: randMsg(r), rb: randMsg(r), n: 1}
		if !utf8.ValidString(l.ra) || !utf8.ValidString(l.rb) {
			l.ra, l.rb = "valid", "strings"
		}
		if r.Intn(5) == 0 { // random header lines
			l.ct = randHeaderLines(r)
			l.acc = randHeaderLines(r)
		}
		switch k := r.Intn(20); {
		case k < 13:
			l.inj = common.Pick(r, injOrigins)
			l.err = randErr(r)
			l.n = r.Intn(2)
			l.gone = r.Intn(25) == 0
		case k < 14:
			l.inj = "deadline"
			l.tmo = common.Pick(r, []string{"1n", "1u", "1m"})
		case k < 17:
			l.inj = "none"
			l.rbp = common.Pick(r, []string{"", "", "resource_name", "owner", "description", "nope", "owner.x"})
			l.n = common.Pick(r, []int{0, 1, 1, 1, 2})
			l.body = common.Pick(r, []string{"", "", "{}", "bad", "[]", "{\"owner\":\"x\"}", "\xff", "P", "P\xff"})
		default:
			l.rpc = "s"
			l.n = r.Intn(4)
			if r.Intn(2) == 0 {
				l.inj = "target"
				l.err = randErr(r)
			} else {
				l.inj = "none"
			}
			l.rbp = common.Pick(r, []string{"", "", "owner"})
		}
		if l.inj == "target" || l.inj == "none" {
			if r.Intn(2) == 0 {
				l.md = stdMD
			} else {
				l.md = randMD(r)
			}
		}
		if r.Intn(4) == 0 {
			l.meth = common.Pick(r, []string{"GET", "GET*", "HEAD", "DELETE", "DELETE*", "PUT*", "PATCH*", "OPTIONS"})
		}
		emit(l.String())
		count("e2e.random." + l.inj)
	}
}

// genRaceSubset: what the -race build runs besides the strag cases: client gone and deadline at every origin, message
// first then failure, and one pass over the origins.
func genRaceSubset(emit func(string), count func(string)) {
	for _, cc := range ctCases[:3] {
		for _, origin := range injOrigins {
			emit(line{rpc: "u", inj: origin, err: sErr(5, "gone", "u"), gone: true, ct: cc.ct, acc: cc.acc}.String())
			emit(line{rpc: "u", inj: origin, err: sErr(9, "plain failure", "r"), ct: cc.ct, acc: cc.acc, md: stdMD}.String())
		}
		for _, n := range []int{0, 1} {
			emit(line{rpc: "u", inj: "target", err: sErr(7, "late", "-"), gone: true, n: n, ct: cc.ct, acc: cc.acc, md: stdMD}.String())
			emit(line{rpc: "u", inj: "target", err: sErr(7, "late", "-"), n: n, ct: cc.ct, acc: cc.acc, md: stdMD}.String())
			for _, tmo := range []string{"1n", "1m"} {
				emit(line{rpc: "u", inj: "deadline", ct: cc.ct, acc: cc.acc, tmo: tmo, n: n}.String())
				if n == 0 { // after a streamed message the outcome depends on who is faster (both are sequential readings): strag covers it
					emit(line{rpc: "s", inj: "deadline", ct: cc.ct, acc: cc.acc, tmo: tmo, n: n}.String())
				}
			}
		}
		emit(line{rpc: "u", inj: "none", ct: cc.ct, acc: cc.acc, n: 1, ra: "a", rb: "b", md: stdMD}.String())
		emit(line{rpc: "s", inj: "none", ct: cc.ct, acc: cc.acc, n: 3, ra: "a", rb: "b", md: stdMD}.String())
		emit(line{rpc: "s", inj: "target", err: sErr(13, "late", "-"), ct: cc.ct, acc: cc.acc, n: 2, md: stdMD}.String())
		count("e2e.race")
	}
}

func randHeaderLines(r *rand.Rand) []string {
	n := r.Intn(4)
	var out []string
	for i := 0; i < n; i++ {
		out = append(out, common.Pick(r, []string{
			"application/json", "application/json; charset=utf-8", "APPLICATION/JSON", " application/json", "application/json;",
			mimePB, mimePB + "; v=1", "text/event-stream", "text/plain", "img/png", "*/*", "", "application/json, " + mimePB, ";;;", "a/b/c",
		}))
	}
	return out
}

func randMD(r *rand.Rand) mdSpec {
	keys := []string{"x-a", "x-b", "x-c", "etag", "x-long-header-name"}
	m := mdSpec{prefH: common.Pick(r, []string{"", "Grpc-Metadata-"}), prefT: common.Pick(r, []string{"", "Grpc-Trailer-"})}
	for i := r.Intn(5); i > 0; i-- {
		m.hdr = append(m.hdr, [2]string{common.Pick(r, keys), string(common.RandBytes(r, 1+r.Intn(6), []byte("abc123 ;=")))})
	}
	for i := r.Intn(5); i > 0; i-- {
		m.trl = append(m.trl, [2]string{common.Pick(r, keys), string(common.RandBytes(r, 1+r.Intn(6), []byte("abc123 ;=")))})
	}
	for _, k := range keys {
		if r.Intn(2) == 0 {
			if r.Intn(3) == 0 {
				k = strings.ToUpper(k[:1]) + k[1:]
			}
			m.allH = append(m.allH, k)
		}
		if r.Intn(2) == 0 {
			m.allT = append(m.allT, k)
		}
	}
	return m
}
