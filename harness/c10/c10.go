// Package c10 is the correspondence area of property C10 (stub: the slice is not built yet).
package c10

import (
	"math/rand"
)

type Area struct{}

func (Area) Name() string { return "c10" }

func (Area) Exec(input string) string { return "UNIMPLEMENTED" }

func (Area) Gen(r *rand.Rand, tier string, emit func(string)) {}
