package c10

// `create` cases: failures while the OUTGOING stream is being created, with the REAL adapter.
//
//	create mode=<ready|hold<k>|hang|refuse|closed|closing|cancel> d=<deadline ms> rpc=<u|s>
//	  => st=<status> ct=<hex|-> ds=<code:msg|-> dm=<…|-> ac=<code the adapter's Stream returned|ok|-> q=<quarters>
//
// One real grpcadapter.AdaptClient(grpc.NewClient(…)) whose dialer the harness controls (as harness/c16 `cstream`),
// behind the real TranscodedHTTPBridge / StandardTranscoder / ProxyForwarder; the client's deadline comes from a
// grpc-timeout header of d milliseconds (one quarter Q = d/4).
//
//	ready    the connection is Ready before the call                         ⇒ 200
//	hold<k>  the dialer lets the connection through k quarters after the call ⇒ 200 if k < 4, else the deadline fires
//	hang     the dialer never returns (the channel stays CONNECTING)          ⇒ deadline during stream creation
//	refuse   every connection attempt fails at once                           ⇒ Unavailable
//	closed   AdaptedClientConn.Close() before the call                        ⇒ Unavailable
//	closing  Close() one quarter into a hanging stream creation               ⇒ gRPC's closing error (Canceled) or Unavailable
//	cancel   the client's request context is cancelled one quarter into a hanging stream creation ⇒ 499
//
// `ac` is the gRPC code of the error AdaptedClientConn.Stream returned (recorded by a pass-through wrapper): the
// driver takes the EXPECTED code from the C16 model of Stream (GB.C16.Conn.streamOpen) and judges the HTTP status and
// the Status body with C10's table.

import (
	"context"
	"errors"
	"fmt"
	"io"
	"net"
	"net/http/httptest"
	"strconv"
	"strings"
	"sync/atomic"
	"time"

	"github.com/renbou/grpcbridge/grpcadapter"
	"github.com/renbou/grpcbridge/transcoding"
	"github.com/renbou/grpcbridge/webbridge"
	"google.golang.org/genproto/googleapis/rpc/errdetails"
	spb "google.golang.org/genproto/googleapis/rpc/status"
	"google.golang.org/grpc"
	"google.golang.org/grpc/connectivity"
	"google.golang.org/grpc/credentials/insecure"
	"google.golang.org/grpc/status"
	"google.golang.org/grpc/test/bufconn"
	"google.golang.org/protobuf/encoding/protojson"
	"google.golang.org/protobuf/types/known/emptypb"
	"verif/harness/common"
)

// recConn passes everything through to the real adapter and remembers what Stream returned.
type recConn struct {
	real *grpcadapter.AdaptedClientConn
	code atomic.Int32 // -1 = not called, -2 = ok, else the gRPC code
}

func (c *recConn) Close() { c.real.Close() }
func (c *recConn) Stream(ctx context.Context, method string) (grpcadapter.ClientStream, error) {
	s, err := c.real.Stream(ctx, method)
	if err != nil {
		c.code.Store(int32(status.Code(err)))
	} else {
		c.code.Store(-2)
	}
	return s, err
}

func execCreate(f []string) string {
	if len(f) != 4 {
		panic("create line needs 4 fields")
	}
	mode, rpc := kv(f[1], "mode"), kv(f[3], "rpc")
	dms, _ := strconv.Atoi(kv(f[2], "d"))
	if dms < 100 || dms > 5000 {
		panic("create: deadline out of range")
	}
	q := time.Duration(dms) * time.Millisecond / 4
	hold := -1
	if strings.HasPrefix(mode, "hold") {
		hold, _ = strconv.Atoi(mode[4:])
	}

	// the target: answers every call with one ResourceInfo
	lis := bufconn.Listen(1 << 16)
	srv := grpc.NewServer(grpc.UnknownServiceHandler(func(_ any, stream grpc.ServerStream) error {
		if err := stream.RecvMsg(&emptypb.Empty{}); err != nil {
			return err
		}
		return stream.SendMsg(&errdetails.ResourceInfo{ResourceName: "n", Owner: "o"})
	}))
	go func() { _ = srv.Serve(lis) }()
	defer srv.Stop()

	var release atomic.Int64
	dialer := func(ctx context.Context, _ string) (net.Conn, error) {
		switch {
		case mode == "refuse":
			return nil, errors.New("c10: connection refused")
		case mode == "hang" || mode == "closing" || mode == "cancel":
			<-ctx.Done()
			return nil, ctx.Err()
		case hold >= 0:
			for release.Load() == 0 || time.Now().UnixNano() < release.Load() {
				select {
				case <-ctx.Done():
					return nil, ctx.Err()
				case <-time.After(time.Millisecond):
				}
			}
		}
		return lis.DialContext(ctx)
	}
	gc, err := grpc.NewClient("passthrough:///c10-create", grpc.WithContextDialer(dialer),
		grpc.WithTransportCredentials(insecure.NewCredentials()))
	if err != nil {
		return "SETUP " + common.HexS(err.Error())
	}
	rc := &recConn{real: grpcadapter.AdaptClient(gc)}
	rc.code.Store(-1)
	defer rc.real.Close()
	if mode == "ready" {
		gc.Connect()
		wctx, cancel := context.WithTimeout(context.Background(), 3*time.Second)
		for st := gc.GetState(); st != connectivity.Ready; st = gc.GetState() {
			if !gc.WaitForStateChange(wctx, st) {
				cancel()
				return "SETUP " + common.HexS("connection did not become ready")
			}
		}
		cancel()
	}
	if mode == "closed" {
		rc.real.Close()
	}

	sc := &scenario{rpc: rpc, inj: "none", n: 1, tmo: "-"}
	router := &fakeRouter{sc: sc, rec: &record{cancel: func() {}}}
	router.real = rc
	bridge := webbridge.NewTranscodedHTTPBridge(router, webbridge.TranscodedHTTPBridgeOpts{
		Transcoder: transcoding.NewStandardTranscoder(transcoding.StandardTranscoderOpts{}),
		Forwarder:  grpcadapter.NewProxyForwarder(grpcadapter.ProxyForwarderOpts{}),
	})
	req := httptest.NewRequest("POST", "/x", strings.NewReader(""))
	req.Header.Set("Grpc-Timeout", strconv.Itoa(dms)+"m")
	ctx, cancel := context.WithCancel(req.Context())
	defer cancel()
	req = req.WithContext(ctx)

	lw := &lateWriter{rec: httptest.NewRecorder()}
	start := time.Now()
	release.Store(start.Add(time.Duration(hold) * q).UnixNano())
	switch mode {
	case "closing":
		time.AfterFunc(q, rc.real.Close)
	case "cancel":
		time.AfterFunc(q, cancel)
	}
	done := make(chan struct{})
	go func() {
		defer func() { _ = recover(); close(done) }()
		bridge.ServeHTTP(lw, req)
		lw.markReturned()
	}()
	select {
	case <-done:
	case <-time.After(time.Duration(dms)*time.Millisecond + 5*time.Second): // per-case watchdog
		return "HANG " + common.HexS("ServeHTTP did not return within the deadline + 5 s")
	}
	elapsed := time.Since(start)
	res := lw.rec.Result()
	body, _ := io.ReadAll(res.Body)
	ctVals := res.Header["Content-Type"]
	ct := ""
	if len(ctVals) == 1 {
		ct = ctVals[0]
	}
	ds, dm := "-", "-"
	if ct == mimeJSON && res.StatusCode != 200 {
		var st spb.Status
		if protojson.Unmarshal(body, &st) == nil {
			ds = fmt.Sprintf("%d:%s", st.Code, common.HexS(st.Message))
		}
	}
	if ct == mimeJSON && res.StatusCode == 200 {
		dm = decodeMessages(&scenario{rpc: rpc}, mimeJSON, body, false)
	}
	ac := "-"
	switch c := rc.code.Load(); {
	case c == -2:
		ac = "ok"
	case c >= 0:
		ac = strconv.Itoa(int(c))
	}
	quarters := int((elapsed + q/2) / q)
	return fmt.Sprintf("st=%d ct=%s ds=%s dm=%s ac=%s q=%d late=%d", res.StatusCode, hexOrDash(ctVals, len(ctVals) > 0), ds, dm, ac, quarters, lw.late.Load())
}

func genCreate(tier string, emit func(string), count func(string)) {
	ds := []int{400}
	if tier == "thorough" {
		ds = []int{300, 500}
	}
	for _, d := range ds {
		for _, mode := range []string{"ready", "hold1", "hold3", "hold6", "hang", "refuse", "closed", "closing", "cancel"} {
			emit(fmt.Sprintf("create mode=%s d=%d rpc=u", mode, d))
			count("create")
		}
		emit(fmt.Sprintf("create mode=hang d=%d rpc=s", d))
		emit(fmt.Sprintf("create mode=refuse d=%d rpc=s", d))
	}
}
