package c10

// `seq` cases: SEQUENCES of transcoded calls over TWO targets with different descriptor sets through ONE bridge built by
// the root constructor (one transcoder, one marshaler instance) — rendering must be history-free.
//
//	seq mk=<default|fresh> ct=<json|none> steps=<T>:<o|e<code><dets>|E<code><dets>>,…   =>   <status>/<json|plain|hex>/<body> …
//
// Target A (package ta) and target B (package tb) are built at run time (descriptorpb -> protodesc -> dynamicpb, private
// registries): each has its own Req/Resp and ONE detail message only it knows (ta.DetailA / tb.DetailB). A step is one
// POST through grpcbridge.NewWebBridge(router[, marshaler options]).ServeHTTP routed to that target; the target answers
// with its response message (o) or with a google.rpc.Status of the given code, message "boom <code>" and the listed
// details (a = ta.DetailA, b = tb.DetailB, - = none) as the result of Recv (E = the target ended the call before the
// request message was written: Send returns io.EOF as gRPC's SendMsg does, the status still comes from Recv). mk=default: no options — the bridge uses the
// process-wide transcoding.DefaultJSONMarshaler; mk=fresh: a new JSONMarshaler with the same settings for this case only.
// Output per step: HTTP status, Content-Type, and the body decoded the way a client would: M = the response message,
// S.<code>.<message hex>.<detail letters> = a JSON google.rpc.Status whose details decode, T.<1|0> = text/plain (1 = it
// carries the message).

import (
	"context"
	"encoding/json"
	"fmt"
	"io"
	"net/http"
	"net/http/httptest"
	"strconv"
	"strings"
	"sync"

	"github.com/renbou/grpcbridge"
	"github.com/renbou/grpcbridge/bridgedesc"
	"github.com/renbou/grpcbridge/grpcadapter"
	"github.com/renbou/grpcbridge/routing"
	"github.com/renbou/grpcbridge/transcoding"
	spb "google.golang.org/genproto/googleapis/rpc/status"
	"google.golang.org/grpc/codes"
	"google.golang.org/grpc/metadata"
	"google.golang.org/grpc/status"
	"google.golang.org/protobuf/encoding/protojson"
	"google.golang.org/protobuf/proto"
	"google.golang.org/protobuf/reflect/protodesc"
	"google.golang.org/protobuf/reflect/protoreflect"
	"google.golang.org/protobuf/reflect/protoregistry"
	"google.golang.org/protobuf/types/descriptorpb"
	"google.golang.org/protobuf/types/dynamicpb"
	"google.golang.org/protobuf/types/known/anypb"
	"verif/harness/common"
)

type seqTarget struct {
	letter string
	pkg    string
	target *bridgedesc.Target
	req    protoreflect.MessageDescriptor
	resp   protoreflect.MessageDescriptor
	detail protoreflect.MessageDescriptor
}

func seqBuildTarget(letter, pkg, detailName string) (*seqTarget, error) {
	str := func(name string, n int32) *descriptorpb.FieldDescriptorProto {
		return &descriptorpb.FieldDescriptorProto{Name: proto.String(name), Number: proto.Int32(n),
			Label: descriptorpb.FieldDescriptorProto_LABEL_OPTIONAL.Enum(), Type: descriptorpb.FieldDescriptorProto_TYPE_STRING.Enum()}
	}
	fdp := &descriptorpb.FileDescriptorProto{
		Name: proto.String(pkg + ".proto"), Package: proto.String(pkg), Syntax: proto.String("proto3"),
		MessageType: []*descriptorpb.DescriptorProto{
			{Name: proto.String("Req"), Field: []*descriptorpb.FieldDescriptorProto{str("q", 1)}},
			{Name: proto.String("Resp"), Field: []*descriptorpb.FieldDescriptorProto{str("r", 1)}},
			{Name: proto.String(detailName), Field: []*descriptorpb.FieldDescriptorProto{str("note", 1)}},
		},
	}
	file, err := protodesc.NewFile(fdp, nil)
	if err != nil {
		return nil, err
	}
	files := new(protoregistry.Files)
	if err := files.RegisterFile(file); err != nil {
		return nil, err
	}
	t := &seqTarget{letter: letter, pkg: pkg,
		req: file.Messages().ByName("Req"), resp: file.Messages().ByName("Resp"), detail: file.Messages().ByName(protoreflect.Name(detailName))}
	method := bridgedesc.Method{RPCName: "/" + pkg + ".S/M", Input: bridgedesc.DynamicMessage(t.req), Output: bridgedesc.DynamicMessage(t.resp)}
	t.target = &bridgedesc.Target{Name: letter, FileResolver: files, TypeResolver: dynamicpb.NewTypes(files),
		Services: []bridgedesc.Service{{Name: protoreflect.FullName(pkg + ".S"), Methods: []bridgedesc.Method{method}}}}
	return t, nil
}

type seqStep struct {
	tgt  string // "A" | "B"
	ok   bool
	code int
	dets string // letters a/b, "-" = none
	// early: the target ended the call BEFORE the request message was written (unknown method on the target, early
	// Unauthenticated): as with gRPC's SendMsg, Send then returns io.EOF and the real status comes from Recv
	early bool
}

func parseSeqSteps(s string) ([]seqStep, error) {
	var out []seqStep
	for _, tok := range strings.Split(s, ",") {
		p := strings.SplitN(tok, ":", 2)
		if len(p) != 2 || (p[0] != "A" && p[0] != "B") || p[1] == "" {
			return nil, fmt.Errorf("step %q", tok)
		}
		st := seqStep{tgt: p[0]}
		if p[1] == "o" {
			st.ok = true
		} else {
			if p[1][0] != 'e' && p[1][0] != 'E' {
				return nil, fmt.Errorf("step %q", tok)
			}
			st.early = p[1][0] == 'E'
			i := 1
			for i < len(p[1]) && p[1][i] >= '0' && p[1][i] <= '9' {
				i++
			}
			c, err := strconv.Atoi(p[1][1:i])
			if err != nil || i == len(p[1]) {
				return nil, fmt.Errorf("step %q", tok)
			}
			st.code, st.dets = c, p[1][i:]
		}
		out = append(out, st)
	}
	return out, nil
}

// seqRouter routes /a/… to target A and /b/… to target B; the connection answers with what the current step says.
type seqRouter struct {
	a, b *seqTarget
	mu   sync.Mutex
	cur  seqStep
}

func (r *seqRouter) RouteGRPC(context.Context) (grpcadapter.ClientConn, routing.GRPCRoute, error) {
	return nil, routing.GRPCRoute{}, status.Error(codes.Unimplemented, "verif: no gRPC routes")
}

func (r *seqRouter) RouteHTTP(req *http.Request) (grpcadapter.ClientConn, routing.HTTPRoute, error) {
	t := r.a
	if strings.HasPrefix(req.URL.Path, "/b/") {
		t = r.b
	}
	svc := &t.target.Services[0]
	m := &svc.Methods[0]
	r.mu.Lock()
	step := r.cur
	r.mu.Unlock()
	return &seqConn{r: r, t: t, step: step}, routing.HTTPRoute{Target: t.target, Service: svc, Method: m, Binding: bridgedesc.DefaultBinding(m)}, nil
}

type seqConn struct {
	r    *seqRouter
	t    *seqTarget
	step seqStep
}

func (c *seqConn) Close() {}

func (c *seqConn) Stream(context.Context, string) (grpcadapter.ClientStream, error) {
	return &seqStream{c: c}, nil
}

type seqStream struct {
	c    *seqConn
	mu   sync.Mutex
	recv int
}

func (s *seqStream) Send(context.Context, proto.Message) error {
	if s.c.step.early {
		return io.EOF
	}
	return nil
}
func (s *seqStream) Header() metadata.MD                        { return nil }
func (s *seqStream) Trailer() metadata.MD                       { return nil }
func (s *seqStream) CloseSend()                                 {}
func (s *seqStream) Close()                                     {}

func (s *seqStream) Recv(_ context.Context, msg proto.Message) error {
	s.mu.Lock()
	n := s.recv
	s.recv++
	s.mu.Unlock()
	st := s.c.step
	if !st.ok {
		return s.c.r.statusOf(st)
	}
	if n > 0 {
		return io.EOF
	}
	m := msg.ProtoReflect()
	m.Set(m.Descriptor().Fields().ByName("r"), protoreflect.ValueOfString("hello from "+s.c.t.letter))
	return nil
}

func (r *seqRouter) statusOf(st seqStep) error {
	p := &spb.Status{Code: int32(st.code), Message: fmt.Sprintf("boom %d", st.code)}
	for _, d := range st.dets {
		var t *seqTarget
		switch d {
		case 'a':
			t = r.a
		case 'b':
			t = r.b
		default:
			continue
		}
		dm := dynamicpb.NewMessage(t.detail)
		dm.Set(t.detail.Fields().ByName("note"), protoreflect.ValueOfString("detail of "+t.letter))
		b, _ := proto.Marshal(dm)
		p.Details = append(p.Details, &anypb.Any{TypeUrl: "type.googleapis.com/" + string(t.detail.FullName()), Value: b})
	}
	return status.FromProto(p).Err()
}

func execSeq(f []string) string {
	if len(f) != 4 {
		return "BADLINE"
	}
	mk, ct := kv(f[1], "mk"), kv(f[2], "ct")
	steps, err := parseSeqSteps(kv(f[3], "steps"))
	if err != nil {
		return "BADSTEPS " + common.HexS(err.Error())
	}
	a, err := seqBuildTarget("A", "ta", "DetailA")
	if err != nil {
		return "SETUP " + common.HexS(err.Error())
	}
	b, err := seqBuildTarget("B", "tb", "DetailB")
	if err != nil {
		return "SETUP " + common.HexS(err.Error())
	}
	router := &seqRouter{a: a, b: b}
	var options []grpcbridge.BridgeOption
	if mk == "fresh" {
		m := &transcoding.JSONMarshaler{
			MarshalOptions:   protojson.MarshalOptions{EmitDefaultValues: true},
			UnmarshalOptions: protojson.UnmarshalOptions{DiscardUnknown: true},
		}
		options = append(options, grpcbridge.WithMarshalers([]transcoding.Marshaler{m}), grpcbridge.WithDefaultMarshaler(m))
	}
	bridge := grpcbridge.NewWebBridge(router, options...)

	var outs []string
	for _, st := range steps {
		router.mu.Lock()
		router.cur = st
		router.mu.Unlock()
		req := httptest.NewRequest("POST", "/"+strings.ToLower(st.tgt)+"/x", strings.NewReader(`{"q":"x"}`))
		if ct == "json" {
			req.Header.Set("Content-Type", "application/json")
		}
		baseline := goroutines()
		w := httptest.NewRecorder()
		bridge.ServeHTTP(w, req)
		if !quiesce(baseline) {
			return "HANG " + common.HexS("goroutines started by the handler are still running after it returned")
		}
		res := w.Result()
		body, _ := io.ReadAll(res.Body)
		ctTok := common.HexS(res.Header.Get("Content-Type"))
		switch res.Header.Get("Content-Type") {
		case "application/json":
			ctTok = "json"
		case "text/plain; charset=utf-8":
			ctTok = "plain"
		}
		outs = append(outs, fmt.Sprintf("%d/%s/%s", res.StatusCode, ctTok, seqBody(router, st, res.StatusCode, ctTok, body)))
	}
	return strings.Join(outs, " ")
}

// seqBody decodes a body like a client holding the descriptors of the target it called.
func seqBody(r *seqRouter, st seqStep, code int, ct string, body []byte) string {
	if ct == "plain" {
		has := 0
		if strings.Contains(string(body), fmt.Sprintf("boom %d", st.code)) {
			has = 1
		}
		return fmt.Sprintf("T.%d", has)
	}
	if ct != "json" {
		return "?"
	}
	var doc map[string]any
	if json.Unmarshal(body, &doc) != nil {
		return "?"
	}
	if code == 200 {
		if s, ok := doc["r"].(string); ok && strings.HasPrefix(s, "hello from ") {
			return "M"
		}
		return "?"
	}
	c, _ := doc["code"].(float64)
	msg, _ := doc["message"].(string)
	letters := ""
	if ds, ok := doc["details"].([]any); ok {
		for _, d := range ds {
			dm, _ := d.(map[string]any)
			ty, _ := dm["@type"].(string)
			note, _ := dm["note"].(string)
			switch {
			case ty == "type.googleapis.com/ta.DetailA" && note == "detail of A":
				letters += "a"
			case ty == "type.googleapis.com/tb.DetailB" && note == "detail of B":
				letters += "b"
			default:
				letters += "?"
			}
		}
	}
	if letters == "" {
		letters = "-"
	}
	return fmt.Sprintf("S.%d.%s.%s", int(c), common.HexS(msg), letters)
}

func genSeq(emit func(string), count func(string)) {
	steps := []string{"A:o", "A:e5-", "A:e9a", "A:e14b", "A:e3ab", "B:o", "B:e5-", "B:e9b", "B:e14a", "B:e3ba", "A:E12-", "A:E16a", "B:E12b"}
	for _, mk := range []string{"default", "fresh"} {
		for _, ct := range []string{"json", "none"} {
			for _, s1 := range steps {
				emit(fmt.Sprintf("seq mk=%s ct=%s steps=%s", mk, ct, s1))
				count("seq")
				for _, s2 := range steps {
					emit(fmt.Sprintf("seq mk=%s ct=%s steps=%s,%s", mk, ct, s1, s2))
					count("seq")
				}
			}
			for _, tr := range []string{"A:o,B:e9b,A:e9a", "B:e5-,A:e9a,B:e9b", "A:e9a,A:e9a,B:e9b,B:e9b", "B:o,B:e9b,A:o,A:e9a,B:e14a,A:e14b"} {
				emit(fmt.Sprintf("seq mk=%s ct=%s steps=%s", mk, ct, tr))
				count("seq")
			}
		}
	}
}
