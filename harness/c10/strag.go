package c10

// `strag` cases: a `Send` that withCtx abandons (D21), driven deterministically with a ResponseWriter whose first
// body Write BLOCKS until the harness releases it, and a grpc-timeout that expires meanwhile.
//
//	strag rpc=<u|s> tmo=<grpc-timeout> n=<messages> => st=<status> ct=<hex|-> dm=<decoded body|?|-> late=<k> ret=<0|1>
//
// The target answers at once; httpStream.send reaches Write and blocks there; the deadline fires, withCtx returns
// DeadlineExceeded without its helper, Forward returns, the handler's epilogue runs. `ret` says whether ServeHTTP had
// returned BEFORE the harness released the blocked Write (the repaired handler waits in finish(); the original one
// returned with the write still in flight). `late` counts Write / WriteHeader / Flush calls that were still running or
// began after ServeHTTP returned. The response must be a sequential reading: 200 with the bytes of the sends that got
// through and no error document after them.

import (
	"fmt"
	"io"
	"net/http"
	"net/http/httptest"
	"strconv"
	"strings"
	"sync"
	"sync/atomic"
	"time"

	"github.com/renbou/grpcbridge/grpcadapter"
	"github.com/renbou/grpcbridge/transcoding"
	"github.com/renbou/grpcbridge/webbridge"
	"verif/harness/common"
)

// lateWriter wraps a ResponseRecorder: it can block the first body write and it notices every use of the
// ResponseWriter that is still running or starts after the handler returned.
type lateWriter struct {
	rec      *httptest.ResponseRecorder
	mu       sync.Mutex // the recorder itself is not goroutine-safe; keep the harness' own bookkeeping out of the races
	block    chan struct{}
	blocked  chan struct{}
	once     sync.Once
	returned atomic.Bool
	inflight atomic.Int32
	late     atomic.Int32
}

func (w *lateWriter) enter() {
	w.inflight.Add(1)
	if w.returned.Load() {
		w.late.Add(1)
	}
}

func (w *lateWriter) leave() {
	if w.returned.Load() {
		w.late.Add(1)
	}
	w.inflight.Add(-1)
}

func (w *lateWriter) Header() http.Header { return w.rec.Header() }

func (w *lateWriter) WriteHeader(code int) {
	w.enter()
	defer w.leave()
	w.rec.WriteHeader(code)
}

func (w *lateWriter) Write(b []byte) (int, error) {
	w.enter()
	defer w.leave()
	if w.block != nil {
		w.once.Do(func() {
			close(w.blocked)
			<-w.block
		})
	}
	return w.rec.Write(b)
}

func (w *lateWriter) Flush() {
	w.enter()
	defer w.leave()
	w.rec.Flush()
}

// markReturned is called right after ServeHTTP returned; calls still in flight count as late.
func (w *lateWriter) markReturned() {
	w.returned.Store(true)
	if n := w.inflight.Load(); n > 0 {
		w.late.Add(n)
	}
}

func execStrag(f []string) string {
	if len(f) != 4 {
		panic("strag line needs 4 fields")
	}
	rpc, tmo := kv(f[1], "rpc"), kv(f[2], "tmo")
	n, _ := strconv.Atoi(kv(f[3], "n"))
	sc := &scenario{rpc: rpc, inj: "none", n: n, ra: "held", rb: "bytes", tmo: tmo}
	rec := &record{cancel: func() {}}
	router := &fakeRouter{sc: sc, rec: rec, conn: &fakeConn{sc: sc, rec: rec}}
	bridge := webbridge.NewTranscodedHTTPBridge(router, webbridge.TranscodedHTTPBridgeOpts{
		Transcoder: transcoding.NewStandardTranscoder(transcoding.StandardTranscoderOpts{}),
		Forwarder:  grpcadapter.NewProxyForwarder(grpcadapter.ProxyForwarderOpts{}),
	})
	req := httptest.NewRequest("POST", "/x", strings.NewReader(""))
	req.Header.Set("Grpc-Timeout", tmo)

	w := &lateWriter{rec: httptest.NewRecorder(), block: make(chan struct{}), blocked: make(chan struct{})}
	baseline := goroutines()
	done := make(chan struct{})
	go func() {
		defer func() { _ = recover(); close(done) }()
		bridge.ServeHTTP(w, req)
		w.markReturned()
	}()

	// wait until the send helper sits in Write, then until the deadline has certainly fired and Forward has given up
	select {
	case <-w.blocked:
	case <-done:
		return "HANG " + common.HexS("the handler returned without ever writing the response")
	case <-time.After(10 * time.Second):
		return "HANG " + common.HexS("no body write within 10 s")
	}
	returnedEarly := 0
	select {
	case <-done: // the original epilogue: ServeHTTP returns while the write is still in flight
		returnedEarly = 1
	case <-time.After(150 * time.Millisecond): // the repaired one waits in finish()
	}
	close(w.block)
	select {
	case <-done:
	case <-time.After(10 * time.Second):
		return "HANG " + common.HexS("ServeHTTP did not return after the blocked write was released")
	}
	if !quiesce(baseline) {
		return "HANG " + common.HexS("goroutines started by the handler are still running after it returned")
	}
	res := w.rec.Result()
	body, _ := io.ReadAll(res.Body)
	ctVals := res.Header["Content-Type"]
	ct := ""
	if len(ctVals) == 1 {
		ct = ctVals[0]
	}
	dm := "-"
	if ct == mimeJSON {
		dm = decodeMessages(sc, mimeJSON, body, false)
	}
	return fmt.Sprintf("st=%d ct=%s dm=%s late=%d ret=%d", res.StatusCode, hexOrDash(ctVals, len(ctVals) > 0), dm, w.late.Load(), returnedEarly)
}

func genStrag(emit func(string), count func(string)) {
	for _, tmo := range []string{"20m", "60m"} {
		emit("strag rpc=u tmo=" + tmo + " n=1")
		emit("strag rpc=s tmo=" + tmo + " n=1")
		emit("strag rpc=s tmo=" + tmo + " n=3")
		count("strag")
	}
}

// RaceArea is the same area built with -race (props/C10.json: area c10race): the abandoned-send cases, the
// client-gone / deadline end-to-end cases and a slice of the enumeration, with the race detector halting the worker
// (GORACE=halt_on_error=1 ⇒ CRASH "WARNING: DATA RACE" ⇒ VIOL).
type RaceArea struct{ Area }

func (RaceArea) Name() string { return "c10race" }
