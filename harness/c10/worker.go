package c10

// Process isolation for the end-to-end cases.
//
// An e2e case runs the real bridge, whose own goroutines (webbridge.withCtx leaves the send/recv goroutine
// running when the context is done) may touch the ResponseWriter concurrently with the handler. Under a
// regression this ends in a Go runtime "fatal error: concurrent map writes", which no recover() can catch and
// which used to kill the whole harness (0 cases, no failing input). Therefore every e2e case is executed in a
// worker subprocess (this same binary, taken over in init() when VERIF_C10_WORKER=1): a worker that dies makes
// the in-flight case's canonical output "CRASH <first line of the fatal error>", a worker that does not answer
// within the watchdog "HANG", and a fresh worker is started for the next case. Exec stays a pure function of
// the input line.

import (
	"bufio"
	"bytes"
	"fmt"
	"io"
	"os"
	"os/exec"
	"runtime"
	"strings"
	"sync"
	"time"

	"verif/harness/common"
)

const (
	workerEnv     = "VERIF_C10_WORKER"
	caseWatchdog  = 30 * time.Second
	quiesceBudget = 2 * time.Second
)

func init() {
	if os.Getenv(workerEnv) == "1" {
		workerMain()
		os.Exit(0)
	}
}

// workerMain: one input line per request on stdin, one canonical output line per answer on stdout.
func workerMain() {
	in := bufio.NewReaderSize(os.Stdin, 1<<20)
	out := bufio.NewWriterSize(os.Stdout, 1<<20)
	for {
		line, err := in.ReadString('\n')
		if line = strings.TrimRight(line, "\n"); line != "" {
			fmt.Fprintln(out, execLocal(line))
			out.Flush()
		}
		if err != nil {
			return
		}
	}
}

// execLocal runs one e2e case in this process; a panic of the calling goroutine becomes "PANIC <hex>".
func execLocal(input string) (out string) {
	defer func() {
		if r := recover(); r != nil {
			out = "PANIC " + common.HexS(fmt.Sprint(r))
		}
	}()
	f := strings.Fields(input)
	if f[0] == "opts" {
		return execOpts(f)
	}
	if f[0] == "strag" {
		return execStrag(f)
	}
	if f[0] == "create" {
		return execCreate(f)
	}
	return execE2E(parseScenario(f))
}

func goroutines() int { return runtime.NumGoroutine() }

// quiesce waits until the goroutines the bridge started for this case are gone, so that nothing touches the
// recorder while it is read and nothing of this case runs into the next one. false = still running after the budget.
func quiesce(baseline int) bool {
	deadline := time.Now().Add(quiesceBudget)
	for d := 20 * time.Microsecond; ; d *= 2 {
		if runtime.NumGoroutine() <= baseline {
			return true
		}
		if time.Now().After(deadline) {
			return false
		}
		if d > 5*time.Millisecond {
			d = 5 * time.Millisecond
		}
		time.Sleep(d)
	}
}

type worker struct {
	cmd    *exec.Cmd
	stdin  io.WriteCloser
	stdout *bufio.Reader
	stderr *tailBuffer
}

// tailBuffer keeps the beginning of the worker's stderr (the fatal error line comes first).
type tailBuffer struct {
	mu sync.Mutex
	b  bytes.Buffer
}

func (t *tailBuffer) Write(p []byte) (int, error) {
	t.mu.Lock()
	defer t.mu.Unlock()
	if t.b.Len() < 1<<16 {
		t.b.Write(p)
	}
	return len(p), nil
}

func (t *tailBuffer) firstLine() string {
	t.mu.Lock()
	defer t.mu.Unlock()
	for _, l := range strings.Split(t.b.String(), "\n") {
		if l = strings.TrimSpace(l); l != "" && strings.Trim(l, "=") != "" {
			return l
		}
	}
	return "worker exited without a message"
}

var (
	wkMu sync.Mutex
	wk   *worker
)

func startWorker() (*worker, error) {
	exe, err := os.Executable()
	if err != nil {
		return nil, err
	}
	cmd := exec.Command(exe)
	cmd.Env = append(os.Environ(), workerEnv+"=1", "GOTRACEBACK=single", "GORACE=halt_on_error=1")
	stdin, err := cmd.StdinPipe()
	if err != nil {
		return nil, err
	}
	stdout, err := cmd.StdoutPipe()
	if err != nil {
		return nil, err
	}
	tb := &tailBuffer{}
	cmd.Stderr = tb
	if err := cmd.Start(); err != nil {
		return nil, err
	}
	return &worker{cmd: cmd, stdin: stdin, stdout: bufio.NewReaderSize(stdout, 1<<20), stderr: tb}, nil
}

func (w *worker) kill() {
	_ = w.stdin.Close()
	_ = w.cmd.Process.Kill()
	_ = w.cmd.Wait()
}

// execIsolated runs one e2e input line in the worker subprocess.
func execIsolated(input string) string {
	wkMu.Lock()
	defer wkMu.Unlock()
	if wk == nil {
		w, err := startWorker()
		if err != nil {
			return execLocal(input) // cannot isolate (no fork): run in-process as before
		}
		wk = w
	}
	w := wk
	type answer struct {
		line string
		err  error
	}
	ch := make(chan answer, 1)
	go func() {
		defer func() { _ = recover() }()
		if _, err := io.WriteString(w.stdin, input+"\n"); err != nil {
			ch <- answer{"", err}
			return
		}
		l, err := w.stdout.ReadString('\n')
		ch <- answer{strings.TrimRight(l, "\n"), err}
	}()
	select {
	case a := <-ch:
		if a.err == nil && a.line != "" {
			return a.line
		}
		// the worker died while this case was in flight
		_ = w.cmd.Wait()
		wk = nil
		return "CRASH " + common.HexS(w.stderr.firstLine())
	case <-time.After(caseWatchdog):
		w.kill()
		wk = nil
		return "HANG " + common.HexS("no answer within the per-case watchdog")
	}
}
