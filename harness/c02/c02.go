// Package c02 is the correspondence area of property C02: the same simulator and end-to-end layer as
// C01 (harness/c01), driven by a fault-injecting generator: every single-fault position of small
// scenarios (error / EOF / block on every role), cancellation and deadline at every scheduler instant,
// ctx-ignoring fakes (the model predicts the hang), and the termination scenarios end to end.
package c02

import (
	"fmt"
	"math/rand"
	"strings"

	"verif/harness/c01"
)

type Area struct{}

func (Area) Name() string { return "c02" }

func (Area) Exec(input string) string {
	if strings.HasPrefix(input, "web ") {
		return RunWeb(input)
	}
	return c01.Exec(input)
}

func clone(x []string) []string { return append([]string{}, x...) }

func (Area) Gen(r *rand.Rand, tier string, emit func(string)) {
	maxMsgs, nrand, nun, ne, nsweep := 2, 250, 14, 40, 2
	if tier == "thorough" {
		maxMsgs, nrand, nun, ne, nsweep = 3, 8000, 150, 900, 8
	}
	for _, cs := range []bool{false, true} {
		for _, ss := range []bool{false, true} {
			nq, np := 1, 1
			if cs {
				nq = maxMsgs
			}
			if ss {
				np = maxMsgs
			}
			var ir, is, ow, or []string
			for i := 0; i < nq; i++ {
				ir = append(ir, fmt.Sprintf("m:x%02x", 0x10+i))
				ow = append(ow, "k")
			}
			ir = append(ir, "E")
			for i := 0; i < np; i++ {
				or = append(or, fmt.Sprintf("m:x%02x", 0xa0+i))
				is = append(is, "k")
			}
			or = append(or, "e5")
			st := []string{"k"}
			scripts := map[string][]string{"ir": ir, "is": is, "st": st, "ow": ow, "or": or}
			faults := map[string][]string{"ir": {"e61", "B", "E"}, "is": {"e62", "B"}, "st": {"e63", "B"}, "ow": {"e64", "B", "E"}, "or": {"e65", "B", "E"}}
			// every single-fault position
			for _, role := range []string{"ir", "is", "st", "ow", "or"} {
				for pos := 0; pos < len(scripts[role]); pos++ {
					for _, f := range faults[role] {
						m := map[string][]string{}
						for k, v := range scripts {
							m[k] = clone(v)
						}
						m[role][pos] = f
						for k := 0; k < 2; k++ {
							emit(c01.Line(cs, ss, true, true, k == 1, "b", m["ir"], m["is"], m["st"], m["ow"], m["or"], "-", r.Int63n(1<<31)))
						}
					}
				}
			}
			// Program points × fault kinds, enumerated: for each of a few FIXED release orders (seed in the line, so
			// the schedule prefix is the same for every `at`), cancellation and deadline strike before EVERY
			// scheduler decision of that schedule — i.e. at every settled configuration the call passes through:
			// before stream creation, Outgoing.Stream pending, between the unary Send and CloseSend, between the
			// spawn of the pumps and the first loop iteration, mid-stream, CloseSend pending, and during the
			// deferred cleanup (outgoing.Close() pending, wg.Wait with a pump still inside a call). The driver tags
			// every such case with the model's program point (`b=…@<pc>`), so the evidence shows the coverage.
			for k := 0; k < nsweep; k++ {
				seed := int64(7001 + 97*k)
				for at := 0; at < 14+10*maxMsgs; at++ {
					for _, kind := range []string{"c", "d"} {
						emit(c01.Line(cs, ss, true, true, (at+k)%2 == 1, "b", ir, is, st, ow, or, fmt.Sprintf("%s@%d", kind, at), seed))
					}
				}
			}
			// the same with a target that fails / ends early, so that the deferred cleanup is entered with the
			// request pump still parked (cancellation during Close / wg.Wait)
			for at := 0; at < 16; at++ {
				for _, kind := range []string{"c", "d"} {
					emit(c01.Line(cs, ss, true, true, at%2 == 1, "b", append(clone(ir[:len(ir)-1]), "B"), is, st, ow, []string{"e9"}, fmt.Sprintf("%s@%d", kind, at), 7333))
				}
			}
			// unary request whose Send fails: cancellation while the explicit outgoing.Close() of forwardUnaryRequest
			// is pending (program point uCloseErr) and around it
			if !cs {
				for at := 0; at < 9; at++ {
					for _, kind := range []string{"c", "d"} {
						emit(c01.Line(cs, ss, true, true, at%2 == 1, "b", ir, is, st, []string{"e64"}, or, fmt.Sprintf("%s@%d", kind, at), 7444))
					}
				}
			}
			// the idle-client scenario: the target ends the call, the client neither sends nor closes
			for _, fin := range []string{"E", "e9"} {
				for k := 0; k < 3; k++ {
					emit(c01.Line(cs, ss, true, true, k == 1, "b", append(clone(ir[:len(ir)-1]), "B"), is, st, ow, append(clone(or[:len(or)-1]), fin), "-", r.Int63n(1<<31)))
				}
			}
		}
	}
	for i := 0; i < nrand; i++ {
		emit(c01.RandomScenario(r, c01.GenOpts{Faults: true}))
	}
	// ctx-ignoring adapters: the model predicts where the real Forward hangs (kept few: each hang costs a timeout)
	emit(c01.Line(true, true, false, true, false, "b", []string{"B"}, nil, []string{"k"}, nil, []string{"E"}, "-", 1))
	emit(c01.Line(true, true, false, true, false, "b", []string{"m:x01", "B"}, []string{"k"}, []string{"k"}, []string{"k"}, []string{"m:x02", "e9"}, "-", 2))
	for i := 0; i < nun; i++ {
		emit(c01.RandomScenario(r, c01.GenOpts{Faults: i%2 == 0, Unaware: true}))
	}
	c01.GenE2E(r, ne, true, emit)
	GenWeb(r, tier, emit)
}
