// Package c02 is the correspondence area of property C02 (stub: the slice is not built yet).
package c02

import (
	"math/rand"
)

type Area struct{}

func (Area) Name() string { return "c02" }

func (Area) Exec(input string) string { return "UNIMPLEMENTED" }

func (Area) Gen(r *rand.Rand, tier string, emit func(string)) {}
