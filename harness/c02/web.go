// End-to-end termination scenarios on the four web entry points (transcoded HTTP, transcoded WebSocket,
// gRPC-Web, gRPC-WebSocket): the REAL webbridge handlers behind httptest with a fake router and a scripted
// target at the grpcadapter.ClientConn interface. Client code adapted from harness/c12e2e.
//
//	web en=<http|ws|grpcweb|grpcws> sc=<tend|terr|gone|deadline> n=<responses> code=<status> want.…
//
// Observations: the client learns the outcome within PromptLimit, the outcome carries the target's status
// where the wire format has one, the outgoing stream is Close()d, the handler returns, and the goroutine
// count is back to its baseline once the connection is gone (judged after everything blocked was released,
// cf. the known finding C18/D21 about withCtx helper goroutines).
package c02

import (
	"bytes"
	"context"
	"encoding/binary"
	"encoding/json"
	"fmt"
	"io"
	"math/rand"
	"net"
	"net/http"
	"net/http/httptest"
	"net/url"
	"os"
	"path/filepath"
	"runtime"
	"strconv"
	"strings"
	"sync"
	"time"

	"github.com/gorilla/websocket"
	"github.com/renbou/grpcbridge/bridgedesc"
	"github.com/renbou/grpcbridge/bridgelog"
	"github.com/renbou/grpcbridge/grpcadapter"
	"github.com/renbou/grpcbridge/routing"
	"github.com/renbou/grpcbridge/webbridge"
	"google.golang.org/grpc/codes"
	"google.golang.org/grpc/metadata"
	"google.golang.org/grpc/status"
	"google.golang.org/protobuf/proto"
	"google.golang.org/protobuf/reflect/protoregistry"
	"google.golang.org/protobuf/types/known/emptypb"
	"google.golang.org/protobuf/types/known/wrapperspb"

	"verif/harness/c01"
)

type wtarget struct {
	sc       string
	n        int
	code     codes.Code
	mu       sync.Mutex
	streams  int
	closed   int
	closedCh chan struct{}
	firstOut chan struct{} // closed when the first response was handed out
	finalCh  chan struct{} // closed when the target has ended the call (its terminal result was handed out)
	finalOne sync.Once
}

func (t *wtarget) Close() {}

func (t *wtarget) Stream(ctx context.Context, method string) (grpcadapter.ClientStream, error) {
	t.mu.Lock()
	t.streams++
	t.mu.Unlock()
	return &wstream{t: t}, nil
}

type wstream struct {
	t     *wtarget
	mu    sync.Mutex
	recvd int
	once  sync.Once
}

func (s *wstream) final() error {
	s.t.finalOne.Do(func() { close(s.t.finalCh) })
	if s.t.code == codes.OK {
		return io.EOF
	}
	return status.Error(s.t.code, "target ended the call")
}

func (s *wstream) Send(ctx context.Context, m proto.Message) error { return nil }

func (s *wstream) Recv(ctx context.Context, m proto.Message) error {
	s.mu.Lock()
	s.recvd++
	k := s.recvd
	s.mu.Unlock()
	block := func() error {
		<-ctx.Done()
		return status.FromContextError(ctx.Err()).Err()
	}
	switch s.t.sc {
	case "tend", "terr": // n responses, then the target's final status; the client stays idle
		if k <= s.t.n {
			if k == 1 {
				close(s.t.firstOut)
			}
			return nil
		}
		return s.final()
	case "gone": // one response, then the target waits; the client goes away
		if k == 1 {
			close(s.t.firstOut)
			return nil
		}
		return block()
	case "stall": // the target streams far more than the connection buffers hold (the client never reads), then waits
		if k <= stallMsgs {
			if k == 1 {
				close(s.t.firstOut)
			}
			if sv, ok := m.(*wrapperspb.StringValue); ok {
				sv.Value = stallPayload
			}
			return nil
		}
		return block()
	default: // deadline: both sides idle
		return block()
	}
}

const stallMsgs = 64

var stallPayload = strings.Repeat("x", 512<<10)
func (s *wstream) Header() metadata.MD  { return nil }
func (s *wstream) Trailer() metadata.MD { return nil }
func (s *wstream) CloseSend()           {}
func (s *wstream) Close() {
	s.once.Do(func() {
		s.t.mu.Lock()
		s.t.closed++
		s.t.mu.Unlock()
		close(s.t.closedCh)
	})
}

type wrouter struct {
	t    *wtarget
	desc *bridgedesc.Target
}

func newWDesc() *bridgedesc.Target {
	return &bridgedesc.Target{
		Name: "t", FileResolver: protoregistry.GlobalFiles, TypeResolver: protoregistry.GlobalTypes,
		Services: []bridgedesc.Service{{Name: "t.S", Methods: []bridgedesc.Method{
			{RPCName: "/t.S/SS", Input: bridgedesc.ConcreteMessage[emptypb.Empty](), Output: bridgedesc.ConcreteMessage[emptypb.Empty](), ServerStreaming: true},
			{RPCName: "/t.S/Bidi", Input: bridgedesc.ConcreteMessage[emptypb.Empty](), Output: bridgedesc.ConcreteMessage[emptypb.Empty](), ClientStreaming: true, ServerStreaming: true},
			{RPCName: "/t.S/Big", Input: bridgedesc.ConcreteMessage[emptypb.Empty](), Output: bridgedesc.ConcreteMessage[wrapperspb.StringValue](), ClientStreaming: true, ServerStreaming: true},
		}}},
	}
}

func (r wrouter) RouteHTTP(req *http.Request) (grpcadapter.ClientConn, routing.HTTPRoute, error) {
	svc := &r.desc.Services[0]
	m := &svc.Methods[0]
	if strings.HasPrefix(req.URL.Path, "/bidi") {
		m = &svc.Methods[1]
	}
	if strings.HasPrefix(req.URL.Path, "/big") {
		m = &svc.Methods[2]
	}
	return r.t, routing.HTTPRoute{Target: r.desc, Service: svc, Method: m,
		Binding: &bridgedesc.Binding{HTTPMethod: "POST", Pattern: req.URL.Path, RequestBodyPath: "*"}}, nil
}

func (r wrouter) RouteGRPC(ctx context.Context) (grpcadapter.ClientConn, routing.GRPCRoute, error) {
	svc := &r.desc.Services[0]
	return r.t, routing.GRPCRoute{Target: r.desc, Service: svc, Method: bridgedesc.DummyMethod("t.S", "Bidi")}, nil
}

const webDeadlineMs = 200

type wobs struct {
	done bool      // the client saw the end of the call (or, for sc=gone, went away as planned)
	out  string    // what it saw
	conn string    // late-message cases: "1" = the bridge closed the TCP connection after the handshake, "0" = it did not
	hsAt time.Time // late-message cases: when the client had done its part of the closing handshake
}

// lateSpec: the "late client message" shape of a WebSocket call — the client sends n further messages after the
// call has ended (when=ended: right after the target's terminal result / the deadline; when=afterclose: after it
// has RECEIVED the close frame) and only then answers the close frame.
type lateSpec struct {
	on   bool
	when string
	n    int
}

// closeTimeout is the bridge's WebSocket close timeout as the fact extractor read it from the sources
// (wsCloseTimeoutMs in $VERIF_WORK/facts.json); 3 s if the tree under test has none.
func closeTimeout() time.Duration {
	d := 3 * time.Second
	if b, err := os.ReadFile(filepath.Join(os.Getenv("VERIF_WORK"), "facts.json")); err == nil {
		var facts []struct{ Name, Value string }
		if json.Unmarshal(b, &facts) == nil {
			for _, f := range facts {
				if ms, err := strconv.Atoi(f.Value); f.Name == "wsCloseTimeoutMs" && err == nil && ms > 0 {
					d = time.Duration(ms) * time.Millisecond
				}
			}
		}
	}
	return d
}

func wsURL(u string) string { return "ws" + strings.TrimPrefix(u, "http") }

// parseTrailerStatus scans length-prefixed frames for the trailer frame and returns its grpc-status.
func parseTrailerStatus(b []byte) string {
	for len(b) >= 5 {
		n := int(binary.BigEndian.Uint32(b[1:5]))
		if len(b) < 5+n {
			return "truncated"
		}
		if b[0]&0x80 != 0 {
			for _, ln := range strings.Split(string(b[5:5+n]), "\r\n") {
				if strings.HasPrefix(strings.ToLower(ln), "grpc-status:") {
					return strings.TrimSpace(ln[len("grpc-status:"):])
				}
			}
			return "nostatus"
		}
		b = b[5+n:]
	}
	return "notrailer"
}

func dechunk(b []byte) (out []byte, done bool) {
	for {
		i := bytes.Index(b, []byte("\r\n"))
		if i < 0 {
			return out, false
		}
		var n int
		if _, err := fmt.Sscanf(string(b[:i]), "%x", &n); err != nil {
			return out, false
		}
		b = b[i+2:]
		if n == 0 {
			return out, true
		}
		if len(b) < n+2 {
			return append(out, b...), false
		}
		out = append(out, b[:n]...)
		b = b[n+2:]
	}
}

// RunWeb executes one web scenario.
func RunWeb(line string) string {
	kv := map[string]string{}
	for _, f := range strings.Fields(line)[1:] {
		if i := strings.IndexByte(f, '='); i > 0 {
			kv[f[:i]] = f[i+1:]
		}
	}
	// every case has its own watchdog: a case that is still running after CaseLimit is a hang of THAT case
	return c01.Watchdog(c01.CaseLimit+8*time.Second, func(context.Context) string { return runWeb(kv) })
}

func runWeb(kv map[string]string) string {
	n, _ := strconv.Atoi(kv["n"])
	code, _ := strconv.Atoi(kv["code"])
	var late lateSpec
	if kv["sc"] == "late" {
		late.on, late.when = true, kv["when"]
		late.n, _ = strconv.Atoi(kv["nlate"])
		kv["sc"] = kv["base"] // what the target does: tend | deadline
	}
	t := &wtarget{sc: kv["sc"], n: n, code: codes.Code(code), closedCh: make(chan struct{}), firstOut: make(chan struct{}), finalCh: make(chan struct{})}
	rt := wrouter{t: t, desc: newWDesc()}
	limit := c01.PromptLimit
	if t.sc == "deadline" || t.sc == "stall" {
		limit += webDeadlineMs * time.Millisecond
	}
	hdr := ""
	if t.sc == "deadline" || t.sc == "stall" {
		hdr = fmt.Sprintf("%dm", webDeadlineMs)
	}
	stall := t.sc == "stall"

	http.DefaultTransport.(*http.Transport).CloseIdleConnections()
	time.Sleep(2 * time.Millisecond)
	baseline := runtime.NumGoroutine()
	preexisting := c01.BridgeGoroutineSnapshot()

	var bridge http.Handler
	switch kv["en"] {
	case "http":
		bridge = webbridge.NewTranscodedHTTPBridge(rt, webbridge.TranscodedHTTPBridgeOpts{})
	case "ws":
		bridge = webbridge.NewTranscodedWebSocketBridge(rt, webbridge.TranscodedWebSocketBridgeOpts{})
	case "grpcweb":
		bridge = webbridge.NewGRPCWebBridge(rt, webbridge.GRPCWebBridgeOpts{})
	case "grpcws":
		bridge = webbridge.NewGRPCWebSocketBridge(rt, webbridge.GRPCWebBridgeOpts{Logger: bridgelog.Discard()})
	default:
		return "HARNESS entry"
	}
	handlerDone := make(chan struct{})
	var hOnce sync.Once
	srv := httptest.NewServer(http.HandlerFunc(func(w http.ResponseWriter, r *http.Request) {
		defer hOnce.Do(func() { close(handlerDone) })
		bridge.ServeHTTP(w, r)
	}))

	var o wobs
	switch kv["en"] {
	case "http":
		o = webHTTP(srv.URL, t, hdr, limit)
	case "ws":
		if late.on {
			o = webLate(srv.URL, t, hdr, limit, late, false)
		} else if stall {
			var release func()
			o, release = webStall(srv.URL, hdr)
			defer release()
		} else {
			o = webWS(srv.URL, t, hdr, limit)
		}
	case "grpcweb":
		o = webGRPCWeb(srv.URL, t, hdr, limit)
	case "grpcws":
		if late.on {
			o = webLate(srv.URL, t, hdr, limit, late, true)
		} else {
			o = webGRPCWS(srv.URL, t, hdr, limit)
		}
	}

	within := func(ch <-chan struct{}) bool {
		select {
		case <-ch:
			return true
		case <-time.After(c01.PromptLimit):
			return false
		}
	}
	closed := within(t.closedCh)
	handler := within(handlerDone)
	if stall && !handler && !o.hsAt.IsZero() {
		// a client that has stopped reading: the call ends at its deadline, the handler may then take up to
		// wsCloseTimeout (the connection deadline armed by closeGracefully fails the blocked write and ends ReadLoop)
		select {
		case <-handlerDone:
			handler = true
		case <-time.After(time.Until(o.hsAt.Add(webDeadlineMs*time.Millisecond + closeTimeout() + c01.PromptLimit))):
		}
	}
	if late.on && !handler && !o.hsAt.IsZero() {
		// the closing handshake may legitimately take up to wsCloseTimeout after the client's part; not longer
		select {
		case <-handlerDone:
			handler = true
		case <-time.After(time.Until(o.hsAt.Add(closeTimeout() + c01.PromptLimit))):
		}
	}
	grace := c01.GoroutineGrace
	if !handler {
		grace = time.Second // already a violation: the handler is stuck, its goroutines will not go away
	}
	fwd := 0
	for i := 0; i < 200; i++ {
		if fwd = c01.ForwardGoroutines(); fwd == 0 {
			break
		}
		time.Sleep(5 * time.Millisecond)
	}
	// release everything that may still be blocked on the connection, then compare with the baseline
	srv.CloseClientConnections()
	srv.Close()
	http.DefaultTransport.(*http.Transport).CloseIdleConnections()
	leak := 0
	for i := 0; i < 400; i++ {
		if leak = runtime.NumGoroutine() - baseline; leak <= 0 {
			leak = 0
			break
		}
		time.Sleep(5 * time.Millisecond)
	}
	// …and nothing may be left inside the bridge's own code (handlers, stream adapters, withCtx helpers) now
	// that everything such a goroutine could wait for is released: the connection and the server are closed,
	// the scripted target only ever blocks on the call's context. (A helper that is abandoned WHILE its
	// operation is still blocked is the known finding C18/D21 and is not what is judged here.)
	gor, gwhere := c01.WaitBridgeGoroutinesGone(grace, preexisting)
	b2 := func(b bool) string {
		if b {
			return "1"
		}
		return "0"
	}
	t.mu.Lock()
	defer t.mu.Unlock()
	res := fmt.Sprintf("got.done=%s got.out=%s got.closed=%s got.handler=%s got.fwd=%d got.leak=%d got.streams=%d got.gor=%d got.gwhere=%s",
		b2(o.done), o.out, b2(closed), b2(handler), fwd, leak, t.streams, gor, gwhere)
	if late.on {
		res += " got.connclosed=" + o.conn
	}
	return res
}

// webHTTP: server-streaming method over transcoded HTTP; the request body is complete, the client only reads.
func webHTTP(base string, t *wtarget, hdr string, limit time.Duration) wobs {
	ctx, cancel := context.WithTimeout(context.Background(), limit)
	defer cancel()
	req, _ := http.NewRequestWithContext(ctx, "POST", base+"/ss", strings.NewReader("{}"))
	if hdr != "" {
		req.Header.Set("Grpc-Timeout", hdr)
	}
	req.Header.Set("Content-Type", "application/json")
	cl := &http.Client{Transport: &http.Transport{DisableKeepAlives: true}}
	resp, err := cl.Do(req)
	if err != nil {
		return wobs{done: false, out: "clienterr"}
	}
	defer resp.Body.Close()
	if t.sc == "gone" {
		buf := make([]byte, 1)
		if _, err := io.ReadFull(resp.Body, buf); err != nil {
			return wobs{done: false, out: "nofirst"}
		}
		cancel() // the transport closes the connection
		return wobs{done: true, out: "left"}
	}
	_, rerr := io.ReadAll(resp.Body)
	if ctx.Err() != nil {
		return wobs{done: false, out: "timeout"}
	}
	_ = rerr
	return wobs{done: true, out: fmt.Sprintf("http%d", resp.StatusCode)}
}

func webWS(base string, t *wtarget, hdr string, limit time.Duration) wobs {
	q := url.Values{}
	if hdr != "" {
		q.Set("_metadata[grpc-timeout]", hdr)
	}
	c, _, err := websocket.DefaultDialer.Dial(wsURL(base)+"/bidi?"+q.Encode(), nil)
	if err != nil {
		return wobs{done: false, out: "dialerr"}
	}
	defer c.Close()
	_ = c.SetReadDeadline(time.Now().Add(limit))
	for {
		_, _, err := c.ReadMessage()
		if err == nil {
			if t.sc == "gone" {
				c.UnderlyingConn().Close() // no close frame: the client is simply gone
				return wobs{done: true, out: "left"}
			}
			continue
		}
		if ce, ok := err.(*websocket.CloseError); ok {
			name := "other"
			for c := codes.OK; c <= codes.Unauthenticated; c++ {
				if c != codes.OK && strings.Contains(ce.Text, c.String()) {
					name = strconv.Itoa(int(c))
				}
			}
			if ce.Code == websocket.CloseNormalClosure {
				name = "0"
			}
			return wobs{done: true, out: "status" + name}
		}
		if ne, ok := err.(net.Error); ok && ne.Timeout() {
			return wobs{done: false, out: "timeout"}
		}
		return wobs{done: true, out: "wserr"}
	}
}

// webStall: a transcoded-WebSocket client that completes the handshake and then never reads, writes or closes; its
// receive buffer is small, so the bridge soon blocks inside a response write. The connection stays open until
// release() (called when the case has been judged).
func webStall(base string, hdr string) (wobs, func()) {
	q := url.Values{}
	q.Set("_metadata[grpc-timeout]", hdr)
	d := websocket.Dialer{
		HandshakeTimeout: 5 * time.Second,
		NetDialContext: func(ctx context.Context, network, addr string) (net.Conn, error) {
			conn, err := new(net.Dialer).DialContext(ctx, network, addr)
			if err != nil {
				return nil, err
			}
			if tc, ok := conn.(*net.TCPConn); ok {
				_ = tc.SetReadBuffer(4096)
			}
			return conn, nil
		},
	}
	start := time.Now()
	c, _, err := d.Dial(wsURL(base)+"/big?"+q.Encode(), nil)
	if err != nil {
		return wobs{done: false, out: "dialerr"}, func() {}
	}
	return wobs{done: true, out: "stalled", hsAt: start}, func() { c.Close() }
}

// webGRPCWeb speaks raw HTTP/1.1 (complete request body, like a browser client).
func webGRPCWeb(base string, t *wtarget, hdr string, limit time.Duration) wobs {
	conn, err := net.Dial("tcp", strings.TrimPrefix(base, "http://"))
	if err != nil {
		return wobs{done: false, out: "dialerr"}
	}
	defer conn.Close()
	th := ""
	if hdr != "" {
		th = "Grpc-Timeout: " + hdr + "\r\n"
	}
	fmt.Fprintf(conn, "POST /t.S/Bidi HTTP/1.1\r\nHost: x\r\nContent-Type: application/grpc-web+proto\r\n%sTransfer-Encoding: chunked\r\n\r\n5\r\n\x00\x00\x00\x00\x00\r\n0\r\n\r\n", th)
	_ = conn.SetReadDeadline(time.Now().Add(limit))
	if t.sc == "gone" {
		// GRPCWebBridge does not flush per message (the first frame stays in net/http's buffer while the
		// target is silent), so the client cannot wait for it: it leaves once the target has handed it out.
		select {
		case <-t.firstOut:
			time.Sleep(5 * time.Millisecond)
			return wobs{done: true, out: "left"} // deferred conn.Close()
		case <-time.After(limit):
			return wobs{done: false, out: "timeout"}
		}
	}
	var buf []byte
	tmp := make([]byte, 4096)
	for {
		n, err := conn.Read(tmp)
		buf = append(buf, tmp[:n]...)
		if i := bytes.Index(buf, []byte("\r\n\r\n")); i >= 0 {
			head := strings.ToLower(string(buf[:i]))
			var body []byte
			done := false
			if strings.Contains(head, "transfer-encoding: chunked") {
				body, done = dechunk(buf[i+4:])
			} else if k := strings.Index(head, "content-length:"); k >= 0 {
				var n int
				fmt.Sscanf(strings.TrimSpace(head[k+len("content-length:"):]), "%d", &n)
				body = buf[i+4:]
				done = len(body) >= n
			} else {
				body = buf[i+4:]
			}
			if done || err != nil {
				if !bytes.HasPrefix(buf, []byte("HTTP/1.1 200")) {
					return wobs{done: true, out: "http" + string(buf[9:12])}
				}
				return wobs{done: true, out: "status" + parseTrailerStatus(body)}
			}
		}
		if err != nil {
			if ne, ok := err.(net.Error); ok && ne.Timeout() {
				return wobs{done: false, out: "timeout"}
			}
			return wobs{done: true, out: "readerr"}
		}
	}
}

func webGRPCWS(base string, t *wtarget, hdr string, limit time.Duration) wobs {
	d := websocket.Dialer{Subprotocols: []string{"grpc-websockets"}}
	c, _, err := d.Dial(wsURL(base)+"/t.S/Bidi", nil)
	if err != nil {
		return wobs{done: false, out: "dialerr"}
	}
	defer c.Close()
	h := "x-verif: 1\r\n"
	if hdr != "" {
		h = "grpc-timeout: " + hdr + "\r\n"
	}
	_ = c.WriteMessage(websocket.BinaryMessage, []byte(h))
	_ = c.WriteMessage(websocket.BinaryMessage, []byte{0, 0, 0, 0, 0, 0}) // flow byte + empty message; the stream stays open
	_ = c.SetReadDeadline(time.Now().Add(limit))
	st := "notrailer"
	for {
		_, data, err := c.ReadMessage()
		if err != nil {
			if ne, ok := err.(net.Error); ok && ne.Timeout() {
				return wobs{done: false, out: "timeout"}
			}
			return wobs{done: true, out: "status" + st}
		}
		if len(data) >= 5 && data[0]&0x80 != 0 && bytes.Contains(bytes.ToLower(data), []byte("grpc-status")) {
			st = parseTrailerStatus(data)
			return wobs{done: true, out: "status" + st}
		}
		if t.sc == "gone" && len(data) >= 5 && data[0]&0x80 == 0 {
			c.UnderlyingConn().Close()
			return wobs{done: true, out: "left"}
		}
	}
}

// webLate: transcoded WebSocket (grpc=false) or gRPC-WebSocket (grpc=true), the late-client-message shape.
func webLate(base string, t *wtarget, hdr string, limit time.Duration, ls lateSpec, grpc bool) wobs {
	var c *websocket.Conn
	var err error
	if grpc {
		d := websocket.Dialer{Subprotocols: []string{"grpc-websockets"}}
		c, _, err = d.Dial(wsURL(base)+"/t.S/Bidi", nil)
	} else {
		q := url.Values{}
		if hdr != "" {
			q.Set("_metadata[grpc-timeout]", hdr)
		}
		c, _, err = websocket.DefaultDialer.Dial(wsURL(base)+"/bidi?"+q.Encode(), nil)
	}
	if err != nil {
		return wobs{done: false, out: "dialerr", conn: "0"}
	}
	defer c.Close()
	msg := func() error {
		if grpc {
			return c.WriteMessage(websocket.BinaryMessage, []byte{0, 0, 0, 0, 0, 0}) // flow byte + empty message
		}
		return c.WriteMessage(websocket.TextMessage, []byte("{}"))
	}
	if grpc {
		h := "x-verif: 1\r\n"
		if hdr != "" {
			h = "grpc-timeout: " + hdr + "\r\n"
		}
		_ = c.WriteMessage(websocket.BinaryMessage, []byte(h))
		_ = msg()
	}
	gotClose := false
	if ls.when == "afterclose" {
		// do not answer the close frame automatically: the client first sends its late messages
		c.SetCloseHandler(func(int, string) error { gotClose = true; return nil })
	}
	if ls.when == "ended" {
		if t.sc == "deadline" {
			time.Sleep((webDeadlineMs + 30) * time.Millisecond)
		} else {
			select {
			case <-t.finalCh:
			case <-time.After(limit):
			}
		}
		for i := 0; i < ls.n; i++ {
			_ = msg()
		}
	}
	_ = c.SetReadDeadline(time.Now().Add(limit + closeTimeout()))
	out, done := "notrailer", false
	for {
		_, data, err := c.ReadMessage()
		if err != nil {
			if ce, ok := err.(*websocket.CloseError); ok {
				done = true
				if !grpc {
					name := "other"
					for cd := codes.Canceled; cd <= codes.Unauthenticated; cd++ {
						if strings.Contains(ce.Text, cd.String()) {
							name = strconv.Itoa(int(cd))
						}
					}
					if ce.Code == websocket.CloseNormalClosure {
						name = "0"
					}
					out = name
				}
			} else if ne, ok := err.(net.Error); ok && ne.Timeout() {
				return wobs{done: false, out: "timeout", conn: "0"}
			}
			break
		}
		if grpc && len(data) >= 5 && data[0]&0x80 != 0 && bytes.Contains(bytes.ToLower(data), []byte("grpc-status")) {
			out = parseTrailerStatus(data)
		}
	}
	_ = gotClose
	if ls.when == "afterclose" && done {
		for i := 0; i < ls.n; i++ {
			_ = msg()
		}
		_ = c.WriteControl(websocket.CloseMessage, websocket.FormatCloseMessage(websocket.CloseNormalClosure, ""), time.Now().Add(time.Second))
	}
	// the bridge must finish the handshake and close the TCP connection itself
	hsAt := time.Now()
	conn := "0"
	nc := c.UnderlyingConn()
	_ = nc.SetReadDeadline(time.Now().Add(closeTimeout() + c01.PromptLimit))
	buf := make([]byte, 512)
	for {
		if _, err := nc.Read(buf); err != nil {
			if ne, ok := err.(net.Error); !ok || !ne.Timeout() {
				conn = "1"
			}
			break
		}
	}
	return wobs{done, "status" + out, conn, hsAt}
}

// GenWeb emits the web scenarios: every entry point x every scenario (finite, always complete).
func GenWeb(r *rand.Rand, tier string, emit func(string)) {
	line := func(en, sc string, n, code int) {
		out := "*"
		switch {
		case sc == "gone":
			out = "left"
		case sc == "deadline" && (en == "grpcweb" || en == "grpcws" || en == "ws"):
			out = "status" + strconv.Itoa(int(codes.DeadlineExceeded))
		case sc == "deadline":
			out = "http504"
		case en == "grpcweb" || en == "grpcws" || en == "ws":
			out = "status" + strconv.Itoa(code) // the wire format carries the target's status
		case n == 0 && code == 0:
			out = "http200"
		case n > 0:
			out = "http200" // the status line went out with the first record
		}
		emit(fmt.Sprintf("web en=%s sc=%s n=%d code=%d want.done=1 want.out=%s want.closed=1 want.handler=1 want.fwd=0 want.leak=0 want.streams=1 want.gor=0 want.hang=0", en, sc, n, code, out))
	}
	codesErr := []int{int(codes.Aborted), int(codes.PermissionDenied), int(codes.Unavailable), int(codes.Internal)}
	for _, en := range []string{"http", "ws", "grpcweb", "grpcws"} {
		line(en, "tend", 0, 0)                               // target ends with OK at once, client idle
		line(en, "tend", 2, 0)                               // two responses, OK
		line(en, "tend", 0, codesErr[r.Intn(len(codesErr))]) // target refuses at once
		line(en, "terr", 1, codesErr[r.Intn(len(codesErr))]) // target errors mid-stream
		line(en, "gone", 1, 0)                               // client goes away mid-stream
		line(en, "deadline", 0, 0)                           // both idle until the deadline
	}
	// a transcoded-WebSocket client that stops reading while the target streams 32 MiB, with a 200 ms deadline: the
	// call must end and the handler return within deadline + wsCloseTimeout + 2 s although a response write is
	// blocked on the connection (the closing deadline has to be armed BEFORE the close frame is written)
	emit("web en=ws sc=stall n=0 code=0 want.done=1 want.out=stalled want.closed=1 want.handler=1 want.fwd=0 want.leak=0 want.streams=1 want.gor=0 want.hang=0")
	// the late-client-message shape on both WebSocket entry points: after the target ended the call (OK / error,
	// with and without responses), after the deadline fired, and after the client has received the close frame
	lateLine := func(en, base, when string, nlate, n, code int) {
		out := "status" + strconv.Itoa(code)
		if base == "deadline" {
			out = "status" + strconv.Itoa(int(codes.DeadlineExceeded))
		}
		emit(fmt.Sprintf("web en=%s sc=late base=%s when=%s nlate=%d n=%d code=%d want.done=1 want.out=%s want.closed=1 want.handler=1 want.connclosed=1 want.fwd=0 want.leak=0 want.streams=1 want.gor=0 want.hang=0",
			en, base, when, nlate, n, code, out))
	}
	for _, en := range []string{"ws", "grpcws"} {
		for _, when := range []string{"ended", "afterclose"} {
			lateLine(en, "tend", when, 1, 0, 0)
			lateLine(en, "tend", when, 3, 2, codesErr[r.Intn(len(codesErr))])
			lateLine(en, "deadline", when, 2, 0, 0)
		}
		lateLine(en, "tend", "ended", 2, 0, int(codes.Unavailable))
	}
	if tier == "thorough" {
		for i := 0; i < 40; i++ {
			en := []string{"ws", "grpcws"}[r.Intn(2)]
			when := []string{"ended", "afterclose"}[r.Intn(2)]
			if r.Intn(4) == 0 {
				lateLine(en, "deadline", when, 1+r.Intn(3), 0, 0)
			} else {
				code := 0
				if r.Intn(2) == 0 {
					code = 1 + r.Intn(16)
				}
				lateLine(en, "tend", when, 1+r.Intn(3), r.Intn(3), code)
			}
		}
		for i := 0; i < 120; i++ {
			en := []string{"http", "ws", "grpcweb", "grpcws"}[r.Intn(4)]
			switch r.Intn(4) {
			case 0:
				line(en, "tend", r.Intn(4), 0)
			case 1:
				line(en, "tend", r.Intn(3), 1+r.Intn(16))
			case 2:
				line(en, "terr", 1+r.Intn(3), 1+r.Intn(16))
			default:
				line(en, "gone", 1, 0)
			}
		}
	}
}
