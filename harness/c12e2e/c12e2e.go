// Package c12e2e observes deadline enforcement end to end on the five entry points (HTTP,
// WebSocket, gRPC-Web, gRPC-WebSocket, gRPC proxy) with short real deadlines and scripted
// targets that never finish on their own: the call must end at the client's deadline (not
// before, not more than a margin after) with DeadlineExceeded, and the target must never see a
// later deadline than the client asked for. Wall-clock observation supports the C12 theorems;
// it is not a proof.
package c12e2e

import (
	"bytes"
	"context"
	"encoding/binary"
	"fmt"
	"io"
	"math/rand"
	"net"
	"net/http"
	"net/http/httptest"
	"net/url"
	"strings"
	"sync"
	"time"

	"github.com/gorilla/websocket"
	grpcbridge "github.com/renbou/grpcbridge"
	"github.com/renbou/grpcbridge/bridgedesc"
	"github.com/renbou/grpcbridge/bridgelog"
	"github.com/renbou/grpcbridge/grpcadapter"
	"github.com/renbou/grpcbridge/routing"
	"github.com/renbou/grpcbridge/webbridge"
	"google.golang.org/grpc"
	"google.golang.org/grpc/codes"
	"google.golang.org/grpc/credentials/insecure"
	"google.golang.org/grpc/metadata"
	"google.golang.org/grpc/status"
	"google.golang.org/grpc/test/bufconn"
	"google.golang.org/protobuf/proto"
	"google.golang.org/protobuf/reflect/protoregistry"
	"google.golang.org/protobuf/types/known/emptypb"
	"verif/harness/common"
)

type Area struct{}

func (Area) Name() string { return "c12e2e" }

var entries = []string{"http", "ws", "grpcweb", "grpcws", "proxy"}
var shapes = []string{"unreachable", "idle", "midstream"}

func (Area) Gen(r *rand.Rand, tier string, emit func(string)) {
	// every entry × every shape once (finite, always complete), timeouts vary with the seed
	timeouts := []int{150, 250, 400}
	for _, e := range entries {
		for _, s := range shapes {
			emit(fmt.Sprintf("dl %s %s %d", e, s, timeouts[r.Intn(len(timeouts))]))
		}
	}
	// the real AdaptedClientConn against a target that accepts TCP but never speaks HTTP/2 (stream creation
	// is what the deadline interrupts), and a gRPC-Web client that keeps its request body open (judged at the
	// handler: net/http's HTTP/1.1 server cannot deliver a response while the request body is open)
	emit(fmt.Sprintf("dl httpreal silent %d", timeouts[r.Intn(len(timeouts))]))
	emit(fmt.Sprintf("dl grpcwebopen nomsg %d", timeouts[r.Intn(len(timeouts))]))
	emit(fmt.Sprintf("dl grpcwebopen midstream %d", timeouts[r.Intn(len(timeouts))]))
	// how the timeout is CARRIED on the transcoded WebSocket entry: upgrade-request header only, header next to
	// unrelated `_metadata[...]` query entries, query next to unrelated headers (added after seeded change C12-m5:
	// headers used only as a fallback when the query carries no metadata)
	for _, e := range []string{"ws-h", "ws-hq", "ws-qh"} {
		emit(fmt.Sprintf("dl %s %s %d", e, shapes[1+r.Intn(2)], timeouts[r.Intn(len(timeouts))]))
	}
	// the real AdaptedClientConn in front of a REAL gRPC server whose connection takes a while to come up (lazy /
	// idle / restarting target): the deadline the TARGET observes must still be the client's, not later by the
	// connection wait (added after seeded change C12-m6: stream context rebuilt from a stale relative timeout)
	emit(fmt.Sprintf("dl httpslow dial%d %d", 250+50*r.Intn(4), 800+100*r.Intn(3)))
	emit(fmt.Sprintf("dl httpslow dial0 %d", 400+100*r.Intn(3)))
	// a well-formed ZERO timeout is a deadline that has already passed, not "no timeout"
	for _, e := range entries {
		emit(fmt.Sprintf("dl %s %s 0", e, shapes[r.Intn(len(shapes))]))
	}
	// RAW grpc-timeout values (well-formed, padded with spaces/tabs, signed, split, wrong-case unit, no unit) through the
	// carriages that do NOT go through the same parser: `_metadata[grpc-timeout]` query entry of a WebSocket upgrade (no
	// trimming: a padded value is malformed and must be ignored), upgrade-request header, HTTP header, gRPC-Web header
	// (net/http trims optional white space around header values, so there the trimmed value decides). The target answers
	// at once; what is observed is the deadline it was GIVEN (added after seeded change C12-m10: query values trimmed).
	rawVals := []string{"400m", " 400m", "400m ", "  400m  ", "\t400m", "400m\t", "+400m", "-400m", "4 00m", "400 m", "400M", "400", "m", "1S", " 1S", "1S ", "00000400m", "000000400m", "1H"}
	for _, c := range []string{"wsq", "wsh", "httph", "grpcwebh"} {
		for _, v := range rawVals {
			emit("raw " + c + " " + common.HexS(v))
		}
	}
	nraw := 12
	if tier == "thorough" {
		nraw = 200
	}
	for i := 0; i < nraw; i++ {
		pads := []string{"", " ", "  ", "\t", "+", "-"}
		v := common.Pick(r, pads) + fmt.Sprintf("%d", 200+r.Intn(800)) + common.Pick(r, []string{"m", "m", "m", "M", "S", "u", ""}) + common.Pick(r, pads[:4])
		emit("raw " + common.Pick(r, []string{"wsq", "wsh", "httph", "grpcwebh"}) + " " + common.HexS(v))
	}
	if tier == "thorough" {
		for i := 0; i < 60; i++ {
			emit(fmt.Sprintf("dl %s %s %d", entries[r.Intn(len(entries))], shapes[r.Intn(len(shapes))], 100+r.Intn(500)))
		}
		for i := 0; i < 12; i++ {
			emit(fmt.Sprintf("dl %s %s %d", []string{"ws-h", "ws-hq", "ws-qh"}[r.Intn(3)], shapes[r.Intn(len(shapes))], 100+r.Intn(500)))
			emit(fmt.Sprintf("dl httpslow dial%d %d", 50*r.Intn(8), 600+r.Intn(500)))
		}
	}
}

// ---------- scripted target ----------

type target struct {
	shape string
	mu    sync.Mutex
	start time.Time
	// observed
	deadlineMs int64 // target-observed deadline relative to start, -1 = none, -2 = Stream never called
	closedMs   int64 // when Close() was called on the stream (-1 never)
}

func (t *target) Close() {}

func (t *target) Stream(ctx context.Context, method string) (grpcadapter.ClientStream, error) {
	t.mu.Lock()
	if dl, ok := ctx.Deadline(); ok {
		t.deadlineMs = dl.Sub(t.start).Milliseconds()
	} else {
		t.deadlineMs = -1
	}
	t.mu.Unlock()
	if t.shape == "unreachable" {
		<-ctx.Done()
		return nil, status.FromContextError(ctx.Err()).Err()
	}
	return &tstream{t: t}, nil
}

type tstream struct {
	t     *target
	mu    sync.Mutex
	recvd int
}

func (s *tstream) Send(ctx context.Context, m proto.Message) error { return nil }
func (s *tstream) Recv(ctx context.Context, m proto.Message) error {
	s.mu.Lock()
	s.recvd++
	n := s.recvd
	s.mu.Unlock()
	if s.t.shape == "midstream" && n == 1 {
		return nil
	}
	if s.t.shape == "quick" {
		return io.EOF // the target ends the call at once with OK: only the deadline it was GIVEN is observed
	}
	<-ctx.Done()
	return status.FromContextError(ctx.Err()).Err()
}
func (s *tstream) Header() metadata.MD  { return nil }
func (s *tstream) Trailer() metadata.MD { return nil }
func (s *tstream) CloseSend()           {}
func (s *tstream) Close() {
	s.t.mu.Lock()
	if s.t.closedMs < 0 {
		s.t.closedMs = time.Since(s.t.start).Milliseconds()
	}
	s.t.mu.Unlock()
}

type router struct {
	t    *target
	desc *bridgedesc.Target
}

func newDesc() *bridgedesc.Target {
	return &bridgedesc.Target{
		Name: "t", FileResolver: protoregistry.GlobalFiles, TypeResolver: protoregistry.GlobalTypes,
		Services: []bridgedesc.Service{{Name: "t.S", Methods: []bridgedesc.Method{
			{RPCName: "/t.S/SS", Input: bridgedesc.ConcreteMessage[emptypb.Empty](), Output: bridgedesc.ConcreteMessage[emptypb.Empty](), ServerStreaming: true},
			{RPCName: "/t.S/Bidi", Input: bridgedesc.ConcreteMessage[emptypb.Empty](), Output: bridgedesc.ConcreteMessage[emptypb.Empty](), ClientStreaming: true, ServerStreaming: true},
		}}},
	}
}

func (r router) RouteHTTP(req *http.Request) (grpcadapter.ClientConn, routing.HTTPRoute, error) {
	svc := &r.desc.Services[0]
	m := &svc.Methods[0]
	if strings.HasPrefix(req.URL.Path, "/bidi") {
		m = &svc.Methods[1]
	}
	return r.t, routing.HTTPRoute{Target: r.desc, Service: svc, Method: m,
		Binding: &bridgedesc.Binding{HTTPMethod: "POST", Pattern: req.URL.Path, RequestBodyPath: "*"}}, nil
}

func (r router) RouteGRPC(ctx context.Context) (grpcadapter.ClientConn, routing.GRPCRoute, error) {
	svc := &r.desc.Services[0]
	return r.t, routing.GRPCRoute{Target: r.desc, Service: svc, Method: bridgedesc.DummyMethod("t.S", "Bidi")}, nil
}

// ---------- one observation ----------

type obs struct {
	elapsedMs int64
	outcome   string
}

func (Area) Exec(input string) string {
	f := strings.Fields(input)
	if len(f) == 3 && f[0] == "raw" {
		return execRaw(f[1], f[2])
	}
	if len(f) != 4 || f[0] != "dl" {
		return "BADOP"
	}
	entry, shape := f[1], f[2]
	var toMs int
	fmt.Sscan(f[3], &toMs)
	t := &target{shape: shape, deadlineMs: -2, closedMs: -1}
	rt := router{t: t, desc: newDesc()}
	hdr := fmt.Sprintf("%dm", toMs)
	limit := time.Duration(toMs)*time.Millisecond + 5*time.Second // give up observing long after the deadline

	var o obs
	switch entry {
	case "http":
		o = runHTTP(rt, t, hdr, limit)
	case "ws", "ws-h", "ws-hq", "ws-qh":
		o = runWS(rt, t, hdr, limit, strings.TrimPrefix(strings.TrimPrefix(entry, "ws"), "-"))
	case "httpslow":
		var delay int
		fmt.Sscanf(shape, "dial%d", &delay)
		t.shape = "idle"
		o = runHTTPSlow(t, hdr, limit, time.Duration(delay)*time.Millisecond)
	case "grpcweb":
		o = runGRPCWeb(rt, t, hdr, limit)
	case "grpcws":
		o = runGRPCWS(rt, t, hdr, limit)
	case "proxy":
		o = runProxy(rt, t, toMs, limit)
	case "httpreal":
		o = runHTTPReal(t, hdr, limit)
	case "grpcwebopen":
		t.shape = "idle"
		o = runGRPCWebOpen(rt, t, hdr, shape == "midstream", toMs)
	default:
		return "BADOP"
	}
	time.Sleep(20 * time.Millisecond)
	t.mu.Lock()
	defer t.mu.Unlock()
	return fmt.Sprintf("elapsed=%d outcome=%s tdl=%d closed=%d", o.elapsedMs, o.outcome, t.deadlineMs, t.closedMs)
}

func runHTTP(rt router, t *target, hdr string, limit time.Duration) obs {
	srv := httptest.NewServer(webbridge.NewTranscodedHTTPBridge(rt, webbridge.TranscodedHTTPBridgeOpts{}))
	defer srv.Close()
	req, _ := http.NewRequest("POST", srv.URL+"/ss", strings.NewReader("{}"))
	req.Header.Set("Grpc-Timeout", hdr)
	req.Header.Set("Content-Type", "application/json")
	cl := &http.Client{Timeout: limit}
	t.start = time.Now()
	resp, err := cl.Do(req)
	if err != nil {
		return obs{time.Since(t.start).Milliseconds(), "clienterr"}
	}
	body, rerr := io.ReadAll(resp.Body)
	resp.Body.Close()
	el := time.Since(t.start).Milliseconds()
	switch {
	case resp.StatusCode == 504:
		return obs{el, "deadline"}
	case resp.StatusCode == 200 && t.shape == "midstream":
		// the first record was already written, so the status line is 200; the stream must simply end at the deadline
		_ = body
		_ = rerr
		return obs{el, "deadline"}
	}
	return obs{el, fmt.Sprintf("http%d", resp.StatusCode)}
}

// realRouter routes to a real AdaptedClientConn.
type realRouter struct {
	conn grpcadapter.ClientConn
	desc *bridgedesc.Target
}

func (r realRouter) RouteHTTP(req *http.Request) (grpcadapter.ClientConn, routing.HTTPRoute, error) {
	svc := &r.desc.Services[0]
	return r.conn, routing.HTTPRoute{Target: r.desc, Service: svc, Method: &svc.Methods[0],
		Binding: &bridgedesc.Binding{HTTPMethod: "POST", Pattern: req.URL.Path, RequestBodyPath: "*"}}, nil
}

// runHTTPReal: transcoded HTTP call to a target that accepts TCP connections but never speaks HTTP/2, through the
// real AdaptedClientConn (waitForReady + NewStream are what the deadline has to interrupt).
func runHTTPReal(t *target, hdr string, limit time.Duration) obs {
	ln, err := net.Listen("tcp", "127.0.0.1:0")
	if err != nil {
		return obs{0, "listenerr"}
	}
	defer ln.Close()
	cc, err := grpc.NewClient(ln.Addr().String(), grpc.WithTransportCredentials(insecure.NewCredentials()))
	if err != nil {
		return obs{0, "dialerr"}
	}
	ac := grpcadapter.AdaptClient(cc)
	defer ac.Close()
	srv := httptest.NewServer(webbridge.NewTranscodedHTTPBridge(realRouter{ac, newDesc()}, webbridge.TranscodedHTTPBridgeOpts{}))
	defer srv.Close()
	req, _ := http.NewRequest("POST", srv.URL+"/ss", strings.NewReader("{}"))
	req.Header.Set("Grpc-Timeout", hdr)
	req.Header.Set("Content-Type", "application/json")
	cl := &http.Client{Timeout: limit}
	t.start = time.Now()
	resp, err := cl.Do(req)
	if err != nil {
		return obs{time.Since(t.start).Milliseconds(), "clienterr"}
	}
	_, _ = io.ReadAll(resp.Body)
	resp.Body.Close()
	el := time.Since(t.start).Milliseconds()
	if resp.StatusCode == 504 {
		return obs{el, "deadline"}
	}
	return obs{el, fmt.Sprintf("http%d", resp.StatusCode)}
}

// runHTTPSlow: transcoded HTTP call through the real AdaptedClientConn to a REAL gRPC server (TCP) whose connection
// only comes up after `delay` (the dialer sleeps): the call is idle at the target until the deadline ends it; the
// target handler records the deadline IT observes (grpc-go derives it from the grpc-timeout the bridge's client sent).
func runHTTPSlow(t *target, hdr string, limit time.Duration, delay time.Duration) obs {
	ln, err := net.Listen("tcp", "127.0.0.1:0")
	if err != nil {
		return obs{0, "listenerr"}
	}
	gs := grpc.NewServer(grpc.UnknownServiceHandler(func(_ any, st grpc.ServerStream) error {
		t.mu.Lock()
		if dl, ok := st.Context().Deadline(); ok {
			t.deadlineMs = dl.Sub(t.start).Milliseconds()
		} else {
			t.deadlineMs = -1
		}
		t.mu.Unlock()
		<-st.Context().Done()
		t.mu.Lock()
		if t.closedMs < 0 {
			t.closedMs = time.Since(t.start).Milliseconds()
		}
		t.mu.Unlock()
		return status.FromContextError(st.Context().Err()).Err()
	}))
	go func() { _ = gs.Serve(ln) }()
	defer gs.Stop()
	cc, err := grpc.NewClient("passthrough:///"+ln.Addr().String(), grpc.WithTransportCredentials(insecure.NewCredentials()),
		grpc.WithContextDialer(func(ctx context.Context, addr string) (net.Conn, error) {
			select {
			case <-time.After(delay):
			case <-ctx.Done():
				return nil, ctx.Err()
			}
			return (&net.Dialer{}).DialContext(ctx, "tcp", addr)
		}))
	if err != nil {
		return obs{0, "dialerr"}
	}
	ac := grpcadapter.AdaptClient(cc)
	defer ac.Close()
	srv := httptest.NewServer(webbridge.NewTranscodedHTTPBridge(realRouter{ac, newDesc()}, webbridge.TranscodedHTTPBridgeOpts{}))
	defer srv.Close()
	req, _ := http.NewRequest("POST", srv.URL+"/ss", strings.NewReader("{}"))
	req.Header.Set("Grpc-Timeout", hdr)
	req.Header.Set("Content-Type", "application/json")
	cl := &http.Client{Timeout: limit}
	t.start = time.Now()
	resp, err := cl.Do(req)
	if err != nil {
		return obs{time.Since(t.start).Milliseconds(), "clienterr"}
	}
	_, _ = io.ReadAll(resp.Body)
	resp.Body.Close()
	el := time.Since(t.start).Milliseconds()
	if resp.StatusCode == 504 {
		return obs{el, "deadline"}
	}
	return obs{el, fmt.Sprintf("http%d", resp.StatusCode)}
}

// lockedRecorder is a minimal concurrency-safe ResponseWriter.
type lockedRecorder struct {
	mu   sync.Mutex
	h    http.Header
	body []byte
}

func (w *lockedRecorder) Header() http.Header { return w.h }
func (w *lockedRecorder) WriteHeader(int)     {}
func (w *lockedRecorder) Write(b []byte) (int, error) {
	w.mu.Lock()
	w.body = append(w.body, b...)
	w.mu.Unlock()
	return len(b), nil
}

// runGRPCWebOpen calls GRPCWebBridge.ServeHTTP in-process with a request body that stays OPEN (a client idle on an
// open stream, before or after its first message): the handler itself must finish at the deadline with the
// DeadlineExceeded trailer written.
func runGRPCWebOpen(rt router, t *target, hdr string, sendOne bool, toMs int) obs {
	h := webbridge.NewGRPCWebBridge(rt, webbridge.GRPCWebBridgeOpts{})
	pr, pw := io.Pipe()
	defer pw.Close()
	req := httptest.NewRequest("POST", "/t.S/Bidi", pr)
	req.Header.Set("Content-Type", "application/grpc-web+proto")
	req.Header.Set("Grpc-Timeout", hdr)
	w := &lockedRecorder{h: http.Header{}}
	if sendOne {
		go func() { _, _ = pw.Write([]byte{0, 0, 0, 0, 0}) }()
	}
	done := make(chan struct{})
	t.start = time.Now()
	go func() { defer close(done); h.ServeHTTP(w, req) }()
	select {
	case <-done:
	case <-time.After(time.Duration(toMs)*time.Millisecond + 3*time.Second):
		el := time.Since(t.start).Milliseconds()
		pw.Close() // let the stuck handler go
		<-done
		return obs{el, "handler-stuck-on-open-body"}
	}
	el := time.Since(t.start).Milliseconds()
	w.mu.Lock()
	body := append([]byte{}, w.body...)
	w.mu.Unlock()
	if st := parseTrailerStatus(body); st == fmt.Sprint(int(codes.DeadlineExceeded)) {
		return obs{el, "deadline"}
	} else {
		return obs{el, "grpcstatus" + st}
	}
}

func wsURL(u string) string { return "ws" + strings.TrimPrefix(u, "http") }

func closeOutcome(err error) string {
	if ce, ok := err.(*websocket.CloseError); ok {
		if strings.Contains(ce.Text, "DeadlineExceeded") {
			return "deadline"
		}
		return fmt.Sprintf("close%d", ce.Code)
	}
	return "wserr"
}

// carry: "" = `_metadata[grpc-timeout]` query entry only; "h" = Grpc-Timeout header of the upgrade request only;
// "hq" = header + an unrelated query metadata entry; "qh" = query entry + an unrelated header.
func runWS(rt router, t *target, hdr string, limit time.Duration, carry string) obs {
	srv := httptest.NewServer(webbridge.NewTranscodedWebSocketBridge(rt, webbridge.TranscodedWebSocketBridgeOpts{}))
	defer srv.Close()
	q := url.Values{}
	h := http.Header{}
	switch carry {
	case "":
		q.Set("_metadata[grpc-timeout]", hdr)
	case "h":
		h.Set("Grpc-Timeout", hdr)
	case "hq":
		h.Set("Grpc-Timeout", hdr)
		q.Set("_metadata[x-other]", "1")
	case "qh":
		q.Set("_metadata[grpc-timeout]", hdr)
		h.Set("X-Other", "1")
	}
	u := wsURL(srv.URL) + "/bidi"
	if len(q) > 0 {
		u += "?" + q.Encode()
	}
	t.start = time.Now()
	c, _, err := websocket.DefaultDialer.Dial(u, h)
	if err != nil {
		return obs{time.Since(t.start).Milliseconds(), "dialerr"}
	}
	defer c.Close()
	_ = c.SetReadDeadline(time.Now().Add(limit))
	for {
		_, _, err := c.ReadMessage()
		if err != nil {
			return obs{time.Since(t.start).Milliseconds(), closeOutcome(err)}
		}
	}
}

// parseTrailerStatus scans length-prefixed frames for the trailer frame and returns its grpc-status.
func parseTrailerStatus(b []byte) string {
	for len(b) >= 5 {
		n := int(binary.BigEndian.Uint32(b[1:5]))
		if len(b) < 5+n {
			return "truncated"
		}
		if b[0]&0x80 != 0 {
			for _, ln := range strings.Split(string(b[5:5+n]), "\r\n") {
				if strings.HasPrefix(strings.ToLower(ln), "grpc-status:") {
					return strings.TrimSpace(ln[len("grpc-status:"):])
				}
			}
			return "nostatus"
		}
		b = b[5+n:]
	}
	return "notrailer"
}

// dechunk decodes an HTTP/1.1 chunked body as far as it is complete; done = terminal chunk seen.
func dechunk(b []byte) (out []byte, done bool) {
	for {
		i := bytes.Index(b, []byte("\r\n"))
		if i < 0 {
			return out, false
		}
		var n int
		if _, err := fmt.Sscanf(string(b[:i]), "%x", &n); err != nil {
			return out, false
		}
		b = b[i+2:]
		if n == 0 {
			return out, true
		}
		if len(b) < n+2 {
			return append(out, b...), false
		}
		out = append(out, b[:n]...)
		b = b[n+2:]
	}
}

// runGRPCWeb speaks raw HTTP/1.1: one chunk with an empty gRPC-Web message, then the terminal chunk.
// (The request body is complete: a net/http HTTP/1.1 server is not full duplex — it cannot start the
// response while a request body is still open — so an open request body is not a fair scenario here;
// browsers' gRPC-Web clients always send the whole request first.)
func runGRPCWeb(rt router, t *target, hdr string, limit time.Duration) obs {
	srv := httptest.NewServer(webbridge.NewGRPCWebBridge(rt, webbridge.GRPCWebBridgeOpts{}))
	defer srv.Close()
	conn, err := net.Dial("tcp", strings.TrimPrefix(srv.URL, "http://"))
	if err != nil {
		return obs{0, "dialerr"}
	}
	defer conn.Close()
	t.start = time.Now()
	fmt.Fprintf(conn, "POST /t.S/Bidi HTTP/1.1\r\nHost: x\r\nContent-Type: application/grpc-web+proto\r\nGrpc-Timeout: %s\r\nTransfer-Encoding: chunked\r\n\r\n5\r\n\x00\x00\x00\x00\x00\r\n0\r\n\r\n", hdr)
	_ = conn.SetReadDeadline(time.Now().Add(limit))
	var buf []byte
	tmp := make([]byte, 4096)
	for {
		n, err := conn.Read(tmp)
		buf = append(buf, tmp[:n]...)
		if i := bytes.Index(buf, []byte("\r\n\r\n")); i >= 0 {
			head := strings.ToLower(string(buf[:i]))
			var body []byte
			done := false
			if strings.Contains(head, "transfer-encoding: chunked") {
				body, done = dechunk(buf[i+4:])
			} else if k := strings.Index(head, "content-length:"); k >= 0 {
				var n int
				fmt.Sscanf(strings.TrimSpace(head[k+len("content-length:"):]), "%d", &n)
				body = buf[i+4:]
				done = len(body) >= n
			} else {
				body = buf[i+4:] // until close
			}
			if done || err != nil {
				el := time.Since(t.start).Milliseconds()
				if !bytes.HasPrefix(buf, []byte("HTTP/1.1 200")) {
					return obs{el, "http" + string(buf[9:12])}
				}
				if st := parseTrailerStatus(body); st == fmt.Sprint(int(codes.DeadlineExceeded)) {
					return obs{el, "deadline"}
				} else {
					return obs{el, "grpcstatus" + st}
				}
			}
		}
		if err != nil {
			return obs{time.Since(t.start).Milliseconds(), "readerr"}
		}
	}
}

func runGRPCWS(rt router, t *target, hdr string, limit time.Duration) obs {
	srv := httptest.NewServer(webbridge.NewGRPCWebSocketBridge(rt, webbridge.GRPCWebBridgeOpts{Logger: bridgelog.Discard()}))
	defer srv.Close()
	d := websocket.Dialer{Subprotocols: []string{"grpc-websockets"}}
	t.start = time.Now()
	c, _, err := d.Dial(wsURL(srv.URL)+"/t.S/Bidi", nil)
	if err != nil {
		return obs{time.Since(t.start).Milliseconds(), "dialerr"}
	}
	defer c.Close()
	_ = c.WriteMessage(websocket.BinaryMessage, []byte("grpc-timeout: "+hdr+"\r\n"))
	_ = c.WriteMessage(websocket.BinaryMessage, []byte{0, 0, 0, 0, 0, 0}) // flow byte + empty message
	_ = c.SetReadDeadline(time.Now().Add(limit))
	st := "notrailer"
	for {
		_, data, err := c.ReadMessage()
		if err != nil {
			el := time.Since(t.start).Milliseconds()
			if st == fmt.Sprint(int(codes.DeadlineExceeded)) {
				return obs{el, "deadline"}
			}
			return obs{el, "grpcstatus" + st}
		}
		if len(data) >= 5 && data[0]&0x80 != 0 && bytes.Contains(bytes.ToLower(data), []byte("grpc-status")) {
			st = parseTrailerStatus(data)
			if st == fmt.Sprint(int(codes.DeadlineExceeded)) {
				return obs{time.Since(t.start).Milliseconds(), "deadline"}
			}
		}
	}
}

func runProxy(rt router, t *target, toMs int, limit time.Duration) obs {
	lis := bufconn.Listen(1 << 16)
	proxy := grpcbridge.NewGRPCProxy(rt)
	srv := grpc.NewServer(proxy.AsServerOption())
	go func() { _ = srv.Serve(lis) }()
	defer srv.Stop()
	cc, err := grpc.NewClient("passthrough:///bufnet",
		grpc.WithContextDialer(func(ctx context.Context, _ string) (net.Conn, error) { return lis.DialContext(ctx) }),
		grpc.WithTransportCredentials(insecure.NewCredentials()))
	if err != nil {
		return obs{0, "dialerr"}
	}
	defer cc.Close()
	// warm the connection so connection setup is not part of the measured time
	wctx, wcancel := context.WithTimeout(context.Background(), 2*time.Second)
	cc.Connect()
	for cc.GetState().String() != "READY" && cc.WaitForStateChange(wctx, cc.GetState()) {
	}
	wcancel()
	ctx, cancel := context.WithTimeout(context.Background(), time.Duration(toMs)*time.Millisecond)
	defer cancel()
	t.start = time.Now()
	s, err := cc.NewStream(ctx, &grpc.StreamDesc{ClientStreams: true, ServerStreams: true}, "/t.S/Bidi")
	if err != nil {
		if status.Code(err) == codes.DeadlineExceeded {
			return obs{time.Since(t.start).Milliseconds(), "deadline"} // grpc-go's client refuses an expired deadline itself
		}
		return obs{time.Since(t.start).Milliseconds(), "streamerr"}
	}
	_ = s.SendMsg(&emptypb.Empty{})
	for {
		if err := s.RecvMsg(&emptypb.Empty{}); err != nil {
			el := time.Since(t.start).Milliseconds()
			if status.Code(err) == codes.DeadlineExceeded {
				// the client's own timer also fires; what the bridge did is judged from closed= (target stream closed in time)
				return obs{el, "deadline"}
			}
			return obs{el, "grpc" + status.Code(err).String()}
		}
	}
}

// execRaw: one call with the RAW grpc-timeout value `hx` carried the given way; the scripted target answers at once and
// records the deadline of the context it was called with: `tdl=<ms after the start>` / `tdl=-1` (none) / `tdl=-2` (not called).
func execRaw(carry, hx string) string {
	raw := string(common.MustUnHex(hx))
	t := &target{shape: "quick", deadlineMs: -2, closedMs: -1}
	rt := router{t: t, desc: newDesc()}
	limit := 3 * time.Second
	switch carry {
	case "wsq", "wsh":
		srv := httptest.NewServer(webbridge.NewTranscodedWebSocketBridge(rt, webbridge.TranscodedWebSocketBridgeOpts{}))
		defer srv.Close()
		u := wsURL(srv.URL) + "/bidi"
		h := http.Header{}
		if carry == "wsq" {
			q := url.Values{}
			q.Set("_metadata[grpc-timeout]", raw)
			u += "?" + q.Encode()
		} else {
			h["Grpc-Timeout"] = []string{raw}
		}
		t.start = time.Now()
		c, _, err := websocket.DefaultDialer.Dial(u, h)
		if err != nil {
			return "tdl=-2 dialerr"
		}
		defer c.Close()
		_ = c.SetReadDeadline(time.Now().Add(limit))
		for {
			if _, _, err := c.ReadMessage(); err != nil {
				break
			}
		}
	case "httph", "grpcwebh":
		var h http.Handler = webbridge.NewTranscodedHTTPBridge(rt, webbridge.TranscodedHTTPBridgeOpts{})
		reqLine, ctype, body := "POST /ss HTTP/1.1", "application/json", "{}"
		if carry == "grpcwebh" {
			h = webbridge.NewGRPCWebBridge(rt, webbridge.GRPCWebBridgeOpts{})
			reqLine, ctype, body = "POST /t.S/Bidi HTTP/1.1", "application/grpc-web+proto", "\x00\x00\x00\x00\x00"
		}
		srv := httptest.NewServer(h)
		defer srv.Close()
		conn, err := net.Dial("tcp", strings.TrimPrefix(srv.URL, "http://"))
		if err != nil {
			return "tdl=-2 dialerr"
		}
		defer conn.Close()
		t.start = time.Now()
		// the header line is written verbatim (a Go client would refuse or rewrite some of these values)
		fmt.Fprintf(conn, "%s\r\nHost: x\r\nContent-Type: %s\r\nGrpc-Timeout: %s\r\nContent-Length: %d\r\nConnection: close\r\n\r\n%s", reqLine, ctype, raw, len(body), body)
		_ = conn.SetReadDeadline(time.Now().Add(limit))
		_, _ = io.ReadAll(conn)
	default:
		return "BADOP"
	}
	time.Sleep(20 * time.Millisecond)
	t.mu.Lock()
	defer t.mu.Unlock()
	return fmt.Sprintf("tdl=%d", t.deadlineMs)
}
