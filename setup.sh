#!/bin/sh
# Build the verification framework from files on disk only (offline).
set -e
cd "$(dirname "$0")"
export GOFLAGS=-mod=mod GOPROXY=off GOSUMDB=off GOTOOLCHAIN=local
mkdir -p .work evidence replays lean/GB/Generated
(cd extract && go build -o ../.work/extract .)
./.work/extract -repo "${VERIF_REPO:-/repo}" -out lean/GB/Generated/Facts.lean -json .work/facts.json
(cd extract/lockset && go build -o ../../.work/lockset .)
./.work/lockset -repo "${VERIF_REPO:-/repo}" -out lean/GB/Generated/Lockset.lean -json .work/lockset.json
(cd extract/trans && go build -o ../../.work/trans .)
./.work/trans -repo "${VERIF_REPO:-/repo}" -out lean/GB/Generated/Trans.lean -json .work/trans.json \
  || echo "setup: translator failed on this tree (./check of the properties with a TransTie module reports it)"
(cd lean && lake build GB gbdriver)
(cd harness && go build -tags verif -o ../.work/harness .)
echo "setup ok"
