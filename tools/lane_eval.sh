#!/bin/bash
# usage: tools/lane_eval.sh <lane#> <src_dir> <seeded_id> <props>   — evaluate one delivered seeded change in scratch lane
# /tmp/lane<k>/{verif (clone of /verif), repo (worktree of /repo HEAD)}; copies the resulting seeded/<id> back to /verif/seeded.
set -e
K=$1; SRC=$2; SID=$3; PROPS=$4; EXTRA=$5
S=/tmp/lane$K
cd $S/verif
git -C $S/repo checkout -q -- . ; git -C $S/repo clean -fdq
VERIF_REPO=$S/repo timeout 3000 python3 tools/eval_mutant.py "$SRC" "$SID" --props "$PROPS" $EXTRA > $S/eval-$SID.log 2>&1 || true
git -C $S/repo checkout -q -- . ; git -C $S/repo clean -fdq
if [ -d seeded/$SID ]; then rm -rf /verif/seeded/$SID; cp -r seeded/$SID /verif/seeded/$SID; fi
tail -4 $S/eval-$SID.log | cut -c1-300
