#!/usr/bin/env python3
"""tools/resolve_union.py <file>… — resolves git conflict markers by keeping BOTH sides (ours first, then theirs): for notes that two
slices appended to."""
import sys, re
for p in sys.argv[1:]:
    out=[]; 
    for line in open(p):
        if line.startswith('<<<<<<< ') or line.startswith('>>>>>>> '): continue
        if line.startswith('======='): out.append('\n'); continue
        if line.startswith('||||||| '): continue
        out.append(line)
    open(p,'w').writelines(out)
