#!/bin/bash
# usage: tools/mkmut.sh <Cxx>   — creates /tmp/mut/<Cxx>/repo worktree of /repo HEAD and prints the agent prompt path
set -e
P=$1
mkdir -p /tmp/mut/$P/out
git -C /repo worktree add -q -b mut-$P /tmp/mut/$P/repo HEAD
python3 - "$P" <<'PY'
import json,sys
pid=sys.argv[1]
prop=[json.loads(l) for l in open('/verif/properties.jsonl') if json.loads(l)['id']==pid][0]
text=f"{prop['id']} — {prop['title']}\n{prop['statement']}\nQuantified over: {prop['quantifier']['text']}"
t=open('/verif/docs/prompts/mutant_template.md').read().replace('@ID@',pid).replace('@PID@',pid).replace('@PROPERTY@',text)
open(f'/tmp/mut/{pid}/prompt.md','w').write(t)
print(f'/tmp/mut/{pid}/prompt.md')
PY
