#!/usr/bin/env python3
"""tools/reeval_all.py [ids…] — re-runs every kept seeded change (or the listed ones) against the CURRENT checks:
applies it to /repo, runs the checks recorded in its meta.json (owning property first), undoes it; keeps the earlier
confirmation (--skip-confirm). Prints one line per change; exit 1 if a change detected before is now missed."""
import json, os, subprocess, sys, glob
ROOT = os.path.dirname(os.path.dirname(os.path.abspath(__file__)))
ids = sys.argv[1:] or sorted(os.path.basename(d) for d in glob.glob(os.path.join(ROOT, "seeded", "*")) if os.path.isdir(d))
bad = 0
for sid in ids:
    mp = os.path.join(ROOT, "seeded", sid, "meta.json")
    m = json.load(open(mp))
    before = {k: v.get("detected") for k, v in m.get("ran", {}).get("checks", {}).items()}
    props = list(before) or [m.get("property")]
    own = m.get("property")
    if own in props:
        props.remove(own); props.insert(0, own)
    if os.environ.get("REEVAL_OWN_ONLY") and own:
        props = [own]  # quick regression: only the check of the property the change was written against
    r = subprocess.run([sys.executable, os.path.join(ROOT, "tools", "eval_mutant.py"), os.path.join(ROOT, "seeded", sid), sid,
                        "--props", ",".join(props), "--skip-confirm"], capture_output=True, text=True)
    after = {}
    try:
        after = {k: v.get("detected") for k, v in json.load(open(mp))["ran"]["checks"].items()}
    except Exception:
        pass
    if not after:
        print(sid, "ERROR", r.stdout[-300:].replace("\n", " | "), flush=True); bad += 1; continue
    lost = [k for k in before if before[k] and k in after and not after.get(k)]
    flag = "LOST:" + ",".join(lost) if lost else "ok"
    if lost: bad += 1
    print(sid, flag, " ".join(f"{k}={'D' if v else 'm'}" for k, v in after.items()), flush=True)
sys.exit(1 if bad else 0)
