#!/bin/bash
# usage: tools/merge_slice.sh <name>  — cherry-picks repo-<name> commits into /repo and merges slice-<name> into /verif
set -e
N=$1
BASE=$(git -C /repo merge-base HEAD repo-$N)
COMMITS=$(git -C /repo rev-list --reverse $BASE..repo-$N)
for c in $COMMITS; do
  if ! git -C /repo cherry-pick -x $c >/dev/null 2>&1; then
    echo "CONFLICT cherry-picking $c ($(git -C /repo log -1 --format=%s $c)); resolve in /repo then re-run"; exit 1
  fi
  echo "picked $(git -C /repo log -1 --format='%h %s')"
done
cd /verif
if ! git merge --no-edit slice-$N >/dev/null 2>&1; then
  for f in $(git diff --name-only --diff-filter=U); do
    if [ "$f" = "known_findings.json" ]; then
      python3 - <<'PY'
import json, subprocess
def load(stage):
    return json.loads(subprocess.check_output(["git","show",f":{stage}:known_findings.json"],text=True))
ours, theirs = load(2), load(3)
seen=set(); out=[]
for f in ours["findings"]+theirs["findings"]:
    k=json.dumps(f,sort_keys=True)
    if k not in seen:
        seen.add(k); out.append(f)
ours["findings"]=out
json.dump(ours,open("known_findings.json","w"),indent=1)
PY
      git add known_findings.json
    else
      echo "CONFLICT in $f"; exit 1
    fi
  done
  git commit --no-edit -q
fi
echo "merged slice-$N"
