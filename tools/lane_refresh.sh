#!/bin/bash
# usage: tools/lane_refresh.sh <k>… — bring scratch lanes up to /verif HEAD and /repo HEAD (only when the lane's worker is idle)
for K in "$@"; do (
  S=/tmp/lane$K
  git -C $S/repo checkout -q -- . ; git -C $S/repo clean -fdq; git -C $S/repo checkout -q --detach $(git -C /repo rev-parse HEAD)
  cd $S/verif && git checkout -q -- . && git clean -fdq -e lean/.lake -e .work && git pull -q origin main 2>/dev/null || git pull -q
  rsync -a /verif/lean/.lake $S/verif/lean/
  VERIF_REPO=$S/repo ./setup.sh > $S/setup.log 2>&1; echo "lane$K $(git -C $S/verif log --oneline | head -1 | cut -c1-60) :: $(tail -1 $S/setup.log)"
) & done; wait
