#!/usr/bin/env python3
"""Rewrites the `commit` of every fixed entry in known_findings.json to the hash the fix has on /repo main
(slice agents recorded the hash of their own worktree; cherry-pick -x keeps the original hash in the message)."""
import json, re, subprocess
log = subprocess.check_output(["git", "-C", "/repo", "log", "--format=%h%x00%B%x01"], text=True)
m = {}
for rec in log.split("\x01"):
    if "\x00" not in rec: continue
    h, body = rec.strip().split("\x00", 1)
    for orig in re.findall(r"cherry picked from commit ([0-9a-f]{7,40})", body):
        m[orig[:7]] = h.strip()
p = "/verif/known_findings.json"
d = json.load(open(p))
for f in d["findings"]:
    c = f.get("commit")
    if c and c[:7] in m:
        new = m[c[:7]]
        for k in ("line", "what"):
            if k in f and c in f[k]:
                f[k] = f[k].replace(c, new)
        f["commit"] = new
for f in d["findings"]:
    if f["kind"] == "fixed":
        f["line"] = "fixed: property=%s %s %s" % (f["property"], f.get("commit", "?"), " ".join(f.get("what", "").split())[:400])
    elif f["kind"] == "known":
        f["line"] = "KNOWN-FINDING: property=%s %s: %s" % (f["property"], f["id"], " ".join(f.get("what", "").split())[:400])
json.dump(d, open(p, "w"), indent=1)
print("remapped", len(m), "cherry-picked commits")
