#!/bin/bash
# usage: tools/mkmut2.sh <Cxx>  — third-round (glue) mutation worktree /tmp/mut3/<Cxx>, prompt lists earlier mechanisms to avoid
set -e
P=$1
mkdir -p /tmp/mut3/$P/out
git -C /repo worktree add -q -b mut3-$P /tmp/mut3/$P/repo HEAD
python3 - "$P" <<'PY'
import json,sys,glob
pid=sys.argv[1]
prop=[json.loads(l) for l in open('/verif/properties.jsonl') if json.loads(l)['id']==pid][0]
text=f"{prop['id']} — {prop['title']}\n{prop['statement']}\nQuantified over: {prop['quantifier']['text']}"
t=open('/verif/docs/prompts/mutant_template.md').read().replace('/tmp/mut/','/tmp/mut3/').replace('mut-@ID@','mut3-@ID@').replace('@ID@',pid).replace('@PID@',pid).replace('@PROPERTY@',text)
prev=[]
for mp in sorted(glob.glob(f'/verif/seeded/{pid}-*/meta.json')):
    m=json.load(open(mp))
    prev.append(f"- {m.get('title','')}: {m.get('what_it_breaks','')[:300]} (files: {', '.join(m.get('files_changed',[]))})")
if prev:
    t+="\n\nEARLIER SEEDED CHANGES FOR THIS PROPERTY (already done by someone else — do NOT repeat these mechanisms or close variants of them; pick a different clause of the property, a different file or a different kind of mistake):\n"+"\n".join(prev)+"\n"
t+="\nTHIS ROUND — WHERE TO CHANGE: put the change into the code that WIRES components together rather than into a component's core algorithm: the root package (reflection.go: ReflectionRouter.Add/Remove, aggregateWatcher, option handling; bridge.go: NewWebBridge, WebBridge.ServeHTTP dispatch and option plumbing; proxy.go: NewGRPCProxy, StreamHandler, the server-stream adapter; forwarder.go), or the construction / option-default / dispatch code of a package (New… constructors, withDefaults, ServeHTTP entry dispatch, adapters between packages). Typical mistakes there: an option not passed on to one of several components, a default applied twice or not at all, a component built with the wrong collaborator, a watcher not registered with (or not closed on) one of two routers, the wrong name/key used when wiring, an error path that leaves half of the wiring in place, a dispatch condition that sends one kind of request to the wrong bridge.\n"
t+="\nAim for breakage that is SUBTLE: prefer clauses of the property, code paths, entry points, configurations or input classes the earlier changes did not touch.\n"
open(f'/tmp/mut3/{pid}/prompt.md','w').write(t)
print(f'/tmp/mut3/{pid}/prompt.md')
PY
