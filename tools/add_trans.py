#!/usr/bin/env python3
"""tools/add_trans.py Cxx ... — register GB.Cxx.TransTie as an extra theorem module of props/Cxx.json (translator tie)."""
import json, sys
TB = "translator extract/trans (Go subset → Lean) + its run-time library lean/GB/Base/TransLib.lean (meaning of the Go subset, modelled stdlib functions; docs/notes/TRANS.md)"
for pid in sys.argv[1:]:
    p = f"props/{pid}.json"
    raw = open(p).read()
    c = json.loads(raw)
    ascii_ = json.dumps(c, indent=1, ensure_ascii=True) + ("\n" if raw.endswith("\n") else "") == raw
    out = {}
    for k, v in c.items():
        out[k] = v
        if k == "lean_module":
            out["extra_modules"] = sorted(set(c.get("extra_modules", []) + [f"GB.{pid}.TransTie"]))
    if TB not in out["trusted_base"]:
        out["trusted_base"].append(TB)
    open(p, "w").write(json.dumps(out, indent=1, ensure_ascii=ascii_) + ("\n" if raw.endswith("\n") else ""))
