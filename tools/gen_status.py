#!/usr/bin/env python3
"""Regenerates docs/STATUS.md (as-built status per property) and splices it into DESIGN.md between the
markers <!-- STATUS:BEGIN --> and <!-- STATUS:END -->."""
import json, glob, os, re
ROOT = os.path.dirname(os.path.dirname(os.path.abspath(__file__)))
props = {json.loads(l)["id"]: json.loads(l) for l in open(os.path.join(ROOT, "properties.jsonl"))}
kf = json.load(open(os.path.join(ROOT, "known_findings.json")))["findings"]
seeded = {}
for p in sorted(glob.glob(os.path.join(ROOT, "seeded", "*", "meta.json"))):
    m = json.load(open(p))
    sid = os.path.basename(os.path.dirname(p))
    for prop, r in m.get("ran", {}).get("checks", {}).items():
        seeded.setdefault(prop, []).append((sid, m.get("title", "")[:90], r))
out = ["| id | claimed | theorems (Props.lean) | correspondence areas: cases in the last quick run | fixed defects | known findings | seeded changes (caught / kept) |",
       "|----|---------|-----------------------|----------------------------------------------------|---------------|----------------|-------------------------------|"]
detail = []
for pid in sorted(props):
    cfgp = os.path.join(ROOT, "props", pid + ".json")
    if not os.path.exists(cfgp):
        out.append(f"| {pid} | no | – | – | – | – | – |"); continue
    cfg = json.load(open(cfgp))
    claimed = "no (disabled)" if cfg.get("disabled") else cfg.get("level", "proof")
    ev = {}
    try: ev = json.load(open(os.path.join(ROOT, "evidence", pid + ".json")))
    except Exception: pass
    cov = ev.get("coverage", {})
    nthm = len(cov.get("theorems", []))
    areas = "; ".join(f"{a}: {sum(d.get('verdicts', {}).values())}" for a, d in cov.get("input_distribution", {}).items())
    fixed = ", ".join(sorted({f["id"] for f in kf if f["property"] == pid and f["kind"] == "fixed"}))
    known = ", ".join(sorted({f["id"] for f in kf if f["property"] == pid and f["kind"] == "known"}))
    sd = seeded.get(pid, [])
    caught = sum(1 for _, _, r in sd if r["detected"])
    out.append(f"| {pid} | {claimed} | {nthm} | {areas} | {fixed or '–'} | {known or '–'} | {caught} / {len(sd)} |")
    for sid, title, r in sd:
        how = "caught" if r["detected"] else "MISSED"
        if r.get("no_failing_input_found"): how += " (no-failing-input-found)"
        first = next((o for o in r["output"] if o.startswith("[")), "")
        detail.append(f"| {sid} | {pid} | {title} | {how} | {first[:110]} |")
txt = "\n".join(out) + "\n\nSeeded changes (independent sub-agents, given only the property text) and what `./check <property> --tier quick` reported with the change applied to /repo:\n\n| seeded id | property | change | result | run summary |\n|---|---|---|---|---|\n" + "\n".join(detail) + "\n"
open(os.path.join(ROOT, "docs", "STATUS.md"), "w").write(txt)
dp = os.path.join(ROOT, "DESIGN.md")
d = open(dp).read()
if "<!-- STATUS:BEGIN -->" in d:
    d = re.sub(r"<!-- STATUS:BEGIN -->.*<!-- STATUS:END -->", "<!-- STATUS:BEGIN -->\n" + txt.replace("\\", "\\\\") + "<!-- STATUS:END -->", d, flags=re.S)
    open(dp, "w").write(d)
# appendix: per-slice notes verbatim (headings demoted)
d = open(dp).read()
if "<!-- NOTES:BEGIN -->" in d:
    parts = []
    for np_ in sorted(glob.glob(os.path.join(ROOT, "docs", "notes", "C*.md"))):
        pid = os.path.basename(np_)[:-3]
        body = open(np_).read().strip()
        body = re.sub(r"^(#+) ", lambda m: "#" * (len(m.group(1)) + 2) + " ", body, flags=re.M)
        parts.append(f"### A.{pid[1:]} {pid} — slice notes (docs/notes/{pid}.md)\n\n{body}\n")
    i, j = d.index("<!-- NOTES:BEGIN -->"), d.index("<!-- NOTES:END -->")
    d = d[:i] + "<!-- NOTES:BEGIN -->\n" + "\n".join(parts) + d[j:]
    open(dp, "w").write(d)
print("docs/STATUS.md written")
