#!/bin/bash
# usage: tools/run_all.sh [quick|thorough]  — runs every claimed check once on the current /repo tree
T=${1:-quick}
cd /verif
for p in $(python3 -c "import json; print(' '.join(c['property_id'] for c in json.load(open('MANIFEST.json'))['checks']))"); do
  timeout 3000 ./check $p --tier $T 2>&1 | grep -v "^KNOWN-FINDING" | tail -1 | cut -c1-220
done
