#!/bin/bash
# usage: tools/run_all.sh [quick|thorough]  — runs every claimed check once on the current repo tree (VERIF_REPO or /repo)
T=${1:-quick}
cd "$(dirname "$0")/.."
for p in $(python3 -c "import json; print(' '.join(c['property_id'] for c in json.load(open('MANIFEST.json'))['checks']))"); do
  timeout 5000 ./check $p --tier $T 2>&1 | grep -v "^KNOWN-FINDING" | tail -2 | cut -c1-260
done
