#!/bin/bash
# usage: tools/reeval_scratch.sh [ids…] — regression sweep of the kept seeded changes WITHOUT touching /repo or this checkout:
# clones /verif (committed state) to /tmp/vsweep/verif, makes a scratch worktree of /repo HEAD at /tmp/vsweep/repo, runs
# tools/reeval_all.py there (VERIF_REPO=/tmp/vsweep/repo), copies the refreshed seeded/*/meta.json back, removes both.
set -e
S=/tmp/vsweep
rm -rf $S/verif; git -C /repo worktree remove --force $S/repo 2>/dev/null || true; mkdir -p $S
git clone -q /verif $S/verif
rsync -a /verif/lean/.lake $S/verif/lean/ 2>/dev/null || true
git -C /repo worktree add -q --detach $S/repo HEAD
cd $S/verif
export VERIF_REPO=$S/repo
./setup.sh >/dev/null 2>&1 || { echo "setup failed"; exit 2; }
rc=0
python3 tools/reeval_all.py "$@" || rc=$?
for d in seeded/*/; do cp $d/meta.json /verif/$d/meta.json; done
cd /; rm -rf $S/verif; git -C /repo worktree remove --force $S/repo
exit $rc
