#!/bin/bash
# usage: [VSWEEP=/tmp/vsweepN] tools/reeval_scratch.sh [ids…] — regression sweep of the kept seeded changes WITHOUT touching
# /repo or this checkout: clones /verif (committed state) to $VSWEEP/verif, makes a scratch worktree of /repo HEAD at
# $VSWEEP/repo, runs tools/reeval_all.py there (VERIF_REPO=$VSWEEP/repo), copies the refreshed meta.json of the ids it ran
# back to /verif/seeded, removes both. Several sweeps over disjoint id sets may run in parallel with different $VSWEEP.
set -e
S=${VSWEEP:-/tmp/vsweep}
rm -rf $S/verif; git -C /repo worktree remove --force $S/repo 2>/dev/null || true; mkdir -p $S
git clone -q /verif $S/verif
rsync -a /verif/lean/.lake $S/verif/lean/ 2>/dev/null || true
git -C /repo worktree add -q --detach $S/repo HEAD
cd $S/verif
export VERIF_REPO=$S/repo
./setup.sh >/dev/null 2>&1 || { echo "setup failed"; exit 2; }
rc=0
python3 tools/reeval_all.py "$@" | tee $S/out.txt || rc=$?
for id in $(awk '{print $1}' $S/out.txt); do [ -f seeded/$id/meta.json ] && cp seeded/$id/meta.json /verif/seeded/$id/meta.json; done
cd /; rm -rf $S/verif; git -C /repo worktree remove --force $S/repo
exit $rc
