#!/bin/sh
# usage: tools/mkslice.sh <name>   — creates /tmp/vw/<name>/{verif,repo} worktrees on branches slice-<name> / repo-<name>
set -e
N=$1
mkdir -p /tmp/vw/$N
git -C /verif worktree add -q -b slice-$N /tmp/vw/$N/verif HEAD
git -C /repo worktree add -q -b repo-$N /tmp/vw/$N/repo HEAD
echo "/tmp/vw/$N ready"
