#!/bin/bash
# usage: tools/lane_worker.sh <lane#>  — takes jobs "<src> <sid> <props>" from /tmp/laneq/queue (flock) until it sees STOP
K=$1; Q=/tmp/laneq; mkdir -p $Q; touch $Q/queue
while true; do
  job=$(flock $Q/lock bash -c "head -1 $Q/queue; sed -i 1d $Q/queue")
  if [ -z "$job" ]; then sleep 10; continue; fi
  if [ "$job" = STOP ]; then exit 0; fi
  set -- $job
  echo "$(date +%T) lane$K start $2" >> $Q/log
  /verif/tools/lane_eval.sh $K "$1" "$2" "$3" "$4" > $Q/$2.out 2>&1
  echo "$(date +%T) lane$K done $2: $(grep -h 'DETECTED\|MISSED' /tmp/lane$K/eval-$2.log | cut -c1-200 | tr '\n' ' ')" >> $Q/log
done
