#!/usr/bin/env python3
"""Regenerates MANIFEST.json from props/*.json and not_applicable.json."""
import json, glob, os, subprocess
ROOT = os.path.dirname(os.path.dirname(os.path.abspath(__file__)))
checks = []
for p in sorted(glob.glob(os.path.join(ROOT, "props", "C*.json"))):
    c = json.load(open(p))
    if c.get("disabled"):
        continue
    pid = c["id"]
    checks.append({
        "property_id": pid,
        "quick_cmd": f"./check {pid} --tier quick",
        "thorough_cmd": f"./check {pid} --tier thorough",
        "evidence_file": f"/verif/evidence/{pid}.json",
        "replay_cmd_template": f"./check {pid} --replay {{path}}",
        "engine": "lean4-proof+correspondence",
        "level_claimed": {"category": c.get("level", "proof"), "text": c["level_text"], "design_ref": c.get("design_ref", "DESIGN.md")},
        "level_note": c["level_note"],
        "technique": c["technique"],
    })
na = []
nap = os.path.join(ROOT, "not_applicable.json")
if os.path.exists(nap):
    na = json.load(open(nap))
claimed = {c["property_id"] for c in checks}
ids = [json.loads(l)["id"] for l in open(os.path.join(ROOT, "properties.jsonl"))]
na = [x for x in na if x["property_id"] not in claimed]
for i in ids:
    if i not in claimed and i not in {x["property_id"] for x in na}:
        na.append({"property_id": i, "reason": "not yet built in this round: no theorem and no correspondence check exists for it yet (see DESIGN.md); it is not claimed until its check runs"})
try:
    commits = subprocess.check_output(["git", "-C", "/repo", "log", "--format=%h %s", "--grep=^verif:"], text=True).strip().split("\n")
except Exception:
    commits = []
m = {
    "version": 1,
    "setup_cmd": "./setup.sh",
    "hooks": {
        "guard": "verif",
        "enable": "go build -tags verif (the harness is always built with it; without the tag verifhook.Point is an empty function and the *_verif_export.go / verifx files are not compiled)",
        "baseline_off_cmd": "cd /repo && GOFLAGS=-mod=mod GOPROXY=off GOSUMDB=off go test -json -vet=off -count=1 -timeout 25m ./...",
        "source_commits": [c for c in commits if c],
        "add_only": True,
    },
    "engines": [
        {"name": "lean4-proof+correspondence", "path": "/verif/lean, /verif/harness, /verif/extract, /verif/check",
         "serves_properties": sorted(claimed),
         "kind_free_text": "Lean 4 theorems over hand-written executable models (lake build + #print axioms audit), tied to /repo on every run by go/ast-regenerated facts (FactsTie theorems), by a Go-subset-to-Lean translator for the pure leaf functions (extract/trans regenerates GB.Generated.Trans, Cxx_trans_* theorems prove it equal to the hand models) and by differential/trace correspondence: a Go harness runs the real code in-process, the compiled Lean model driver judges every case against model and specification"}
    ],
    "checks": checks,
    "not_applicable": na,
    "notes": "Single entry point ./check <Cxx> [--tier quick|thorough] [--replay file]; per-property configuration in props/<Cxx>.json; known findings in known_findings.json; replays under replays/.",
}
json.dump(m, open(os.path.join(ROOT, "MANIFEST.json"), "w"), indent=1)
print("MANIFEST.json:", len(checks), "checks,", len(na), "not_applicable")
