#!/bin/bash
# usage: tools/mkmutN.sh <round> <Cxx> [focus text]  — mutation worktree /tmp/mut<round>/<Cxx>, prompt lists earlier mechanisms to avoid
set -e
R=$1; P=$2; FOCUS=${3:-}
mkdir -p /tmp/mut$R/$P/out
git -C /repo worktree add -q -f -B mut$R-$P /tmp/mut$R/$P/repo HEAD
python3 - "$R" "$P" "$FOCUS" <<'PY'
import json,sys,glob
r,pid,focus=sys.argv[1:4]
prop=[json.loads(l) for l in open('/verif/properties.jsonl') if json.loads(l)['id']==pid][0]
text=f"{prop['id']} — {prop['title']}\n{prop['statement']}\nQuantified over: {prop['quantifier']['text']}"
t=open('/verif/docs/prompts/mutant_template.md').read().replace('/tmp/mut/',f'/tmp/mut{r}/').replace('mut-@ID@',f'mut{r}-@ID@').replace('@ID@',pid).replace('@PID@',pid).replace('@PROPERTY@',text)
prev=[]
for mp in sorted(glob.glob(f'/verif/seeded/{pid}-*/meta.json')):
    m=json.load(open(mp))
    prev.append(f"- {m.get('title','')}: {m.get('what_it_breaks','')[:300]} (files: {', '.join(m.get('files_changed',[]))})")
if prev:
    t+="\n\nEARLIER SEEDED CHANGES FOR THIS PROPERTY (already done by someone else — do NOT repeat these mechanisms or close variants of them; pick a different clause of the property, a different file or a different kind of mistake):\n"+"\n".join(prev)+"\n"
t+="\nAim for breakage that is SUBTLE: prefer clauses of the property, code paths, entry points, configurations or input classes the earlier changes did not touch.\n"
if focus:
    t+="\nFOCUS FOR THIS ROUND: "+focus+"\n"
open(f'/tmp/mut{r}/{pid}/prompt.md','w').write(t)
print(f'/tmp/mut{r}/{pid}/prompt.md')
PY
