#!/usr/bin/env python3
"""
tools/eval_mutant.py <src_dir> <seeded_id> [--props C01,C02] [--tier quick]

Confirms a seeded change delivered by an independent sub-agent (patch.diff, demo/, meta.json) and runs
our checks against it:
  1. scratch worktree of /repo HEAD: patch applies, `go build ./...`, the repo's own tests pass,
     the demonstration FAILS with the patch and PASSES without it;
  2. `git -C /repo apply patch.diff`, run ./check <prop> for every listed property, undo straight afterwards;
  3. copy the change to /verif/seeded/<seeded_id>/ with meta.json extended by what was run and observed.
Nothing is ever committed to /repo.
"""
import argparse, json, os, re, shutil, subprocess, sys, tempfile, time

ENV = dict(os.environ, GOFLAGS="-mod=mod", GOPROXY="off", GOSUMDB="off", GOTOOLCHAIN="local")
# The tree the change is applied to and the framework that checks it. Default: /repo itself and this checkout of /verif
# (the way a seeded change is meant to be run). For regression sweeps over ALL kept changes, tools/reeval_all.py --scratch
# runs a clone of /verif against a scratch worktree of /repo HEAD instead, so that /repo and /verif stay usable meanwhile.
REPO = os.environ.get("VERIF_REPO") or "/repo"
VERIF = os.path.dirname(os.path.dirname(os.path.abspath(__file__)))


def sh(cmd, cwd=None, timeout=1800):
    p = subprocess.run(cmd, cwd=cwd, env=ENV, shell=isinstance(cmd, str), stdout=subprocess.PIPE, stderr=subprocess.STDOUT, text=True, timeout=timeout)
    return p.returncode, p.stdout


def repo_tests(cwd):
    """the repo's own suite; the two known-flaky reflection client tests are retried"""
    flaky = ("Test_client_UnimplementedErrors", "Test_client_SendErrors", "Test_GRPCBridge")  # all three fail now and then on the UNCHANGED tree under load
    rc, out = sh("go test -vet=off -count=1 ./...", cwd=cwd)
    if rc == 0:
        return True, ""
    fails = re.findall(r"^--- FAIL: (\S+)", out, re.M)
    if not (fails and all(f.startswith(flaky) for f in fails)):
        return False, out[-3000:]
    # only the known-flaky reflection client tests failed (they fail the same way on the unchanged tree, more often
    # under load): every other package passed in this run; re-run that package alone until it passes once
    for attempt in range(8):
        rc, out = sh("go test -vet=off -count=1 ./reflection/ ./internal/bridgetest/", cwd=cwd)
        if rc == 0:
            return True, ""
        fails = re.findall(r"^--- FAIL: (\S+)", out, re.M)
        if not (fails and all(f.startswith(flaky) for f in fails)):
            return False, out[-3000:]
    return False, out[-3000:]


def main():
    ap = argparse.ArgumentParser()
    ap.add_argument("src")
    ap.add_argument("sid")
    ap.add_argument("--props", default="")
    ap.add_argument("--tier", default="quick")
    ap.add_argument("--skip-confirm", action="store_true")
    a = ap.parse_args()
    src = os.path.abspath(a.src)
    meta = json.load(open(os.path.join(src, "meta.json")))
    props = [p for p in (a.props or meta.get("property", "")).split(",") if p]
    patch = os.path.join(src, "patch.diff")
    ran = {"date": time.strftime("%Y-%m-%dT%H:%M:%SZ", time.gmtime()), "repo_head": sh(["git", "-C", REPO, "rev-parse", "--short", "HEAD"])[1].strip()}

    rc, out = sh(["git", "-C", REPO, "apply", "--check", patch])
    if rc != 0:
        rc3, out3 = sh(["git", "-C", REPO, "apply", "--check", "-3", patch])
        print("patch does not apply cleanly to /repo HEAD:", out.strip()[:500])
        ran["applies"] = False
        sys.exit(2)
    ran["applies"] = True

    if not a.skip_confirm:
        wt = tempfile.mkdtemp(prefix="mutconfirm-", dir="/tmp")
        os.rmdir(wt)
        sh(["git", "-C", REPO, "worktree", "add", "-q", "--detach", wt, "HEAD"])
        try:
            # demo install: copy demo/ tree preserving relative paths when meta gives none
            def install_demo():
                inst = meta.get("demo_install", "")
                demo = os.path.join(src, "demo")
                ok = False
                if inst:
                    cmd = inst.replace("<repo>", wt).replace("$REPO", wt).replace("/tmp/mut/%s/repo" % meta.get("property", ""), wt)
                    rc, o = sh(cmd, cwd=src)
                    ok = rc == 0
                if not ok:
                    for root, _, files in os.walk(demo):
                        for f in files:
                            relp = os.path.relpath(os.path.join(root, f), demo)
                            dst = os.path.join(wt, relp)
                            os.makedirs(os.path.dirname(dst), exist_ok=True)
                            shutil.copyfile(os.path.join(root, f), dst)
            run = meta.get("demo_run", "").split("   (")[0].split("  #")[0].strip()
            install_demo()
            rc, o = sh(run, cwd=wt, timeout=900)
            ran["demo_without_change"] = "pass" if rc == 0 else "FAIL: " + o[-800:]
            sh(["git", "apply", patch], cwd=wt)
            rc, o = sh("go build ./... ", cwd=wt)
            ran["builds_with_change"] = rc == 0
            rc, o = sh(run, cwd=wt, timeout=900)
            ran["demo_with_change"] = "fail (as intended)" if rc != 0 else "PASSES (change not demonstrated)"
            ran["demo_with_change_tail"] = o[-600:]
            # remove the demo before running the suite
            sh("git stash -u -q && git stash drop -q", cwd=wt)
            sh(["git", "apply", patch], cwd=wt)
            ok, o = repo_tests(wt)
            ran["existing_tests_pass_with_change"] = ok
            if not ok:
                ran["existing_tests_tail"] = o
        finally:
            sh(["git", "-C", REPO, "worktree", "remove", "--force", wt])

    # our checks against the change, applied to /repo itself and undone straight afterwards
    results = {}
    # evidence files describe runs on the UNCHANGED tree: keep them out of reach of these runs
    saved = {}
    for p in props:
        ep = os.path.join(VERIF, "evidence", p + ".json")
        if os.path.exists(ep):
            saved[ep] = open(ep).read()
    sh(["git", "-C", REPO, "apply", patch])
    try:
        for p in props:
            t0 = time.time()
            rc, o = sh(["./check", p, "--tier", a.tier], cwd=VERIF, timeout=3000)
            lines = [l for l in o.split("\n") if l.startswith(("VIOLATION", "KNOWN-FINDING", "["))]
            detected = rc != 0 and any(l.startswith("VIOLATION") for l in lines)
            rep = None
            m = re.search(r"replay=(\S+)", o)
            if m and os.path.exists(m.group(1)):
                rep = "".join(open(m.group(1)).readlines()[:6])[:1500]
            results[p] = {"exit": rc, "detected": detected, "output": [l[:400] for l in lines][:6], "replay_head": rep, "wall_s": round(time.time() - t0, 1),
                          "no_failing_input_found": any("no-failing-input-found" in l for l in lines)}
            print(p, "DETECTED" if detected else "MISSED", lines[:2])
    finally:
        sh("git -C %s checkout -- . && git -C %s clean -fdq" % (REPO, REPO))
        for ep, txt in saved.items():
            open(ep, "w").write(txt)
    ran["checks"] = results
    dst = os.path.join(VERIF, "seeded", a.sid)
    if a.skip_confirm and os.path.exists(os.path.join(dst, "meta.json")):
        # keep the confirmation recorded by an earlier full evaluation
        try:
            old = json.load(open(os.path.join(dst, "meta.json"))).get("ran", {})
            for k, v in old.items():
                if k not in ran and k != "checks":
                    ran[k] = v
            for p, r in old.get("checks", {}).items():
                if p not in results:
                    results[p] = r  # not re-run this time: keep the earlier observation
        except Exception:
            pass
    if os.path.realpath(src) != os.path.realpath(dst):
        if os.path.exists(dst):
            shutil.rmtree(dst)
        shutil.copytree(src, dst)
    meta["ran"] = ran
    json.dump(meta, open(os.path.join(dst, "meta.json"), "w"), indent=1)
    print(json.dumps({k: v for k, v in ran.items() if k != "checks"}, indent=1)[:1500])


if __name__ == "__main__":
    main()
