package main

import (
	"go/ast"
	"go/token"
	"strings"
)

func init() { register("c16", extractC16) }

// Statement traces of ReflectionRouter.Remove and ReflectionRouter.Add (reflection.go): lock scope, order of the
// teardown / construction calls, and which cleanup calls the error branches make. Walked in source order.
func extractC16(c *Ctx) {
	const file = "reflection.go"

	trace := func(fd *ast.FuncDecl) []string {
		var out []string
		emit := func(s string) {
			if s == "lookup" && len(out) > 0 && out[len(out)-1] == "lookup" {
				return
			}
			out = append(out, s)
		}
		// selector path of an expression: r.mu.Lock -> "r.mu.Lock"
		var path func(e ast.Expr) string
		path = func(e ast.Expr) string {
			switch x := e.(type) {
			case *ast.Ident:
				return x.Name
			case *ast.SelectorExpr:
				return path(x.X) + "." + x.Sel.Name
			case *ast.CallExpr:
				return path(x.Fun) + "()"
			}
			return "?"
		}
		isTargetsIndex := func(e ast.Expr) bool {
			ix, ok := e.(*ast.IndexExpr)
			return ok && strings.HasSuffix(path(ix.X), ".targets")
		}
		call := func(ce *ast.CallExpr, deferred bool) {
			p := path(ce.Fun)
			switch {
			case strings.HasSuffix(p, ".mu.Lock"):
				emit("lock")
			case strings.HasSuffix(p, ".mu.Unlock"):
				if deferred {
					emit("defer-unlock")
				} else {
					emit("unlock")
				}
			case p == "delete" && len(ce.Args) == 2 && strings.HasSuffix(path(ce.Args[0]), ".targets"):
				emit("delete")
			case strings.HasSuffix(p, ".Close"):
				parts := strings.Split(p, ".")
				emit("close:" + parts[len(parts)-2])
			case strings.HasSuffix(p, ".connpool.New"), strings.HasSuffix(p, ".patternRouter.Watch"),
				strings.HasSuffix(p, ".serviceRouter.Watch"), strings.HasSuffix(p, ".resolverBuilder.Build"):
				parts := strings.Split(p, ".")
				emit("call:" + parts[len(parts)-2] + "." + parts[len(parts)-1])
			}
		}
		ast.Inspect(fd.Body, func(n ast.Node) bool {
			switch x := n.(type) {
			case *ast.DeferStmt:
				call(x.Call, true)
				return false
			case *ast.CallExpr:
				call(x, false)
			case *ast.AssignStmt:
				for _, l := range x.Lhs {
					if isTargetsIndex(l) {
						// the right-hand side is evaluated first, but it contains no tracked call
						emit("insert")
						return true
					}
				}
			case *ast.IndexExpr:
				if isTargetsIndex(x) {
					emit("lookup")
				}
			case *ast.ReturnStmt:
				switch {
				case len(x.Results) == 1:
					emit("return:" + path(x.Results[0]))
				case len(x.Results) == 2:
					if id, ok := x.Results[1].(*ast.Ident); ok && id.Name == "nil" {
						emit("return:ok")
					} else {
						emit("return:err")
					}
				}
			}
			return true
		})
		return out
	}

	rm, add := []string{"<Remove not found>"}, []string{"<Add not found>"}
	rmSrc, addSrc := "", ""
	if fd := c.FuncDecl(file, "ReflectionRouter", "Remove"); fd != nil {
		rm, rmSrc = trace(fd), c.Pos(fd)
	}
	if fd := c.FuncDecl(file, "ReflectionRouter", "Add"); fd != nil {
		add, addSrc = trace(fd), c.Pos(fd)
		// the insert statement `r.targets[name] = …` is also an index expression: drop the lookup it produces
		for i := 0; i+1 < len(add); i++ {
			if add[i] == "insert" && add[i+1] == "lookup" {
				add = append(add[:i+1], add[i+2:]...)
			}
		}
	}
	c.Add("c16RemoveTrace", "List String", LeanStrList(rm), rmSrc,
		"ReflectionRouter.Remove in source order: lock / defer-unlock / unlock, targets lookup, close:<field> calls, delete, returns")
	c.Add("c16AddTrace", "List String", LeanStrList(add), addSrc,
		"ReflectionRouter.Add in source order: lock scope, lookup, construction calls, close:<x> cleanup calls (none expected), insert, returns")

	// order in which aggregateWatcher closes: the composite literal `[]closableWatcher{patternWatcher, serviceWatcher}` in Add,
	// provided aggregateWatcher.Close ranges over a.watchers front to back
	order := []string{"<not found>"}
	src := ""
	if fd := c.FuncDecl(file, "ReflectionRouter", "Add"); fd != nil {
		ast.Inspect(fd.Body, func(n ast.Node) bool {
			cl, ok := n.(*ast.CompositeLit)
			if !ok {
				return true
			}
			at, ok := cl.Type.(*ast.ArrayType)
			if !ok {
				return true
			}
			if id, ok := at.Elt.(*ast.Ident); !ok || id.Name != "closableWatcher" {
				return true
			}
			order = nil
			src = c.Pos(cl)
			for _, e := range cl.Elts {
				if id, ok := e.(*ast.Ident); ok {
					order = append(order, id.Name)
				} else {
					order = append(order, "?")
				}
			}
			return false
		})
	}
	if fd := c.FuncDecl(file, "aggregateWatcher", "Close"); fd != nil {
		ranges := false
		ast.Inspect(fd.Body, func(n ast.Node) bool {
			if rs, ok := n.(*ast.RangeStmt); ok && rs.Tok == token.DEFINE {
				if se, ok := rs.X.(*ast.SelectorExpr); ok && se.Sel.Name == "watchers" {
					ranges = true
				}
			}
			return true
		})
		if !ranges {
			order = append(order, "<aggregateWatcher.Close does not range over watchers>")
		}
	} else {
		order = append(order, "<aggregateWatcher.Close not found>")
	}
	c.Add("c16WatcherOrder", "List String", LeanStrList(order), src, "order in which aggregateWatcher.Close closes the router watchers")
}

func init() { register("c16close", extractC16Close) }

// Statements of AdaptedClientConn.Close (grpcadapter/conn.go) in source order: state Load / Store, the call of the
// underlying grpc.ClientConn.Close (`grpcClose`), whether its result is thrown away (`ignored-result`) or bound/tested
// (`bound-result`), every other method call, every return.
func extractC16Close(c *Ctx) {
	const file = "grpcadapter/conn.go"
	tr := []string{"<AdaptedClientConn.Close not found>"}
	src := ""
	if fd := c.FuncDecl(file, "AdaptedClientConn", "Close"); fd != nil {
		src = c.Pos(fd)
		tr = nil
		ast.Inspect(fd.Body, func(n ast.Node) bool {
			switch x := n.(type) {
			case *ast.AssignStmt:
				isClose := false
				for _, r := range x.Rhs {
					if ce, ok := r.(*ast.CallExpr); ok {
						if se, ok := ce.Fun.(*ast.SelectorExpr); ok && se.Sel.Name == "Close" {
							isClose = true
						}
					}
				}
				if isClose {
					blank := true
					for _, l := range x.Lhs {
						if id, ok := l.(*ast.Ident); !ok || id.Name != "_" {
							blank = false
						}
					}
					if blank {
						tr = append(tr, "ignored-result")
					} else {
						tr = append(tr, "bound-result")
					}
				}
			case *ast.ExprStmt:
				if ce, ok := x.X.(*ast.CallExpr); ok {
					if se, ok := ce.Fun.(*ast.SelectorExpr); ok && se.Sel.Name == "Close" {
						tr = append(tr, "ignored-result")
					}
				}
			case *ast.CallExpr:
				if se, ok := x.Fun.(*ast.SelectorExpr); ok {
					switch se.Sel.Name {
					case "Close":
						tr = append(tr, "grpcClose")
					case "Error": // status.Error(...) building the stored error value
					default:
						tr = append(tr, se.Sel.Name)
					}
				}
			case *ast.ReturnStmt:
				tr = append(tr, "return")
			}
			return true
		})
	}
	c.Add("c16CloseTrace", "List String", LeanStrList(tr), src, "AdaptedClientConn.Close: no return between the underlying Close and the state Store; its result is ignored")
}

func init() { register("c16wait", extractC16Wait) }

// Statements of AdaptedClientConn.waitForReady (grpcadapter/conn.go) before its `for` and inside the loop body, in
// source order: GetState / Connect / WaitForStateChange calls, `connState == connectivity.X` comparisons, returns.
func extractC16Wait(c *Ctx) {
	const file = "grpcadapter/conn.go"
	before, inLoop := []string{"<waitForReady not found>"}, []string{"<waitForReady not found>"}
	src := ""
	if fd := c.FuncDecl(file, "AdaptedClientConn", "waitForReady"); fd != nil {
		src = c.Pos(fd)
		before, inLoop = nil, []string{"<no for statement>"}
		events := func(n ast.Node) []string {
			var out []string
			ast.Inspect(n, func(n ast.Node) bool {
				switch x := n.(type) {
				case *ast.DeferStmt:
					return false
				case *ast.ExprStmt:
					// a call whose result is thrown away (WaitForStateChange answers whether the context ended)
					if ce, ok := x.X.(*ast.CallExpr); ok {
						if se, ok := ce.Fun.(*ast.SelectorExpr); ok && se.Sel.Name == "WaitForStateChange" {
							out = append(out, "ignored-result")
						}
					}
				case *ast.AssignStmt:
					blank := len(x.Lhs) > 0
					for _, l := range x.Lhs {
						if id, ok := l.(*ast.Ident); !ok || id.Name != "_" {
							blank = false
						}
					}
					if blank {
						out = append(out, "ignored-result")
					}
				case *ast.CaseClause:
					for _, e := range x.List {
						if se, ok := e.(*ast.SelectorExpr); ok {
							out = append(out, "case:"+se.Sel.Name)
						}
					}
				case *ast.CallExpr:
					if se, ok := x.Fun.(*ast.SelectorExpr); ok {
						switch se.Sel.Name {
						case "GetState", "Connect", "WaitForStateChange":
							out = append(out, se.Sel.Name)
						default:
							// any other method call (a once-guard such as CompareAndSwap / Do / Load) is part of the trace
							out = append(out, "call:"+se.Sel.Name)
						}
					}
				case *ast.BinaryExpr:
					if x.Op == token.LAND || x.Op == token.LOR {
						out = append(out, "cond:"+x.Op.String())
					}
					if x.Op == token.EQL {
						if se, ok := x.Y.(*ast.SelectorExpr); ok {
							if id, ok := se.X.(*ast.Ident); ok && id.Name == "connectivity" {
								out = append(out, "check:"+se.Sel.Name)
							}
						}
					}
				case *ast.ReturnStmt:
					out = append(out, "return")
				}
				return true
			})
			return out
		}
		for _, st := range fd.Body.List {
			if fs, ok := st.(*ast.ForStmt); ok {
				inLoop = events(fs.Body)
				break
			}
			before = append(before, events(st)...)
		}
	}
	c.Add("c16WaitBeforeLoop", "List String", LeanStrList(before), src, "waitForReady: statements before the for loop")
	c.Add("c16WaitInLoop", "List String", LeanStrList(inLoop), src, "waitForReady: statements inside the for loop body (the Shutdown check must be here)")
}
