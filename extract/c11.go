package main

import (
	"fmt"
	"go/ast"
	"strings"
)

func init() { register("c11", extractC11) }

// C11 facts: the statement skeletons ("programs") of the router operations, i.e. which statements
// run in which order and inside which critical section. The Lean LTS executes these very lists
// (GB.C11.genProgs) and the theorems need them to pass the lock-discipline checker (decide).
//
// A skeleton is a list of tags: lockW/unlockW (per-watcher mutex), lockT/unlockT (table mutex),
// loadClosed, casClosed, nameCheck, hookN, pAdd/pRemove/pStore, sAdd/sDel/sRemove, setAdd/setRemove,
// pLoad/pIter, sLoad, ret. A statement the extractor does not recognise becomes "?…" so that the
// tie fails instead of silently keeping an old fact.

var c11Hooks = map[string]string{
	`"pattern.update.afterCheck"`:    "hook0",
	`"service.update.afterCheck"`:    "hook0",
	`"pattern.close.afterFlag"`:      "hook1",
	`"service.close.afterFlag"`:      "hook1",
	`"service.update.betweenPhases"`: "hook2",
	`"pattern.route.afterLoad"`:      "hook3",
}

type c11Walker struct {
	c    *Ctx
	file string
	out  []string
}

func (w *c11Walker) emit(tag string) {
	// consecutive statements of the same mutation phase collapse into one model statement
	if n := len(w.out); n > 0 && w.out[n-1] == tag {
		switch tag {
		case "pAdd", "pRemove", "sAdd", "sDel", "sRemove":
			return
		}
	}
	w.out = append(w.out, tag)
}

func callSrc(c *Ctx, n ast.Node) string { return strings.Join(strings.Fields(c.Src(n)), " ") }

// walk emits the skeleton of fn; lockTag is the tag family of `<recv>.mu`; mutate is the tag of
// otherwise unrecognised statements ("" = unrecognised statements are reported).
func (w *c11Walker) walk(fd *ast.FuncDecl, lockTag string, mutate string) {
	if fd == nil {
		w.emit("?missing")
		return
	}
	var deferred []string
	for _, st := range fd.Body.List {
		src := callSrc(w.c, st)
		switch s := st.(type) {
		case *ast.DeferStmt:
			if strings.HasSuffix(src, ".mu.Unlock()") {
				deferred = append(deferred, "unlock"+lockTag)
				continue
			}
			w.emit("?defer")
		case *ast.ExprStmt:
			switch {
			case strings.HasSuffix(src, ".mu.Lock()"):
				w.emit("lock" + lockTag)
			case strings.HasSuffix(src, ".mu.Unlock()"):
				w.emit("unlock" + lockTag)
			case strings.HasPrefix(src, "verifhook.Point("):
				call := s.X.(*ast.CallExpr)
				if tag, ok := c11Hooks[w.c.Src(call.Args[0])]; ok {
					w.emit(tag)
				} else {
					w.emit("?hook")
				}
			case strings.Contains(src, ".routes.addTarget("):
				w.walk(w.c.FuncDecl(w.file, "mutablePatternRoutingTable", "addTarget"), "T", "pAdd")
			case strings.Contains(src, ".routes.removeTarget("):
				w.walk(w.c.FuncDecl(w.file, "mutablePatternRoutingTable", "removeTarget"), "T", "pRemove")
			case strings.Contains(src, ".sr.updateRoutes("):
				w.walk(w.c.FuncDecl(w.file, "ServiceRouter", "updateRoutes"), "T", "?upd")
			case strings.Contains(src, ".sr.removeTarget("):
				w.walk(w.c.FuncDecl(w.file, "ServiceRouter", "removeTarget"), "T", "sRemove")
			case strings.Contains(src, ".watcherSet.Remove("):
				w.emit("setRemove")
			case strings.Contains(src, ".static.Store(") && strings.Contains(src, ".commit()"):
				w.emit("pStore")
			case strings.HasPrefix(src, "delete(") && mutate != "":
				w.emit(mutate)
			case strings.HasSuffix(src, ".iterate(method, fn)") && strings.Contains(src, ".static.Load()"):
				w.emit("pLoad")
				w.emit("pIter")
			case strings.HasSuffix(src, ".iterate(method, fn)"):
				w.emit("pIter")
			default:
				w.emit("?expr")
			}
		case *ast.IfStmt:
			cond := callSrc(w.c, s.Cond)
			switch {
			case strings.HasSuffix(cond, ".closed.Load()") && c11Returns(s.Body):
				w.emit("loadClosed")
			case strings.HasSuffix(cond, ".closed.CompareAndSwap(false, true)") && strings.HasPrefix(cond, "!"):
				w.emit("casClosed")
			case strings.HasPrefix(cond, "desc.Name != ") && strings.HasSuffix(cond, ".target") && c11Returns(s.Body):
				w.emit("nameCheck")
			case strings.Contains(cond, ".watcherSet.Add("):
				w.emit("setAdd")
			default:
				w.emit("?if")
			}
		case *ast.AssignStmt:
			switch {
			case strings.Contains(src, "buildPatternRoutes("), strings.Contains(src, ":= make("):
				// pure local computation
			case strings.Contains(src, ".static.Load()"):
				w.emit("pLoad")
			case mutate == "?upd" && strings.Contains(src, ".svcRoutes["):
				w.emit("sDel")
			case mutate != "" && mutate != "?upd":
				w.emit(mutate)
			default:
				w.emit("?assign")
			}
		case *ast.RangeStmt, *ast.ForStmt:
			switch {
			case mutate == "?upd" && strings.Contains(src, ".routes.LoadOrStore("):
				w.emit("sAdd")
			case mutate == "?upd" && (strings.Contains(src, ".routes.Delete(") || strings.Contains(src, ".release(") || strings.Contains(src, ".dropClaim(")):
				w.emit("sDel")
			case mutate == "?upd" && !strings.Contains(src, "sr."):
				// a loop over the description that only fills a local (e.g. the `listed` set)
			case mutate != "" && mutate != "?upd":
				w.emit(mutate)
			default:
				w.emit("?loop")
			}
		case *ast.ReturnStmt:
			// the final return of Watch
		default:
			w.emit("?stmt")
		}
	}
	for i := len(deferred) - 1; i >= 0; i-- {
		w.emit(deferred[i])
	}
}

func c11Returns(b *ast.BlockStmt) bool {
	if len(b.List) == 0 {
		return false
	}
	_, ok := b.List[len(b.List)-1].(*ast.ReturnStmt)
	return ok
}

func extractC11(c *Ctx) {
	prog := func(name, file, recv, fn string) {
		w := &c11Walker{c: c, file: file}
		fd := c.FuncDecl(file, recv, fn)
		w.walk(fd, "W", "")
		w.emit("ret")
		src := ""
		if fd != nil {
			src = c.Pos(fd)
		}
		c.Add(name, "List String", LeanStrList(w.out), src, "statement skeleton of "+recv+"."+fn+" (callees inlined)")
	}
	const pf, sf = "routing/pattern_router.go", "routing/service_router.go"
	prog("c11PatternUpdate", pf, "PatternRouterWatcher", "UpdateDesc")
	prog("c11PatternClose", pf, "PatternRouterWatcher", "Close")
	prog("c11PatternWatch", pf, "PatternRouter", "Watch")
	prog("c11PatternLookup", pf, "mutablePatternRoutingTable", "iterate")
	prog("c11ServiceUpdate", sf, "ServiceRouterWatcher", "UpdateDesc")
	prog("c11ServiceClose", sf, "ServiceRouterWatcher", "Close")
	prog("c11ServiceWatch", sf, "ServiceRouter", "Watch")

	// service lookup: one routes.Load per RouteGRPC / RouteHTTP
	for _, fn := range []string{"RouteGRPC", "RouteHTTP"} {
		fd := c.FuncDecl(sf, "ServiceRouter", fn)
		tags := []string{}
		src := ""
		if fd != nil {
			src = c.Pos(fd)
			ast.Inspect(fd.Body, func(n ast.Node) bool {
				if call, ok := n.(*ast.CallExpr); ok && strings.HasSuffix(callSrc(c, call.Fun), ".routes.Load") {
					tags = append(tags, "sLoad")
				}
				return true
			})
		}
		tags = append(tags, "ret")
		name := "c11ServiceLookup"
		if fn == "RouteHTTP" {
			name = "c11ServiceLookupHTTP"
		}
		c.Add(name, "List String", LeanStrList(tags), src, "sync.Map loads of ServiceRouter."+fn)
	}

	// number of static.Load() call sites in the pattern router (a lookup must read the pointer once)
	loads, stores := 0, 0
	if f := c.File(pf); f != nil {
		ast.Inspect(f, func(n ast.Node) bool {
			if call, ok := n.(*ast.CallExpr); ok {
				s := callSrc(c, call.Fun)
				if strings.HasSuffix(s, ".static.Load") {
					loads++
				}
				if strings.HasSuffix(s, ".static.Store") {
					stores++
				}
			}
			return true
		})
	}
	c.Add("c11StaticLoadSites", "Nat", fmt.Sprint(loads), pf, "call sites of static.Load() in the pattern router")
	c.Add("c11StaticStoreSites", "Nat", fmt.Sprint(stores), pf, "call sites of static.Store() (constructor, addTarget, removeTarget)")

	// does updateRoutes re-store a route the same target already owns?
	storeSame := false
	if fd := c.FuncDecl(sf, "ServiceRouter", "updateRoutes"); fd != nil {
		ast.Inspect(fd.Body, func(n ast.Node) bool {
			if call, ok := n.(*ast.CallExpr); ok && strings.HasSuffix(callSrc(c, call.Fun), ".routes.Store") {
				storeSame = true
			}
			return true
		})
	}
	c.Add("c11ServiceStoreSame", "Bool", LeanBool(storeSame), sf, "updateRoutes contains routes.Store (re-store on same owner)")

	// order of the router-state operations inside the phases of the service router (fix D31):
	// calls are listed in source order; the Lean statements sAdd / sDel / sRemove are defined in this order
	calls := func(recv, fn string, pats []string) {
		var out []string
		src := ""
		if fd := c.FuncDecl(sf, recv, fn); fd != nil {
			src = c.Pos(fd)
			ast.Inspect(fd.Body, func(n ast.Node) bool {
				switch x := n.(type) {
				case *ast.CallExpr:
					f := callSrc(c, x.Fun)
					for _, p := range pats {
						if strings.HasSuffix(f, p) {
							out = append(out, strings.TrimPrefix(p, "."))
						}
					}
					if f == "delete" && len(x.Args) > 0 {
						out = append(out, "delete:"+callSrc(c, x.Args[0]))
					}
					if f == "verifhook.Point" && len(x.Args) > 0 {
						// named, so that the position of every yield point inside the loops is tied too
						out = append(out, "hook:"+strings.Trim(callSrc(c, x.Args[0]), `"`))
					}
				case *ast.AssignStmt:
					if len(x.Lhs) == 1 {
						l := callSrc(c, x.Lhs[0])
						if strings.HasPrefix(l, "sr.svcRoutes[") || strings.HasPrefix(l, "sr.waiting[") {
							out = append(out, "set:"+l[:strings.Index(l, "[")])
						}
					}
				}
				return true
			})
		}
		c.Add("c11Svc"+strings.ToUpper(fn[:1])+fn[1:]+"Calls", "List String", LeanStrList(out), src, "router-state operations of "+fn+" in source order")
	}
	pats := []string{".routes.LoadOrStore", ".routes.Store", ".routes.Delete", ".routes.Swap", ".routes.CompareAndSwap", ".recordClaim", ".dropClaim", ".release"}
	calls("ServiceRouter", "updateRoutes", pats)
	calls("ServiceRouter", "removeTarget", pats)
	calls("ServiceRouter", "release", pats)
	calls("ServiceRouter", "recordClaim", pats)
	calls("ServiceRouter", "dropClaim", pats)

	// `closed` is an atomic.Bool in both watcher types
	atomicClosed := true
	for _, x := range []struct{ file, typ string }{{pf, "PatternRouterWatcher"}, {sf, "ServiceRouterWatcher"}} {
		found := false
		if f := c.File(x.file); f != nil {
			ast.Inspect(f, func(n ast.Node) bool {
				ts, ok := n.(*ast.TypeSpec)
				if !ok || ts.Name.Name != x.typ {
					return true
				}
				if st, ok := ts.Type.(*ast.StructType); ok {
					for _, fl := range st.Fields.List {
						for _, nm := range fl.Names {
							if nm.Name == "closed" && callSrc(c, fl.Type) == "atomic.Bool" {
								found = true
							}
						}
					}
				}
				return false
			})
		}
		atomicClosed = atomicClosed && found
	}
	c.Add("c11ClosedAtomic", "Bool", LeanBool(atomicClosed), "", "both watchers declare `closed atomic.Bool`")
}
