package main

import (
	"fmt"
	"go/ast"
	"go/parser"
	"os"
	"path/filepath"
	"sort"
	"strings"
)

func init() { register("c07", extractC07) }

// callSites lists "file:func" for every call of a function/method called `name` in the non-test,
// non-verif Go files of the given package directories.
func callSites(c *Ctx, dirs []string, name string) []string {
	var out []string
	for _, d := range dirs {
		ents, err := os.ReadDir(filepath.Join(c.Repo, d))
		if err != nil {
			continue
		}
		for _, e := range ents {
			fn := e.Name()
			if e.IsDir() || !strings.HasSuffix(fn, ".go") || strings.HasSuffix(fn, "_test.go") || strings.Contains(fn, "verif") {
				continue
			}
			rel := filepath.Join(d, fn)
			f, err := parser.ParseFile(c.Fset, filepath.Join(c.Repo, rel), nil, 0)
			if err != nil {
				continue
			}
			for _, decl := range f.Decls {
				fd, ok := decl.(*ast.FuncDecl)
				if !ok || fd.Body == nil {
					continue
				}
				ast.Inspect(fd.Body, func(n ast.Node) bool {
					ce, ok := n.(*ast.CallExpr)
					if !ok {
						return true
					}
					callee := ""
					switch x := ce.Fun.(type) {
					case *ast.SelectorExpr:
						callee = x.Sel.Name
					case *ast.Ident:
						callee = x.Name
					}
					if callee == name {
						out = append(out, fmt.Sprintf("%s:%s", rel, fd.Name.Name))
					}
					return true
				})
			}
		}
	}
	sort.Strings(out)
	return out
}

// Constants of grpcadapter/metadata.go and the places where metadata can cross the bridge.
func extractC07(c *Ctx) {
	for _, p := range [][2]string{{"grpcGatewayMetadataPrefix", "c07GatewayPrefix"}, {"metadataTimeout", "c07TimeoutKey"}, {"metadataBinSuffix", "c07BinSuffix"}} {
		v, pos, _ := constString(c, "grpcadapter/metadata.go", p[0])
		c.Add(p[1], "List Nat", leanBytes(v), pos, p[0])
	}
	dirs := []string{".", "grpcadapter", "webbridge", "routing", "transcoding", "reflection", "bridgedesc", "bridgelog"}
	for _, p := range [][2]string{
		{"NewOutgoingContext", "c07OutgoingContextSites"}, {"AppendToOutgoingContext", "c07AppendOutgoingSites"},
		{"FilterRequestMD", "c07FilterRequestSites"}, {"FilterResponseMD", "c07FilterResponseSites"}, {"FilterTrailerMD", "c07FilterTrailerSites"},
		{"SetHeader", "c07SetHeaderSites"}, {"SetTrailer", "c07SetTrailerSites"},
	} {
		c.Add(p[1], "List String", LeanStrList(callSites(c, dirs, p[0])), "", "call sites of "+p[0]+" outside tests (file:function)")
	}
}
