package main

import (
	"fmt"
	"go/ast"
	"go/parser"
	"os"
	"path/filepath"
	"sort"
	"strings"
)

func init() { register("c07", extractC07) }

// callSites lists "file:func" for every call of a function/method called `name` in the non-test,
// non-verif Go files of the given package directories.
func callSites(c *Ctx, dirs []string, name string) []string {
	var out []string
	for _, d := range dirs {
		ents, err := os.ReadDir(filepath.Join(c.Repo, d))
		if err != nil {
			continue
		}
		for _, e := range ents {
			fn := e.Name()
			if e.IsDir() || !strings.HasSuffix(fn, ".go") || strings.HasSuffix(fn, "_test.go") || strings.Contains(fn, "verif") {
				continue
			}
			rel := filepath.Join(d, fn)
			f, err := parser.ParseFile(c.Fset, filepath.Join(c.Repo, rel), nil, 0)
			if err != nil {
				continue
			}
			for _, decl := range f.Decls {
				fd, ok := decl.(*ast.FuncDecl)
				if !ok || fd.Body == nil {
					continue
				}
				ast.Inspect(fd.Body, func(n ast.Node) bool {
					ce, ok := n.(*ast.CallExpr)
					if !ok {
						return true
					}
					callee := ""
					switch x := ce.Fun.(type) {
					case *ast.SelectorExpr:
						callee = x.Sel.Name
					case *ast.Ident:
						callee = x.Name
					}
					if callee == name {
						out = append(out, fmt.Sprintf("%s:%s", rel, fd.Name.Name))
					}
					return true
				})
			}
		}
	}
	sort.Strings(out)
	return out
}

// goFiles lists the non-test, non-verif Go files of a package directory (relative paths).
func goFiles(c *Ctx, dir string) []string {
	var out []string
	ents, err := os.ReadDir(filepath.Join(c.Repo, dir))
	if err != nil {
		return nil
	}
	for _, e := range ents {
		fn := e.Name()
		if e.IsDir() || !strings.HasSuffix(fn, ".go") || strings.HasSuffix(fn, "_test.go") || strings.Contains(fn, "verif") {
			continue
		}
		out = append(out, filepath.Join(dir, fn))
	}
	sort.Strings(out)
	return out
}

func isErrorSentinel(e ast.Expr) bool {
	ce, ok := e.(*ast.CallExpr)
	if !ok {
		return false
	}
	sel, ok := ce.Fun.(*ast.SelectorExpr)
	if !ok {
		return false
	}
	x, ok := sel.X.(*ast.Ident)
	if !ok {
		return false
	}
	switch x.Name + "." + sel.Sel.Name {
	case "errors.New", "fmt.Errorf", "status.Error", "status.Errorf":
		return true
	}
	return false
}

// sharedState: package-level state through which one component could reach another's configuration.
//   - every package-level variable that is not blank (`var _ = …` compile-time assertions) and not an immutable error
//     sentinel (errors.New / fmt.Errorf / status.Error[f]) — "file:name";
//   - every use of sync.Once / sync.Pool as a type anywhere in the package (sync.Map / Mutex fields of instances are per-instance state) — "file:sync.X".
func sharedState(c *Ctx, dirs []string) (vars []string, syncUses []string) {
	for _, d := range dirs {
		for _, rel := range goFiles(c, d) {
			f, err := parser.ParseFile(c.Fset, filepath.Join(c.Repo, rel), nil, 0)
			if err != nil {
				vars = append(vars, rel+":<unparsable>")
				continue
			}
			for _, decl := range f.Decls {
				gd, ok := decl.(*ast.GenDecl)
				if !ok || gd.Tok.String() != "var" {
					continue
				}
				for _, sp := range gd.Specs {
					vs := sp.(*ast.ValueSpec)
					for i, id := range vs.Names {
						if id.Name == "_" {
							continue
						}
						if i < len(vs.Values) && isErrorSentinel(vs.Values[i]) {
							continue
						}
						vars = append(vars, rel+":"+id.Name)
					}
				}
			}
			ast.Inspect(f, func(n ast.Node) bool {
				if sel, ok := n.(*ast.SelectorExpr); ok {
					if x, ok := sel.X.(*ast.Ident); ok && x.Name == "sync" && (sel.Sel.Name == "Once" || sel.Sel.Name == "Pool") {
						syncUses = append(syncUses, rel+":sync."+sel.Sel.Name)
					}
				}
				return true
			})
		}
	}
	sort.Strings(vars)
	sort.Strings(syncUses)
	return
}

// Constants of grpcadapter/metadata.go and the places where metadata can cross the bridge.
func extractC07(c *Ctx) {
	for _, p := range [][2]string{{"grpcGatewayMetadataPrefix", "c07GatewayPrefix"}, {"metadataTimeout", "c07TimeoutKey"}, {"metadataBinSuffix", "c07BinSuffix"}} {
		v, pos, _ := constString(c, "grpcadapter/metadata.go", p[0])
		c.Add(p[1], "List Nat", leanBytes(v), pos, p[0])
	}
	// construction glue: no shared mutable default components, the default forwarder is created per constructor call
	vars, syncUses := sharedState(c, []string{".", "grpcadapter"})
	c.Add("c07MutablePackageVars", "List String", LeanStrList(vars), "", "package-level variables of the root package and grpcadapter that are neither blank nor error sentinels (file:name)")
	c.Add("c07SharedSyncTypes", "List String", LeanStrList(syncUses), "", "uses of sync.Once / sync.Pool in the root package and grpcadapter (file:type)")
	c.Add("c07DefaultForwarderSites", "List String", LeanStrList(callSites(c, []string{"."}, "NewForwarder")), "", "functions of the root package that call NewForwarder() (file:function)")
	dirs := []string{".", "grpcadapter", "webbridge", "routing", "transcoding", "reflection", "bridgedesc", "bridgelog"}
	for _, p := range [][2]string{
		{"NewOutgoingContext", "c07OutgoingContextSites"}, {"AppendToOutgoingContext", "c07AppendOutgoingSites"},
		{"FilterRequestMD", "c07FilterRequestSites"}, {"FilterResponseMD", "c07FilterResponseSites"}, {"FilterTrailerMD", "c07FilterTrailerSites"},
		{"SetHeader", "c07SetHeaderSites"}, {"SetTrailer", "c07SetTrailerSites"},
	} {
		c.Add(p[1], "List String", LeanStrList(callSites(c, dirs, p[0])), "", "call sites of "+p[0]+" outside tests (file:function)")
	}
}
