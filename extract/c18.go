package main

import (
	"go/ast"
	"strings"
)

func init() { register("c18", extractC18) }

// The handler epilogue of the two HTTP-based bridges whose stream adapters can leave a straggling send behind
// (TranscodedHTTPBridge: httpStream, fix D21; GRPCWebBridge: gRPCWebStream, fix D30): the order, in source order of the
// top-level statements of ServeHTTP, of the call to Forward, the stream's finish() fence and the handler's own writes to
// the response (writeError / writeTrailerWithStatus). The confinement row of responseWrapper.writtenStatus in
// GB/C18/Model.lean rests on "finish() after Forward and before the handler's write".
func extractC18(c *Ctx) {
	epilogue := func(file, recv string) []string {
		fd := c.FuncDecl(file, recv, "ServeHTTP")
		var out []string
		if fd == nil {
			return out
		}
		seenForward := false
		var walk func(n ast.Node)
		walk = func(n ast.Node) {
			ast.Inspect(n, func(nd ast.Node) bool {
				ce, ok := nd.(*ast.CallExpr)
				if !ok {
					return true
				}
				name := ""
				switch f := ce.Fun.(type) {
				case *ast.SelectorExpr:
					name = f.Sel.Name
				case *ast.Ident:
					name = f.Name
				}
				switch name {
				case "Forward":
					seenForward = true
					out = append(out, "Forward")
				case "finish", "writeError", "writeTrailerWithStatus":
					if seenForward {
						out = append(out, name)
					}
				}
				return true
			})
		}
		for _, st := range fd.Body.List {
			walk(st)
		}
		return out
	}
	fenced := func(file, recv string) string {
		// does `send` take the stream's mutex and look at `finished` before anything else that touches the response?
		fd := c.FuncDecl(file, recv, "send")
		if fd == nil {
			return "missing"
		}
		lock, fin := -1, -1
		for i, st := range fd.Body.List {
			src := c.Src(st)
			if lock < 0 && strings.Contains(src, ".mu.Lock()") {
				lock = i
			}
			if fin < 0 && strings.Contains(src, ".finished") {
				fin = i
			}
		}
		if lock >= 0 && fin > lock {
			return "lock-then-finished-check"
		}
		return "unfenced"
	}
	rows := [][2]string{{"webbridge/http.go", "TranscodedHTTPBridge"}, {"webbridge/grpcweb.go", "GRPCWebBridge"}}
	var vals []string
	for _, r := range rows {
		vals = append(vals, "("+LeanStr(r[1])+", ["+strings.Join(mapStr(epilogue(r[0], r[1]), LeanStr), ", ")+"])")
	}
	c.Add("handlerEpilogues", "List (String × List String)", "["+strings.Join(vals, ", ")+"]", "webbridge/http.go, webbridge/grpcweb.go",
		"calls to Forward / finish / writeError / writeTrailerWithStatus in ServeHTTP from Forward on, in source order")
	c.Add("sendFences", "List (String × String)", "[("+LeanStr("httpStream")+", "+LeanStr(fenced("webbridge/http.go", "httpStream"))+"), ("+
		LeanStr("gRPCWebStream")+", "+LeanStr(fenced("webbridge/grpcweb.go", "gRPCWebStream"))+")]", "webbridge/http.go, webbridge/grpcweb.go",
		"does send() take the stream's mutex and check `finished` before touching the response")
}

func mapStr(xs []string, f func(string) string) []string {
	out := make([]string, len(xs))
	for i, x := range xs {
		out[i] = f(x)
	}
	return out
}
