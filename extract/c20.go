package main

import (
	"fmt"
	"go/ast"
	"go/token"
	"strconv"
	"strings"
)

func init() { register("c20", extractC20) }

// Facts of both path-template parsers: the character tables of the pchar checkers, the delimiter
// sets of the tokenizers, the eof tokens, and the three structural facts the fixed Parse functions
// rely on (NUL check, verb check, exact "/" matching).
func extractC20(c *Ctx) {
	const gw = "internal/httprule/gwbased/parse.go"
	const st = "internal/httprule/parse.go"
	const tk = "internal/httprule/tokenize.go"

	nats := func(xs []int) string {
		s := make([]string, len(xs))
		for i, x := range xs {
			s[i] = strconv.Itoa(x)
		}
		return "[" + strings.Join(s, ", ") + "]"
	}
	// all single-character case labels (`case '-', '.':`) of the switch statements with a tag, in order
	charCases := func(fd *ast.FuncDecl) []int {
		var out []int
		if fd == nil {
			return out
		}
		ast.Inspect(fd.Body, func(n ast.Node) bool {
			sw, ok := n.(*ast.SwitchStmt)
			if !ok || sw.Tag == nil {
				return true
			}
			for _, s := range sw.Body.List {
				cc := s.(*ast.CaseClause)
				for _, e := range cc.List {
					if lit, ok := e.(*ast.BasicLit); ok && lit.Kind == token.CHAR {
						if ch, _, _, err := strconv.UnquoteChar(lit.Value[1:len(lit.Value)-1], '\''); err == nil {
							out = append(out, int(ch))
						}
					}
				}
			}
			return true
		})
		return out
	}
	// `lo <= x && x <= hi` ranges with character literals, in order
	charRanges := func(fd *ast.FuncDecl) string {
		var out []string
		if fd == nil {
			return "[]"
		}
		ast.Inspect(fd.Body, func(n ast.Node) bool {
			be, ok := n.(*ast.BinaryExpr)
			if !ok || be.Op != token.LAND {
				return true
			}
			l, ok1 := be.X.(*ast.BinaryExpr)
			r, ok2 := be.Y.(*ast.BinaryExpr)
			if !ok1 || !ok2 || l.Op != token.LEQ || r.Op != token.LEQ {
				return true
			}
			lo, ok1 := l.X.(*ast.BasicLit)
			hi, ok2 := r.Y.(*ast.BasicLit)
			if !ok1 || !ok2 || lo.Kind != token.CHAR || hi.Kind != token.CHAR {
				return true
			}
			a, _, _, _ := strconv.UnquoteChar(lo.Value[1:len(lo.Value)-1], '\'')
			b, _, _, _ := strconv.UnquoteChar(hi.Value[1:len(hi.Value)-1], '\'')
			out = append(out, fmt.Sprintf("(%d, %d)", a, b))
			return true
		})
		return "[" + strings.Join(out, ", ") + "]"
	}
	pos := func(fd *ast.FuncDecl) string {
		if fd == nil {
			return ""
		}
		return c.Pos(fd)
	}

	fd := c.FuncDecl(gw, "", "expectPChars")
	c.Add("c20GwPcharPunct", "List Nat", nats(charCases(fd)), pos(fd), "case labels of expectPChars (incl. '%' last)")
	c.Add("c20GwPcharRanges", "List (Nat × Nat)", charRanges(fd), pos(fd), "unreserved ranges of expectPChars")
	fd = c.FuncDecl(gw, "", "expectIdent")
	c.Add("c20GwIdentRanges", "List (Nat × Nat)", charRanges(fd), pos(fd), "ranges of expectIdent (digits first)")
	fd = c.FuncDecl(gw, "", "isHexDigit")
	c.Add("c20GwHexRanges", "List (Nat × Nat)", charRanges(fd), pos(fd), "ranges of isHexDigit")
	fd = c.FuncDecl(st, "", "consumePchar")
	c.Add("c20StPcharPunct", "List Nat", nats(charCases(fd)), pos(fd), "case labels of consumePchar")
	c.Add("c20StPcharRanges", "List (Nat × Nat)", charRanges(fd), pos(fd), "unreserved ranges of consumePchar")
	fd = c.FuncDecl(st, "", "checkIdent")
	c.Add("c20StIdentRanges", "List (Nat × Nat)", charRanges(fd), pos(fd), "ranges of checkIdent (digits first)")
	fd = c.FuncDecl(st, "", "isHex")
	c.Add("c20StHexRanges", "List (Nat × Nat)", charRanges(fd), pos(fd), "ranges of isHex")

	// delimiter sets: the IndexAny arguments of gwbased tokenize (in source order: init, field, nested)
	var gwDelims []string
	fd = c.FuncDecl(gw, "", "tokenize")
	if fd != nil {
		ast.Inspect(fd.Body, func(n ast.Node) bool {
			call, ok := n.(*ast.CallExpr)
			if !ok || len(call.Args) != 2 {
				return true
			}
			if sel, ok := call.Fun.(*ast.SelectorExpr); ok && sel.Sel.Name == "IndexAny" {
				if lit, ok := call.Args[1].(*ast.BasicLit); ok && lit.Kind == token.STRING {
					s, _ := strconv.Unquote(lit.Value)
					gwDelims = append(gwDelims, s)
				}
			}
			return true
		})
	}
	c.Add("c20GwDelims", "List String", LeanStrList(gwDelims), pos(fd), "IndexAny sets of gwbased tokenize: init, field, nested")

	// strict: var tnext = map[tstate]string{tsegment: "/{", tvariable: ".=}", tnested: "/}"}
	var stDelims []string
	src := ""
	if f := c.File(tk); f != nil {
		for _, d := range f.Decls {
			gd, ok := d.(*ast.GenDecl)
			if !ok || gd.Tok != token.VAR {
				continue
			}
			for _, sp := range gd.Specs {
				vs := sp.(*ast.ValueSpec)
				if len(vs.Names) != 1 || vs.Names[0].Name != "tnext" || len(vs.Values) != 1 {
					continue
				}
				src = c.Pos(vs)
				if cl, ok := vs.Values[0].(*ast.CompositeLit); ok {
					for _, e := range cl.Elts {
						kv := e.(*ast.KeyValueExpr)
						k, _ := kv.Key.(*ast.Ident)
						lit, ok := kv.Value.(*ast.BasicLit)
						if k == nil || !ok {
							continue
						}
						s, _ := strconv.Unquote(lit.Value)
						stDelims = append(stDelims, k.Name+"="+s)
					}
				}
			}
		}
	}
	c.Add("c20StDelims", "List String", LeanStrList(stDelims), src, "tnext of the strict tokenizer")

	// eof constants
	eofOf := func(rel string) (string, string) {
		f := c.File(rel)
		if f == nil {
			return "?", ""
		}
		for _, d := range f.Decls {
			gd, ok := d.(*ast.GenDecl)
			if !ok || gd.Tok != token.CONST {
				continue
			}
			for _, sp := range gd.Specs {
				vs := sp.(*ast.ValueSpec)
				for i, n := range vs.Names {
					if n.Name == "eof" && i < len(vs.Values) {
						if lit, ok := vs.Values[i].(*ast.BasicLit); ok && lit.Kind == token.STRING {
							s, _ := strconv.Unquote(lit.Value)
							b := make([]string, len(s))
							for j := 0; j < len(s); j++ {
								b[j] = strconv.Itoa(int(s[j]))
							}
							return "[" + strings.Join(b, ", ") + "]", c.Pos(vs)
						}
					}
				}
			}
		}
		return "[999]", ""
	}
	v, p := eofOf(gw)
	c.Add("c20GwEof", "List Nat", v, p, "bytes of the eof token of gwbased")
	v, p = eofOf(st)
	c.Add("c20StEof", "List Nat", v, p, "bytes of the eof token of the strict parser")

	// structural facts of the fixed Parse functions
	containsCall := func(fd *ast.FuncDecl, pkg, fn string, arg1 string) bool {
		found := false
		if fd == nil {
			return false
		}
		ast.Inspect(fd.Body, func(n ast.Node) bool {
			call, ok := n.(*ast.CallExpr)
			if !ok {
				return true
			}
			name := ""
			switch f := call.Fun.(type) {
			case *ast.SelectorExpr:
				if x, ok := f.X.(*ast.Ident); ok {
					name = x.Name + "." + f.Sel.Name
				}
			case *ast.Ident:
				name = f.Name
			}
			want := fn
			if pkg != "" {
				want = pkg + "." + fn
			}
			if name != want {
				return true
			}
			for _, a := range call.Args {
				if id, ok := a.(*ast.Ident); ok && id.Name == arg1 {
					found = true
				}
			}
			return true
		})
		return found
	}
	gwParse := c.FuncDecl(gw, "", "Parse")
	stParse := c.FuncDecl(st, "", "Parse")
	c.Add("c20GwParseChecksNul", "Bool", LeanBool(containsCall(gwParse, "strings", "Contains", "eof")), pos(gwParse), "gwbased.Parse rejects a template containing the eof token")
	c.Add("c20StParseChecksNul", "Bool", LeanBool(containsCall(stParse, "strings", "Contains", "eof")), pos(stParse), "httprule.Parse rejects a template containing the eof token")
	c.Add("c20GwParseChecksVerb", "Bool", LeanBool(containsCall(gwParse, "", "expectPChars", "verb")), pos(gwParse), "gwbased.Parse validates the verb with expectPChars")
	exact := false
	if gwParse != nil {
		ast.Inspect(gwParse.Body, func(n ast.Node) bool {
			cl, ok := n.(*ast.CompositeLit)
			if !ok {
				return true
			}
			if id, ok := cl.Type.(*ast.Ident); !ok || id.Name != "parser" {
				return true
			}
			for _, e := range cl.Elts {
				if kv, ok := e.(*ast.KeyValueExpr); ok {
					if k, ok := kv.Key.(*ast.Ident); ok && k.Name == "exactSlash" {
						if v, ok := kv.Value.(*ast.Ident); ok && v.Name == "true" {
							exact = true
						}
					}
				}
			}
			return true
		})
	}
	c.Add("c20GwParseExactSlash", "Bool", LeanBool(exact), pos(gwParse), "gwbased.Parse runs the parser with exactSlash: true")

	// routing.buildPattern: the only way to a pattern is Parse -> Compile -> NewPattern
	const rt = "routing/pattern_router.go"
	bp := c.FuncDecl(rt, "", "buildPattern")
	var calls, returns, assigns []string
	stmts := 0
	if bp != nil {
		stmts = len(bp.Body.List)
		ast.Inspect(bp.Body, func(n ast.Node) bool {
			switch x := n.(type) {
			case *ast.CallExpr:
				calls = append(calls, c.Src(x.Fun))
			case *ast.ReturnStmt:
				if len(x.Results) > 0 {
					returns = append(returns, c.Src(x.Results[0]))
				} else {
					returns = append(returns, "")
				}
			case *ast.AssignStmt:
				lhs := make([]string, len(x.Lhs))
				for i, l := range x.Lhs {
					lhs[i] = c.Src(l)
				}
				rhs := make([]string, len(x.Rhs))
				for i, r := range x.Rhs {
					rhs[i] = c.Src(r)
				}
				assigns = append(assigns, strings.Join(lhs, ",")+x.Tok.String()+strings.Join(rhs, ","))
			}
			return true
		})
	}
	c.Add("c20BpCalls", "List String", LeanStrList(calls), pos(bp), "every call in routing.buildPattern, in source order")
	c.Add("c20BpReturns", "List String", LeanStrList(returns), pos(bp), "first result of every return statement of buildPattern")
	c.Add("c20BpAssigns", "List String", LeanStrList(assigns), pos(bp), "every assignment of buildPattern")
	c.Add("c20BpStmts", "Nat", strconv.Itoa(stmts), pos(bp), "number of top-level statements of buildPattern")
	imp := "?"
	if f := c.File(rt); f != nil {
		for _, is := range f.Imports {
			if is.Name != nil && is.Name.Name == "httprule" {
				imp, _ = strconv.Unquote(is.Path.Value)
			}
		}
	}
	c.Add("c20BpParserImport", "String", LeanStr(imp), rt, "the package the name httprule is bound to in routing/pattern_router.go")
}
