// Command trans regenerates lean/GB/Generated/Trans.lean: a Lean 4 definition for each of a fixed list of
// small PURE functions of the repository, obtained by translating the Go source (go/ast + go/types).
// lean/GB/Cxx/TransTie.lean proves (for all inputs) that each regenerated definition equals the hand-written
// model function the property theorems are about, so a change of such a Go function changes the generated
// definition and breaks a theorem even when no generated test case reaches the difference.
//
// The accepted Go subset, the meaning given to it (lean/GB/Base/TransLib.lean) and the list of modelled
// standard-library functions are documented in docs/notes/TRANS.md.  Anything outside the subset makes the
// translator FAIL (exit 1, naming the construct and its position): it never approximates silently.
//
//	trans -repo /repo -out /verif/lean/GB/Generated/Trans.lean [-json /verif/.work/trans.json]
package main

import (
	"encoding/json"
	"flag"
	"fmt"
	"go/ast"
	"go/constant"
	"go/token"
	"go/types"
	"os"
	"path/filepath"
	"sort"
	"strings"

	"golang.org/x/tools/go/packages"
)

// target: one function to translate. Lean name = Name unless As is set (name clashes across packages).
type target struct {
	Pkg  string // package directory relative to the repo root ("." = root), or the import path of a dependency (Dep)
	Dep  bool   // Pkg is the import path of a module the repository depends on (sources in the module cache)
	Name string // function name
	As   string
	// FRAGMENT targets: a statement RANGE of a function / method body (possibly inside a function literal of it).
	Recv string   // receiver type name when Name is a method (fragments only)
	From string   // the first statement of the range: the unique statement of the function whose source text starts with From
	To   string   // the last statement: the first statement at or after From in the same statement list starting with To
	Out  []string // variables (or `x.f` field pseudo-variables) whose values after the range are the result
	Cond bool     // append the condition of the `if` statement that FOLLOWS the range (evaluated after the range) to the result
	// IF-HEAD fragment: the statement starting with From is an `if`; the fragment is its init statement (if any) followed by
	// its CONDITION — result = Out variables (may be empty) + the condition. The body / else of the `if` is not part of it
	// (so it may `continue`, call impure code, …).
	Head bool
}

var targets = []target{
	// C19
	{Pkg: "internal/ascii", Name: "lower"},
	{Pkg: "internal/ascii", Name: "EqualFold"},
	{Pkg: "webbridge", Name: "isValidMetadataKey"},
	{Pkg: "webbridge", Name: "isValidMetadataValue"},
	{Pkg: ".", Name: "isGRPCWebContentType"},
	{Pkg: ".", Name: "headerHasToken"},
	// C12 / C07
	{Pkg: "grpcadapter", Name: "timeoutUnitToDuration"},
	{Pkg: "grpcadapter", Name: "decodeTimeout"},
	// C20
	{Pkg: "internal/httprule", Name: "isHex"},
	{Pkg: "internal/httprule", Name: "consumePchar"},
	{Pkg: "internal/httprule", Name: "checkIdent"},
	{Pkg: "internal/httprule/gwbased", Name: "expectIdent"},
	{Pkg: "internal/httprule/gwbased", Name: "expectPChars"},
	{Pkg: "internal/httprule/gwbased", Name: "isHexDigit"},
	// C14
	{Pkg: "routing", Name: "parseRPCName"},
	{Pkg: "bridgedesc", Name: "CanonicalRPCName"},
	// C13
	{Pkg: "webbridge", Name: "closeReason"},
	// C03: PatternRouter.RouteHTTP — leading-slash test + split, and the per-route verb cut (statement ranges)
	{Pkg: "routing", Recv: "PatternRouter", Name: "RouteHTTP", As: "routeHTTP_split",
		From: "if !strings.HasPrefix(path", To: "lastPathComponent :=", Out: []string{"pathComponents", "lastPathComponent"}},
	{Pkg: "routing", Recv: "PatternRouter", Name: "RouteHTTP", As: "routeHTTP_verbIdx",
		From: "verbIdx := -1", To: "if verbIdx == 0", Out: []string{"verbIdx"}},
	// C08: gRPCWebStream.recv length decision, OnMessage flow-control byte / >= 6 handling (statement ranges)
	{Pkg: "webbridge", Recv: "gRPCWebStream", Name: "recv", As: "recv_length",
		From: "length := binary.BigEndian.Uint32", To: "if length > maxRecvMessageSize", Out: []string{"length"}},
	{Pkg: "webbridge", Recv: "gwsGRPCWebHandler", Name: "OnMessage", As: "onMessage_frame",
		From: "if len(data) > 0 {", To: "if len(data) >= 6 {", Out: []string{"stream.closed", "event.err", "event.data"}, Cond: true},
	// C19: parseMetadataQuery — the key-shape test `param[` … `]` (if-head; the body `continue`s the map loop) and the key slice
	{Pkg: "webbridge", Name: "parseMetadataQuery", As: "mdQuery_keyTest", From: "if !(strings.HasPrefix(k, param+", Head: true},
	{Pkg: "webbridge", Name: "parseMetadataQuery", As: "mdQuery_mdKey", From: "mdKey := k[", To: "mdKey := k[", Out: []string{"mdKey"}},
	// C12 / C07: ProxyForwarder.baseContext — grpc-timeout presence test and first-value decode (if-heads)
	{Pkg: "grpcadapter", Recv: "ProxyForwarder", Name: "baseContext", As: "baseContext_present",
		From: "if v := md.Get(metadataTimeout)", Head: true, Out: []string{"v"}},
	{Pkg: "grpcadapter", Recv: "ProxyForwarder", Name: "baseContext", As: "baseContext_decode",
		From: "if d, ok := decodeTimeout(v[0])", Head: true, Out: []string{"d"}},
	// C10: the code → HTTP status table webbridge.errorStatus uses lives in the grpc-gateway dependency
	{Pkg: "github.com/grpc-ecosystem/grpc-gateway/v2/runtime", Dep: true, Name: "HTTPStatusFromCode"},
}

type failure struct{ msg string }

var abstractFns = map[string]bool{} // translated functions with uninterpreted-library parameters

var fset *token.FileSet
var repo string

func rel(p token.Pos) string {
	pos := fset.Position(p)
	r, err := filepath.Rel(repo, pos.Filename)
	if err != nil || strings.HasPrefix(r, "..") {
		// a dependency in the module cache: module@version/path
		r = pos.Filename
		if i := strings.Index(r, "/pkg/mod/"); i >= 0 {
			r = r[i+len("/pkg/mod/"):]
		}
	}
	return fmt.Sprintf("%s:%d", filepath.ToSlash(r), pos.Line)
}

func fail(n ast.Node, format string, a ...any) {
	where := ""
	if n != nil {
		where = rel(n.Pos()) + ": "
	}
	panic(failure{where + fmt.Sprintf(format, a...)})
}

// ---------------------------------------------------------------------------------------------------------
// types

const (
	tBool  = "Bool"
	tInt   = "Int"
	tByte  = "UInt8"
	tBytes = "GB.Bytes"
	tStrs  = "List GB.Bytes"
	tHdr   = "(GB.Bytes → List GB.Bytes)" // net/http.Header, modelled by its Values function
	tErr   = "Bool"                       // error result of a library call: true = non-nil
)

func leanType(n ast.Node, T types.Type) string {
	if named, ok := T.(*types.Named); ok {
		o := named.Obj()
		if o.Pkg() != nil && o.Pkg().Path() == "net/http" && o.Name() == "Header" {
			return tHdr
		}
		if o.Pkg() != nil && o.Pkg().Path() == "google.golang.org/grpc/metadata" && o.Name() == "MD" {
			return tHdr // metadata.MD, modelled by its Get function (key lower-casing is grpc's)
		}
		if o.Pkg() == nil && o.Name() == "error" {
			return tErr
		}
	}
	switch u := T.Underlying().(type) {
	case *types.Basic:
		switch u.Kind() {
		case types.Bool, types.UntypedBool:
			return tBool
		case types.String, types.UntypedString:
			return tBytes
		case types.Uint8:
			return tByte
		case types.Int, types.Int8, types.Int16, types.Int32, types.Int64, types.UntypedInt, types.UntypedRune:
			return tInt
		case types.Uint, types.Uint16, types.Uint32, types.Uint64:
			// values only: compared, switched on, passed on. Arithmetic on them is rejected (see isUnsigned).
			return tInt
		}
		fail(n, "type %s: unsigned/floating/complex types other than byte are outside the subset (wrap-around not modelled)", T)
	case *types.Slice:
		el := leanType(n, u.Elem())
		if el == tByte {
			return tBytes
		}
		if el == tBytes {
			return tStrs
		}
		fail(n, "slice type %s outside the subset", T)
	case *types.Tuple:
		var parts []string
		for i := 0; i < u.Len(); i++ {
			parts = append(parts, leanType(n, u.At(i).Type()))
		}
		if len(parts) == 1 {
			return parts[0]
		}
		return "(" + strings.Join(parts, " × ") + ")"
	case *types.Interface:
		if T.String() == "error" {
			return tErr
		}
	}
	fail(n, "type %s outside the subset", T)
	return ""
}

func zero(n ast.Node, lt string) string {
	switch lt {
	case tBool:
		return "false"
	case tInt:
		return "(0 : Int)"
	case tByte:
		return "(0 : UInt8)"
	case tBytes:
		return "([] : GB.Bytes)"
	case tStrs:
		return "([] : List GB.Bytes)"
	}
	fail(n, "no zero value for %s", lt)
	return ""
}

func bytesLit(s string) string {
	parts := make([]string, len(s))
	for i := 0; i < len(s); i++ {
		parts[i] = fmt.Sprint(s[i])
	}
	return "([" + strings.Join(parts, ", ") + "] : GB.Bytes)"
}

// ---------------------------------------------------------------------------------------------------------
// one function

var leanKeywords = map[string]bool{"at": true, "from": true, "end": true, "open": true, "in": true, "do": true, "then": true,
	"else": true, "fun": true, "have": true, "show": true, "match": true, "with": true, "let": true, "if": true, "def": true,
	"theorem": true, "by": true, "Type": true, "Prop": true, "where": true, "instance": true, "structure": true, "class": true,
	"namespace": true, "section": true, "variable": true, "import": true, "mutual": true, "infix": true, "notation": true,
}

type tr struct {
	pkg         *packages.Package
	info        *types.Info
	decl        *ast.FuncDecl
	names       map[types.Object]string
	used        map[string]bool
	retType     string
	sig         *types.Signature
	named       []types.Object // named results
	leanOf      map[*types.Func]string
	calls       map[string]bool
	libUsed     map[string]bool
	abstract    map[string]string // uninterpreted library functions used: parameter name -> Lean type
	hasAbstract map[string]bool   // translated functions that take such parameters (calling them is outside the subset)
	// fragment mode
	frag     bool
	fragLo   token.Pos
	fragHi   token.Pos
	fragRets map[*ast.ReturnStmt]int
	fragOut  []types.Object
	fragCond ast.Expr
	pseudos  map[[2]types.Object]*types.Var // (base variable, field) -> pseudo-variable of `x.f`
}

// `x.f` with x a local variable and f a struct field, inside a fragment: a pseudo-variable (assumes that two
// different base variables of the fragment do not alias the same struct)
func (t *tr) pseudo(x *ast.SelectorExpr) *types.Var {
	if !t.frag {
		return nil
	}
	sel, ok := t.info.Selections[x]
	if !ok || sel.Kind() != types.FieldVal {
		return nil
	}
	id, ok := x.X.(*ast.Ident)
	if !ok {
		return nil
	}
	base, ok := t.info.Uses[id].(*types.Var)
	if !ok || base.IsField() || base.Parent() == base.Pkg().Scope() {
		return nil
	}
	key := [2]types.Object{base, sel.Obj()}
	if v, ok := t.pseudos[key]; ok {
		return v
	}
	v := types.NewVar(base.Pos(), base.Pkg(), id.Name+"_"+x.Sel.Name, sel.Type())
	t.pseudos[key] = v
	return v
}

func (t *tr) fragDone() string {
	var p []string
	for _, o := range t.fragOut {
		p = append(p, t.nameOf(o))
	}
	if t.fragCond != nil {
		p = append(p, t.expr(t.fragCond))
	}
	v := p[0]
	if len(p) > 1 {
		v = "(" + strings.Join(p, ", ") + ")"
	}
	if len(t.fragRets) > 0 {
		return "GB.Trans.Frag.done " + v
	}
	return v
}

func (t *tr) nameOf(o types.Object) string {
	if s, ok := t.names[o]; ok {
		return s
	}
	base := o.Name()
	if base == "_" {
		return "_"
	}
	if leanKeywords[base] {
		base += "_"
	}
	s := base
	for k := 2; t.used[s]; k++ {
		s = fmt.Sprintf("%s_%d", base, k)
	}
	t.used[s] = true
	t.names[o] = s
	return s
}

func (t *tr) typeOf(e ast.Expr) types.Type {
	tv, ok := t.info.Types[e]
	if !ok || tv.Type == nil {
		fail(e, "no type information for expression")
	}
	return tv.Type
}

func (t *tr) lt(e ast.Expr) string { return leanType(e, t.typeOf(e)) }

func (t *tr) constExpr(e ast.Expr, tv types.TypeAndValue) string {
	lt := leanType(e, tv.Type)
	switch tv.Value.Kind() {
	case constant.Bool:
		if constant.BoolVal(tv.Value) {
			return "true"
		}
		return "false"
	case constant.String:
		return bytesLit(constant.StringVal(tv.Value))
	case constant.Int:
		s := tv.Value.ExactString()
		if lt == tByte {
			return "(" + s + " : UInt8)"
		}
		if lt == tInt {
			if strings.HasPrefix(s, "-") {
				return "(" + s + " : Int)"
			}
			return "(" + s + " : Int)"
		}
	}
	fail(e, "constant of type %s outside the subset", tv.Type)
	return ""
}

// constant string value of an expression, or failure
func (t *tr) constString(e ast.Expr, what string) string {
	tv := t.info.Types[e]
	if tv.Value == nil || tv.Value.Kind() != constant.String {
		fail(e, "%s must be a constant string", what)
	}
	return constant.StringVal(tv.Value)
}

func (t *tr) constInt(e ast.Expr, what string) int64 {
	tv := t.info.Types[e]
	if tv.Value == nil || tv.Value.Kind() != constant.Int {
		fail(e, "%s must be a constant integer", what)
	}
	v, ok := constant.Int64Val(tv.Value)
	if !ok {
		fail(e, "%s out of range", what)
	}
	return v
}

func (t *tr) expr(e ast.Expr) string {
	if tv, ok := t.info.Types[e]; ok && tv.Value != nil {
		return t.constExpr(e, tv)
	}
	switch x := e.(type) {
	case *ast.ParenExpr:
		return t.expr(x.X)
	case *ast.Ident:
		o := t.info.Uses[x]
		if o == nil {
			o = t.info.Defs[x]
		}
		switch o.(type) {
		case *types.Var:
			if o.Parent() == o.Pkg().Scope() {
				fail(x, "package-level variable %s outside the subset (not a pure function of the arguments)", x.Name)
			}
			return t.nameOf(o)
		case *types.Nil:
			fail(x, "nil outside the subset")
		}
		fail(x, "identifier %s (%T) outside the subset", x.Name, o)
	case *ast.SelectorExpr:
		if pv := t.pseudo(x); pv != nil {
			return t.nameOf(pv)
		}
		fail(x, "selector expression %s.%s outside the subset", types.ExprString(x.X), x.Sel.Name)
	case *ast.UnaryExpr:
		a := t.expr(x.X)
		switch x.Op {
		case token.NOT:
			return "(!" + a + ")"
		case token.SUB:
			if t.lt(x.X) == tInt {
				return "(-" + a + ")"
			}
		}
		fail(x, "unary operator %s on %s outside the subset", x.Op, t.typeOf(x.X))
	case *ast.BinaryExpr:
		return t.binary(x)
	case *ast.IndexExpr:
		if t.lt(x.X) == tStrs && t.lt(x.Index) == tInt {
			return "(GB.Trans.idxS " + t.expr(x.X) + " " + t.expr(x.Index) + ")"
		}
		if t.lt(x.X) != tBytes {
			fail(x, "indexing of %s outside the subset", t.typeOf(x.X))
		}
		if t.lt(x.Index) != tInt {
			fail(x, "index of type %s outside the subset", t.typeOf(x.Index))
		}
		return "(GB.Trans.idx " + t.expr(x.X) + " " + t.expr(x.Index) + ")"
	case *ast.SliceExpr:
		if x.Slice3 {
			fail(x, "3-index slice outside the subset")
		}
		if t.lt(x.X) != tBytes {
			fail(x, "slicing of %s outside the subset", t.typeOf(x.X))
		}
		s := t.expr(x.X)
		lo, hi := "(0 : Int)", "(GB.Trans.len "+s+")"
		if x.Low != nil {
			lo = t.expr(x.Low)
		}
		if x.High != nil {
			hi = t.expr(x.High)
		}
		return "(GB.Trans.slice " + s + " " + lo + " " + hi + ")"
	case *ast.CallExpr:
		return t.call(x)
	case *ast.CompositeLit:
		if t.lt(x) == tBytes {
			var parts []string
			for _, el := range x.Elts {
				if _, kv := el.(*ast.KeyValueExpr); kv {
					fail(el, "keyed composite literal outside the subset")
				}
				parts = append(parts, t.expr(el))
			}
			return "([" + strings.Join(parts, ", ") + "] : GB.Bytes)"
		}
		fail(x, "composite literal of %s outside the subset", t.typeOf(x))
	}
	fail(e, "expression %T outside the subset", e)
	return ""
}

// unsigned integer types other than byte are translated to Int for comparison / switch / passing only:
// any arithmetic on them could wrap, which Int does not model
func isUnsigned(T types.Type) bool {
	b, ok := T.Underlying().(*types.Basic)
	if !ok {
		return false
	}
	switch b.Kind() {
	case types.Uint, types.Uint16, types.Uint32, types.Uint64, types.Uintptr:
		return true
	}
	return false
}

func (t *tr) isNil(e ast.Expr) bool {
	id, ok := e.(*ast.Ident)
	if !ok {
		return false
	}
	_, isNil := t.info.Uses[id].(*types.Nil)
	return isNil
}

func (t *tr) binary(x *ast.BinaryExpr) string {
	// `err != nil` / `err == nil` for an error result of a modelled library call (Bool: true = non-nil)
	if (x.Op == token.EQL || x.Op == token.NEQ) && (t.isNil(x.X) != t.isNil(x.Y)) {
		other := x.X
		if t.isNil(x.X) {
			other = x.Y
		}
		isVar := false
		switch o := other.(type) {
		case *ast.Ident:
			isVar = true
		case *ast.SelectorExpr:
			isVar = t.pseudo(o) != nil
		}
		if isVar && t.typeOf(other).String() == "error" {
			if x.Op == token.NEQ {
				return t.expr(other)
			}
			return "(!" + t.expr(other) + ")"
		}
		fail(x, "comparison of %s with nil outside the subset", t.typeOf(other))
	}
	a, b := t.expr(x.X), t.expr(x.Y)
	la, lb := t.lt(x.X), t.lt(x.Y)
	if isUnsigned(t.typeOf(x.X)) || isUnsigned(t.typeOf(x.Y)) {
		switch x.Op {
		case token.EQL, token.NEQ, token.LSS, token.LEQ, token.GTR, token.GEQ:
		default:
			fail(x, "operator %s on unsigned type %s outside the subset (wrap-around not modelled)", x.Op, t.typeOf(x.X))
		}
	}
	switch x.Op {
	case token.LAND:
		return "(" + a + " && " + b + ")"
	case token.LOR:
		return "(" + a + " || " + b + ")"
	}
	if x.Op == token.SHL || x.Op == token.SHR {
		n := t.constInt(x.Y, "shift count")
		if la == tByte && n >= 0 && n < 8 {
			op := map[token.Token]string{token.SHL: "<<<", token.SHR: ">>>"}[x.Op]
			return fmt.Sprintf("(%s %s (%d : UInt8))", a, op, n)
		}
		fail(x, "shift of %s by %d outside the subset", t.typeOf(x.X), n)
	}
	if la != lb {
		fail(x, "operands of %s have different translated types %s / %s", x.Op, la, lb)
	}
	switch x.Op {
	case token.EQL:
		if la == tHdr {
			break
		}
		return "(" + a + " == " + b + ")"
	case token.NEQ:
		if la == tHdr {
			break
		}
		return "(" + a + " != " + b + ")"
	case token.LSS, token.LEQ, token.GTR, token.GEQ:
		if la == tInt || la == tByte {
			op := map[token.Token]string{token.LSS: "<", token.LEQ: "≤", token.GTR: ">", token.GEQ: "≥"}[x.Op]
			return "(decide (" + a + " " + op + " " + b + "))"
		}
	case token.ADD:
		if la == tBytes {
			return "(" + a + " ++ " + b + ")"
		}
		if la == tInt || la == tByte {
			return "(" + a + " + " + b + ")"
		}
	case token.SUB, token.MUL:
		if la == tInt || la == tByte {
			return "(" + a + " " + x.Op.String() + " " + b + ")"
		}
	case token.QUO:
		if la == tInt {
			return "(Int.tdiv " + a + " " + b + ")"
		}
		if la == tByte {
			return "(" + a + " / " + b + ")"
		}
	case token.REM:
		if la == tInt {
			return "(Int.tmod " + a + " " + b + ")"
		}
		if la == tByte {
			return "(" + a + " % " + b + ")"
		}
	case token.AND, token.OR, token.XOR:
		if la == tByte {
			op := map[token.Token]string{token.AND: "&&&", token.OR: "|||", token.XOR: "^^^"}[x.Op]
			return "(" + a + " " + op + " " + b + ")"
		}
	}
	fail(x, "operator %s on %s outside the subset", x.Op, t.typeOf(x.X))
	return ""
}

// qualified name of the callee: "strings.HasPrefix", "(net/http.Header).Values", "len", or a *types.Func of the repo
func (t *tr) call(x *ast.CallExpr) string {
	if x.Ellipsis != token.NoPos {
		fail(x, "variadic call outside the subset")
	}
	// conversion
	if tv, ok := t.info.Types[x.Fun]; ok && tv.IsType() {
		if len(x.Args) != 1 {
			fail(x, "conversion with %d arguments", len(x.Args))
		}
		from, to := t.lt(x.Args[0]), leanType(x, tv.Type)
		a := t.expr(x.Args[0])
		switch {
		case from == to:
			if from == tInt && (isUnsigned(t.typeOf(x.Args[0])) != isUnsigned(tv.Type)) {
				fail(x, "conversion %s → %s between signed and unsigned outside the subset", t.typeOf(x.Args[0]), tv.Type)
			}
			if from == tInt {
				// widths: a narrowing integer conversion would wrap in Go
				fb, _ := t.typeOf(x.Args[0]).Underlying().(*types.Basic)
				tb, _ := tv.Type.Underlying().(*types.Basic)
				if fb != nil && tb != nil && intWidth(tb) < intWidth(fb) {
					fail(x, "narrowing conversion %s → %s outside the subset", t.typeOf(x.Args[0]), tv.Type)
				}
			}
			return a
		case from == tByte && to == tInt:
			return "(GB.Trans.ofByte " + a + ")"
		case from == tInt && to == tByte:
			return "(GB.Trans.toByte " + a + ")"
		}
		fail(x, "conversion %s → %s outside the subset", t.typeOf(x.Args[0]), tv.Type)
	}
	args := func() []string {
		var r []string
		for _, a := range x.Args {
			r = append(r, t.expr(a))
		}
		return r
	}
	switch f := x.Fun.(type) {
	case *ast.Ident:
		switch o := t.info.Uses[f].(type) {
		case *types.Builtin:
			if o.Name() == "len" {
				lt := t.lt(x.Args[0])
				if lt != tBytes && lt != tStrs {
					fail(x, "len of %s outside the subset", t.typeOf(x.Args[0]))
				}
				return "(GB.Trans.len " + t.expr(x.Args[0]) + ")"
			}
			fail(x, "builtin %s outside the subset", o.Name())
		case *types.Func:
			return t.repoCall(x, o, args())
		}
	case *ast.SelectorExpr:
		if sel, ok := t.info.Selections[f]; ok {
			// method call
			if sel.Recv().String() == "encoding/binary.bigEndian" && f.Sel.Name == "Uint32" && len(x.Args) == 1 && t.lt(x.Args[0]) == tBytes {
				if sx, ok := f.X.(*ast.SelectorExpr); ok && sx.Sel.Name == "BigEndian" {
					t.libUsed["encoding/binary.BigEndian.Uint32"] = true
					return "(GB.Trans.beUint32 " + t.expr(x.Args[0]) + ")"
				}
			}
			recv := leanType(f.X, sel.Recv())
			if sel.Recv().String() == "google.golang.org/grpc/metadata.MD" {
				if f.Sel.Name == "Get" && len(x.Args) == 1 {
					t.libUsed["(google.golang.org/grpc/metadata.MD).Get"] = true
					return "(" + t.expr(f.X) + " " + t.expr(x.Args[0]) + ")"
				}
				fail(x, "method call %s.%s outside the subset", sel.Recv(), f.Sel.Name)
			}
			if recv == tHdr && (f.Sel.Name == "Values" || f.Sel.Name == "Get") && len(x.Args) == 1 {
				t.libUsed["(net/http.Header)."+f.Sel.Name] = true
				v := "(" + t.expr(f.X) + " " + t.expr(x.Args[0]) + ")"
				if f.Sel.Name == "Get" {
					return "(GB.Trans.first " + v + ")"
				}
				return v
			}
			fail(x, "method call %s.%s outside the subset", sel.Recv(), f.Sel.Name)
		}
		if o, ok := t.info.Uses[f.Sel].(*types.Func); ok {
			if o.Pkg() != nil && strings.HasPrefix(o.Pkg().Path(), "github.com/renbou/grpcbridge") {
				return t.repoCall(x, o, args())
			}
			return t.libCall(x, o)
		}
	}
	fail(x, "call of %T outside the subset", x.Fun)
	return ""
}

func intWidth(b *types.Basic) int {
	switch b.Kind() {
	case types.Int8, types.Uint8:
		return 8
	case types.Int16, types.Uint16:
		return 16
	case types.Int32, types.Uint32:
		return 32
	}
	return 64
}

func (t *tr) repoCall(x *ast.CallExpr, o *types.Func, args []string) string {
	name, ok := t.leanOf[o]
	if !ok {
		fail(x, "call to %s.%s, which is not in the translator's target list", o.Pkg().Path(), o.Name())
	}
	if abstractFns[name] {
		fail(x, "call to %s, which is parameterised by an uninterpreted library function", name)
	}
	t.calls[name] = true
	return "(" + name + " " + strings.Join(args, " ") + ")"
}

func isASCII(s string) bool {
	for i := 0; i < len(s); i++ {
		if s[i] >= 0x80 {
			return false
		}
	}
	return true
}

// logging calls: no effect on the results of the function, dropped by the translation
var droppedCalls = map[string]bool{
	"google.golang.org/grpc/grpclog.Infof": true, "google.golang.org/grpc/grpclog.Warningf": true,
	"google.golang.org/grpc/grpclog.Errorf": true,
}

// library functions that are NOT modelled but may be called: the call is kept uninterpreted, the translated
// definition is parameterised by the function (the tie theorem instantiates or quantifies it).
var abstractLib = map[string]struct{ param, typ string }{
	"strings.ToValidUTF8": {"toValidUTF8", "GB.Bytes → GB.Bytes → GB.Bytes"},
}

// the fixed library of modelled standard-library functions (lean/GB/Base/TransLib.lean)
func (t *tr) libCall(x *ast.CallExpr, o *types.Func) string {
	q := o.Pkg().Path() + "." + o.Name()
	e := func(i int) string { return t.expr(x.Args[i]) }
	oneByte := func(i int, what string) string {
		s := t.constString(x.Args[i], what)
		if len(s) != 1 {
			fail(x, "%s: only a one-byte constant separator is modelled, got %q", q, s)
		}
		return fmt.Sprintf("(%d : UInt8)", s[0])
	}
	t.libUsed[q] = true
	switch q {
	case "strings.HasPrefix", "bytes.HasPrefix":
		return "(GB.Trans.hasPrefix " + e(0) + " " + e(1) + ")"
	case "strings.HasSuffix", "bytes.HasSuffix":
		return "(GB.Trans.hasSuffix " + e(0) + " " + e(1) + ")"
	case "strings.Split":
		return "(GB.Trans.splitByte " + oneByte(1, "separator") + " " + e(0) + ")"
	case "strings.Cut":
		return "(GB.Trans.cutByte " + oneByte(1, "separator") + " " + e(0) + ")"
	case "strings.Trim":
		cut := t.constString(x.Args[1], "cutset")
		if !isASCII(cut) {
			fail(x, "strings.Trim: only an all-ASCII constant cutset is modelled, got %q", cut)
		}
		return "(GB.Trans.trimSet " + e(0) + " " + bytesLit(cut) + ")"
	case "strconv.ParseInt":
		if t.constInt(x.Args[1], "base") != 10 || t.constInt(x.Args[2], "bitSize") != 64 {
			fail(x, "strconv.ParseInt: only base 10, bitSize 64 is modelled")
		}
		return "(GB.Trans.parseInt10 " + e(0) + ")"
	case "fmt.Sprintf":
		// only a constant format made of literal text and %s verbs, every argument a string-represented value
		// without String/Error/Format/GoString methods: then the result is plain concatenation
		format := t.constString(x.Args[0], "format")
		var parts []string
		lit := ""
		ai := 1
		for i := 0; i < len(format); i++ {
			if format[i] != '%' {
				lit += string(format[i])
				continue
			}
			if i+1 < len(format) && format[i+1] == '%' {
				lit += "%"
				i++
				continue
			}
			if i+1 >= len(format) || format[i+1] != 's' || ai >= len(x.Args) {
				fail(x, "fmt.Sprintf: only %%s verbs with matching arguments are modelled (format %q)", format)
			}
			i++
			if lit != "" {
				parts = append(parts, bytesLit(lit))
				lit = ""
			}
			at := t.typeOf(x.Args[ai])
			if t.lt(x.Args[ai]) != tBytes {
				fail(x.Args[ai], "fmt.Sprintf: %%s argument of type %s is not modelled", at)
			}
			for _, m := range []string{"String", "Error", "Format", "GoString"} {
				for _, T := range []types.Type{at, types.NewPointer(at)} {
					if o, _, _ := types.LookupFieldOrMethod(T, true, t.pkg.Types, m); o != nil {
						if _, isFunc := o.(*types.Func); isFunc {
							fail(x.Args[ai], "fmt.Sprintf: argument type %s has a %s method (formatting is not plain)", at, m)
						}
					}
				}
			}
			parts = append(parts, e(ai))
			ai++
		}
		if ai != len(x.Args) {
			fail(x, "fmt.Sprintf: %d arguments for format %q", len(x.Args)-1, format)
		}
		if lit != "" {
			parts = append(parts, bytesLit(lit))
		}
		if len(parts) == 0 {
			return bytesLit("")
		}
		return "(" + strings.Join(parts, " ++ ") + ")"
	case "fmt.Errorf", "errors.New", "google.golang.org/grpc/status.Error", "google.golang.org/grpc/status.Errorf":
		// a non-nil error; the message is not modelled (error results are Bool: true = non-nil)
		return "true"
	case "unicode/utf8.RuneStart":
		return "(GB.Trans.runeStart " + e(0) + ")"
	}
	if ab, ok := abstractLib[q]; ok {
		// an UNINTERPRETED library function: the translated definition takes it as an extra leading parameter
		delete(t.libUsed, q)
		t.abstract[ab.param] = ab.typ
		t.libUsed[q+" (uninterpreted: parameter "+ab.param+")"] = true
		var as []string
		for i := range x.Args {
			as = append(as, e(i))
		}
		return "(" + ab.param + " " + strings.Join(as, " ") + ")"
	}
	delete(t.libUsed, q)
	fail(x, "call to %s: not in the library of modelled standard-library functions", q)
	return ""
}

// ---------------------------------------------------------------------------------------------------------
// statements (continuation style: `rest` is what follows in the enclosing statement lists)

type ctx struct {
	loop  bool
	state []types.Object // loop state variables (outer variables assigned by the body)
}

func (t *tr) stateTuple(vars []types.Object) string {
	switch len(vars) {
	case 0:
		return "()"
	case 1:
		return t.nameOf(vars[0])
	}
	var p []string
	for _, v := range vars {
		p = append(p, t.nameOf(v))
	}
	return "(" + strings.Join(p, ", ") + ")"
}

func (t *tr) statePattern(vars []types.Object) string {
	if len(vars) == 0 {
		return "_"
	}
	return t.stateTuple(vars)
}

func (t *tr) ret(c ctx, v string) string {
	if c.loop {
		return "GB.Trans.Ctl.ret " + v
	}
	return v
}

func (t *tr) namedResults(n ast.Node) string {
	if len(t.named) == 0 {
		fail(n, "control reaches the end of a function with unnamed results")
	}
	return t.stateTuple(t.named)
}

func ind(d int) string { return strings.Repeat("  ", d) }

func (t *tr) stmts(list []ast.Stmt, c ctx, d int) string {
	if len(list) == 0 {
		if c.loop {
			return ind(d) + "GB.Trans.Ctl.next " + t.stateTuple(c.state) + "\n"
		}
		if t.frag {
			return ind(d) + t.fragDone() + "\n"
		}
		return ind(d) + t.ret(c, t.namedResults(t.decl)) + "\n"
	}
	s, rest := list[0], list[1:]
	switch x := s.(type) {
	case *ast.EmptyStmt:
		return t.stmts(rest, c, d)
	case *ast.BlockStmt:
		return t.stmts(append(append([]ast.Stmt{}, x.List...), rest...), c, d)
	case *ast.ReturnStmt:
		if t.frag {
			// a return inside a fragment: only WHICH return statement is taken is modelled, not its values
			return ind(d) + t.ret(c, fmt.Sprintf("(GB.Trans.Frag.ret %d)", t.fragRets[x])) + "\n"
		}
		if len(x.Results) == 0 {
			return ind(d) + t.ret(c, t.namedResults(x)) + "\n"
		}
		var p []string
		for i, r := range x.Results {
			if t.isNil(r) && len(x.Results) == t.sig.Results().Len() && leanType(r, t.sig.Results().At(i).Type()) == tErr &&
				t.sig.Results().At(i).Type().String() == "error" {
				p = append(p, "false") // a nil error
				continue
			}
			p = append(p, t.expr(r))
		}
		v := p[0]
		if len(p) > 1 {
			v = "(" + strings.Join(p, ", ") + ")"
		} else if tup, ok := t.typeOf(x.Results[0]).(*types.Tuple); ok && tup.Len() > 1 {
			_ = tup // `return f()` with a multi-valued f: the product is passed on unchanged
		}
		return ind(d) + t.ret(c, v) + "\n"
	case *ast.BranchStmt:
		if x.Label != nil {
			fail(x, "labelled %s outside the subset", x.Tok)
		}
		if c.loop && x.Tok == token.CONTINUE {
			return ind(d) + "GB.Trans.Ctl.next " + t.stateTuple(c.state) + "\n"
		}
		if c.loop && x.Tok == token.BREAK {
			return ind(d) + "GB.Trans.Ctl.brk " + t.stateTuple(c.state) + "\n"
		}
		fail(x, "%s outside the subset here", x.Tok)
	case *ast.IncDecStmt:
		id, ok := x.X.(*ast.Ident)
		if !ok {
			fail(x, "%s of a non-variable outside the subset", x.Tok)
		}
		op := map[token.Token]string{token.INC: "+", token.DEC: "-"}[x.Tok]
		lt := t.lt(x.X)
		if isUnsigned(t.typeOf(x.X)) {
			fail(x, "%s on unsigned type outside the subset", x.Tok)
		}
		return ind(d) + fmt.Sprintf("let %s : %s := %s %s 1\n", t.expr(id), lt, t.expr(id), op) + t.stmts(rest, c, d)
	case *ast.DeclStmt:
		gd := x.Decl.(*ast.GenDecl)
		if gd.Tok == token.CONST || gd.Tok == token.TYPE {
			if gd.Tok == token.TYPE {
				fail(x, "local type declaration outside the subset")
			}
			return t.stmts(rest, c, d) // constants are inlined by value
		}
		out := ""
		for _, sp := range gd.Specs {
			vs := sp.(*ast.ValueSpec)
			if len(vs.Values) != 0 && len(vs.Values) != len(vs.Names) {
				fail(vs, "multi-valued var declaration outside the subset")
			}
			for i, nm := range vs.Names {
				o := t.info.Defs[nm]
				lt := leanType(nm, o.Type())
				v := zero(nm, lt)
				if len(vs.Values) != 0 {
					v = t.expr(vs.Values[i])
				}
				out += ind(d) + fmt.Sprintf("let %s : %s := %s\n", t.nameOf(o), lt, v)
			}
		}
		return out + t.stmts(rest, c, d)
	case *ast.AssignStmt:
		return t.assign(x, c, d) + t.stmts(rest, c, d)
	case *ast.IfStmt:
		pre := ""
		if x.Init != nil {
			pre = t.simple(x.Init, c, d)
		}
		cond := t.expr(x.Cond)
		thenB := append(append([]ast.Stmt{}, x.Body.List...), rest...)
		var elseB []ast.Stmt
		if x.Else != nil {
			elseB = append([]ast.Stmt{x.Else}, rest...)
		} else {
			elseB = rest
		}
		return pre + ind(d) + "if " + cond + " then\n" + t.stmts(thenB, c, d+1) + ind(d) + "else\n" + t.stmts(elseB, c, d+1)
	case *ast.SwitchStmt:
		return t.switchStmt(x, rest, c, d)
	case *ast.ForStmt, *ast.RangeStmt:
		return t.loopStmt(s, rest, c, d)
	case *ast.ExprStmt:
		if call, ok := x.X.(*ast.CallExpr); ok {
			if sel, ok := call.Fun.(*ast.SelectorExpr); ok {
				if o, ok := t.info.Uses[sel.Sel].(*types.Func); ok && o.Pkg() != nil && droppedCalls[o.Pkg().Path()+"."+o.Name()] {
					t.libUsed[o.Pkg().Path()+"."+o.Name()+" (logging call: dropped)"] = true
					return t.stmts(rest, c, d)
				}
			}
		}
		fail(x, "expression statement (side effect) outside the subset")
	}
	fail(s, "statement %T outside the subset", s)
	return ""
}

func (t *tr) simple(s ast.Stmt, c ctx, d int) string {
	switch x := s.(type) {
	case *ast.AssignStmt:
		return t.assign(x, c, d)
	}
	fail(s, "init statement %T outside the subset", s)
	return ""
}

func (t *tr) lhsName(e ast.Expr) (string, string) {
	if sx, ok := e.(*ast.SelectorExpr); ok {
		if pv := t.pseudo(sx); pv != nil {
			return t.nameOf(pv), leanType(e, pv.Type())
		}
	}
	id, ok := e.(*ast.Ident)
	if !ok {
		fail(e, "assignment to %T (not a plain variable) outside the subset", e)
	}
	if id.Name == "_" {
		return "_", ""
	}
	o := t.info.Defs[id]
	if o == nil {
		o = t.info.Uses[id]
	}
	if v, ok := o.(*types.Var); !ok || v.Parent() == v.Pkg().Scope() {
		fail(e, "assignment to %s outside the subset", id.Name)
	}
	return t.nameOf(o), leanType(id, o.Type())
}

func (t *tr) assign(x *ast.AssignStmt, c ctx, d int) string {
	switch x.Tok {
	case token.DEFINE, token.ASSIGN:
		if len(x.Lhs) == len(x.Rhs) {
			if len(x.Lhs) > 1 {
				// parallel assignment: evaluate all right-hand sides first
				var rs, ls []string
				for _, r := range x.Rhs {
					rs = append(rs, t.expr(r))
				}
				for _, l := range x.Lhs {
					n, _ := t.lhsName(l)
					ls = append(ls, n)
				}
				return ind(d) + "let (" + strings.Join(ls, ", ") + ") := (" + strings.Join(rs, ", ") + ")\n"
			}
			v := t.expr(x.Rhs[0])
			n, lt := t.lhsName(x.Lhs[0])
			if n == "_" {
				return ""
			}
			return ind(d) + fmt.Sprintf("let %s : %s := %s\n", n, lt, v)
		}
		if len(x.Rhs) == 1 {
			if _, ok := x.Rhs[0].(*ast.CallExpr); !ok {
				fail(x, "multi-valued assignment from %T outside the subset", x.Rhs[0])
			}
			v := t.expr(x.Rhs[0])
			var ls []string
			for _, l := range x.Lhs {
				n, _ := t.lhsName(l)
				ls = append(ls, n)
			}
			return ind(d) + "let (" + strings.Join(ls, ", ") + ") := " + v + "\n"
		}
	default:
		ops := map[token.Token]token.Token{token.ADD_ASSIGN: token.ADD, token.SUB_ASSIGN: token.SUB, token.MUL_ASSIGN: token.MUL}
		if op, ok := ops[x.Tok]; ok && len(x.Lhs) == 1 {
			if isUnsigned(t.typeOf(x.Lhs[0])) {
				fail(x, "%s on unsigned type outside the subset", x.Tok)
			}
			n, lt := t.lhsName(x.Lhs[0])
			if lt == tInt || lt == tByte {
				return ind(d) + fmt.Sprintf("let %s : %s := %s %s %s\n", n, lt, n, op, t.expr(x.Rhs[0]))
			}
			if lt == tBytes && op == token.ADD {
				return ind(d) + fmt.Sprintf("let %s : %s := %s ++ %s\n", n, lt, n, t.expr(x.Rhs[0]))
			}
		}
	}
	fail(x, "assignment form %s outside the subset", x.Tok)
	return ""
}

func (t *tr) switchStmt(x *ast.SwitchStmt, rest []ast.Stmt, c ctx, d int) string {
	pre := ""
	if x.Init != nil {
		pre = t.simple(x.Init, c, d)
	}
	tag := ""
	if x.Tag != nil {
		// the tag is evaluated once; bind it
		tag = fmt.Sprintf("tag%d", d)
		for t.used[tag] {
			tag += "'"
		}
		pre += ind(d) + fmt.Sprintf("let %s : %s := %s\n", tag, t.lt(x.Tag), t.expr(x.Tag))
	}
	var def *ast.CaseClause
	var clauses []*ast.CaseClause
	// effective body of each clause: `fallthrough` (only legal as the last statement) continues with the body
	// of the next clause in source order, without evaluating its case expressions
	eff := map[*ast.CaseClause][]ast.Stmt{}
	for i := len(x.Body.List) - 1; i >= 0; i-- {
		cc := x.Body.List[i].(*ast.CaseClause)
		body := cc.Body
		if n := len(body); n > 0 {
			if br, ok := body[n-1].(*ast.BranchStmt); ok && br.Tok == token.FALLTHROUGH {
				if i+1 >= len(x.Body.List) {
					fail(br, "fallthrough in the last clause")
				}
				body = append(append([]ast.Stmt{}, body[:n-1]...), eff[x.Body.List[i+1].(*ast.CaseClause)]...)
			}
		}
		eff[cc] = body
	}
	for _, s := range x.Body.List {
		cc := s.(*ast.CaseClause)
		for bi, b := range cc.Body {
			if br, ok := b.(*ast.BranchStmt); ok && br.Tok == token.FALLTHROUGH && bi == len(cc.Body)-1 {
				continue
			}
			ast.Inspect(b, func(n ast.Node) bool {
				switch y := n.(type) {
				case *ast.BranchStmt:
					if y.Tok == token.FALLTHROUGH || y.Tok == token.BREAK {
						fail(y, "%s inside switch outside the subset", y.Tok)
					}
				case *ast.ForStmt, *ast.RangeStmt, *ast.FuncLit:
					return false
				}
				return true
			})
		}
		if cc.List == nil {
			def = cc
		} else {
			clauses = append(clauses, cc)
		}
	}
	out := pre
	dd := d
	for _, cc := range clauses {
		var alts []string
		for _, e := range cc.List {
			if tag != "" {
				if t.lt(e) != t.lt(x.Tag) {
					fail(e, "case value type differs from switch tag type")
				}
				alts = append(alts, "("+tag+" == "+t.expr(e)+")")
			} else {
				alts = append(alts, t.expr(e))
			}
		}
		cond := alts[0]
		if len(alts) > 1 {
			cond = "(" + strings.Join(alts, " || ") + ")"
		}
		body := append(append([]ast.Stmt{}, eff[cc]...), rest...)
		out += ind(dd) + "if " + cond + " then\n" + t.stmts(body, c, dd+1) + ind(dd) + "else\n"
		dd++
	}
	var body []ast.Stmt
	if def != nil {
		body = append(append([]ast.Stmt{}, eff[def]...), rest...)
	} else {
		body = rest
	}
	return out + t.stmts(body, c, dd)
}

// variables declared outside `body` that `body` assigns
func (t *tr) assignedOuter(body *ast.BlockStmt) []types.Object {
	var res []types.Object
	seen := map[types.Object]bool{}
	add := func(e ast.Expr) {
		id, ok := e.(*ast.Ident)
		if !ok {
			fail(e, "assignment to %T (not a plain variable) inside a loop body outside the subset", e)
		}
		if id.Name == "_" {
			return
		}
		o := t.info.Uses[id]
		if o == nil {
			return // a definition inside the body
		}
		if o.Pos() >= body.Pos() && o.Pos() < body.End() {
			return
		}
		if !seen[o] {
			seen[o] = true
			res = append(res, o)
		}
	}
	ast.Inspect(body, func(n ast.Node) bool {
		switch y := n.(type) {
		case *ast.AssignStmt:
			for _, l := range y.Lhs {
				add(l)
			}
		case *ast.IncDecStmt:
			add(y.X)
		case *ast.RangeStmt:
			if y.Tok == token.ASSIGN {
				add(y.Key)
				if y.Value != nil {
					add(y.Value)
				}
			}
		case *ast.FuncLit:
			fail(y, "function literal outside the subset")
		}
		return true
	})
	return res
}

func (t *tr) mentions(e ast.Expr, objs []types.Object) types.Object {
	var hit types.Object
	ast.Inspect(e, func(n ast.Node) bool {
		if id, ok := n.(*ast.Ident); ok {
			for _, o := range objs {
				if t.info.Uses[id] == o {
					hit = o
				}
			}
		}
		return true
	})
	return hit
}

func (t *tr) loopStmt(s ast.Stmt, rest []ast.Stmt, c ctx, d int) string {
	var body *ast.BlockStmt
	var values, binder string
	runePre := "" // bindings of index / rune for a range over a string
	switch x := s.(type) {
	case *ast.ForStmt:
		if x.Init == nil && x.Post == nil && x.Cond != nil {
			return t.countdown(x, rest, c, d)
		}
		// for i := lo; i < hi; i++ { body }
		body = x.Body
		init, ok := x.Init.(*ast.AssignStmt)
		if !ok || init.Tok != token.DEFINE || len(init.Lhs) != 1 || len(init.Rhs) != 1 {
			fail(x, "for loop: only `for i := lo; i < hi; i++` is in the subset (init)")
		}
		iv := t.info.Defs[init.Lhs[0].(*ast.Ident)]
		cond, ok := x.Cond.(*ast.BinaryExpr)
		if !ok || cond.Op != token.LSS {
			fail(x, "for loop: only `for i := lo; i < hi; i++` is in the subset (condition)")
		}
		if id, ok := cond.X.(*ast.Ident); !ok || t.info.Uses[id] != iv {
			fail(x, "for loop: only `for i := lo; i < hi; i++` is in the subset (condition variable)")
		}
		post, ok := x.Post.(*ast.IncDecStmt)
		if !ok || post.Tok != token.INC {
			fail(x, "for loop: only `for i := lo; i < hi; i++` is in the subset (post)")
		}
		if id, ok := post.X.(*ast.Ident); !ok || t.info.Uses[id] != iv {
			fail(x, "for loop: only `for i := lo; i < hi; i++` is in the subset (post variable)")
		}
		if leanType(x, iv.Type()) != tInt {
			fail(x, "for loop: loop variable of type %s outside the subset", iv.Type())
		}
		assigned := t.assignedOuter(body)
		for _, o := range assigned {
			if o == iv {
				fail(x, "for loop: the body assigns the loop variable")
			}
		}
		if o := t.mentions(cond.Y, assigned); o != nil {
			fail(x, "for loop: the body assigns %s, which the loop bound mentions", o.Name())
		}
		if o := t.mentions(cond.Y, []types.Object{iv}); o != nil {
			fail(x, "for loop: the bound mentions the loop variable")
		}
		values = "(GB.Trans.rangeInt " + t.expr(init.Rhs[0]) + " " + t.expr(cond.Y) + ")"
		binder = t.nameOf(iv)
	case *ast.RangeStmt:
		body = x.Body
		if x.Tok != token.DEFINE {
			fail(x, "range loop assigning to existing variables outside the subset")
		}
		xt := t.typeOf(x.X)
		lt := leanType(x.X, xt)
		keyUsed := x.Key != nil && x.Key.(*ast.Ident).Name != "_"
		valUsed := x.Value != nil && x.Value.(*ast.Ident).Name != "_"
		switch {
		case lt == tInt: // for i := range n
			values = "(GB.Trans.rangeInt (0 : Int) " + t.expr(x.X) + ")"
			binder = "_"
			if keyUsed {
				binder = t.nameOf(t.info.Defs[x.Key.(*ast.Ident)])
			}
		case lt == tBytes || lt == tStrs:
			if b, ok := xt.Underlying().(*types.Basic); ok && b.Info()&types.IsString != 0 {
				// a string: Go iterates UTF-8 runes with their byte offsets — GB.Trans.runes
				values = "(GB.Trans.runes " + t.expr(x.X) + ")"
				binder = "p"
				for t.used[binder] {
					binder += "'"
				}
				t.used[binder] = true
				if keyUsed {
					runePre += fmt.Sprintf("let %s : Int := %s.1\n", t.nameOf(t.info.Defs[x.Key.(*ast.Ident)]), binder)
				}
				if valUsed {
					runePre += fmt.Sprintf("let %s : Int := %s.2\n", t.nameOf(t.info.Defs[x.Value.(*ast.Ident)]), binder)
				}
				break
			}
			switch {
			case keyUsed && valUsed:
				fail(x, "range with both index and value outside the subset")
			case keyUsed:
				values = "(GB.Trans.rangeInt (0 : Int) (GB.Trans.len " + t.expr(x.X) + "))"
				binder = t.nameOf(t.info.Defs[x.Key.(*ast.Ident)])
			case valUsed:
				values = t.expr(x.X)
				binder = t.nameOf(t.info.Defs[x.Value.(*ast.Ident)])
			default:
				values = t.expr(x.X)
				binder = "_"
			}
		default:
			fail(x, "range over %s outside the subset", xt)
		}
	}
	state := t.assignedOuter(body)
	inner := ctx{loop: true, state: state}
	out := ind(d) + fmt.Sprintf("(match GB.Trans.loop (ρ := %s) %s %s (fun %s %s =>\n", t.retType, values, t.stateTuple(state), binder, loopStateBinder(t, state))
	if len(state) > 1 {
		out += ind(d+2) + "let " + t.stateTuple(state) + " := st\n"
	}
	for _, l := range strings.Split(strings.TrimSuffix(runePre, "\n"), "\n") {
		if l != "" {
			out += ind(d+2) + l + "\n"
		}
	}
	out += t.stmts(body.List, inner, d+2)
	out += ind(d+1) + ") with\n"
	out += ind(d) + "| .ret r => " + t.ret(c, "r") + "\n"
	out += ind(d) + "| .done " + doneBinder(t, state) + " =>\n"
	if len(state) > 1 {
		out += ind(d+1) + "let " + t.stateTuple(state) + " := st\n"
	}
	return out + t.stmts(rest, c, d+1) + ind(d) + ")\n"
}

// `for n > 0 && REST { …; n--; … }`: a while loop that terminates because the Int variable n is positive on
// entry to every iteration and every completed iteration decrements it exactly once (n is assigned nowhere
// else in the body, the decrement is a top-level statement of the body, there is no `continue`).
// Fuel = the value of n before the loop (as a Nat): after that many iterations n = 0 and the condition is false.
func (t *tr) countdown(x *ast.ForStmt, rest []ast.Stmt, c ctx, d int) string {
	conj := []ast.Expr{}
	var flat func(e ast.Expr)
	flat = func(e ast.Expr) {
		if p, ok := e.(*ast.ParenExpr); ok {
			flat(p.X)
			return
		}
		if b, ok := e.(*ast.BinaryExpr); ok && b.Op == token.LAND {
			flat(b.X)
			flat(b.Y)
			return
		}
		conj = append(conj, e)
	}
	flat(x.Cond)
	var nv types.Object
	for _, e := range conj {
		if b, ok := e.(*ast.BinaryExpr); ok && b.Op == token.GTR {
			if id, ok := b.X.(*ast.Ident); ok {
				if tv := t.info.Types[b.Y]; tv.Value != nil && tv.Value.Kind() == constant.Int && constant.Sign(tv.Value) == 0 {
					nv = t.info.Uses[id]
				}
			}
		}
	}
	if nv == nil || leanType(x, nv.Type()) != tInt {
		fail(x, "for loop with a condition only: only the countdown form `for n > 0 && … { …; n--; … }` is in the subset")
	}
	decs := 0
	for _, s := range x.Body.List {
		if inc, ok := s.(*ast.IncDecStmt); ok && inc.Tok == token.DEC {
			if id, ok := inc.X.(*ast.Ident); ok && t.info.Uses[id] == nv {
				decs++
			}
		}
	}
	assigns := 0
	ast.Inspect(x.Body, func(n ast.Node) bool {
		switch y := n.(type) {
		case *ast.AssignStmt:
			for _, l := range y.Lhs {
				if id, ok := l.(*ast.Ident); ok && t.info.Uses[id] == nv {
					assigns++
				}
			}
		case *ast.IncDecStmt:
			if id, ok := y.X.(*ast.Ident); ok && t.info.Uses[id] == nv {
				assigns++
			}
		case *ast.BranchStmt:
			if y.Tok == token.CONTINUE {
				fail(y, "continue inside a countdown loop outside the subset")
			}
		}
		return true
	})
	if decs != 1 || assigns != 1 {
		fail(x, "countdown loop: the body must decrement %s exactly once, at top level, and not assign it otherwise", nv.Name())
	}
	state := t.assignedOuter(x.Body)
	inner := ctx{loop: true, state: state}
	sb := loopStateBinder(t, state)
	out := ind(d) + fmt.Sprintf("(match GB.Trans.whileLoop (ρ := %s) (Int.toNat %s) %s (fun %s =>\n", t.retType, t.nameOf(nv), t.stateTuple(state), sb)
	if len(state) > 1 {
		out += ind(d+2) + "let " + t.stateTuple(state) + " := st\n"
	}
	out += ind(d+2) + t.expr(x.Cond) + "\n" + ind(d+1) + ") (fun " + sb + " =>\n"
	if len(state) > 1 {
		out += ind(d+2) + "let " + t.stateTuple(state) + " := st\n"
	}
	out += t.stmts(x.Body.List, inner, d+2)
	out += ind(d+1) + ") with\n"
	out += ind(d) + "| .ret r => " + t.ret(c, "r") + "\n"
	out += ind(d) + "| .done " + sb + " =>\n"
	if len(state) > 1 {
		out += ind(d+1) + "let " + t.stateTuple(state) + " := st\n"
	}
	return out + t.stmts(rest, c, d+1) + ind(d) + ")\n"
}

func loopStateBinder(t *tr, state []types.Object) string {
	switch len(state) {
	case 0:
		return "_"
	case 1:
		return t.nameOf(state[0])
	}
	return "st"
}

func doneBinder(t *tr, state []types.Object) string { return loopStateBinder(t, state) }

// ---------------------------------------------------------------------------------------------------------

type result struct {
	Name   string   `json:"name"`
	Source string   `json:"source"`
	Go     string   `json:"go"`
	Calls  []string `json:"calls"`
	Lib    []string `json:"lib"`
	text   string
}

var srcCache = map[string][]byte{}

func srcText(n ast.Node) string {
	a, b := fset.Position(n.Pos()), fset.Position(n.End())
	data, ok := srcCache[a.Filename]
	if !ok {
		data, _ = os.ReadFile(a.Filename)
		srcCache[a.Filename] = data
	}
	if a.Offset < 0 || b.Offset > len(data) || a.Offset > b.Offset {
		return ""
	}
	return string(data[a.Offset:b.Offset])
}

// the statement range [From … To] of a fragment target, and the statement that follows it (nil if none)
func findRange(fd *ast.FuncDecl, tg target) ([]ast.Stmt, ast.Stmt) {
	if tg.Head {
		if tg.To != "" || tg.Cond {
			fail(fd, "fragment: Head excludes To / Cond")
		}
		tg.To = tg.From
	}
	var found [][]ast.Stmt
	var nexts []ast.Stmt
	try := func(list []ast.Stmt) {
		for i, s := range list {
			if !strings.HasPrefix(srcText(s), tg.From) {
				continue
			}
			for j := i; j < len(list); j++ {
				if strings.HasPrefix(srcText(list[j]), tg.To) {
					found = append(found, list[i:j+1])
					if j+1 < len(list) {
						nexts = append(nexts, list[j+1])
					} else {
						nexts = append(nexts, nil)
					}
					return
				}
			}
			fail(s, "fragment: no statement starting with %q follows the one starting with %q in its statement list", tg.To, tg.From)
		}
	}
	ast.Inspect(fd.Body, func(n ast.Node) bool {
		switch y := n.(type) {
		case *ast.BlockStmt:
			try(y.List)
		case *ast.CaseClause:
			try(y.Body)
		}
		return true
	})
	if len(found) != 1 {
		fail(fd, "fragment: %d statements start with %q (exactly one expected)", len(found), tg.From)
	}
	return found[0], nexts[0]
}

func (t *tr) setupFragment(fd *ast.FuncDecl, tg target) ([]ast.Stmt, []string, ast.Node, ast.Node) {
	list, next := findRange(fd, tg)
	t.frag = true
	t.fragLo, t.fragHi = list[0].Pos(), list[len(list)-1].End()
	var first, last ast.Node = list[0], list[len(list)-1]
	t.fragRets = map[*ast.ReturnStmt]int{}
	t.pseudos = map[[2]types.Object]*types.Var{}
	if tg.Head {
		ifs, ok := list[0].(*ast.IfStmt)
		if !ok || len(list) != 1 {
			fail(list[0], "fragment: Head needs an `if` statement")
		}
		t.fragHi = ifs.Cond.End()
		last = ifs.Cond
		t.fragCond = ifs.Cond
		list = nil
		if ifs.Init != nil {
			list = []ast.Stmt{ifs.Init}
		}
	}
	var nodes []ast.Node
	for _, s := range list {
		nodes = append(nodes, s)
	}
	if tg.Head {
		nodes = append(nodes, t.fragCond)
	}
	if tg.Cond {
		ifs, ok := next.(*ast.IfStmt)
		if !ok || ifs.Init != nil {
			fail(list[len(list)-1], "fragment: Cond needs an `if` statement without init after the range")
		}
		t.fragCond = ifs.Cond
		nodes = append(nodes, ifs.Cond)
	}
	byName := map[string][]types.Object{}
	seen := map[types.Object]bool{}
	var params []string
	note := func(name string, o types.Object) {
		for _, q := range byName[name] {
			if q == o {
				return
			}
		}
		byName[name] = append(byName[name], o)
	}
	param := func(n ast.Node, o types.Object) {
		if seen[o] {
			return
		}
		seen[o] = true
		params = append(params, fmt.Sprintf("(%s : %s)", t.nameOf(o), leanType(n, o.Type())))
	}
	for _, nd := range nodes {
		ast.Inspect(nd, func(n ast.Node) bool {
			switch y := n.(type) {
			case *ast.FuncLit:
				fail(y, "function literal outside the subset")
			case *ast.ReturnStmt:
				t.fragRets[y] = len(t.fragRets)
			case *ast.SelectorExpr:
				if pv := t.pseudo(y); pv != nil {
					note(types.ExprString(y), pv)
					param(y, pv)
					return false
				}
			case *ast.Ident:
				if o := t.info.Defs[y]; o != nil {
					if _, ok := o.(*types.Var); ok {
						note(y.Name, o)
					}
					return true
				}
				v, ok := t.info.Uses[y].(*types.Var)
				if !ok || v.IsField() || v.Parent() == v.Pkg().Scope() {
					return true
				}
				if v.Pos() >= t.fragLo && v.Pos() < t.fragHi {
					return true
				}
				note(y.Name, v)
				param(y, v)
			}
			return true
		})
	}
	var outTypes []string
	for _, nm := range tg.Out {
		os := byName[nm]
		if len(os) != 1 {
			fail(list[0], "fragment: output %q names %d variables of the range (exactly one expected)", nm, len(os))
		}
		t.fragOut = append(t.fragOut, os[0])
		outTypes = append(outTypes, leanType(list[0], os[0].Type()))
	}
	if t.fragCond != nil {
		outTypes = append(outTypes, tBool)
	}
	if len(outTypes) == 0 {
		fail(first, "fragment without outputs")
	}
	t.retType = outTypes[0]
	if len(outTypes) > 1 {
		t.retType = "(" + strings.Join(outTypes, " × ") + ")"
	}
	if len(t.fragRets) > 0 {
		t.retType = "(GB.Trans.Frag " + t.retType + ")"
	}
	return list, params, first, last
}

func translate(p *packages.Package, fd *ast.FuncDecl, name string, leanOf map[*types.Func]string, tg target) (res result, err error) {
	defer func() {
		if r := recover(); r != nil {
			if f, ok := r.(failure); ok {
				err = fmt.Errorf("%s", f.msg)
				return
			}
			panic(r)
		}
	}()
	t := &tr{pkg: p, info: p.TypesInfo, decl: fd, names: map[types.Object]string{}, used: map[string]bool{"st": true, "r": true},
		leanOf: leanOf, calls: map[string]bool{}, libUsed: map[string]bool{}, abstract: map[string]string{}}
	t.used["toValidUTF8"] = true
	if fd.Recv != nil && tg.From == "" {
		fail(fd, "methods are outside the subset")
	}
	if tg.From != "" {
		if fd.Body == nil {
			fail(fd, "function without a body")
		}
		list, params, first, last := t.setupFragment(fd, tg)
		body := t.stmts(list, ctx{}, 1)
		res.Name = name
		res.Source = rel(first.Pos())
		res.Go = p.PkgPath + "." + fd.Name.Name
		if tg.Recv != "" {
			res.Go = p.PkgPath + "." + tg.Recv + "." + fd.Name.Name
		}
		for c := range t.calls {
			res.Calls = append(res.Calls, c)
		}
		sort.Strings(res.Calls)
		for c := range t.libUsed {
			res.Lib = append(res.Lib, c)
		}
		sort.Strings(res.Lib)
		if len(t.abstract) > 0 {
			fail(fd, "fragment using an uninterpreted library function outside the subset")
		}
		res.text = fmt.Sprintf("/-- translated from the statements %s … line %d of `%s` (from %q to %q; outputs %s%s) -/\ndef %s %s : %s :=\n%s",
			res.Source, fset.Position(last.End()).Line, res.Go, tg.From, tg.To, strings.Join(tg.Out, ", "),
			map[bool]string{true: ", condition of the following if", false: ""}[tg.Cond]+map[bool]string{true: "; IF-HEAD: init statement + condition of this if", false: ""}[tg.Head], name, strings.Join(params, " "), t.retType, body)
		return res, nil
	}
	if fd.Type.TypeParams != nil {
		fail(fd, "generic functions are outside the subset")
	}
	if fd.Body == nil {
		fail(fd, "function without a body")
	}
	sig := p.TypesInfo.Defs[fd.Name].(*types.Func).Type().(*types.Signature)
	t.sig = sig
	if sig.Variadic() {
		fail(fd, "variadic functions are outside the subset")
	}
	var params []string
	for i := 0; i < sig.Params().Len(); i++ {
		v := sig.Params().At(i)
		n := t.nameOf(v)
		if n == "_" {
			n = fmt.Sprintf("_p%d", i)
		}
		params = append(params, fmt.Sprintf("(%s : %s)", n, leanType(fd, v.Type())))
	}
	if sig.Results().Len() == 0 {
		fail(fd, "function without results is outside the subset")
	}
	t.retType = leanType(fd, sig.Results())
	pre := ""
	for i := 0; i < sig.Results().Len(); i++ {
		v := sig.Results().At(i)
		if v.Name() != "" && v.Name() != "_" {
			t.named = append(t.named, v)
			lt := leanType(fd, v.Type())
			pre += ind(1) + fmt.Sprintf("let %s : %s := %s\n", t.nameOf(v), lt, zero(fd, lt))
		}
	}
	if len(t.named) != 0 && len(t.named) != sig.Results().Len() {
		fail(fd, "partly named results outside the subset")
	}
	body := pre + t.stmts(fd.Body.List, ctx{}, 1)
	res.Name = name
	res.Source = rel(fd.Pos())
	res.Go = p.PkgPath + "." + fd.Name.Name
	for c := range t.calls {
		res.Calls = append(res.Calls, c)
	}
	sort.Strings(res.Calls)
	for c := range t.libUsed {
		res.Lib = append(res.Lib, c)
	}
	sort.Strings(res.Lib)
	if len(t.abstract) > 0 {
		var ks []string
		for k := range t.abstract {
			ks = append(ks, k)
		}
		sort.Strings(ks)
		var ps []string
		for _, k := range ks {
			ps = append(ps, fmt.Sprintf("(%s : %s)", k, t.abstract[k]))
		}
		params = append(ps, params...)
		abstractFns[name] = true
	}
	res.text = fmt.Sprintf("/-- translated from `%s` (%s) -/\ndef %s %s : %s :=\n%s", res.Go, res.Source, name, strings.Join(params, " "), t.retType, body)
	return res, nil
}

func recvName(g *ast.FuncDecl) string {
	if g.Recv == nil || len(g.Recv.List) != 1 {
		return ""
	}
	e := g.Recv.List[0].Type
	if st, ok := e.(*ast.StarExpr); ok {
		e = st.X
	}
	if id, ok := e.(*ast.Ident); ok {
		return id.Name
	}
	return "?"
}

func main() {
	out := flag.String("out", "", "Lean output file")
	jsonOut := flag.String("json", "", "JSON summary output file")
	flag.StringVar(&repo, "repo", "/repo", "repository root")
	flag.Parse()
	var err error
	repo, err = filepath.Abs(repo)
	if err != nil {
		fmt.Fprintln(os.Stderr, "trans:", err)
		os.Exit(1)
	}
	dirs := map[string]bool{}
	var patterns []string
	for _, tg := range targets {
		if !dirs[tg.Pkg] {
			dirs[tg.Pkg] = true
			if tg.Dep {
				patterns = append(patterns, tg.Pkg)
			} else {
				patterns = append(patterns, "./"+tg.Pkg)
			}
		}
	}
	cfg := &packages.Config{Mode: packages.NeedName | packages.NeedFiles | packages.NeedSyntax | packages.NeedTypes |
		packages.NeedTypesInfo | packages.NeedImports | packages.NeedDeps, Dir: repo,
		Env: append(os.Environ(), "GOFLAGS=-mod=mod", "GOPROXY=off", "GOSUMDB=off", "GOTOOLCHAIN=local")}
	pkgs, err := packages.Load(cfg, patterns...)
	if err != nil {
		fmt.Fprintln(os.Stderr, "trans: load:", err)
		os.Exit(1)
	}
	byDir := map[string]*packages.Package{}
	nerr := 0
	for _, p := range pkgs {
		for _, e := range p.Errors {
			fmt.Fprintln(os.Stderr, "trans:", e)
			nerr++
		}
		fset = p.Fset
		if len(p.GoFiles) > 0 {
			d, _ := filepath.Rel(repo, filepath.Dir(p.GoFiles[0]))
			byDir[filepath.ToSlash(d)] = p
			byDir[p.PkgPath] = p
		}
	}
	if nerr > 0 {
		os.Exit(1)
	}
	type item struct {
		tg   target
		p    *packages.Package
		fd   *ast.FuncDecl
		name string
	}
	var items []item
	leanOf := map[*types.Func]string{}
	names := map[string]string{}
	for _, tg := range targets {
		p := byDir[tg.Pkg]
		if p == nil {
			fmt.Fprintf(os.Stderr, "trans: FAIL package %s not found\n", tg.Pkg)
			nerr++
			continue
		}
		var fd *ast.FuncDecl
		for _, f := range p.Syntax {
			for _, dcl := range f.Decls {
				if g, ok := dcl.(*ast.FuncDecl); ok && g.Name.Name == tg.Name && recvName(g) == tg.Recv {
					fd = g
				}
			}
		}
		if fd == nil {
			fmt.Fprintf(os.Stderr, "trans: FAIL function %s.%s not found (renamed or removed?)\n", tg.Pkg, tg.Name)
			nerr++
			continue
		}
		name := tg.Name
		if tg.As != "" {
			name = tg.As
		}
		if prev, dup := names[name]; dup {
			fmt.Fprintf(os.Stderr, "trans: FAIL Lean name %s used by both %s and %s.%s (set As)\n", name, prev, tg.Pkg, tg.Name)
			nerr++
			continue
		}
		names[name] = tg.Pkg + "." + tg.Name
		if tg.From == "" {
			leanOf[p.TypesInfo.Defs[fd.Name].(*types.Func)] = name
		}
		items = append(items, item{tg, p, fd, name})
	}
	var results []result
	for _, it := range items {
		r, err := translate(it.p, it.fd, it.name, leanOf, it.tg)
		if err != nil {
			fmt.Fprintf(os.Stderr, "trans: FAIL %s.%s: %v\n", it.tg.Pkg, it.tg.Name, err)
			nerr++
			continue
		}
		results = append(results, r)
	}
	if nerr > 0 {
		fmt.Fprintf(os.Stderr, "trans: %d function(s) could not be translated; no output written\n", nerr)
		os.Exit(1)
	}
	// topological order by calls (callees first); a cycle (recursion) is outside the subset
	byName := map[string]*result{}
	for i := range results {
		byName[results[i].Name] = &results[i]
	}
	var order []*result
	state := map[string]int{}
	var visit func(n string)
	visit = func(n string) {
		switch state[n] {
		case 2:
			return
		case 1:
			fmt.Fprintf(os.Stderr, "trans: FAIL recursion through %s is outside the subset\n", n)
			os.Exit(1)
		}
		state[n] = 1
		for _, c := range byName[n].Calls {
			visit(c)
		}
		state[n] = 2
		order = append(order, byName[n])
	}
	for _, r := range results {
		visit(r.Name)
	}
	var b strings.Builder
	b.WriteString("-- GENERATED by extract/trans from the Go sources of the repository — do not edit.\n")
	b.WriteString("-- Regenerated by ./setup.sh and ./check; tied to the hand-written models by lean/GB/Cxx/TransTie.lean.\n")
	b.WriteString("import GB.Base.TransLib\n")
	b.WriteString("set_option linter.unusedVariables false\n")
	b.WriteString("namespace GB.Generated.Trans\n\n")
	for _, r := range order {
		b.WriteString(r.text)
		b.WriteString("\n")
	}
	b.WriteString("end GB.Generated.Trans\n")
	// do not touch the file when nothing changed (keeps lake's incremental build quiet)
	if old, err := os.ReadFile(*out); err != nil || string(old) != b.String() {
		if err := os.WriteFile(*out, []byte(b.String()), 0o644); err != nil {
			fmt.Fprintln(os.Stderr, "trans:", err)
			os.Exit(1)
		}
	}
	if *jsonOut != "" {
		var js []result
		for _, r := range order {
			js = append(js, *r)
		}
		data, _ := json.MarshalIndent(js, "", " ")
		_ = os.WriteFile(*jsonOut, data, 0o644)
	}
	fmt.Printf("trans: %d functions translated\n", len(order))
}
