module verif/trans

go 1.22.2

require golang.org/x/tools v0.29.0

require (
	golang.org/x/mod v0.22.0 // indirect
	golang.org/x/sync v0.10.0 // indirect
)
