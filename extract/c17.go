package main

import (
	"go/ast"
	"os"
	"path/filepath"
	"sort"
	"strings"
)

func init() { register("c17", extractC17) }

// C17 hang side: every blocking read of an incoming stream on the handler path is abandoned when the call's
// context ends.  Regenerated from the AST of package webbridge (non-test, non-verif files):
//
//	c17RecvGuards     (Type.Recv, how it is guarded): "withCtx" = the body read runs inside withCtx(ctx, func…),
//	                  "select" = every channel receive sits in a select with a `case <-ctx.Done()`, "direct" = neither
//	c17BodyReaders    functions that read the request body (io.ReadFull / io.ReadAll / .Body.Read)
//	c17UnguardedReads body readers that are NOT lower-case `recv` helpers, call sites of a `recv` helper outside a
//	                  withCtx closure, and channel receives outside a ctx-guarded select inside any Recv
func extractC17(c *Ctx) {
	dir := filepath.Join(c.Repo, "webbridge")
	ents, _ := os.ReadDir(dir)
	var guards, readers, unguarded []string
	src := "webbridge"
	for _, e := range ents {
		n := e.Name()
		if !strings.HasSuffix(n, ".go") || strings.HasSuffix(n, "_test.go") || strings.HasPrefix(n, "verif_") || strings.Contains(n, "verif_export") {
			continue
		}
		f := c.File("webbridge/" + n)
		if f == nil {
			continue
		}
		for _, d := range f.Decls {
			fd, ok := d.(*ast.FuncDecl)
			if !ok || fd.Body == nil {
				continue
			}
			name := fd.Name.Name
			if fd.Recv != nil && len(fd.Recv.List) == 1 {
				t := fd.Recv.List[0].Type
				if st, ok := t.(*ast.StarExpr); ok {
					t = st.X
				}
				if id, ok := t.(*ast.Ident); ok {
					name = id.Name + "." + name
				}
			}
			// body reads directly in this function (not inside function literals)
			reads := false
			walkNoLit(fd.Body, func(n ast.Node) {
				if call, ok := n.(*ast.CallExpr); ok && isBodyRead(c, call) {
					reads = true
				}
			})
			if reads {
				readers = append(readers, name)
				if fd.Name.Name != "recv" {
					unguarded = append(unguarded, name+":body-read-outside-recv-helper")
				}
			}
			// call sites of a recv helper outside a withCtx closure
			collectRecvCalls(fd.Body, false, func(guarded bool) {
				if !guarded {
					unguarded = append(unguarded, name+":recv-helper-called-directly")
				}
			})
			if fd.Name.Name == "Recv" {
				kind := "direct"
				usesWithCtx := false
				ast.Inspect(fd.Body, func(n ast.Node) bool {
					if call, ok := n.(*ast.CallExpr); ok {
						if id, ok := call.Fun.(*ast.Ident); ok && id.Name == "withCtx" {
							usesWithCtx = true
						}
					}
					return true
				})
				selOK, anyRecv := chanRecvGuarded(fd.Body)
				if !selOK {
					unguarded = append(unguarded, name+":channel-receive-without-ctx-case")
				}
				switch {
				case usesWithCtx && !anyRecv && !reads:
					kind = "withCtx"
				case anyRecv && selOK && !reads:
					kind = "select"
				}
				guards = append(guards, "("+LeanStr(name)+", "+LeanStr(kind)+")")
			}
		}
	}
	sort.Strings(guards)
	sort.Strings(readers)
	sort.Strings(unguarded)
	q := func(xs []string) string {
		out := make([]string, len(xs))
		for i, x := range xs {
			out[i] = LeanStr(x)
		}
		return "[" + strings.Join(out, ", ") + "]"
	}
	c.Add("c17RecvGuards", "List (String × String)", "["+strings.Join(guards, ", ")+"]", src, "how every incoming-stream Recv of package webbridge is abandoned when ctx ends")
	c.Add("c17BodyReaders", "List String", q(readers), src, "functions reading the request body directly")
	c.Add("c17UnguardedReads", "List String", q(unguarded), src, "blocking reads on the handler path not guarded by withCtx / a ctx select (must be empty)")
}

// walkNoLit visits the nodes of a body without descending into function literals.
func walkNoLit(n ast.Node, f func(ast.Node)) {
	ast.Inspect(n, func(x ast.Node) bool {
		if _, ok := x.(*ast.FuncLit); ok {
			return false
		}
		if x != nil {
			f(x)
		}
		return true
	})
}

func isBodyRead(c *Ctx, call *ast.CallExpr) bool {
	s := c.Src(call.Fun)
	if s == "io.ReadFull" || s == "io.ReadAll" || s == "io.Copy" || s == "io.CopyN" {
		for _, a := range call.Args {
			if strings.Contains(c.Src(a), "Body") {
				return true
			}
		}
		return false
	}
	return strings.HasSuffix(s, ".Body.Read")
}

// collectRecvCalls reports every call `x.recv(...)`, saying whether it sits inside a func literal that is an argument of withCtx.
func collectRecvCalls(n ast.Node, guarded bool, report func(bool)) {
	ast.Inspect(n, func(x ast.Node) bool {
		call, ok := x.(*ast.CallExpr)
		if !ok {
			return true
		}
		if sel, ok := call.Fun.(*ast.SelectorExpr); ok && sel.Sel.Name == "recv" {
			report(guarded)
		}
		if id, ok := call.Fun.(*ast.Ident); ok && id.Name == "withCtx" {
			for _, a := range call.Args {
				if lit, ok := a.(*ast.FuncLit); ok {
					collectRecvCalls(lit.Body, true, report)
				} else {
					collectRecvCalls(a, guarded, report)
				}
			}
			return false
		}
		return true
	})
}

// chanRecvGuarded: every channel receive of the body is the comm of a select that also has `case <-ctx.Done()`.
func chanRecvGuarded(body *ast.BlockStmt) (allGuarded bool, any bool) {
	allGuarded = true
	guardedRecv := map[ast.Node]bool{}
	ast.Inspect(body, func(x ast.Node) bool {
		sel, ok := x.(*ast.SelectStmt)
		if !ok {
			return true
		}
		hasCtx := false
		var comms []ast.Node
		for _, s := range sel.Body.List {
			cc := s.(*ast.CommClause)
			if cc.Comm == nil {
				continue
			}
			ast.Inspect(cc.Comm, func(y ast.Node) bool {
				if u, ok := y.(*ast.UnaryExpr); ok && u.Op.String() == "<-" {
					comms = append(comms, u)
					if call, ok := u.X.(*ast.CallExpr); ok {
						if se, ok := call.Fun.(*ast.SelectorExpr); ok && se.Sel.Name == "Done" {
							if id, ok := se.X.(*ast.Ident); ok && id.Name == "ctx" {
								hasCtx = true
							}
						}
					}
				}
				return true
			})
		}
		if hasCtx {
			for _, u := range comms {
				guardedRecv[u] = true
			}
		}
		return true
	})
	walkNoLit(body, func(x ast.Node) {
		if u, ok := x.(*ast.UnaryExpr); ok && u.Op.String() == "<-" {
			any = true
			if !guardedRecv[u] {
				allGuarded = false
			}
		}
	})
	return
}
