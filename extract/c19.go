package main

import (
	"fmt"
	"go/ast"
	"go/token"
	"strconv"
	"strings"
)

func init() { register("c19", extractC19) }

// leanBytes renders a Go string as a Lean `List Nat` of its bytes (kernel `decide` cannot reduce String.toUTF8).
func leanBytes(s string) string {
	parts := make([]string, len(s))
	for i := 0; i < len(s); i++ {
		parts[i] = strconv.Itoa(int(s[i]))
	}
	return "[" + strings.Join(parts, ", ") + "]"
}

func stringLit(e ast.Expr) (string, bool) {
	lit, ok := e.(*ast.BasicLit)
	if !ok || lit.Kind != token.STRING {
		return "", false
	}
	s, err := strconv.Unquote(lit.Value)
	return s, err == nil
}

// constString finds a top-level (or function-local) string constant by name.
func constString(c *Ctx, rel, name string) (string, string, bool) {
	f := c.File(rel)
	if f == nil {
		return "", "", false
	}
	var val, pos string
	found := false
	ast.Inspect(f, func(n ast.Node) bool {
		vs, ok := n.(*ast.ValueSpec)
		if !ok {
			return true
		}
		for i, id := range vs.Names {
			if id.Name == name && i < len(vs.Values) {
				if s, ok := stringLit(vs.Values[i]); ok {
					val, pos, found = s, c.Pos(vs), true
				}
			}
		}
		return true
	})
	return val, pos, found
}

// WebBridge.ServeHTTP header tests, the media type constant, the metadata parameter name and the
// byte classes of isValidMetadataKey / isValidMetadataValue.
func extractC19(c *Ctx) {
	// (header name, token) arguments of the headerHasToken calls in ServeHTTP, in source order
	var calls []string
	src := ""
	if fd := c.FuncDecl("bridge.go", "WebBridge", "ServeHTTP"); fd != nil {
		src = c.Pos(fd)
		ast.Inspect(fd.Body, func(n ast.Node) bool {
			ce, ok := n.(*ast.CallExpr)
			if !ok {
				return true
			}
			if id, ok := ce.Fun.(*ast.Ident); ok && id.Name == "headerHasToken" && len(ce.Args) == 3 {
				name, ok1 := stringLit(ce.Args[1])
				tok, ok2 := stringLit(ce.Args[2])
				if ok1 && ok2 {
					calls = append(calls, fmt.Sprintf("(%s, %s)", leanBytes(name), leanBytes(tok)))
				}
			}
			return true
		})
	}
	c.Add("c19DispatchCalls", "List (List Nat × List Nat)", "["+strings.Join(calls, ", ")+"]", src, "headerHasToken(r.Header, name, token) calls of WebBridge.ServeHTTP, in order")

	gw, pos, _ := constString(c, "bridge.go", "grpcWeb")
	c.Add("c19GrpcWebMediaType", "List Nat", leanBytes(gw), pos, "media type prefix tested by isGRPCWebContentType")

	mp, pos, _ := constString(c, "webbridge/webbridge.go", "defaultMetadataParam")
	c.Add("c19MetadataParam", "List Nat", leanBytes(mp), pos, "default metadata query parameter")

	// character literals of isValidMetadataKey in source order: a z A Z 0 9 _ - .
	var chars []string
	src = ""
	if fd := c.FuncDecl("webbridge/webbridge.go", "", "isValidMetadataKey"); fd != nil {
		src = c.Pos(fd)
		ast.Inspect(fd.Body, func(n ast.Node) bool {
			if lit, ok := n.(*ast.BasicLit); ok && lit.Kind == token.CHAR {
				if ch, _, _, err := strconv.UnquoteChar(strings.Trim(lit.Value, "'"), '\''); err == nil {
					chars = append(chars, strconv.Itoa(int(ch)))
				}
			}
			return true
		})
	}
	c.Add("c19KeyRanges", "List Nat", "["+strings.Join(chars, ", ")+"]", src, "character literals of isValidMetadataKey in source order (a z A Z 0 9 _ - .)")

	var bounds []string
	src = ""
	if fd := c.FuncDecl("webbridge/webbridge.go", "", "isValidMetadataValue"); fd != nil {
		src = c.Pos(fd)
		ast.Inspect(fd.Body, func(n ast.Node) bool {
			if be, ok := n.(*ast.BinaryExpr); ok && (be.Op == token.LSS || be.Op == token.GTR) {
				if lit, ok := be.Y.(*ast.BasicLit); ok && lit.Kind == token.INT {
					if v, err := strconv.ParseInt(lit.Value, 0, 64); err == nil {
						bounds = append(bounds, fmt.Sprintf("(%s, %d)", LeanStr(be.Op.String()), v))
					}
				}
			}
			return true
		})
	}
	c.Add("c19ValueRange", "List (String × Nat)", "["+strings.Join(bounds, ", ")+"]", src, "rejecting comparisons of isValidMetadataValue")
}
