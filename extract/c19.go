package main

import (
	"fmt"
	"go/ast"
	"go/token"
	"sort"
	"strconv"
	"strings"
)

func init() { register("c19", extractC19) }

// leanBytes renders a Go string as a Lean `List Nat` of its bytes (kernel `decide` cannot reduce String.toUTF8).
func leanBytes(s string) string {
	parts := make([]string, len(s))
	for i := 0; i < len(s); i++ {
		parts[i] = strconv.Itoa(int(s[i]))
	}
	return "[" + strings.Join(parts, ", ") + "]"
}

func stringLit(e ast.Expr) (string, bool) {
	lit, ok := e.(*ast.BasicLit)
	if !ok || lit.Kind != token.STRING {
		return "", false
	}
	s, err := strconv.Unquote(lit.Value)
	return s, err == nil
}

// constString finds a top-level (or function-local) string constant by name.
func constString(c *Ctx, rel, name string) (string, string, bool) {
	f := c.File(rel)
	if f == nil {
		return "", "", false
	}
	var val, pos string
	found := false
	ast.Inspect(f, func(n ast.Node) bool {
		vs, ok := n.(*ast.ValueSpec)
		if !ok {
			return true
		}
		for i, id := range vs.Names {
			if id.Name == name && i < len(vs.Values) {
				if s, ok := stringLit(vs.Values[i]); ok {
					val, pos, found = s, c.Pos(vs), true
				}
			}
		}
		return true
	})
	return val, pos, found
}

// foldCalls scans bridge.go and webbridge/*.go (non-test, non-verif): every X.EqualFold call ("file:func:pkg.EqualFold"), and
// every call that folds or maps case the Unicode way ("file:func:pkg.Func").
func foldCalls(c *Ctx) (fold []string, unicodeCalls []string, asciiImport string) {
	files := []string{"bridge.go"}
	files = append(files, goFiles(c, "webbridge")...)
	unicodeCase := map[string]bool{"strings.EqualFold": true, "strings.ToLower": true, "strings.ToUpper": true, "strings.ToTitle": true,
		"strings.Title": true, "strings.ToLowerSpecial": true, "strings.ToUpperSpecial": true,
		"bytes.EqualFold": true, "bytes.ToLower": true, "bytes.ToUpper": true, "bytes.ToTitle": true, "bytes.Title": true}
	for _, rel := range files {
		f := c.File(rel)
		if f == nil {
			fold = append(fold, rel+":<unparsable>")
			continue
		}
		for _, imp := range f.Imports {
			path, _ := strconv.Unquote(imp.Path.Value)
			name := path[strings.LastIndex(path, "/")+1:]
			if imp.Name != nil {
				name = imp.Name.Name
			}
			if rel == "bridge.go" && name == "ascii" {
				asciiImport = path
			}
			if path == "unicode" || strings.HasPrefix(path, "golang.org/x/text/cases") {
				unicodeCalls = append(unicodeCalls, rel+":import:"+path)
			}
		}
		for _, decl := range f.Decls {
			fd, ok := decl.(*ast.FuncDecl)
			if !ok || fd.Body == nil {
				continue
			}
			ast.Inspect(fd.Body, func(n ast.Node) bool {
				ce, ok := n.(*ast.CallExpr)
				if !ok {
					return true
				}
				sel, ok := ce.Fun.(*ast.SelectorExpr)
				if !ok {
					return true
				}
				x, ok := sel.X.(*ast.Ident)
				if !ok {
					return true
				}
				q := x.Name + "." + sel.Sel.Name
				if sel.Sel.Name == "EqualFold" {
					fold = append(fold, rel+":"+fd.Name.Name+":"+q)
				}
				if unicodeCase[q] || x.Name == "unicode" || x.Name == "cases" {
					unicodeCalls = append(unicodeCalls, rel+":"+fd.Name.Name+":"+q)
				}
				return true
			})
		}
	}
	sort.Strings(fold)
	sort.Strings(unicodeCalls)
	return
}

// WebBridge.ServeHTTP header tests, the media type constant, the metadata parameter name and the
// byte classes of isValidMetadataKey / isValidMetadataValue.
func extractC19(c *Ctx) {
	fold, uni, asciiImport := foldCalls(c)
	c.Add("c19FoldCalls", "List String", LeanStrList(fold), "", "every X.EqualFold call of bridge.go and webbridge/*.go (file:function:pkg.EqualFold)")
	c.Add("c19UnicodeCaseCalls", "List String", LeanStrList(uni), "", "Unicode case folding/mapping calls (strings/bytes EqualFold/ToLower/ToUpper/…, unicode.*, x/text/cases) in bridge.go and webbridge/*.go")
	c.Add("c19AsciiImport", "String", LeanStr(asciiImport), "", "import path behind the identifier ascii in bridge.go")

	// (header name, token) arguments of the headerHasToken calls in ServeHTTP, in source order
	var calls []string
	src := ""
	if fd := c.FuncDecl("bridge.go", "WebBridge", "ServeHTTP"); fd != nil {
		src = c.Pos(fd)
		ast.Inspect(fd.Body, func(n ast.Node) bool {
			ce, ok := n.(*ast.CallExpr)
			if !ok {
				return true
			}
			if id, ok := ce.Fun.(*ast.Ident); ok && id.Name == "headerHasToken" && len(ce.Args) == 3 {
				name, ok1 := stringLit(ce.Args[1])
				tok, ok2 := stringLit(ce.Args[2])
				if ok1 && ok2 {
					calls = append(calls, fmt.Sprintf("(%s, %s)", leanBytes(name), leanBytes(tok)))
				}
			}
			return true
		})
	}
	c.Add("c19DispatchCalls", "List (List Nat × List Nat)", "["+strings.Join(calls, ", ")+"]", src, "headerHasToken(r.Header, name, token) calls of WebBridge.ServeHTTP, in order")

	gw, pos, _ := constString(c, "bridge.go", "grpcWeb")
	c.Add("c19GrpcWebMediaType", "List Nat", leanBytes(gw), pos, "media type prefix tested by isGRPCWebContentType")

	mp, pos, _ := constString(c, "webbridge/webbridge.go", "defaultMetadataParam")
	c.Add("c19MetadataParam", "List Nat", leanBytes(mp), pos, "default metadata query parameter")

	// character literals of isValidMetadataKey in source order: a z A Z 0 9 _ - .
	var chars []string
	src = ""
	if fd := c.FuncDecl("webbridge/webbridge.go", "", "isValidMetadataKey"); fd != nil {
		src = c.Pos(fd)
		ast.Inspect(fd.Body, func(n ast.Node) bool {
			if lit, ok := n.(*ast.BasicLit); ok && lit.Kind == token.CHAR {
				if ch, _, _, err := strconv.UnquoteChar(strings.Trim(lit.Value, "'"), '\''); err == nil {
					chars = append(chars, strconv.Itoa(int(ch)))
				}
			}
			return true
		})
	}
	c.Add("c19KeyRanges", "List Nat", "["+strings.Join(chars, ", ")+"]", src, "character literals of isValidMetadataKey in source order (a z A Z 0 9 _ - .)")

	var bounds []string
	src = ""
	if fd := c.FuncDecl("webbridge/webbridge.go", "", "isValidMetadataValue"); fd != nil {
		src = c.Pos(fd)
		ast.Inspect(fd.Body, func(n ast.Node) bool {
			if be, ok := n.(*ast.BinaryExpr); ok && (be.Op == token.LSS || be.Op == token.GTR) {
				if lit, ok := be.Y.(*ast.BasicLit); ok && lit.Kind == token.INT {
					if v, err := strconv.ParseInt(lit.Value, 0, 64); err == nil {
						bounds = append(bounds, fmt.Sprintf("(%s, %d)", LeanStr(be.Op.String()), v))
					}
				}
			}
			return true
		})
	}
	c.Add("c19ValueRange", "List (String × Nat)", "["+strings.Join(bounds, ", ")+"]", src, "rejecting comparisons of isValidMetadataValue")
}
