package main

import (
	"go/ast"
)

func init() { register("c14", extractC14) }

// Facts about the method test of ServiceRouter.RouteHTTP: the guard of its first `if` is the case-SENSITIVE comparison
// `r.Method != http.MethodPost` and the function calls no case-folding helper (seeded change C14-m12 replaced the guard by
// `!strings.EqualFold(r.Method, http.MethodPost)`). Tied by `decide` in C14_facts_method_guard.
func extractC14(c *Ctx) {
	const rt = "routing/service_router.go"
	fd := c.FuncDecl(rt, "ServiceRouter", "RouteHTTP")
	src := rt
	guard := ""
	var calls, methodUses []string
	if fd != nil && fd.Body != nil {
		src = c.Pos(fd)
		for _, st := range fd.Body.List {
			if is, ok := st.(*ast.IfStmt); ok {
				guard = c.Src(is.Cond)
				break
			}
		}
		ast.Inspect(fd.Body, func(n ast.Node) bool {
			switch x := n.(type) {
			case *ast.CallExpr:
				calls = append(calls, c.Src(x.Fun))
			case *ast.BinaryExpr:
				if c.Src(x.X) == "r.Method" || c.Src(x.Y) == "r.Method" {
					methodUses = append(methodUses, c.Src(x))
				}
			}
			return true
		})
	}
	c.Add("c14RouteHTTPMethodGuard", "String", LeanStr(guard), src, "condition of the first if statement of ServiceRouter.RouteHTTP (the non-POST refusal)")
	c.Add("c14RouteHTTPCalls", "List String", LeanStrList(calls), src, "every call inside ServiceRouter.RouteHTTP, in source order")
	c.Add("c14RouteHTTPMethodComparisons", "List String", LeanStrList(methodUses), src, "every binary expression over r.Method in ServiceRouter.RouteHTTP")
}
