package main

import (
	"fmt"
	"go/ast"
	"go/token"
	"strings"
)

func init() { register("c02", extractC02) }

// Per-adapter ctx-awareness (DESIGN 5.2): does the blocking operation of every stream adapter observe the
// context it is given? An operation counts as ctx-aware iff its first parameter is a named context and its
// body either contains a `select` with a `case <-ctx.Done()` on that parameter, or passes that parameter as
// the first argument to a helper named withCtx (function or method of the same file) whose own body selects
// on `<-ctx.Done()` of ITS first parameter. Anything else (parameter `_`, ctx unused, helper missing) is false,
// and an operation that cannot be found is emitted as false so that the tie theorem fails.
type c02Op struct {
	file, recv, method string
	outgoing           bool
}

var c02Ops = []c02Op{
	{"proxy.go", "grpcServerStream", "Recv", false},
	{"proxy.go", "grpcServerStream", "Send", false},
	{"webbridge/http.go", "httpStream", "Recv", false},
	{"webbridge/http.go", "httpStream", "Send", false},
	{"webbridge/websocket.go", "gwsStream", "Recv", false},
	{"webbridge/websocket.go", "gwsStream", "Send", false},
	{"webbridge/grpcweb.go", "gRPCWebStream", "Recv", false},
	{"webbridge/grpcweb.go", "gRPCWebStream", "Send", false},
	{"webbridge/grpcweb.go", "gRPCWebSocketStream", "Recv", false},
	{"webbridge/grpcweb.go", "gRPCWebSocketStream", "Send", false},
	{"grpcadapter/stream.go", "AdaptedClientStream", "Recv", true},
	{"grpcadapter/stream.go", "AdaptedClientStream", "Send", true},
	{"grpcadapter/conn.go", "AdaptedClientConn", "Stream", true},
}

func firstParamName(fd *ast.FuncDecl) string {
	if fd.Type.Params == nil || len(fd.Type.Params.List) == 0 || len(fd.Type.Params.List[0].Names) == 0 {
		return ""
	}
	n := fd.Type.Params.List[0].Names[0].Name
	if n == "_" {
		return ""
	}
	// must be a context.Context
	if se, ok := fd.Type.Params.List[0].Type.(*ast.SelectorExpr); !ok || se.Sel.Name != "Context" {
		return ""
	}
	return n
}

// selectsOnDone: the body has a select statement with a `case <-<ctx>.Done()` clause.
func selectsOnDone(body *ast.BlockStmt, ctx string) bool {
	found := false
	ast.Inspect(body, func(n ast.Node) bool {
		sel, ok := n.(*ast.SelectStmt)
		if !ok {
			return true
		}
		for _, cl := range sel.Body.List {
			cc, ok := cl.(*ast.CommClause)
			if !ok || cc.Comm == nil {
				continue
			}
			var e ast.Expr
			switch c := cc.Comm.(type) {
			case *ast.ExprStmt:
				e = c.X
			case *ast.AssignStmt:
				if len(c.Rhs) == 1 {
					e = c.Rhs[0]
				}
			}
			ue, ok := e.(*ast.UnaryExpr)
			if !ok || ue.Op != token.ARROW {
				continue
			}
			call, ok := ue.X.(*ast.CallExpr)
			if !ok {
				continue
			}
			se, ok := call.Fun.(*ast.SelectorExpr)
			if !ok || se.Sel.Name != "Done" {
				continue
			}
			if id, ok := se.X.(*ast.Ident); ok && id.Name == ctx {
				found = true
			}
		}
		return true
	})
	return found
}

// withCtxHelperOK: some function or method named withCtx in the package directory of rel selects on its own ctx.
func withCtxHelperOK(c *Ctx, rel string) bool {
	dir := ""
	if i := strings.LastIndexByte(rel, '/'); i >= 0 {
		dir = rel[:i+1]
	}
	cands := []string{rel}
	for _, o := range c02Ops {
		if strings.HasPrefix(o.file, dir) && (dir != "" || !strings.Contains(o.file, "/")) {
			cands = append(cands, o.file)
		}
	}
	for _, f := range cands {
		af := c.File(f)
		if af == nil {
			continue
		}
		for _, d := range af.Decls {
			fd, ok := d.(*ast.FuncDecl)
			if !ok || fd.Name.Name != "withCtx" || fd.Body == nil {
				continue
			}
			if n := firstParamName(fd); n != "" && selectsOnDone(fd.Body, n) {
				return true
			}
		}
	}
	return false
}

func passesToWithCtx(body *ast.BlockStmt, ctx string) bool {
	found := false
	ast.Inspect(body, func(n ast.Node) bool {
		call, ok := n.(*ast.CallExpr)
		if !ok || len(call.Args) == 0 {
			return true
		}
		name := ""
		switch f := call.Fun.(type) {
		case *ast.Ident:
			name = f.Name
		case *ast.SelectorExpr:
			name = f.Sel.Name
		}
		if name != "withCtx" {
			return true
		}
		if id, ok := call.Args[0].(*ast.Ident); ok && id.Name == ctx {
			found = true
		}
		return true
	})
	return found
}

func extractC02(c *Ctx) {
	var inc, out []string
	var srcs []string
	for _, o := range c02Ops {
		aware := false
		src := o.file + ":?"
		if fd := c.FuncDecl(o.file, o.recv, o.method); fd != nil && fd.Body != nil {
			src = c.Pos(fd)
			if ctx := firstParamName(fd); ctx != "" {
				aware = selectsOnDone(fd.Body, ctx) || (passesToWithCtx(fd.Body, ctx) && withCtxHelperOK(c, o.file))
			}
		}
		entry := fmt.Sprintf("(%s, %s)", LeanStr(o.recv+"."+o.method), LeanBool(aware))
		if o.outgoing {
			out = append(out, entry)
		} else {
			inc = append(inc, entry)
		}
		srcs = append(srcs, src)
	}
	note := "blocking stream operations and whether they observe their ctx parameter (select on ctx.Done, or withCtx(ctx, …) whose helper selects on it)"
	c.Add("ctxAwareIncoming", "List (String × Bool)", "["+strings.Join(inc, ", ")+"]", strings.Join(srcs[:len(inc)], " "), "ServerStream adapters: "+note)
	c.Add("ctxAwareOutgoing", "List (String × Bool)", "["+strings.Join(out, ", ")+"]", strings.Join(srcs[len(inc):], " "), "ClientConn/ClientStream adapter: "+note)
	c.Add("ctxAware", "List (String × Bool)", "ctxAwareIncoming ++ ctxAwareOutgoing", "", "all of the above")
	extractWSEpilogue(c)
}

// WebSocket handler epilogue (C02): in both WebSocket ServeHTTP methods the handler must close `stream.done`
// (which lets a ReadLoop that sits in OnMessage leave it) BEFORE it waits for ReadLoop with wg.Wait().
// wsEpilogueOrder lists, per handler, the order in which `close(<x>.done)` ("closeDone") and `wg.Wait()`
// ("wgWait") are EXECUTED on the way out: plain statements of the function body in source order, followed by
// the deferred ones in reverse registration order (inside a deferred func literal: source order).
// wsEpilogueSkips lists return statements that sit between the `go` statement running ReadLoop and a
// NON-deferred epilogue (a path on which the epilogue would not run at all).
func extractWSEpilogue(c *Ctx) {
	type h struct{ file, recv string }
	var entries, skips, srcs []string
	classify := func(e ast.Expr) string {
		call, ok := e.(*ast.CallExpr)
		if !ok {
			return ""
		}
		if id, ok := call.Fun.(*ast.Ident); ok && id.Name == "close" && len(call.Args) == 1 {
			if se, ok := call.Args[0].(*ast.SelectorExpr); ok && se.Sel.Name == "done" {
				return "closeDone"
			}
		}
		if se, ok := call.Fun.(*ast.SelectorExpr); ok && se.Sel.Name == "Wait" {
			if id, ok := se.X.(*ast.Ident); ok && id.Name == "wg" {
				return "wgWait"
			}
		}
		return ""
	}
	stmtEvents := func(st ast.Stmt) []string {
		if es, ok := st.(*ast.ExprStmt); ok {
			if k := classify(es.X); k != "" {
				return []string{k}
			}
		}
		return nil
	}
	for _, x := range []h{{"webbridge/websocket.go", "TranscodedWebSocketBridge"}, {"webbridge/grpcweb.go", "GRPCWebSocketBridge"}} {
		fd := c.FuncDecl(x.file, x.recv, "ServeHTTP")
		if fd == nil || fd.Body == nil {
			entries = append(entries, fmt.Sprintf("(%s, [\"<not found>\"])", LeanStr(x.recv+".ServeHTTP")))
			srcs = append(srcs, x.file+":?")
			continue
		}
		srcs = append(srcs, c.Pos(fd))
		var normal []string
		var deferred [][]string
		var goPos, lastPlain token.Pos
		for _, st := range fd.Body.List {
			switch v := st.(type) {
			case *ast.GoStmt:
				if goPos == 0 && strings.Contains(c.Src(v), "ReadLoop") {
					goPos = v.Pos()
				}
			case *ast.DeferStmt:
				if k := classify(v.Call); k != "" {
					deferred = append(deferred, []string{k})
				} else if fl, ok := v.Call.Fun.(*ast.FuncLit); ok {
					var evs []string
					for _, inner := range fl.Body.List {
						evs = append(evs, stmtEvents(inner)...)
					}
					if len(evs) > 0 {
						deferred = append(deferred, evs)
					}
				}
			default:
				if evs := stmtEvents(st); len(evs) > 0 {
					normal = append(normal, evs...)
					lastPlain = st.Pos()
				}
			}
		}
		order := append([]string{}, normal...)
		for i := len(deferred) - 1; i >= 0; i-- {
			order = append(order, deferred[i]...)
		}
		entries = append(entries, fmt.Sprintf("(%s, %s)", LeanStr(x.recv+".ServeHTTP"), LeanStrList(order)))
		if goPos != 0 && lastPlain != 0 {
			ast.Inspect(fd.Body, func(n ast.Node) bool {
				if _, ok := n.(*ast.FuncLit); ok {
					return false
				}
				if r, ok := n.(*ast.ReturnStmt); ok && r.Pos() > goPos && r.Pos() < lastPlain {
					skips = append(skips, c.Pos(r))
				}
				return true
			})
		}
	}
	c.Add("wsEpilogueOrder", "List (String × List String)", "["+strings.Join(entries, ", ")+"]", strings.Join(srcs, " "),
		"execution order of close(stream.done) / wg.Wait() on the way out of the WebSocket handlers")
	c.Add("wsEpilogueSkips", "List String", LeanStrList(skips), "", "returns between the start of ReadLoop and a non-deferred epilogue")
}
