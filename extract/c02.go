package main

import (
	"fmt"
	"go/ast"
	"go/token"
	"strings"
)

func init() { register("c02", extractC02) }

// Per-adapter ctx-awareness (DESIGN 5.2): does the blocking operation of every stream adapter observe the
// context it is given? An operation counts as ctx-aware iff its first parameter is a named context and its
// body either contains a `select` with a `case <-ctx.Done()` on that parameter, or passes that parameter as
// the first argument to a helper named withCtx (function or method of the same file) whose own body selects
// on `<-ctx.Done()` of ITS first parameter. Anything else (parameter `_`, ctx unused, helper missing) is false,
// and an operation that cannot be found is emitted as false so that the tie theorem fails.
type c02Op struct {
	file, recv, method string
	outgoing           bool
}

var c02Ops = []c02Op{
	{"proxy.go", "grpcServerStream", "Recv", false},
	{"proxy.go", "grpcServerStream", "Send", false},
	{"webbridge/http.go", "httpStream", "Recv", false},
	{"webbridge/http.go", "httpStream", "Send", false},
	{"webbridge/websocket.go", "gwsStream", "Recv", false},
	{"webbridge/websocket.go", "gwsStream", "Send", false},
	{"webbridge/grpcweb.go", "gRPCWebStream", "Recv", false},
	{"webbridge/grpcweb.go", "gRPCWebStream", "Send", false},
	{"webbridge/grpcweb.go", "gRPCWebSocketStream", "Recv", false},
	{"webbridge/grpcweb.go", "gRPCWebSocketStream", "Send", false},
	{"grpcadapter/stream.go", "AdaptedClientStream", "Recv", true},
	{"grpcadapter/stream.go", "AdaptedClientStream", "Send", true},
	{"grpcadapter/conn.go", "AdaptedClientConn", "Stream", true},
}

func firstParamName(fd *ast.FuncDecl) string {
	if fd.Type.Params == nil || len(fd.Type.Params.List) == 0 || len(fd.Type.Params.List[0].Names) == 0 {
		return ""
	}
	n := fd.Type.Params.List[0].Names[0].Name
	if n == "_" {
		return ""
	}
	// must be a context.Context
	if se, ok := fd.Type.Params.List[0].Type.(*ast.SelectorExpr); !ok || se.Sel.Name != "Context" {
		return ""
	}
	return n
}

// selectsOnDone: the body has a select statement with a `case <-<ctx>.Done()` clause.
func selectsOnDone(body *ast.BlockStmt, ctx string) bool {
	found := false
	ast.Inspect(body, func(n ast.Node) bool {
		sel, ok := n.(*ast.SelectStmt)
		if !ok {
			return true
		}
		for _, cl := range sel.Body.List {
			cc, ok := cl.(*ast.CommClause)
			if !ok || cc.Comm == nil {
				continue
			}
			var e ast.Expr
			switch c := cc.Comm.(type) {
			case *ast.ExprStmt:
				e = c.X
			case *ast.AssignStmt:
				if len(c.Rhs) == 1 {
					e = c.Rhs[0]
				}
			}
			ue, ok := e.(*ast.UnaryExpr)
			if !ok || ue.Op != token.ARROW {
				continue
			}
			call, ok := ue.X.(*ast.CallExpr)
			if !ok {
				continue
			}
			se, ok := call.Fun.(*ast.SelectorExpr)
			if !ok || se.Sel.Name != "Done" {
				continue
			}
			if id, ok := se.X.(*ast.Ident); ok && id.Name == ctx {
				found = true
			}
		}
		return true
	})
	return found
}

// withCtxHelperOK: some function or method named withCtx in the package directory of rel selects on its own ctx.
func withCtxHelperOK(c *Ctx, rel string) bool {
	dir := ""
	if i := strings.LastIndexByte(rel, '/'); i >= 0 {
		dir = rel[:i+1]
	}
	cands := []string{rel}
	for _, o := range c02Ops {
		if strings.HasPrefix(o.file, dir) && (dir != "" || !strings.Contains(o.file, "/")) {
			cands = append(cands, o.file)
		}
	}
	for _, f := range cands {
		af := c.File(f)
		if af == nil {
			continue
		}
		for _, d := range af.Decls {
			fd, ok := d.(*ast.FuncDecl)
			if !ok || fd.Name.Name != "withCtx" || fd.Body == nil {
				continue
			}
			if n := firstParamName(fd); n != "" && selectsOnDone(fd.Body, n) {
				return true
			}
		}
	}
	return false
}

func passesToWithCtx(body *ast.BlockStmt, ctx string) bool {
	found := false
	ast.Inspect(body, func(n ast.Node) bool {
		call, ok := n.(*ast.CallExpr)
		if !ok || len(call.Args) == 0 {
			return true
		}
		name := ""
		switch f := call.Fun.(type) {
		case *ast.Ident:
			name = f.Name
		case *ast.SelectorExpr:
			name = f.Sel.Name
		}
		if name != "withCtx" {
			return true
		}
		if id, ok := call.Args[0].(*ast.Ident); ok && id.Name == ctx {
			found = true
		}
		return true
	})
	return found
}

func extractC02(c *Ctx) {
	var inc, out []string
	var srcs []string
	for _, o := range c02Ops {
		aware := false
		src := o.file + ":?"
		if fd := c.FuncDecl(o.file, o.recv, o.method); fd != nil && fd.Body != nil {
			src = c.Pos(fd)
			if ctx := firstParamName(fd); ctx != "" {
				aware = selectsOnDone(fd.Body, ctx) || (passesToWithCtx(fd.Body, ctx) && withCtxHelperOK(c, o.file))
			}
		}
		entry := fmt.Sprintf("(%s, %s)", LeanStr(o.recv+"."+o.method), LeanBool(aware))
		if o.outgoing {
			out = append(out, entry)
		} else {
			inc = append(inc, entry)
		}
		srcs = append(srcs, src)
	}
	note := "blocking stream operations and whether they observe their ctx parameter (select on ctx.Done, or withCtx(ctx, …) whose helper selects on it)"
	c.Add("ctxAwareIncoming", "List (String × Bool)", "["+strings.Join(inc, ", ")+"]", strings.Join(srcs[:len(inc)], " "), "ServerStream adapters: "+note)
	c.Add("ctxAwareOutgoing", "List (String × Bool)", "["+strings.Join(out, ", ")+"]", strings.Join(srcs[len(inc):], " "), "ClientConn/ClientStream adapter: "+note)
	c.Add("ctxAware", "List (String × Bool)", "ctxAwareIncoming ++ ctxAwareOutgoing", "", "all of the above")
}
