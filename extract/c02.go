package main

import (
	"fmt"
	"go/ast"
	"go/token"
	"strings"
)

func init() { register("c02", extractC02) }

// Per-adapter ctx-awareness (DESIGN 5.2): does the blocking operation of every stream adapter observe the
// context it is given? An operation counts as ctx-aware iff its first parameter is a named context and its
// body either contains a `select` with a `case <-ctx.Done()` on that parameter, or passes that parameter as
// the first argument to a helper named withCtx (function or method of the same file) whose own body selects
// on `<-ctx.Done()` of ITS first parameter. Anything else (parameter `_`, ctx unused, helper missing) is false,
// and an operation that cannot be found is emitted as false so that the tie theorem fails.
type c02Op struct {
	file, recv, method string
	outgoing           bool
}

var c02Ops = []c02Op{
	{"proxy.go", "grpcServerStream", "Recv", false},
	{"proxy.go", "grpcServerStream", "Send", false},
	{"webbridge/http.go", "httpStream", "Recv", false},
	{"webbridge/http.go", "httpStream", "Send", false},
	{"webbridge/websocket.go", "gwsStream", "Recv", false},
	{"webbridge/websocket.go", "gwsStream", "Send", false},
	{"webbridge/grpcweb.go", "gRPCWebStream", "Recv", false},
	{"webbridge/grpcweb.go", "gRPCWebStream", "Send", false},
	{"webbridge/grpcweb.go", "gRPCWebSocketStream", "Recv", false},
	{"webbridge/grpcweb.go", "gRPCWebSocketStream", "Send", false},
	{"grpcadapter/stream.go", "AdaptedClientStream", "Recv", true},
	{"grpcadapter/stream.go", "AdaptedClientStream", "Send", true},
	{"grpcadapter/conn.go", "AdaptedClientConn", "Stream", true},
}

func firstParamName(fd *ast.FuncDecl) string {
	if fd.Type.Params == nil || len(fd.Type.Params.List) == 0 || len(fd.Type.Params.List[0].Names) == 0 {
		return ""
	}
	n := fd.Type.Params.List[0].Names[0].Name
	if n == "_" {
		return ""
	}
	// must be a context.Context
	if se, ok := fd.Type.Params.List[0].Type.(*ast.SelectorExpr); !ok || se.Sel.Name != "Context" {
		return ""
	}
	return n
}

// selectsOnDone: the body has a select statement with a `case <-<ctx>.Done()` clause.
func selectsOnDone(body *ast.BlockStmt, ctx string) bool {
	found := false
	ast.Inspect(body, func(n ast.Node) bool {
		sel, ok := n.(*ast.SelectStmt)
		if !ok {
			return true
		}
		for _, cl := range sel.Body.List {
			cc, ok := cl.(*ast.CommClause)
			if !ok || cc.Comm == nil {
				continue
			}
			var e ast.Expr
			switch c := cc.Comm.(type) {
			case *ast.ExprStmt:
				e = c.X
			case *ast.AssignStmt:
				if len(c.Rhs) == 1 {
					e = c.Rhs[0]
				}
			}
			ue, ok := e.(*ast.UnaryExpr)
			if !ok || ue.Op != token.ARROW {
				continue
			}
			call, ok := ue.X.(*ast.CallExpr)
			if !ok {
				continue
			}
			se, ok := call.Fun.(*ast.SelectorExpr)
			if !ok || se.Sel.Name != "Done" {
				continue
			}
			if id, ok := se.X.(*ast.Ident); ok && id.Name == ctx {
				found = true
			}
		}
		return true
	})
	return found
}

// withCtxHelperOK: some function or method named withCtx in the package directory of rel selects on its own ctx.
func withCtxHelperOK(c *Ctx, rel string) bool {
	dir := ""
	if i := strings.LastIndexByte(rel, '/'); i >= 0 {
		dir = rel[:i+1]
	}
	cands := []string{rel}
	for _, o := range c02Ops {
		if strings.HasPrefix(o.file, dir) && (dir != "" || !strings.Contains(o.file, "/")) {
			cands = append(cands, o.file)
		}
	}
	for _, f := range cands {
		af := c.File(f)
		if af == nil {
			continue
		}
		for _, d := range af.Decls {
			fd, ok := d.(*ast.FuncDecl)
			if !ok || fd.Name.Name != "withCtx" || fd.Body == nil {
				continue
			}
			if n := firstParamName(fd); n != "" && selectsOnDone(fd.Body, n) {
				return true
			}
		}
	}
	return false
}

func passesToWithCtx(body *ast.BlockStmt, ctx string) bool {
	found := false
	ast.Inspect(body, func(n ast.Node) bool {
		call, ok := n.(*ast.CallExpr)
		if !ok || len(call.Args) == 0 {
			return true
		}
		name := ""
		switch f := call.Fun.(type) {
		case *ast.Ident:
			name = f.Name
		case *ast.SelectorExpr:
			name = f.Sel.Name
		}
		if name != "withCtx" {
			return true
		}
		if id, ok := call.Args[0].(*ast.Ident); ok && id.Name == ctx {
			found = true
		}
		return true
	})
	return found
}

func extractC02(c *Ctx) {
	var inc, out []string
	var srcs []string
	for _, o := range c02Ops {
		aware := false
		src := o.file + ":?"
		if fd := c.FuncDecl(o.file, o.recv, o.method); fd != nil && fd.Body != nil {
			src = c.Pos(fd)
			if ctx := firstParamName(fd); ctx != "" {
				aware = selectsOnDone(fd.Body, ctx) || (passesToWithCtx(fd.Body, ctx) && withCtxHelperOK(c, o.file))
			}
		}
		entry := fmt.Sprintf("(%s, %s)", LeanStr(o.recv+"."+o.method), LeanBool(aware))
		if o.outgoing {
			out = append(out, entry)
		} else {
			inc = append(inc, entry)
		}
		srcs = append(srcs, src)
	}
	note := "blocking stream operations and whether they observe their ctx parameter (select on ctx.Done, or withCtx(ctx, …) whose helper selects on it)"
	c.Add("ctxAwareIncoming", "List (String × Bool)", "["+strings.Join(inc, ", ")+"]", strings.Join(srcs[:len(inc)], " "), "ServerStream adapters: "+note)
	c.Add("ctxAwareOutgoing", "List (String × Bool)", "["+strings.Join(out, ", ")+"]", strings.Join(srcs[len(inc):], " "), "ClientConn/ClientStream adapter: "+note)
	c.Add("ctxAware", "List (String × Bool)", "ctxAwareIncoming ++ ctxAwareOutgoing", "", "all of the above")
	extractWSEpilogue(c)
	extractWithCtxShape(c)
	extractPrograms(c)
	extractWSCloseOrder(c)
	extractHTTPSendOrder(c)
}

// WebSocket handler epilogue (C02): in both WebSocket ServeHTTP methods the handler must close `stream.done`
// (which lets a ReadLoop that sits in OnMessage leave it) BEFORE it waits for ReadLoop with wg.Wait().
// wsEpilogueOrder lists, per handler, the order in which `close(<x>.done)` ("closeDone") and `wg.Wait()`
// ("wgWait") are EXECUTED on the way out: plain statements of the function body in source order, followed by
// the deferred ones in reverse registration order (inside a deferred func literal: source order).
// wsEpilogueSkips lists return statements that sit between the `go` statement running ReadLoop and a
// NON-deferred epilogue (a path on which the epilogue would not run at all).
func extractWSEpilogue(c *Ctx) {
	type h struct{ file, recv string }
	var entries, skips, srcs []string
	classify := func(e ast.Expr) string {
		call, ok := e.(*ast.CallExpr)
		if !ok {
			return ""
		}
		if id, ok := call.Fun.(*ast.Ident); ok && id.Name == "close" && len(call.Args) == 1 {
			if se, ok := call.Args[0].(*ast.SelectorExpr); ok && se.Sel.Name == "done" {
				return "closeDone"
			}
		}
		if se, ok := call.Fun.(*ast.SelectorExpr); ok && se.Sel.Name == "Wait" {
			if id, ok := se.X.(*ast.Ident); ok && id.Name == "wg" {
				return "wgWait"
			}
		}
		return ""
	}
	stmtEvents := func(st ast.Stmt) []string {
		if es, ok := st.(*ast.ExprStmt); ok {
			if k := classify(es.X); k != "" {
				return []string{k}
			}
		}
		return nil
	}
	for _, x := range []h{{"webbridge/websocket.go", "TranscodedWebSocketBridge"}, {"webbridge/grpcweb.go", "GRPCWebSocketBridge"}} {
		fd := c.FuncDecl(x.file, x.recv, "ServeHTTP")
		if fd == nil || fd.Body == nil {
			entries = append(entries, fmt.Sprintf("(%s, [\"<not found>\"])", LeanStr(x.recv+".ServeHTTP")))
			srcs = append(srcs, x.file+":?")
			continue
		}
		srcs = append(srcs, c.Pos(fd))
		var normal []string
		var deferred [][]string
		var goPos, lastPlain token.Pos
		for _, st := range fd.Body.List {
			switch v := st.(type) {
			case *ast.GoStmt:
				if goPos == 0 && strings.Contains(c.Src(v), "ReadLoop") {
					goPos = v.Pos()
				}
			case *ast.DeferStmt:
				if k := classify(v.Call); k != "" {
					deferred = append(deferred, []string{k})
				} else if fl, ok := v.Call.Fun.(*ast.FuncLit); ok {
					var evs []string
					for _, inner := range fl.Body.List {
						evs = append(evs, stmtEvents(inner)...)
					}
					if len(evs) > 0 {
						deferred = append(deferred, evs)
					}
				}
			default:
				if evs := stmtEvents(st); len(evs) > 0 {
					normal = append(normal, evs...)
					lastPlain = st.Pos()
				}
			}
		}
		order := append([]string{}, normal...)
		for i := len(deferred) - 1; i >= 0; i-- {
			order = append(order, deferred[i]...)
		}
		entries = append(entries, fmt.Sprintf("(%s, %s)", LeanStr(x.recv+".ServeHTTP"), LeanStrList(order)))
		if goPos != 0 && lastPlain != 0 {
			ast.Inspect(fd.Body, func(n ast.Node) bool {
				if _, ok := n.(*ast.FuncLit); ok {
					return false
				}
				if r, ok := n.(*ast.ReturnStmt); ok && r.Pos() > goPos && r.Pos() < lastPlain {
					skips = append(skips, c.Pos(r))
				}
				return true
			})
		}
	}
	c.Add("wsEpilogueOrder", "List (String × List String)", "["+strings.Join(entries, ", ")+"]", strings.Join(srcs, " "),
		"execution order of close(stream.done) / wg.Wait() on the way out of the WebSocket handlers")
	c.Add("wsEpilogueSkips", "List String", LeanStrList(skips), "", "returns between the start of ReadLoop and a non-deferred epilogue")
}

// ───────────────────────── round 5: withCtx helper shape, Close, handler / Forward programs ─────────────────────────

// withCtx helpers (C02 task: helper goroutines inside the LTS, lean/GB/C02/WithCtx.lean). For every withCtx function:
//   withCtxCap        capacity N of `errChan := make(chan error, N)` (0 if the make has no capacity, 99 if not found)
//   withCtxLocalChan  the channel is declared with := inside the function body (one channel per call)
//   withCtxOneSend    exactly one go statement, a func literal whose body is exactly `errChan <- f()`
//   withCtxSelect     the cases of the (only) select statement, in source order: "ctxDone" (`<-ctx.Done()` of the first
//                     parameter), "recvErrChan" (receive from that channel), "other"
//   withCtxDoneCalls  the calls made in the ctx.Done branch (printed callee expressions, source order)
var c02WithCtx = []struct{ file, recv, label string }{
	{"proxy.go", "grpcServerStream", "grpcServerStream.withCtx"},
	{"webbridge/http.go", "", "webbridge.withCtx"},
	{"grpcadapter/stream.go", "AdaptedClientStream", "AdaptedClientStream.withCtx"},
}

func extractWithCtxShape(c *Ctx) {
	var caps, local, one, sel, calls, srcs []string
	for _, w := range c02WithCtx {
		fd := c.FuncDecl(w.file, w.recv, "withCtx")
		capN, isLocal, oneSend := 99, false, false
		var cases, doneCalls []string
		src := w.file + ":?"
		if fd != nil && fd.Body != nil {
			src = c.Pos(fd)
			ctx := firstParamName(fd)
			chName := ""
			nGo := 0
			for _, st := range fd.Body.List {
				switch v := st.(type) {
				case *ast.AssignStmt:
					if len(v.Lhs) == 1 && len(v.Rhs) == 1 {
						if call, ok := v.Rhs[0].(*ast.CallExpr); ok {
							if id, ok := call.Fun.(*ast.Ident); ok && id.Name == "make" && len(call.Args) >= 1 {
								if _, ok := call.Args[0].(*ast.ChanType); ok {
									if l, ok := v.Lhs[0].(*ast.Ident); ok {
										chName = l.Name
										isLocal = v.Tok == token.DEFINE
										capN = 0
										if len(call.Args) == 2 {
											if bl, ok := call.Args[1].(*ast.BasicLit); ok {
												fmt.Sscanf(bl.Value, "%d", &capN)
											} else {
												capN = 98
											}
										}
									}
								}
							}
						}
					}
				case *ast.GoStmt:
					nGo++
					if fl, ok := v.Call.Fun.(*ast.FuncLit); ok && len(fl.Body.List) == 1 {
						if ss, ok := fl.Body.List[0].(*ast.SendStmt); ok {
							if id, ok := ss.Chan.(*ast.Ident); ok && id.Name == chName && chName != "" {
								if _, ok := ss.Value.(*ast.CallExpr); ok {
									oneSend = true
								}
							}
						}
					}
				case *ast.SelectStmt:
					for _, cl := range v.Body.List {
						cc, ok := cl.(*ast.CommClause)
						if !ok {
							continue
						}
						kind := "other"
						var e ast.Expr
						switch cm := cc.Comm.(type) {
						case *ast.ExprStmt:
							e = cm.X
						case *ast.AssignStmt:
							if len(cm.Rhs) == 1 {
								e = cm.Rhs[0]
							}
						}
						if ue, ok := e.(*ast.UnaryExpr); ok && ue.Op == token.ARROW {
							if id, ok := ue.X.(*ast.Ident); ok && id.Name == chName && chName != "" {
								kind = "recvErrChan"
							} else if call, ok := ue.X.(*ast.CallExpr); ok {
								if se, ok := call.Fun.(*ast.SelectorExpr); ok && se.Sel.Name == "Done" {
									if id, ok := se.X.(*ast.Ident); ok && id.Name == ctx && ctx != "" {
										kind = "ctxDone"
									}
								}
							}
						}
						cases = append(cases, kind)
						if kind == "ctxDone" {
							for _, b := range cc.Body {
								ast.Inspect(b, func(n ast.Node) bool {
									if call, ok := n.(*ast.CallExpr); ok {
										doneCalls = append(doneCalls, c.Src(call.Fun))
									}
									return true
								})
							}
						}
					}
				}
			}
			if nGo != 1 {
				oneSend = false
			}
		}
		caps = append(caps, fmt.Sprintf("(%s, %d)", LeanStr(w.label), capN))
		local = append(local, fmt.Sprintf("(%s, %s)", LeanStr(w.label), LeanBool(isLocal)))
		one = append(one, fmt.Sprintf("(%s, %s)", LeanStr(w.label), LeanBool(oneSend)))
		sel = append(sel, fmt.Sprintf("(%s, %s)", LeanStr(w.label), LeanStrList(cases)))
		calls = append(calls, fmt.Sprintf("(%s, %s)", LeanStr(w.label), LeanStrList(doneCalls)))
		srcs = append(srcs, src)
	}
	s := strings.Join(srcs, " ")
	c.Add("withCtxCap", "List (String × Nat)", "["+strings.Join(caps, ", ")+"]", s, "capacity of the result channel of every withCtx helper")
	c.Add("withCtxLocalChan", "List (String × Bool)", "["+strings.Join(local, ", ")+"]", s, "the result channel is made inside withCtx (:=), one per call")
	c.Add("withCtxOneSend", "List (String × Bool)", "["+strings.Join(one, ", ")+"]", s, "the helper goroutine is exactly `errChan <- f()`")
	c.Add("withCtxSelect", "List (String × List String)", "["+strings.Join(sel, ", ")+"]", s, "cases of the select of withCtx")
	c.Add("withCtxDoneCalls", "List (String × List String)", "["+strings.Join(calls, ", ")+"]", s, "calls in the ctx.Done branch of withCtx")

	// AdaptedClientStream.Close / closeFunc
	var closeFacts []string
	if fd := c.FuncDecl("grpcadapter/stream.go", "AdaptedClientStream", "Close"); fd != nil && fd.Body != nil {
		for _, st := range fd.Body.List {
			closeFacts = append(closeFacts, "Close: "+c.Src(st))
		}
	}
	if fd := c.FuncDecl("grpcadapter/conn.go", "AdaptedClientConn", "Stream"); fd != nil && fd.Body != nil {
		ast.Inspect(fd.Body, func(n ast.Node) bool {
			if kv, ok := n.(*ast.KeyValueExpr); ok {
				if id, ok := kv.Key.(*ast.Ident); ok && id.Name == "closeFunc" {
					closeFacts = append(closeFacts, "closeFunc: "+c.Src(kv.Value))
				}
			}
			if as, ok := n.(*ast.AssignStmt); ok && len(as.Lhs) == 2 && len(as.Rhs) == 1 {
				if id, ok := as.Lhs[1].(*ast.Ident); ok && id.Name == "cancel" {
					if call, ok := as.Rhs[0].(*ast.CallExpr); ok {
						closeFacts = append(closeFacts, "cancel: "+c.Src(call.Fun))
					}
				}
			}
			return true
		})
	}
	c.Add("clientStreamClose", "List String", LeanStrList(closeFacts), "grpcadapter/stream.go grpcadapter/conn.go",
		"body of AdaptedClientStream.Close, the value of closeFunc and where its cancel comes from")

	// every call expression inside AdaptedClientStream.Close (any depth), and inside the ctx.Done branch helpers it reaches:
	// gRPC-Go allows only context cancellation concurrently with SendMsg/RecvMsg, so Close must not touch s.stream.
	closeCalls := []string{}
	closeStreamUses := []string{}
	if fd := c.FuncDecl("grpcadapter/stream.go", "AdaptedClientStream", "Close"); fd != nil && fd.Body != nil {
		ast.Inspect(fd.Body, func(n ast.Node) bool {
			if call, ok := n.(*ast.CallExpr); ok {
				closeCalls = append(closeCalls, c.Src(call.Fun))
			}
			if sel, ok := n.(*ast.SelectorExpr); ok {
				if id, ok := sel.X.(*ast.Ident); ok && sel.Sel.Name != "closeFunc" && fd.Recv != nil && len(fd.Recv.List) == 1 &&
					len(fd.Recv.List[0].Names) == 1 && id.Name == fd.Recv.List[0].Names[0].Name {
					closeStreamUses = append(closeStreamUses, c.Src(sel))
				}
			}
			return true
		})
	} else {
		closeCalls = append(closeCalls, "<AdaptedClientStream.Close not found>")
	}
	c.Add("clientStreamCloseCalls", "List String", LeanStrList(closeCalls), "grpcadapter/stream.go",
		"every call expression (any depth) in the body of AdaptedClientStream.Close")
	c.Add("clientStreamCloseFieldUses", "List String", LeanStrList(closeStreamUses), "grpcadapter/stream.go",
		"every receiver field other than closeFunc that AdaptedClientStream.Close touches (s.stream would be a gRPC stream method call)")
}

// Handler / Forward "programs": the top-level statements of a function as tokens (kind, events) in source order.
//   ("defer", evs)  a defer statement (direct call, or a func literal: events of its statements in source order)
//   ("ret", evs)    a statement that contains a return (outside func literals); evs = the events inside it
//   ("do", evs)     any other statement with at least one event
// Events: see c02Classify. lean/GB/C02/Paths.lean turns a program into the event sequence of every way out.
func c02Classify(c *Ctx, call *ast.CallExpr) string {
	fun := c.Src(call.Fun)
	switch {
	case fun == "close" && len(call.Args) == 1 && strings.HasSuffix(c.Src(call.Args[0]), ".done"):
		return "closeDone"
	case fun == "close":
		return ""
	case fun == "wg.Wait":
		return "wgWait"
	case fun == "wg.Done":
		return "wgDone"
	case fun == "cancel":
		return "cancel"
	case fun == "outgoing.Close":
		return "outClose"
	case strings.HasSuffix(fun, ".NetConn().Close"):
		return "netClose"
	case strings.HasSuffix(fun, ".forwarder.Forward"):
		return "forward"
	case strings.HasSuffix(fun, ".Upgrade"):
		return "upgrade"
	case strings.HasSuffix(fun, ".finish"):
		return "finish"
	case fun == "closeGracefully":
		return "sendClose"
	case strings.HasSuffix(fun, ".sendTrailer"):
		return "sendTrailer"
	case fun == "writeError" || fun == "writeTrailerWithStatus":
		return "respond"
	case strings.HasSuffix(fun, ".ReadLoop"):
		return "readLoop"
	}
	return ""
}

func c02Events(c *Ctx, n ast.Node) (evs []string, hasRet bool) {
	ast.Inspect(n, func(x ast.Node) bool {
		switch v := x.(type) {
		case *ast.FuncLit:
			return false
		case *ast.ReturnStmt:
			hasRet = true
		case *ast.CallExpr:
			if k := c02Classify(c, v); k != "" {
				evs = append(evs, k)
			}
		}
		return true
	})
	return
}

func c02Program(c *Ctx, fd *ast.FuncDecl) (toks []string, goDefers [][]string) {
	tok := func(kind string, evs []string) string {
		return fmt.Sprintf("(%s, %s)", LeanStr(kind), LeanStrList(evs))
	}
	for _, st := range fd.Body.List {
		switch v := st.(type) {
		case *ast.DeferStmt:
			var evs []string
			if fl, ok := v.Call.Fun.(*ast.FuncLit); ok {
				for _, inner := range fl.Body.List {
					e, _ := c02Events(c, inner)
					evs = append(evs, e...)
				}
			} else if k := c02Classify(c, v.Call); k != "" {
				evs = []string{k}
			}
			if len(evs) > 0 {
				toks = append(toks, tok("defer", evs))
			}
		case *ast.GoStmt:
			if fl, ok := v.Call.Fun.(*ast.FuncLit); ok {
				// execution order inside the goroutine: plain events, then its defers in reverse order
				var plain []string
				var defs []string
				for _, inner := range fl.Body.List {
					if d, ok := inner.(*ast.DeferStmt); ok {
						if k := c02Classify(c, d.Call); k != "" {
							defs = append([]string{k}, defs...)
						}
						continue
					}
					e, _ := c02Events(c, inner)
					plain = append(plain, e...)
				}
				all := append(plain, defs...)
				goDefers = append(goDefers, all)
				isRL := false
				for _, e := range plain {
					if e == "readLoop" {
						isRL = true
					}
				}
				if isRL {
					toks = append(toks, tok("do", []string{"goReadLoop"}))
				} else {
					toks = append(toks, tok("do", []string{"goPump"}))
				}
			}
		default:
			evs, hasRet := c02Events(c, st)
			if hasRet {
				toks = append(toks, tok("ret", evs))
			} else if len(evs) > 0 {
				toks = append(toks, tok("do", evs))
			}
		}
	}
	return
}

func extractPrograms(c *Ctx) {
	type h struct{ file, recv, name string }
	var entries, gos, srcs []string
	for _, x := range []h{
		{"webbridge/http.go", "TranscodedHTTPBridge", "ServeHTTP"},
		{"webbridge/grpcweb.go", "GRPCWebBridge", "ServeHTTP"},
		{"webbridge/websocket.go", "TranscodedWebSocketBridge", "ServeHTTP"},
		{"webbridge/grpcweb.go", "GRPCWebSocketBridge", "ServeHTTP"},
		{"grpcadapter/forwarder.go", "ProxyForwarder", "Forward"},
	} {
		label := x.recv + "." + x.name
		fd := c.FuncDecl(x.file, x.recv, x.name)
		if fd == nil || fd.Body == nil {
			entries = append(entries, fmt.Sprintf("(%s, [(\"missing\", [])])", LeanStr(label)))
			srcs = append(srcs, x.file+":?")
			continue
		}
		toks, gd := c02Program(c, fd)
		entries = append(entries, fmt.Sprintf("(%s, [%s])", LeanStr(label), strings.Join(toks, ", ")))
		var g []string
		for _, d := range gd {
			g = append(g, LeanStrList(d))
		}
		gos = append(gos, fmt.Sprintf("(%s, [%s])", LeanStr(label), strings.Join(g, ", ")))
		srcs = append(srcs, c.Pos(fd))
	}
	c.Add("c02Programs", "List (String × List (String × List String))", "["+strings.Join(entries, ", ")+"]", strings.Join(srcs, " "),
		"top-level statements of the four web handlers and of Forward as (kind, events) tokens: defer / ret (contains a return) / do")
	c.Add("c02GoBodies", "List (String × List (List String))", "["+strings.Join(gos, ", ")+"]", strings.Join(srcs, " "),
		"per go statement of those functions: the events inside the goroutine in execution order (plain, then its defers reversed)")

	// every place where an outgoing stream is created
	var sites []string
	for _, f := range []string{"grpcadapter/forwarder.go", "proxy.go", "webbridge/http.go", "webbridge/websocket.go", "webbridge/grpcweb.go", "webbridge/webbridge.go"} {
		af := c.File(f)
		if af == nil {
			continue
		}
		for _, d := range af.Decls {
			fd, ok := d.(*ast.FuncDecl)
			if !ok || fd.Body == nil {
				continue
			}
			ast.Inspect(fd.Body, func(n ast.Node) bool {
				if call, ok := n.(*ast.CallExpr); ok {
					if s := c.Src(call.Fun); strings.HasSuffix(s, "Outgoing.Stream") || strings.HasSuffix(s, "conn.Stream") {
						sites = append(sites, f+":"+fd.Name.Name)
					}
				}
				return true
			})
		}
	}
	c.Add("c02StreamSites", "List String", LeanStrList(sites), "", "functions of the forwarder / entry points that create an outgoing stream")
}

// Order of the connection-deadline / lock / write operations in the two functions that start the WebSocket closing
// handshake (C02-m9, D35): tokens in source order — "SetDeadline", "Lock" (a mutex Lock), "WriteMessage",
// "closeGracefully". The WsStall model (lean/GB/C02/WsStall.lean) needs the deadline to be armed before anything
// that can wait for a blocked writer.
func extractWSCloseOrder(c *Ctx) {
	var entries, srcs []string
	for _, x := range []struct{ file, recv, name string }{
		{"webbridge/websocket.go", "", "closeGracefully"},
		{"webbridge/grpcweb.go", "gRPCWebSocketStream", "sendTrailer"},
	} {
		label := x.name
		if x.recv != "" {
			label = x.recv + "." + x.name
		}
		var evs []string
		src := x.file + ":?"
		if fd := c.FuncDecl(x.file, x.recv, x.name); fd != nil && fd.Body != nil {
			src = c.Pos(fd)
			ast.Inspect(fd.Body, func(n ast.Node) bool {
				call, ok := n.(*ast.CallExpr)
				if !ok {
					return true
				}
				fun := c.Src(call.Fun)
				switch {
				case strings.HasSuffix(fun, ".SetDeadline") || strings.HasSuffix(fun, ".SetWriteDeadline"):
					evs = append(evs, "SetDeadline")
				case strings.HasSuffix(fun, ".Lock"):
					evs = append(evs, "Lock")
				case strings.HasSuffix(fun, ".WriteMessage") || strings.HasSuffix(fun, ".WriteClose") || strings.HasSuffix(fun, ".Write"):
					evs = append(evs, "WriteMessage")
				case fun == "closeGracefully":
					evs = append(evs, "closeGracefully")
				}
				return true
			})
		} else {
			evs = []string{"<not found>"}
		}
		entries = append(entries, fmt.Sprintf("(%s, %s)", LeanStr(label), LeanStrList(evs)))
		srcs = append(srcs, src)
	}
	c.Add("wsCloseOrder", "List (String × List String)", "["+strings.Join(entries, ", ")+"]", strings.Join(srcs, " "),
		"source order of SetDeadline / mutex Lock / WriteMessage / closeGracefully in the functions that start the WebSocket closing handshake")
}

// HTTP handler epilogue (lean/GB/C02/HttpEpilogue.lean): the response-side critical sections of the two HTTP stream
// adapters. Tokens in source order: "waitRead" (<-s.readCh), "Lock" / "Unlock" (s.mu), "ifFinishedReturn" (an if on
// s.finished whose body returns), "setFinished" (s.finished = true), "Write" (ResponseWriter.Write / Flush /
// respstream.Transcode — everything that puts bytes on the response).
func extractHTTPSendOrder(c *Ctx) {
	var entries, srcs []string
	for _, x := range []struct{ file, recv, name string }{
		{"webbridge/http.go", "httpStream", "send"},
		{"webbridge/grpcweb.go", "gRPCWebStream", "send"},
		{"webbridge/http.go", "httpStream", "finish"},
		{"webbridge/grpcweb.go", "gRPCWebStream", "finish"},
	} {
		label := x.recv + "." + x.name
		var evs []string
		src := x.file + ":?"
		if fd := c.FuncDecl(x.file, x.recv, x.name); fd != nil && fd.Body != nil {
			src = c.Pos(fd)
			ast.Inspect(fd.Body, func(n ast.Node) bool {
				switch v := n.(type) {
				case *ast.DeferStmt:
					if strings.HasSuffix(c.Src(v.Call.Fun), ".mu.Unlock") {
						evs = append(evs, "deferUnlock")
						return false
					}
				case *ast.UnaryExpr:
					if v.Op == token.ARROW && strings.HasSuffix(c.Src(v.X), ".readCh") {
						evs = append(evs, "waitRead")
					}
				case *ast.IfStmt:
					if strings.HasSuffix(c.Src(v.Cond), ".finished") && len(v.Body.List) > 0 {
						if _, ok := v.Body.List[len(v.Body.List)-1].(*ast.ReturnStmt); ok {
							evs = append(evs, "ifFinishedReturn")
						}
					}
				case *ast.AssignStmt:
					if len(v.Lhs) == 1 && len(v.Rhs) == 1 && strings.HasSuffix(c.Src(v.Lhs[0]), ".finished") && c.Src(v.Rhs[0]) == "true" {
						evs = append(evs, "setFinished")
					}
				case *ast.CallExpr:
					fun := c.Src(v.Fun)
					switch {
					case strings.HasSuffix(fun, ".mu.Lock"):
						evs = append(evs, "Lock")
					case strings.HasSuffix(fun, ".mu.Unlock"):
						evs = append(evs, "Unlock")
					case strings.HasSuffix(fun, ".Write") || strings.HasSuffix(fun, ".Flush") || strings.HasSuffix(fun, ".respstream.Transcode"):
						evs = append(evs, "Write")
					}
				}
				return true
			})
		} else {
			evs = []string{"<not found>"}
		}
		entries = append(entries, fmt.Sprintf("(%s, %s)", LeanStr(label), LeanStrList(evs)))
		srcs = append(srcs, src)
	}
	c.Add("httpSendOrder", "List (String × List String)", "["+strings.Join(entries, ", ")+"]", strings.Join(srcs, " "),
		"source order of readCh wait / mutex / finished check / response writes in send() and finish() of the HTTP stream adapters")
}
