// Command extract re-reads the grpcbridge sources with go/ast and regenerates
// lean/GB/Generated/Facts.lean: constants, tables and structural facts the Lean models are
// tied to by `FactsTie` theorems. It uses the standard library only.
//
//	extract -repo /repo -out /verif/lean/GB/Generated/Facts.lean -json /verif/.work/facts.json
//
// Each extractor lives in its own file and registers itself in init(). An extractor that
// cannot find what it looks for still emits its definitions, with a sentinel value, so the
// corresponding tie theorem fails instead of silently keeping an old fact.
package main

import (
	"encoding/json"
	"flag"
	"fmt"
	"go/ast"
	"go/parser"
	"go/printer"
	"go/token"
	"os"
	"path/filepath"
	"sort"
	"strings"
)

// Fact is one regenerated definition.
type Fact struct {
	Name   string `json:"name"`   // Lean identifier inside namespace GB.Generated
	Type   string `json:"type"`   // Lean type
	Value  string `json:"value"`  // Lean term
	Source string `json:"source"` // file:line the fact was read from
	Note   string `json:"note,omitempty"`
}

type Ctx struct {
	Repo  string
	Fset  *token.FileSet
	files map[string]*ast.File
	Facts []Fact
}

func (c *Ctx) File(rel string) *ast.File {
	if f, ok := c.files[rel]; ok {
		return f
	}
	f, err := parser.ParseFile(c.Fset, filepath.Join(c.Repo, rel), nil, parser.ParseComments)
	if err != nil {
		fmt.Fprintf(os.Stderr, "extract: cannot parse %s: %v\n", rel, err)
		c.files[rel] = nil
		return nil
	}
	c.files[rel] = f
	return f
}

func (c *Ctx) Pos(n ast.Node) string {
	p := c.Fset.Position(n.Pos())
	rel, _ := filepath.Rel(c.Repo, p.Filename)
	return fmt.Sprintf("%s:%d", rel, p.Line)
}

func (c *Ctx) Src(n ast.Node) string {
	var sb strings.Builder
	_ = printer.Fprint(&sb, c.Fset, n)
	return sb.String()
}

// FuncDecl finds a top-level function or method ("Recv" with recv "grpcServerStream", recv "" for functions).
func (c *Ctx) FuncDecl(rel, recv, name string) *ast.FuncDecl {
	f := c.File(rel)
	if f == nil {
		return nil
	}
	for _, d := range f.Decls {
		fd, ok := d.(*ast.FuncDecl)
		if !ok || fd.Name.Name != name {
			continue
		}
		if recv == "" && fd.Recv == nil {
			return fd
		}
		if recv != "" && fd.Recv != nil && len(fd.Recv.List) == 1 {
			t := fd.Recv.List[0].Type
			if s, ok := t.(*ast.StarExpr); ok {
				t = s.X
			}
			if ix, ok := t.(*ast.IndexExpr); ok {
				t = ix.X
			}
			if id, ok := t.(*ast.Ident); ok && id.Name == recv {
				return fd
			}
		}
	}
	return nil
}

func (c *Ctx) Add(name, typ, value, source, note string) {
	c.Facts = append(c.Facts, Fact{Name: name, Type: typ, Value: value, Source: source, Note: note})
}

func LeanStr(s string) string {
	var sb strings.Builder
	sb.WriteByte('"')
	for _, r := range s {
		switch {
		case r == '"':
			sb.WriteString("\\\"")
		case r == '\\':
			sb.WriteString("\\\\")
		case r == '\n':
			sb.WriteString("\\n")
		case r == '\r':
			sb.WriteString("\\r")
		case r == '\t':
			sb.WriteString("\\t")
		case r < 0x20 || r == 0x7f:
			sb.WriteString(fmt.Sprintf("\\x%02x", r))
		default:
			sb.WriteRune(r)
		}
	}
	sb.WriteByte('"')
	return sb.String()
}

func LeanBool(b bool) string {
	if b {
		return "true"
	}
	return "false"
}

func LeanStrList(xs []string) string {
	q := make([]string, len(xs))
	for i, x := range xs {
		q[i] = LeanStr(x)
	}
	return "[" + strings.Join(q, ", ") + "]"
}

type extractor struct {
	name string
	f    func(*Ctx)
}

var extractors []extractor

func register(name string, f func(*Ctx)) { extractors = append(extractors, extractor{name, f}) }

func main() {
	repo := flag.String("repo", "/repo", "repository root")
	out := flag.String("out", "", "Facts.lean path")
	js := flag.String("json", "", "facts json path")
	flag.Parse()

	c := &Ctx{Repo: *repo, Fset: token.NewFileSet(), files: map[string]*ast.File{}}
	sort.Slice(extractors, func(i, j int) bool { return extractors[i].name < extractors[j].name })
	for _, e := range extractors {
		func() {
			defer func() {
				if r := recover(); r != nil {
					fmt.Fprintf(os.Stderr, "extract: %s panicked: %v\n", e.name, r)
				}
			}()
			e.f(c)
		}()
	}

	var sb strings.Builder
	sb.WriteString("/- REGENERATED on every run by /verif/extract from the grpcbridge sources. Do not edit. -/\n")
	sb.WriteString("namespace GB.Generated\n\n")
	for _, f := range c.Facts {
		if f.Source != "" || f.Note != "" {
			sb.WriteString(fmt.Sprintf("-- %s %s\n", f.Source, f.Note))
		}
		sb.WriteString(fmt.Sprintf("def %s : %s := %s\n\n", f.Name, f.Type, f.Value))
	}
	sb.WriteString("end GB.Generated\n")

	if *out != "" {
		old, _ := os.ReadFile(*out)
		if string(old) != sb.String() {
			if err := os.WriteFile(*out, []byte(sb.String()), 0o644); err != nil {
				fmt.Fprintln(os.Stderr, err)
				os.Exit(1)
			}
		}
	}
	if *js != "" {
		b, _ := json.MarshalIndent(c.Facts, "", " ")
		_ = os.WriteFile(*js, b, 0o644)
	}
}
