package main

import (
	"go/ast"
	"go/token"
	"strings"
)

func init() { register("c15", extractC15) }

// Statement skeletons of the resolver code the C15 models follow (reflection/resolver.go, util.go).
// Anything the walker does not recognise is emitted as "?:<source>", so an added statement changes the fact.
func extractC15(c *Ctx) {
	const file = "reflection/resolver.go"
	const util = "reflection/util.go"

	// ---- Resolver.watch ---------------------------------------------------------------------
	var watch []string
	src := ""
	if fd := c.FuncDecl(file, "Resolver", "watch"); fd != nil {
		src = c.Pos(fd)
		watch = c15Stmts(c, fd.Body.List)
	}
	c.Add("resolverWatchSkeleton", "List String", LeanStrList(watch), src, "statement skeleton of Resolver.watch")

	// ---- newResolveNow ----------------------------------------------------------------------
	var rearm []string
	src = ""
	if fd := c.FuncDecl(file, "Resolver", "newResolveNow"); fd != nil {
		src = c.Pos(fd)
		for _, st := range fd.Body.List {
			s := squash(c.Src(st))
			switch {
			case strings.HasPrefix(s, "r.resolveNow=make(chanstruct{})"):
				rearm = append(rearm, "assign:resolveNow=make")
			case strings.HasPrefix(s, "f:=sync.OnceFunc(func(){close(r.resolveNow)})"):
				rearm = append(rearm, "assign:f=OnceFunc(close:resolveNow)")
			case s == "r.notifyResolveNow.Store(&f)":
				rearm = append(rearm, "store:notifyResolveNow")
			default:
				rearm = append(rearm, "?:"+s)
			}
		}
	}
	c.Add("resolverRearmSkeleton", "List String", LeanStrList(rearm), src, "statement skeleton of Resolver.newResolveNow")

	// ---- resolveWithMethod: order of hash computation, comparison, parse, save ------------------
	var order []string
	src = ""
	if fd := c.FuncDecl(file, "Resolver", "resolveWithMethod"); fd != nil {
		src = c.Pos(fd)
		for _, st := range fd.Body.List {
			s := squash(c.Src(st))
			switch {
			case strings.HasPrefix(s, "iferr:=r.retrieveDependencies(client,descriptors,&bundles);err!=nil{"):
				order = append(order, "retrieve-deps")
			case strings.HasPrefix(s, "newProtoHash:=hashNamedProtoBundles(bundles)"):
				order = append(order, "hash:proto")
			case strings.HasPrefix(s, "newServicesHash:=hashServiceNames(serviceNames)"):
				order = append(order, "hash:services")
			case strings.HasPrefix(s, "ifr.lastProtoHash==newProtoHash&&r.lastServicesHash==newServicesHash{") && strings.Contains(s, "returnnil,nil"):
				order = append(order, "compare:return-nil")
			case strings.HasPrefix(s, "parsed,err:=parseFileDescriptors("):
				order = append(order, "parse")
			case s == "r.lastProtoHash=newProtoHash":
				order = append(order, "save:lastProtoHash")
			case s == "r.lastServicesHash=newServicesHash":
				order = append(order, "save:lastServicesHash")
			case strings.Contains(s, "lastProtoHash") || strings.Contains(s, "lastServicesHash"):
				if !strings.HasPrefix(s, "r.logger.") {
					order = append(order, "?:"+s)
				}
			}
		}
	}
	c.Add("resolverHashOrder", "List String", LeanStrList(order), src, "hash/compare/parse/save order in resolveWithMethod")

	// ---- resolveWithMethod: the bookkeeping is committed on the success return path only ----------------
	// result names (a named result can be reassigned by a deferred function after `return`), every defer statement
	// of the function, and the statements from the first hash assignment to the end of the body.
	var commit []string
	if fd := c.FuncDecl(file, "Resolver", "resolveWithMethod"); fd != nil {
		named := false
		if fd.Type.Results != nil {
			for _, f := range fd.Type.Results.List {
				if len(f.Names) > 0 {
					named = true
				}
			}
		}
		if named {
			commit = append(commit, "results:named")
		} else {
			commit = append(commit, "results:unnamed")
		}
		ast.Inspect(fd.Body, func(n ast.Node) bool {
			if d, ok := n.(*ast.DeferStmt); ok {
				commit = append(commit, "defer:"+squash(c.Src(d.Call)))
			}
			return true
		})
		tail := false
		for _, st := range fd.Body.List {
			s := squash(c.Src(st))
			if s == "r.lastProtoHash=newProtoHash" || s == "r.lastServicesHash=newServicesHash" {
				tail = true
			}
			if !tail {
				continue
			}
			switch {
			case s == "r.lastProtoHash=newProtoHash":
				commit = append(commit, "save:lastProtoHash")
			case s == "r.lastServicesHash=newServicesHash":
				commit = append(commit, "save:lastServicesHash")
			case strings.HasPrefix(s, "r.logger."):
				commit = append(commit, "log")
			case strings.HasPrefix(s, "return"):
				commit = append(commit, "return:"+strings.TrimPrefix(s, "return"))
			default:
				commit = append(commit, "?:"+s)
			}
		}
	}
	c.Add("resolverCommitShape", "List String", LeanStrList(commit), src, "resolveWithMethod: result names, defers, and everything from the first hash assignment to the end of the body")

	// ---- hash functions -----------------------------------------------------------------------
	var writes []string
	src = ""
	for _, name := range []string{"hashNamedProtoBundles", "hashServiceNames", "writeLenPrefixed"} {
		var parts []string
		if fd := c.FuncDecl(util, "", name); fd != nil {
			if src == "" {
				src = c.Pos(fd)
			}
			ast.Inspect(fd.Body, func(n ast.Node) bool {
				call, ok := n.(*ast.CallExpr)
				if !ok {
					return true
				}
				s := squash(c.Src(call.Fun))
				switch {
				case s == "slices.SortFunc" || s == "slices.Sort":
					parts = append(parts, "sort")
				case s == "writeLenPrefixed":
					parts = append(parts, "writeLenPrefixed")
				case s == "h.Write":
					parts = append(parts, "Write")
				case s == "binary.BigEndian.PutUint64":
					if len(call.Args) == 2 && squash(c.Src(call.Args[1])) == "uint64(len(b))" {
						parts = append(parts, "PutUint64(len)")
					} else {
						parts = append(parts, "PutUint64(?)")
					}
				}
				return true
			})
		}
		writes = append(writes, "("+LeanStr(name)+", "+LeanStr(strings.Join(parts, ","))+")")
	}
	c.Add("resolverHashWrites", "List (String × String)", "["+strings.Join(writes, ", ")+"]", src, "what the change-detection hashes feed to SHA-256")

	// ---- ResolveNow / Close ---------------------------------------------------------------------
	var rc []string
	src = ""
	if fd := c.FuncDecl(file, "Resolver", "ResolveNow"); fd != nil {
		src = c.Pos(fd)
		var parts []string
		for _, st := range fd.Body.List {
			switch s := squash(c.Src(st)); {
			case s == "(*r.notifyResolveNow.Load())()":
				parts = append(parts, "load:notifyResolveNow", "call")
			case s == "notify:=r.notifyResolveNow.Load()":
				parts = append(parts, "load:notifyResolveNow")
			case strings.HasPrefix(s, "verifhook.Point("):
				// yield point, no-op without the tag
			case s == "(*notify)()":
				parts = append(parts, "call")
			default:
				parts = append(parts, "?:"+s)
			}
		}
		rc = append(rc, "ResolveNow:"+strings.Join(parts, ","))
	}
	if fd := c.FuncDecl(file, "Resolver", "Close"); fd != nil {
		if len(fd.Body.List) == 1 && squash(c.Src(fd.Body.List[0])) == "r.done<-struct{}{}" {
			rc = append(rc, "Close:send:done")
		} else {
			rc = append(rc, "?:Close")
		}
	}
	c.Add("resolverResolveNowClose", "List String", LeanStrList(rc), src, "bodies of Resolver.ResolveNow and Resolver.Close")

	// ---- resolve(): version fallback --------------------------------------------------------------
	var fb []string
	src = ""
	if fd := c.FuncDecl(file, "Resolver", "resolve"); fd != nil {
		src = c.Pos(fd)
		for _, st := range fd.Body.List {
			rs, ok := st.(*ast.RangeStmt)
			if !ok {
				continue
			}
			if squash(c.Src(rs.X)) == "r.methodPriority" {
				fb = append(fb, "range:methodPriority")
			}
			for _, inner := range rs.Body.List {
				switch x := inner.(type) {
				case *ast.IfStmt:
					if squash(c.Src(x.Cond)) == "status.Code(err)==codes.Unimplemented" && endsWithContinue(x.Body) {
						fb = append(fb, "if:Unimplemented:continue")
					} else {
						fb = append(fb, "?:"+squash(c.Src(x.Cond)))
					}
					if e, ok := x.Else.(*ast.IfStmt); ok {
						if squash(c.Src(e.Cond)) == "err==nil" && strings.Contains(squash(c.Src(e.Body)),
							"r.methodPriority[0],r.methodPriority[i]=r.methodPriority[i],r.methodPriority[0]") {
							fb = append(fb, "elseif:nil:swap(0,i)")
						} else {
							fb = append(fb, "?:"+squash(c.Src(e.Cond)))
						}
					}
				case *ast.ReturnStmt:
					fb = append(fb, "return")
				case *ast.AssignStmt:
					// state, err := r.resolveWithMethod(method)
				default:
					fb = append(fb, "?:"+squash(c.Src(inner)))
				}
			}
		}
	}
	c.Add("resolverFallback", "List String", LeanStrList(fb), src, "version fallback loop of Resolver.resolve")

	// ---- aggregateWatcher and its wiring in ReflectionRouter.Add / Remove (reflection.go) ----------
	const root = "reflection.go"
	var agg []string
	src = ""
	for _, m := range []struct{ name, arg string }{{"UpdateDesc", "target"}, {"ReportError", "err"}, {"Close", ""}} {
		fd := c.FuncDecl(root, "aggregateWatcher", m.name)
		if fd == nil {
			agg = append(agg, "?:missing:"+m.name)
			continue
		}
		if src == "" {
			src = c.Pos(fd)
		}
		body := ""
		for _, st := range fd.Body.List {
			body += squash(c.Src(st)) + ";"
		}
		if body == "for_,w:=rangea.watchers{w."+m.name+"("+m.arg+")};" {
			agg = append(agg, m.name+":range-watchers:w."+m.name)
		} else if body == `fori,w:=rangea.watchers{verifhook.Point("aggregate.update.member",target.Name,strconv.Itoa(i))w.UpdateDesc(target)};` {
			agg = append(agg, m.name+":range-watchers:hook:aggregate.update.member,w."+m.name)
		} else {
			agg = append(agg, "?:"+m.name+":"+body)
		}
	}
	if fd := c.FuncDecl(root, "ReflectionRouter", "Add"); fd != nil {
		for _, st := range fd.Body.List {
			s := squash(c.Src(st))
			switch {
			case strings.HasPrefix(s, "watcher:="):
				if s == "watcher:=&aggregateWatcher{watchers:[]closableWatcher{patternWatcher,serviceWatcher}}" {
					agg = append(agg, "Add:members:patternWatcher,serviceWatcher")
				} else {
					agg = append(agg, "?:"+s)
				}
			case strings.Contains(s, "resolverBuilder.Build("):
				if s == "resolver:=r.resolverBuilder.Build(name,watcher)" {
					agg = append(agg, "Add:Build(name,watcher)")
				} else {
					agg = append(agg, "?:"+s)
				}
			}
		}
	}
	if fd := c.FuncDecl(root, "ReflectionRouter", "Remove"); fd != nil {
		var order []string
		for _, st := range fd.Body.List {
			if es, ok := st.(*ast.ExprStmt); ok {
				s := squash(c.Src(es))
				if strings.HasPrefix(s, "target.") && strings.HasSuffix(s, ".Close()") {
					order = append(order, strings.TrimSuffix(strings.TrimPrefix(s, "target."), "()"))
				}
			}
		}
		agg = append(agg, "Remove:"+strings.Join(order, ","))
	}
	c.Add("aggregateWiring", "List String", LeanStrList(agg), src, "aggregateWatcher's three loops, the member list Add builds and the Close order of Remove")

	// ---- afterInterval: the timer case of the select ------------------------------------------------
	var ai []string
	src = ""
	if fd := c.FuncDecl(file, "Resolver", "afterInterval"); fd != nil {
		src = c.Pos(fd)
		for _, st := range fd.Body.List {
			s := squash(c.Src(st))
			switch s {
			case "ifr.opts.PollManually{returnnil}":
				ai = append(ai, "if:PollManually:return-nil")
			case "returntime.After(r.opts.PollInterval)":
				ai = append(ai, "return:time.After(PollInterval)")
			default:
				ai = append(ai, "?:"+s)
			}
		}
	}
	c.Add("resolverAfterInterval", "List String", LeanStrList(ai), src, "statements of Resolver.afterInterval (a fresh time.After per select, nil channel when polling manually)")
}

func endsWithContinue(b *ast.BlockStmt) bool {
	if len(b.List) == 0 {
		return false
	}
	br, ok := b.List[len(b.List)-1].(*ast.BranchStmt)
	return ok && br.Tok == token.CONTINUE
}

func squash(s string) string {
	return strings.Join(strings.Fields(s), "")
}

func c15Stmts(c *Ctx, list []ast.Stmt) []string {
	var out []string
	for _, st := range list {
		switch x := st.(type) {
		case *ast.ForStmt:
			out = append(out, "for")
			out = append(out, c15Stmts(c, x.Body.List)...)
		case *ast.ExprStmt:
			s := squash(c.Src(x))
			switch {
			case strings.HasPrefix(s, "verifhook.Point(\""):
				name := strings.TrimPrefix(s, "verifhook.Point(\"")
				name = name[:strings.IndexByte(name, '"')]
				out = append(out, "hook:"+name)
			case s == "r.newResolveNow()":
				out = append(out, "call:newResolveNow")
			case s == "close(r.done)":
				out = append(out, "close:done")
			default:
				out = append(out, "?:"+s)
			}
		case *ast.AssignStmt:
			s := squash(c.Src(x))
			if s == "state,err:=r.resolve()" {
				out = append(out, "assign:resolve")
			} else {
				out = append(out, "?:"+s)
			}
		case *ast.IfStmt:
			// the callback decision: which watcher methods are called, in source order
			var calls []string
			ast.Inspect(x, func(n ast.Node) bool {
				if call, ok := n.(*ast.CallExpr); ok {
					s := squash(c.Src(call.Fun))
					if strings.HasPrefix(s, "r.watcher.") {
						calls = append(calls, strings.TrimPrefix(s, "r.watcher."))
					}
				}
				return true
			})
			out = append(out, "if:"+strings.Join(calls, "|"))
		case *ast.SelectStmt:
			out = append(out, "select")
			for _, cl := range x.Body.List {
				cc := cl.(*ast.CommClause)
				s := ""
				if cc.Comm != nil {
					s = squash(c.Src(cc.Comm))
				}
				switch s {
				case "<-r.afterInterval()":
					out = append(out, "case:afterInterval")
				case "<-r.resolveNow":
					out = append(out, "case:resolveNow")
				case "<-r.done":
					out = append(out, "case:done")
				default:
					out = append(out, "case:?:"+s)
				}
				out = append(out, c15Stmts(c, cc.Body)...)
			}
		case *ast.ReturnStmt:
			out = append(out, "return")
		default:
			out = append(out, "?:"+squash(c.Src(st)))
		}
	}
	return out
}
