// Command lockset regenerates lean/GB/Generated/Lockset.lean: the table of accesses to fields
// of the shared structs declared in the files property C18 is anchored in, each with the
// mutexes held at the access (intra-procedural lock tracking + locks credited from all call
// sites of unexported helpers), whether the object is still unpublished (fresh local built from
// a composite literal / new in the same function), and read/write kind. Fields whose type is
// itself a synchronisation primitive (sync.Mutex, sync/atomic types, sync.Map, sync.WaitGroup,
// sync.Once) are listed separately as `syncFields`: every access to them is a method call of
// that primitive.
//
//	lockset -repo /repo -out /verif/lean/GB/Generated/Lockset.lean -json /verif/.work/lockset.json
package main

import (
	"encoding/json"
	"flag"
	"fmt"
	"go/ast"
	"go/printer"
	"go/token"
	"go/types"
	"os"
	"path/filepath"
	"sort"
	"strings"

	"golang.org/x/tools/go/packages"
)

var anchorFiles = map[string]bool{
	"routing/pattern_router.go": true, "routing/service_router.go": true,
	"grpcadapter/pool.go": true, "grpcadapter/conn.go": true, "grpcadapter/stream.go": true,
	"reflection/resolver.go": true, "reflection.go": true,
	"webbridge/http.go": true, "webbridge/websocket.go": true, "webbridge/grpcweb.go": true,
	"webbridge/webbridge.go": true, "internal/syncset/syncset.go": true,
	// shared by all requests of a bridge (one transcoder / marshaler per WebBridge): added after seeded change C18-m7
	"transcoding/http.go": true, "transcoding/json.go": true, "transcoding/transcoding.go": true,
	"grpcadapter/forwarder.go": true, "grpcadapter/metadata.go": true, "bridge.go": true, "proxy.go": true, "forwarder.go": true,
}

type Access struct {
	Field string   `json:"field"` // pkg.Struct.field
	Func  string   `json:"func"`  // pkg.Recv.Method or pkg.Func, "#n" suffix for the n-th function literal inside
	Write bool     `json:"write"`
	Locks []string `json:"locks"` // pkg.Struct.mutexField held
	Own   []string `json:"own"`   // those of Locks that are fields of the same struct as Field (same object ⇒ same mutex instance)
	Fresh bool     `json:"fresh"` // object not yet published (built in this function)
	Pos   string   `json:"pos"`
}

type fnInfo struct {
	name     string
	decl     ast.Node // *ast.FuncDecl or *ast.FuncLit
	pkg      *packages.Package
	exported bool
	isLit    bool
	accesses []*Access
	// call sites inside this function: callee name -> locksets held at each call
	calls map[string][][]string
}

var (
	repo    string
	fset    *token.FileSet
	structs = map[*types.Named]string{} // tracked struct types -> qualified name
	fns     = map[string]*fnInfo{}
	objFn   = map[types.Object]string{} // *types.Func -> fn name
	syncFld = map[string]string{}       // field -> primitive kind
)

func rel(p token.Pos) string {
	pos := fset.Position(p)
	r, _ := filepath.Rel(repo, pos.Filename)
	return fmt.Sprintf("%s:%d", r, pos.Line)
}

func shortPkg(p *types.Package) string {
	if p == nil {
		return ""
	}
	return p.Name()
}

func syncKind(t types.Type) string {
	if p, ok := t.(*types.Pointer); ok {
		t = p.Elem()
	}
	n, ok := t.(*types.Named)
	if !ok {
		return ""
	}
	obj := n.Obj()
	if obj.Pkg() == nil {
		return ""
	}
	switch obj.Pkg().Path() {
	case "sync":
		switch obj.Name() {
		case "Mutex", "RWMutex":
			return "mutex"
		case "Map":
			return "syncmap"
		case "WaitGroup", "Once":
			return "syncsafe"
		}
	case "sync/atomic":
		return "atomic"
	}
	return ""
}

func namedOf(t types.Type) *types.Named {
	for {
		switch x := t.(type) {
		case *types.Pointer:
			t = x.Elem()
		case *types.Named:
			return x
		default:
			return nil
		}
	}
}

// fieldOf resolves a selector to a tracked struct field; returns qualified field name and the field var.
func fieldOf(info *types.Info, sel *ast.SelectorExpr) (string, *types.Var) {
	s, ok := info.Selections[sel]
	if !ok || s.Kind() != types.FieldVal {
		return "", nil
	}
	v, ok := s.Obj().(*types.Var)
	if !ok {
		return "", nil
	}
	recv := namedOf(s.Recv())
	if recv == nil {
		return "", nil
	}
	// embedded promotion: find the struct that really declares the field
	owner := recv
	if len(s.Index()) > 1 {
		t := recv.Underlying()
		for _, i := range s.Index()[:len(s.Index())-1] {
			st, ok := t.(*types.Struct)
			if !ok {
				return "", nil
			}
			ft := st.Field(i).Type()
			if n := namedOf(ft); n != nil {
				owner = n
				t = n.Underlying()
			} else {
				return "", nil
			}
		}
	}
	origin := owner.Origin()
	q, ok := structs[origin]
	if !ok {
		return "", nil
	}
	return q + "." + v.Name(), v
}

func baseIdent(e ast.Expr) *ast.Ident {
	for {
		switch x := e.(type) {
		case *ast.Ident:
			return x
		case *ast.SelectorExpr:
			e = x.X
		case *ast.StarExpr:
			e = x.X
		case *ast.ParenExpr:
			e = x.X
		case *ast.IndexExpr:
			e = x.X
		case *ast.TypeAssertExpr:
			return nil // the object comes out of an interface: not fresh
		default:
			return nil
		}
	}
}

func isFreshExpr(info *types.Info, e ast.Expr) bool {
	switch x := e.(type) {
	case *ast.UnaryExpr:
		if x.Op == token.AND {
			_, ok := x.X.(*ast.CompositeLit)
			return ok
		}
	case *ast.CompositeLit:
		return true
	case *ast.CallExpr:
		if id, ok := x.Fun.(*ast.Ident); ok && id.Name == "new" {
			if _, isBuiltin := info.Uses[id].(*types.Builtin); isBuiltin {
				return true
			}
		}
	}
	return false
}

type walker struct {
	fn     *fnInfo
	info   *types.Info
	held   []string              // locks currently held (deferred unlocks keep them)
	fresh  map[types.Object]bool // local variables holding an unpublished object
	litN   *int
	parent string
}

func (w *walker) lockName(sel *ast.SelectorExpr) string {
	// sel is x.mu in x.mu.Lock(); name it by owning struct + field
	q, v := fieldOf(w.info, sel)
	if v == nil || syncKind(v.Type()) != "mutex" {
		return ""
	}
	return q
}

func (w *walker) heldCopy() []string {
	c := append([]string{}, w.held...)
	sort.Strings(c)
	return c
}

// privateCopy reports whether the object the selector reads from is a struct VALUE held in a local
// variable, parameter or value receiver: a private copy no other goroutine can reach (only writes
// THROUGH a map/slice held in such a copy can touch shared memory; those pass elemWrite = true).
func (w *walker) privateCopy(sel *ast.SelectorExpr) bool {
	id, ok := sel.X.(*ast.Ident)
	if !ok {
		return false
	}
	obj, ok := w.info.Uses[id].(*types.Var)
	if !ok || obj.IsField() || obj.Pkg() == nil || obj.Parent() == obj.Pkg().Scope() {
		return false
	}
	if _, isPtr := obj.Type().(*types.Pointer); isPtr {
		return false
	}
	_, isStruct := obj.Type().Underlying().(*types.Struct)
	return isStruct
}

func (w *walker) record(sel *ast.SelectorExpr, write bool) { w.record2(sel, write, false) }

func (w *walker) record2(sel *ast.SelectorExpr, write bool, elemWrite bool) {
	q, v := fieldOf(w.info, sel)
	if v == nil {
		return
	}
	if k := syncKind(v.Type()); k != "" {
		syncFld[q] = k
		return
	}
	if !elemWrite && w.privateCopy(sel) {
		return
	}
	fresh := false
	if id := baseIdent(sel.X); id != nil {
		if obj := w.info.Uses[id]; obj != nil && w.fresh[obj] {
			fresh = true
		}
	}
	w.fn.accesses = append(w.fn.accesses, &Access{Field: q, Func: w.fn.name, Write: write, Locks: w.heldCopy(), Fresh: fresh, Pos: rel(sel.Pos())})
}

func (w *walker) writeTarget(e ast.Expr) {
	// e is an assignment target / inc-dec operand / &operand / delete first arg
	switch x := e.(type) {
	case *ast.SelectorExpr:
		w.record(x, true)
		w.expr(x.X)
	case *ast.IndexExpr: // x.f[k] = v mutates the map/slice held in f
		if s, ok := x.X.(*ast.SelectorExpr); ok {
			w.record2(s, true, true)
			w.expr(s.X)
		} else {
			w.expr(x.X)
		}
		w.expr(x.Index)
	case *ast.StarExpr:
		w.expr(x.X)
	case *ast.ParenExpr:
		w.writeTarget(x.X)
	default:
		w.expr(e)
	}
}

func (w *walker) expr(e ast.Expr) {
	if e == nil {
		return
	}
	switch x := e.(type) {
	case *ast.SelectorExpr:
		w.record(x, false)
		w.expr(x.X)
	case *ast.CallExpr:
		w.call(x)
	case *ast.FuncLit:
		w.funcLit(x, false)
	case *ast.UnaryExpr:
		if x.Op == token.AND {
			if s, ok := x.X.(*ast.SelectorExpr); ok {
				if _, v := fieldOf(w.info, s); v != nil && syncKind(v.Type()) == "" {
					w.writeTarget(s) // address of a plain field escapes: treat as write
					return
				}
			}
		}
		w.expr(x.X)
	case *ast.BinaryExpr:
		w.expr(x.X)
		w.expr(x.Y)
	case *ast.ParenExpr:
		w.expr(x.X)
	case *ast.StarExpr:
		w.expr(x.X)
	case *ast.IndexExpr:
		w.expr(x.X)
		w.expr(x.Index)
	case *ast.IndexListExpr:
		w.expr(x.X)
	case *ast.SliceExpr:
		w.expr(x.X)
		w.expr(x.Low)
		w.expr(x.High)
		w.expr(x.Max)
	case *ast.TypeAssertExpr:
		w.expr(x.X)
	case *ast.CompositeLit:
		for _, el := range x.Elts {
			if kv, ok := el.(*ast.KeyValueExpr); ok {
				w.expr(kv.Value)
			} else {
				w.expr(el)
			}
		}
	case *ast.KeyValueExpr:
		w.expr(x.Key)
		w.expr(x.Value)
	}
}

func (w *walker) funcLit(l *ast.FuncLit, async bool) {
	*w.litN++
	name := fmt.Sprintf("%s#%d", w.parent, *w.litN)
	fi := &fnInfo{name: name, decl: l, pkg: w.fn.pkg, isLit: true, calls: map[string][][]string{}}
	fns[name] = fi
	// a literal runs either later/elsewhere (go, callbacks stored for later) or synchronously; it is
	// analysed with an EMPTY entry lockset (conservative) but keeps the freshness knowledge only when
	// it is not launched asynchronously.
	fr := map[types.Object]bool{}
	if !async {
		for k, v := range w.fresh {
			fr[k] = v
		}
	}
	sub := &walker{fn: fi, info: w.info, fresh: fr, litN: w.litN, parent: w.parent}
	sub.block(l.Body)
}

func (w *walker) call(c *ast.CallExpr) {
	// mutex operations
	if sel, ok := c.Fun.(*ast.SelectorExpr); ok {
		if inner, ok := sel.X.(*ast.SelectorExpr); ok {
			if ln := w.lockName(inner); ln != "" {
				switch sel.Sel.Name {
				case "Lock", "RLock":
					w.held = append(w.held, ln)
				case "Unlock", "RUnlock":
					for i := len(w.held) - 1; i >= 0; i-- {
						if w.held[i] == ln {
							w.held = append(w.held[:i], w.held[i+1:]...)
							break
						}
					}
				}
				w.expr(inner.X)
				return
			}
		}
	}
	// builtin delete(x.f, k): write
	if id, ok := c.Fun.(*ast.Ident); ok && id.Name == "delete" && len(c.Args) == 2 {
		if _, isBuiltin := w.info.Uses[id].(*types.Builtin); isBuiltin {
			if s, ok := c.Args[0].(*ast.SelectorExpr); ok {
				w.record2(s, true, true)
				w.expr(s.X)
			} else {
				w.expr(c.Args[0])
			}
			w.expr(c.Args[1])
			return
		}
	}
	// callee bookkeeping (for crediting caller-held locks to unexported helpers)
	var calleeObj types.Object
	switch f := c.Fun.(type) {
	case *ast.Ident:
		calleeObj = w.info.Uses[f]
	case *ast.SelectorExpr:
		calleeObj = w.info.Uses[f.Sel]
	}
	if fo, ok := calleeObj.(*types.Func); ok {
		if name, ok := objFn[fo.Origin()]; ok {
			w.fn.calls[name] = append(w.fn.calls[name], w.heldCopy())
		}
	}
	w.expr(c.Fun)
	for _, a := range c.Args {
		w.expr(a)
	}
	// an object handed to a call may be retained / shared by the callee: it is no longer unpublished
	for _, a := range c.Args {
		ast.Inspect(a, func(n ast.Node) bool {
			if _, isLit := n.(*ast.FuncLit); isLit {
				return false
			}
			if _, isSel := n.(*ast.SelectorExpr); isSel {
				return false // x.f hands over the VALUE of a field, not the object x itself
			}
			if id, ok := n.(*ast.Ident); ok {
				if obj := w.info.Uses[id]; obj != nil && w.fresh[obj] {
					w.fresh[obj] = false
				}
			}
			return true
		})
	}
}

func (w *walker) stmt(s ast.Stmt) {
	switch x := s.(type) {
	case nil:
	case *ast.BlockStmt:
		w.block(x)
	case *ast.ExprStmt:
		w.expr(x.X)
	case *ast.AssignStmt:
		for _, r := range x.Rhs {
			w.expr(r)
		}
		for i, l := range x.Lhs {
			if id, ok := l.(*ast.Ident); ok {
				// track freshness of locals
				obj := w.info.Defs[id]
				if obj == nil {
					obj = w.info.Uses[id]
				}
				if obj != nil && len(x.Lhs) == len(x.Rhs) {
					w.fresh[obj] = isFreshExpr(w.info, x.Rhs[i])
				} else if obj != nil {
					w.fresh[obj] = false
				}
				continue
			}
			w.writeTarget(l)
		}
	case *ast.IncDecStmt:
		w.writeTarget(x.X)
	case *ast.DeclStmt:
		if gd, ok := x.Decl.(*ast.GenDecl); ok {
			for _, sp := range gd.Specs {
				if vs, ok := sp.(*ast.ValueSpec); ok {
					for i, v := range vs.Values {
						w.expr(v)
						if i < len(vs.Names) {
							if obj := w.info.Defs[vs.Names[i]]; obj != nil {
								w.fresh[obj] = isFreshExpr(w.info, v)
							}
						}
					}
				}
			}
		}
	case *ast.GoStmt:
		// everything reachable from the go statement runs on another goroutine: objects passed to it are published
		if l, ok := x.Call.Fun.(*ast.FuncLit); ok {
			w.funcLit(l, true)
		} else {
			w.expr(x.Call.Fun)
		}
		for _, a := range x.Call.Args {
			w.expr(a)
		}
		for k := range w.fresh {
			w.fresh[k] = false
		}
	case *ast.DeferStmt:
		// deferred Unlock keeps the lock until function end: ignore it; other deferred calls are walked now
		if sel, ok := x.Call.Fun.(*ast.SelectorExpr); ok {
			if inner, ok := sel.X.(*ast.SelectorExpr); ok && w.lockName(inner) != "" && (sel.Sel.Name == "Unlock" || sel.Sel.Name == "RUnlock") {
				return
			}
		}
		if l, ok := x.Call.Fun.(*ast.FuncLit); ok {
			w.funcLit(l, false)
		} else {
			w.call(x.Call)
		}
	case *ast.ReturnStmt:
		for _, r := range x.Results {
			w.expr(r)
		}
	case *ast.IfStmt:
		w.stmt(x.Init)
		w.expr(x.Cond)
		w.block(x.Body)
		w.stmt(x.Else)
	case *ast.ForStmt:
		w.stmt(x.Init)
		w.expr(x.Cond)
		w.stmt(x.Post)
		w.block(x.Body)
	case *ast.RangeStmt:
		w.expr(x.X)
		if x.Key != nil {
			if _, ok := x.Key.(*ast.Ident); !ok {
				w.writeTarget(x.Key)
			}
		}
		if x.Value != nil {
			if _, ok := x.Value.(*ast.Ident); !ok {
				w.writeTarget(x.Value)
			}
		}
		w.block(x.Body)
	case *ast.SwitchStmt:
		w.stmt(x.Init)
		w.expr(x.Tag)
		w.block(x.Body)
	case *ast.TypeSwitchStmt:
		w.stmt(x.Init)
		w.stmt(x.Assign)
		w.block(x.Body)
	case *ast.CaseClause:
		for _, e := range x.List {
			w.expr(e)
		}
		for _, st := range x.Body {
			w.stmt(st)
		}
	case *ast.SelectStmt:
		w.block(x.Body)
	case *ast.CommClause:
		w.stmt(x.Comm)
		for _, st := range x.Body {
			w.stmt(st)
		}
	case *ast.SendStmt:
		w.expr(x.Chan)
		w.expr(x.Value)
	case *ast.LabeledStmt:
		w.stmt(x.Stmt)
	}
}

func (w *walker) block(b *ast.BlockStmt) {
	if b == nil {
		return
	}
	for _, s := range b.List {
		w.stmt(s)
	}
}

func leanStr(s string) string {
	return `"` + strings.ReplaceAll(strings.ReplaceAll(s, `\`, `\\`), `"`, `\"`) + `"`
}

func leanStrs(xs []string) string {
	q := make([]string, len(xs))
	for i, x := range xs {
		q[i] = leanStr(x)
	}
	return "[" + strings.Join(q, ", ") + "]"
}

func main() {
	out := flag.String("out", "", "Lockset.lean path")
	js := flag.String("json", "", "json path")
	flag.StringVar(&repo, "repo", "/repo", "repository root")
	flag.Parse()

	cfg := &packages.Config{Mode: packages.NeedName | packages.NeedFiles | packages.NeedSyntax | packages.NeedTypes |
		packages.NeedTypesInfo | packages.NeedImports | packages.NeedDeps, Dir: repo,
		Env: append(os.Environ(), "GOFLAGS=-mod=mod", "GOPROXY=off", "GOSUMDB=off", "GOTOOLCHAIN=local")}
	pkgs, err := packages.Load(cfg, "./routing", "./grpcadapter", "./reflection", "./webbridge", ".", "./internal/syncset", "./transcoding")
	loadErrs := 0
	if err != nil {
		fmt.Fprintln(os.Stderr, "lockset: load:", err)
		loadErrs++
	}
	sort.Slice(pkgs, func(i, j int) bool { return pkgs[i].PkgPath < pkgs[j].PkgPath })
	for _, p := range pkgs {
		loadErrs += len(p.Errors)
		for _, e := range p.Errors {
			fmt.Fprintln(os.Stderr, "lockset:", e)
		}
		if fset == nil {
			fset = p.Fset
		}
	}
	// pass 1: tracked struct types (declared in the anchor files) and function objects
	for _, p := range pkgs {
		for _, f := range p.Syntax {
			fname, _ := filepath.Rel(repo, p.Fset.Position(f.Pos()).Filename)
			for _, d := range f.Decls {
				switch x := d.(type) {
				case *ast.GenDecl:
					if !anchorFiles[fname] {
						continue
					}
					for _, sp := range x.Specs {
						ts, ok := sp.(*ast.TypeSpec)
						if !ok {
							continue
						}
						if _, ok := ts.Type.(*ast.StructType); !ok {
							continue
						}
						if tn, ok := p.TypesInfo.Defs[ts.Name].(*types.TypeName); ok {
							if n, ok := tn.Type().(*types.Named); ok {
								structs[n] = shortPkg(p.Types) + "." + ts.Name.Name
							}
						}
					}
				case *ast.FuncDecl:
					if x.Body == nil {
						continue
					}
					name := shortPkg(p.Types) + "."
					if x.Recv != nil && len(x.Recv.List) == 1 {
						t := x.Recv.List[0].Type
						if s, ok := t.(*ast.StarExpr); ok {
							t = s.X
						}
						if ix, ok := t.(*ast.IndexExpr); ok {
							t = ix.X
						}
						if id, ok := t.(*ast.Ident); ok {
							name += id.Name + "."
						}
					}
					name += x.Name.Name
					fi := &fnInfo{name: name, decl: x, pkg: p, exported: x.Name.IsExported(), calls: map[string][][]string{}}
					fns[name] = fi
					if fo, ok := p.TypesInfo.Defs[x.Name].(*types.Func); ok {
						objFn[fo] = name
					}
				}
			}
		}
	}
	// pass 2: walk every declared function
	names := []string{}
	for n := range fns {
		names = append(names, n)
	}
	sort.Strings(names)
	for _, n := range names {
		fi := fns[n]
		fd, ok := fi.decl.(*ast.FuncDecl)
		if !ok {
			continue
		}
		cnt := 0
		w := &walker{fn: fi, info: fi.pkg.TypesInfo, fresh: map[types.Object]bool{}, litN: &cnt, parent: n}
		w.block(fd.Body)
	}
	// pass 3: credit caller-held locks to unexported, non-literal functions: entry lockset =
	// intersection over all call sites (exported functions and literals: empty). Iterate to a fixpoint.
	entry := map[string][]string{}
	callers := map[string][]struct {
		from  string
		locks []string
	}{}
	for _, fi := range fns {
		for callee, sets := range fi.calls {
			for _, s := range sets {
				callers[callee] = append(callers[callee], struct {
					from  string
					locks []string
				}{fi.name, s})
			}
		}
	}
	for iter := 0; iter < 10; iter++ {
		changed := false
		for n, fi := range fns {
			if fi.exported || fi.isLit || len(callers[n]) == 0 {
				continue
			}
			var inter map[string]bool
			for _, c := range callers[n] {
				cur := map[string]bool{}
				for _, l := range c.locks {
					cur[l] = true
				}
				for _, l := range entry[c.from] {
					cur[l] = true
				}
				if inter == nil {
					inter = cur
				} else {
					for l := range inter {
						if !cur[l] {
							delete(inter, l)
						}
					}
				}
			}
			var res []string
			for l := range inter {
				res = append(res, l)
			}
			sort.Strings(res)
			if strings.Join(res, ",") != strings.Join(entry[n], ",") {
				entry[n] = res
				changed = true
			}
		}
		if !changed {
			break
		}
	}
	var all []*Access
	names = names[:0]
	for n := range fns {
		names = append(names, n)
	}
	sort.Strings(names)
	for _, n := range names {
		for _, a := range fns[n].accesses {
			base := n
			if i := strings.Index(base, "#"); i >= 0 {
				base = base[:i]
			}
			ls := map[string]bool{}
			for _, l := range a.Locks {
				ls[l] = true
			}
			if !fns[n].isLit {
				for _, l := range entry[n] {
					ls[l] = true
				}
			}
			a.Locks = a.Locks[:0]
			for l := range ls {
				a.Locks = append(a.Locks, l)
			}
			sort.Strings(a.Locks)
			owner := a.Field[:strings.LastIndex(a.Field, ".")]
			a.Own = []string{}
			for _, l := range a.Locks {
				if l[:strings.LastIndex(l, ".")] == owner {
					a.Own = append(a.Own, l)
				}
			}
			all = append(all, a)
		}
	}
	// de-duplicate (field, func, write, locks, fresh)
	seen := map[string]bool{}
	var uniq []*Access
	for _, a := range all {
		k := fmt.Sprintf("%s|%s|%v|%s|%v", a.Field, a.Func, a.Write, strings.Join(a.Locks, ","), a.Fresh)
		if !seen[k] {
			seen[k] = true
			uniq = append(uniq, a)
		}
	}
	sort.SliceStable(uniq, func(i, j int) bool {
		if uniq[i].Field != uniq[j].Field {
			return uniq[i].Field < uniq[j].Field
		}
		return uniq[i].Func < uniq[j].Func
	})
	// keep only fields that are written somewhere outside a fresh (unpublished) object: a field that is
	// only ever written before publication is immutable afterwards and cannot race.
	writtenLive := map[string]bool{}
	for _, a := range uniq {
		if a.Write && !a.Fresh {
			writtenLive[a.Field] = true
		}
	}
	var live []*Access
	immutable := map[string]bool{}
	for _, a := range uniq {
		if writtenLive[a.Field] {
			live = append(live, a)
		} else {
			immutable[a.Field] = true
		}
	}

	// pass 4: package-level slices / maps handed out by reference (stored into a field, a composite literal or a
	// variable without cloning): every object built that way shares ONE backing store, so per-object
	// confinement arguments do not apply to it.
	var aliases []string
	isGlobalRef := func(info *types.Info, e ast.Expr) string {
		var id *ast.Ident
		switch x := e.(type) {
		case *ast.Ident:
			id = x
		case *ast.SelectorExpr:
			id = x.Sel
		default:
			return ""
		}
		v, ok := info.Uses[id].(*types.Var)
		if !ok || v.Pkg() == nil || v.Parent() != v.Pkg().Scope() {
			return ""
		}
		if !strings.HasPrefix(v.Pkg().Path(), "github.com/renbou/grpcbridge") {
			return ""
		}
		switch v.Type().Underlying().(type) {
		case *types.Slice, *types.Map:
			return v.Pkg().Name() + "." + v.Name()
		}
		return ""
	}
	for _, n := range names {
		fi := fns[n]
		if fi.isLit {
			continue
		}
		fd, ok := fi.decl.(*ast.FuncDecl)
		if !ok {
			continue
		}
		info := fi.pkg.TypesInfo
		ast.Inspect(fd.Body, func(nd ast.Node) bool {
			switch x := nd.(type) {
			case *ast.KeyValueExpr:
				if g := isGlobalRef(info, x.Value); g != "" {
					aliases = append(aliases, g+" -> composite literal in "+n)
				}
			case *ast.AssignStmt:
				for _, r := range x.Rhs {
					if g := isGlobalRef(info, r); g != "" {
						aliases = append(aliases, g+" -> assignment in "+n)
					}
				}
			case *ast.ReturnStmt:
				for _, r := range x.Results {
					if g := isGlobalRef(info, r); g != "" {
						aliases = append(aliases, g+" -> returned by "+n)
					}
				}
			}
			return true
		})
	}
	sort.Strings(aliases)

	// ---- appends that can alias: `x = append(y, …)` where y is a field, a package-level variable or a parameter (a slice
	// somebody else also holds), the result is stored somewhere OTHER than y itself, and y's capacity is not clipped
	// (`y[:n:n]`, slices.Clip, slices.Clone, slices.Concat): with spare capacity in y every such result shares y's backing
	// array with y and with each other (D34: bridgelog wrappedLogger.With; seeded C18-m6: AdaptedClientPool.New).
	var appends []string
	{
		cfgAll := &packages.Config{Mode: packages.NeedName | packages.NeedFiles | packages.NeedSyntax | packages.NeedTypes |
			packages.NeedTypesInfo | packages.NeedImports, Dir: repo,
			Env: append(os.Environ(), "GOFLAGS=-mod=mod", "GOPROXY=off", "GOSUMDB=off", "GOTOOLCHAIN=local")}
		all, err := packages.Load(cfgAll, "./...")
		if err != nil {
			fmt.Fprintln(os.Stderr, "lockset: load ./...:", err)
			loadErrs++
		}
		sort.Slice(all, func(i, j int) bool { return all[i].PkgPath < all[j].PkgPath })
		txt := func(fs *token.FileSet, e ast.Node) string {
			var b strings.Builder
			_ = printer.Fprint(&b, fs, e)
			return strings.Join(strings.Fields(b.String()), " ")
		}
		for _, p := range all {
			if strings.Contains(p.PkgPath, "/internal/bench") || strings.Contains(p.PkgPath, "/internal/bridgetest") ||
				strings.Contains(p.PkgPath, "/examples/") || strings.Contains(p.PkgPath, "/verifx") || strings.Contains(p.PkgPath, "/internal/verifhook") {
				continue
			}
			for _, e := range p.Errors {
				fmt.Fprintln(os.Stderr, "lockset:", e)
				loadErrs++
			}
			info := p.TypesInfo
			for _, file := range p.Syntax {
				fname := p.Fset.Position(file.Pos()).Filename
				if strings.HasSuffix(fname, "_test.go") || strings.Contains(fname, "verif_export") || strings.HasSuffix(fname, ".pb.go") || strings.HasSuffix(fname, ".pb.gw.go") {
					continue
				}
				for _, d := range file.Decls {
					fd, ok := d.(*ast.FuncDecl)
					if !ok || fd.Body == nil {
						continue
					}
					fname := p.Types.Name() + "." + fd.Name.Name
					if fd.Recv != nil && len(fd.Recv.List) == 1 {
						fname = p.Types.Name() + "." + strings.TrimPrefix(txt(p.Fset, fd.Recv.List[0].Type), "*") + "." + fd.Name.Name
					}
					shared := func(e ast.Expr) bool { // does somebody else (possibly) hold this slice?
						switch x := e.(type) {
						case *ast.SelectorExpr:
							if sel, ok := info.Selections[x]; ok && sel.Kind() == types.FieldVal {
								return true
							}
							if v, ok := info.Uses[x.Sel].(*types.Var); ok && v.Pkg() != nil && v.Parent() == v.Pkg().Scope() {
								return true
							}
							return false
						case *ast.Ident:
							v, ok := info.Uses[x].(*types.Var)
							if !ok || v.Pkg() == nil {
								return false
							}
							if v.Parent() == v.Pkg().Scope() {
								return true // package-level variable
							}
							// parameters (incl. receivers) of the enclosing function or of a literal inside it
							param := false
							ast.Inspect(fd, func(n ast.Node) bool {
								var ft *ast.FuncType
								switch y := n.(type) {
								case *ast.FuncDecl:
									ft = y.Type
								case *ast.FuncLit:
									ft = y.Type
								}
								if ft != nil && ft.Params != nil {
									for _, fl := range ft.Params.List {
										for _, nm := range fl.Names {
											if info.Defs[nm] == v {
												param = true
											}
										}
									}
								}
								return !param
							})
							return param
						case *ast.IndexExpr, *ast.StarExpr:
							return true
						case *ast.ParenExpr:
							return false
						}
						return false
					}
					var visit func(n ast.Node, lhs string)
					check := func(c *ast.CallExpr, lhs string) {
						id, ok := c.Fun.(*ast.Ident)
						if !ok || id.Name != "append" || len(c.Args) == 0 {
							return
						}
						if _, isBuiltin := info.Uses[id].(*types.Builtin); !isBuiltin {
							return
						}
						a0 := c.Args[0]
						if se, ok := a0.(*ast.SliceExpr); ok && se.Slice3 {
							return
						}
						if !shared(a0) {
							return
						}
						if lhs == txt(p.Fset, a0) {
							return // self-append: x = append(x, …)
						}
						appends = append(appends, fmt.Sprintf("%s: %s = append(%s, …)", fname, lhs, txt(p.Fset, a0)))
					}
					visit = func(n ast.Node, _ string) {
						ast.Inspect(n, func(nd ast.Node) bool {
							switch x := nd.(type) {
							case *ast.AssignStmt:
								for i, r := range x.Rhs {
									if c, ok := r.(*ast.CallExpr); ok {
										l := "_"
										if len(x.Lhs) == len(x.Rhs) {
											l = txt(p.Fset, x.Lhs[i])
										}
										check(c, l)
									}
								}
							case *ast.ValueSpec:
								for i, r := range x.Values {
									if c, ok := r.(*ast.CallExpr); ok && i < len(x.Names) {
										check(c, x.Names[i].Name)
									}
								}
							case *ast.ReturnStmt:
								for _, r := range x.Results {
									if c, ok := r.(*ast.CallExpr); ok {
										check(c, "return")
									}
								}
							case *ast.KeyValueExpr:
								if c, ok := x.Value.(*ast.CallExpr); ok {
									check(c, "field "+txt(p.Fset, x.Key))
								}
							case *ast.CallExpr:
								for _, a := range x.Args {
									if c, ok := a.(*ast.CallExpr); ok {
										check(c, "argument of "+txt(p.Fset, x.Fun))
									}
								}
							}
							return true
						})
					}
					visit(fd.Body, "")
				}
			}
		}
		sort.Strings(appends)
	}

	var sb strings.Builder
	sb.WriteString("/- REGENERATED on every run by /verif/extract/lockset from the grpcbridge sources. Do not edit. -/\n")
	sb.WriteString("namespace GB.Generated\n\n")
	sb.WriteString("structure Access where\n  field : String\n  fn : String\n  write : Bool\n  locks : List String\n  own : List String\n  fresh : Bool\nderiving Repr, DecidableEq\n\n")
	sb.WriteString(fmt.Sprintf("/-- type-check / load errors while extracting (must be 0) -/\ndef locksetLoadErrors : Nat := %d\n\n", loadErrs))
	sb.WriteString("/-- accesses to plain (non-synchronised) fields that are written after publication somewhere -/\n")
	sb.WriteString("def accesses : List Access := [\n")
	for i, a := range live {
		sep := ","
		if i == len(live)-1 {
			sep = ""
		}
		sb.WriteString(fmt.Sprintf("  ⟨%s, %s, %v, %s, %s, %v⟩%s -- %s\n", leanStr(a.Field), leanStr(a.Func), a.Write, leanStrs(a.Locks), leanStrs(a.Own), a.Fresh, sep, a.Pos))
	}
	sb.WriteString("]\n\n")
	var sf []string
	for f := range syncFld {
		sf = append(sf, f)
	}
	sort.Strings(sf)
	sb.WriteString("/-- fields whose type is a synchronisation primitive (every access is a method call on it) -/\n")
	sb.WriteString("def syncFields : List (String × String) := [")
	for i, f := range sf {
		if i > 0 {
			sb.WriteString(", ")
		}
		sb.WriteString(fmt.Sprintf("(%s, %s)", leanStr(f), leanStr(syncFld[f])))
	}
	sb.WriteString("]\n\n")
	var im []string
	for f := range immutable {
		im = append(im, f)
	}
	sort.Strings(im)
	sb.WriteString("/-- plain fields never written after publication (immutable once shared) -/\n")
	sb.WriteString("def immutableFields : List String := " + leanStrs(im) + "\n\n")
	sb.WriteString("/-- package-level slices/maps handed out by reference (shared backing store between objects) -/\n")
	sb.WriteString("def globalAliases : List String := " + leanStrs(aliases) + "\n\n")
	sb.WriteString("/-- `x = append(y, …)` with y a field / package variable / parameter, x ≠ y and y's capacity not clipped: the result may\n    share y's backing array with y and with other results (all non-test packages of the repository) -/\n")
	sb.WriteString("def aliasingAppends : List String := " + leanStrs(appends) + "\n\n")
	sb.WriteString("end GB.Generated\n")
	if *out != "" {
		old, _ := os.ReadFile(*out)
		if string(old) != sb.String() {
			if err := os.WriteFile(*out, []byte(sb.String()), 0o644); err != nil {
				fmt.Fprintln(os.Stderr, err)
				os.Exit(1)
			}
		}
	}
	if *js != "" {
		b, _ := json.MarshalIndent(map[string]any{"accesses": live, "syncFields": syncFld, "immutableFields": im, "loadErrors": loadErrs}, "", " ")
		_ = os.WriteFile(*js, b, 0o644)
	}
}
