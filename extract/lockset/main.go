// Command lockset regenerates lean/GB/Generated/Lockset.lean: the table of accesses to fields
// of the shared structs declared in the files property C18 is anchored in, each with the
// mutexes held at the access (intra-procedural lock tracking + locks credited from all call
// sites of unexported helpers), whether the object is still unpublished (fresh local built from
// a composite literal / new in the same function), and read/write kind. Fields whose type is
// itself a synchronisation primitive (sync.Mutex, sync/atomic types, sync.Map, sync.WaitGroup,
// sync.Once) are listed separately as `syncFields`: every access to them is a method call of
// that primitive.
//
//	lockset -repo /repo -out /verif/lean/GB/Generated/Lockset.lean -json /verif/.work/lockset.json
package main

import (
	"encoding/json"
	"flag"
	"fmt"
	"go/ast"
	"go/printer"
	"go/token"
	"go/types"
	"os"
	"path/filepath"
	"sort"
	"strings"

	"golang.org/x/tools/go/packages"
)

var anchorFiles = map[string]bool{
	"routing/pattern_router.go": true, "routing/service_router.go": true,
	"grpcadapter/pool.go": true, "grpcadapter/conn.go": true, "grpcadapter/stream.go": true,
	"reflection/resolver.go": true, "reflection.go": true,
	"webbridge/http.go": true, "webbridge/websocket.go": true, "webbridge/grpcweb.go": true,
	"webbridge/webbridge.go": true, "internal/syncset/syncset.go": true,
	// shared by all requests of a bridge (one transcoder / marshaler per WebBridge): added after seeded change C18-m7
	"transcoding/http.go": true, "transcoding/json.go": true, "transcoding/transcoding.go": true,
	"grpcadapter/forwarder.go": true, "grpcadapter/metadata.go": true, "bridge.go": true, "proxy.go": true, "forwarder.go": true,
}

type Access struct {
	Field string   `json:"field"` // pkg.Struct.field
	Func  string   `json:"func"`  // pkg.Recv.Method or pkg.Func, "#n" suffix for the n-th function literal inside
	Write bool     `json:"write"`
	Locks []string `json:"locks"` // pkg.Struct.mutexField held
	Own   []string `json:"own"`   // those of Locks that are fields of the same struct as Field (same object ⇒ same mutex instance)
	Fresh bool     `json:"fresh"` // object not yet published (built in this function)
	Pos   string   `json:"pos"`
	// synchronisation operations (other than mutexes) that DOMINATE the access in its function (executed before it on every
	// path: same or enclosing block, earlier) / that FOLLOW it (same or enclosing block, later, no return/break/continue in
	// between; deferred operations included); for unexported helpers one row per call site with the call site's own
	// pre/post added (one level).
	Pre  []string `json:"pre"`
	Post []string `json:"post"`
	// goroutine roots the function is reachable from: itself when exported / a literal / never called directly,
	// "go1:f" when started by `go x.f()` on an object that is still unpublished at the go statement (one goroutine per
	// object), "go:f" for any other go statement; unexported helpers inherit the roots of their callers.
	Roots []string `json:"roots"`

	seq     int
	path    []int
	viaRecv bool
}

// opEv is one synchronisation operation (or an exit: return / break / continue / goto / panic) inside a function body.
type opEv struct {
	name     string
	seq      int
	path     []int
	deferred bool
}

type callSite struct {
	caller    *fnInfo
	callee    string
	seq       int
	path      []int
	recvFresh bool
	isGo      bool
}

type fnInfo struct {
	name     string
	decl     ast.Node // *ast.FuncDecl or *ast.FuncLit
	pkg      *packages.Package
	exported bool
	isLit    bool
	accesses []*Access
	// call sites inside this function: callee name -> locksets held at each call
	calls map[string][][]string
	ops      []*opEv
	exits    []*opEv
	sites    []*callSite
	entryOps []string // operations every execution of a literal has behind it ("once", "load:<atomic field it is published through>")
	recvObj  types.Object
	goLit    bool
}

var (
	repo    string
	fset    *token.FileSet
	structs = map[*types.Named]string{} // tracked struct types -> qualified name
	fns     = map[string]*fnInfo{}
	objFn   = map[types.Object]string{} // *types.Func -> fn name
	syncFld = map[string]string{}       // field -> primitive kind
	// struct types whose values are stored into an atomic.Pointer / atomic.Value / sync.Map (read without a lock afterwards)
	publishedTypes = map[string]bool{}
	// `e[:0]` on a slice somebody else may hold (field, element, parameter, package variable): backing-array reuse
	reuses []string
)

func rel(p token.Pos) string {
	pos := fset.Position(p)
	r, _ := filepath.Rel(repo, pos.Filename)
	return fmt.Sprintf("%s:%d", r, pos.Line)
}

func shortPkg(p *types.Package) string {
	if p == nil {
		return ""
	}
	return p.Name()
}

func syncKind(t types.Type) string {
	if p, ok := t.(*types.Pointer); ok {
		t = p.Elem()
	}
	n, ok := t.(*types.Named)
	if !ok {
		return ""
	}
	obj := n.Obj()
	if obj.Pkg() == nil {
		return ""
	}
	switch obj.Pkg().Path() {
	case "sync":
		switch obj.Name() {
		case "Mutex", "RWMutex":
			return "mutex"
		case "Map":
			return "syncmap"
		case "WaitGroup", "Once":
			return "syncsafe"
		}
	case "sync/atomic":
		return "atomic"
	}
	return ""
}

func namedOf(t types.Type) *types.Named {
	for {
		switch x := t.(type) {
		case *types.Pointer:
			t = x.Elem()
		case *types.Named:
			return x
		default:
			return nil
		}
	}
}

// fieldOf resolves a selector to a tracked struct field; returns qualified field name and the field var.
func fieldOf(info *types.Info, sel *ast.SelectorExpr) (string, *types.Var) {
	s, ok := info.Selections[sel]
	if !ok || s.Kind() != types.FieldVal {
		return "", nil
	}
	v, ok := s.Obj().(*types.Var)
	if !ok {
		return "", nil
	}
	recv := namedOf(s.Recv())
	if recv == nil {
		return "", nil
	}
	// embedded promotion: find the struct that really declares the field
	owner := recv
	if len(s.Index()) > 1 {
		t := recv.Underlying()
		for _, i := range s.Index()[:len(s.Index())-1] {
			st, ok := t.(*types.Struct)
			if !ok {
				return "", nil
			}
			ft := st.Field(i).Type()
			if n := namedOf(ft); n != nil {
				owner = n
				t = n.Underlying()
			} else {
				return "", nil
			}
		}
	}
	origin := owner.Origin()
	q, ok := structs[origin]
	if !ok {
		return "", nil
	}
	return q + "." + v.Name(), v
}

func baseIdent(e ast.Expr) *ast.Ident {
	for {
		switch x := e.(type) {
		case *ast.Ident:
			return x
		case *ast.SelectorExpr:
			e = x.X
		case *ast.StarExpr:
			e = x.X
		case *ast.ParenExpr:
			e = x.X
		case *ast.IndexExpr:
			e = x.X
		case *ast.TypeAssertExpr:
			return nil // the object comes out of an interface: not fresh
		default:
			return nil
		}
	}
}

func isFreshExpr(info *types.Info, e ast.Expr) bool {
	switch x := e.(type) {
	case *ast.UnaryExpr:
		if x.Op == token.AND {
			_, ok := x.X.(*ast.CompositeLit)
			return ok
		}
	case *ast.CompositeLit:
		return true
	case *ast.CallExpr:
		if id, ok := x.Fun.(*ast.Ident); ok && id.Name == "new" {
			if _, isBuiltin := info.Uses[id].(*types.Builtin); isBuiltin {
				return true
			}
		}
	}
	return false
}

type walker struct {
	fn     *fnInfo
	info   *types.Info
	held   []string              // locks currently held (deferred unlocks keep them)
	fresh  map[types.Object]bool // local variables holding an unpublished object
	litN   *int
	parent string
	// happens-before bookkeeping
	seq       int
	path      []int
	regionN   int
	inDefer   bool
	nextEntry []string                 // entry operations for the next function literal (sync.OnceFunc argument)
	lastLit   *fnInfo                  // the literal walked last
	litVar    map[types.Object]*fnInfo // local variable -> the (once-wrapped) literal it holds
	// locals that hold a slice taken from somewhere shared (`old := x.f[k]`, `for _, old := range param`)
	sharedLocal map[types.Object]bool
}

func (w *walker) markShared(id *ast.Ident, from ast.Expr, elem bool) {
	if id == nil || id.Name == "_" {
		return
	}
	obj := w.info.Defs[id]
	if obj == nil {
		obj = w.info.Uses[id]
	}
	if obj == nil {
		return
	}
	if _, isSlice := obj.Type().Underlying().(*types.Slice); !isSlice {
		return
	}
	if w.sharedLocal == nil {
		w.sharedLocal = map[types.Object]bool{}
	}
	if elem { // range value / element of `from`
		if w.sharedSlice(from) {
			w.sharedLocal[obj] = true
		}
		return
	}
	switch from.(type) {
	case *ast.SelectorExpr, *ast.IndexExpr, *ast.Ident, *ast.StarExpr, *ast.ParenExpr:
		w.sharedLocal[obj] = w.sharedSlice(from)
	default:
		w.sharedLocal[obj] = false
	}
}

func (w *walker) pathCopy() []int { return append([]int{}, w.path...) }

func (w *walker) op(name string) {
	w.seq++
	w.fn.ops = append(w.fn.ops, &opEv{name: name, seq: w.seq, path: w.pathCopy(), deferred: w.inDefer})
}

func (w *walker) exit() {
	w.seq++
	w.fn.exits = append(w.fn.exits, &opEv{name: "exit", seq: w.seq, path: w.pathCopy()})
}

// region runs f inside a new conditional region (if/else body, loop body, case clause, select clause)
func (w *walker) region(f func()) {
	w.regionN++
	old := w.path
	w.path = append(w.pathCopy(), w.regionN)
	f()
	w.path = old
}

// chanName names the channel / waitgroup / atomic an operation works on: a tracked field by its qualified name,
// a local by "$name", ctx.Done() by "ctx".
func (w *walker) syncName(e ast.Expr) string {
	switch x := e.(type) {
	case *ast.ParenExpr:
		return w.syncName(x.X)
	case *ast.SelectorExpr:
		if q, v := fieldOf(w.info, x); v != nil {
			return q
		}
		return "$" + x.Sel.Name
	case *ast.Ident:
		return "$" + x.Name
	case *ast.CallExpr:
		if s, ok := x.Fun.(*ast.SelectorExpr); ok && s.Sel.Name == "Done" {
			return "ctx"
		}
		if s, ok := x.Fun.(*ast.SelectorExpr); ok {
			return "$" + s.Sel.Name + "()"
		}
	case *ast.UnaryExpr:
		return w.syncName(x.X)
	}
	return "$?"
}

func (w *walker) lockName(sel *ast.SelectorExpr) string {
	// sel is x.mu in x.mu.Lock(); name it by owning struct + field
	q, v := fieldOf(w.info, sel)
	if v == nil || syncKind(v.Type()) != "mutex" {
		return ""
	}
	return q
}

func (w *walker) heldCopy() []string {
	c := append([]string{}, w.held...)
	sort.Strings(c)
	return c
}

// privateCopy reports whether the object the selector reads from is a struct VALUE held in a local
// variable, parameter or value receiver: a private copy no other goroutine can reach (only writes
// THROUGH a map/slice held in such a copy can touch shared memory; those pass elemWrite = true).
func (w *walker) privateCopy(sel *ast.SelectorExpr) bool {
	id, ok := sel.X.(*ast.Ident)
	if !ok {
		return false
	}
	obj, ok := w.info.Uses[id].(*types.Var)
	if !ok || obj.IsField() || obj.Pkg() == nil || obj.Parent() == obj.Pkg().Scope() {
		return false
	}
	if _, isPtr := obj.Type().(*types.Pointer); isPtr {
		return false
	}
	_, isStruct := obj.Type().Underlying().(*types.Struct)
	return isStruct
}

// sharedSlice: may somebody else hold the slice e evaluates to? (a field, an element of one, a parameter, a package variable;
// a local is shared when it is not defined in this function body, i.e. captured by a literal)
func (w *walker) sharedSlice(e ast.Expr) bool {
	switch x := e.(type) {
	case *ast.ParenExpr:
		return w.sharedSlice(x.X)
	case *ast.SelectorExpr:
		if sel, ok := w.info.Selections[x]; ok && sel.Kind() == types.FieldVal {
			return true
		}
		if v, ok := w.info.Uses[x.Sel].(*types.Var); ok && v.Pkg() != nil && v.Parent() == v.Pkg().Scope() {
			return true
		}
		return false
	case *ast.IndexExpr:
		return true
	case *ast.StarExpr:
		return true
	case *ast.Ident:
		v, ok := w.info.Uses[x].(*types.Var)
		if !ok || v.Pkg() == nil {
			return false
		}
		if v.Parent() == v.Pkg().Scope() || w.sharedLocal[v] {
			return true
		}
		var body ast.Node
		var ft *ast.FuncType
		switch d := w.fn.decl.(type) {
		case *ast.FuncDecl:
			body, ft = d.Body, d.Type
		case *ast.FuncLit:
			body, ft = d.Body, d.Type
		}
		if ft != nil && ft.Params != nil {
			for _, fl := range ft.Params.List {
				for _, nm := range fl.Names {
					if w.info.Defs[nm] == v {
						return true
					}
				}
			}
		}
		if body != nil && (v.Pos() < body.Pos() || v.Pos() > body.End()) {
			// captured from an enclosing function: shared when this literal runs on another goroutine (`go func`) or is
			// handed out to be called later (once-wrapped / published through an atomic); a literal that is simply called
			// back synchronously works on its caller's locals
			return w.fn.goLit || len(w.fn.entryOps) > 0
		}
	}
	return false
}

func (w *walker) record(sel *ast.SelectorExpr, write bool) { w.record2(sel, write, false) }

func (w *walker) record2(sel *ast.SelectorExpr, write bool, elemWrite bool) {
	q, v := fieldOf(w.info, sel)
	if v == nil {
		return
	}
	if k := syncKind(v.Type()); k != "" {
		syncFld[q] = k
		return
	}
	if !elemWrite && w.privateCopy(sel) {
		return
	}
	fresh := false
	if id := baseIdent(sel.X); id != nil {
		if obj := w.info.Uses[id]; obj != nil && w.fresh[obj] {
			fresh = true
		}
	}
	viaRecv := false
	if id := baseIdent(sel.X); id != nil && w.fn.recvObj != nil && w.info.Uses[id] == w.fn.recvObj {
		viaRecv = true
	}
	w.seq++
	w.fn.accesses = append(w.fn.accesses, &Access{Field: q, Func: w.fn.name, Write: write, Locks: w.heldCopy(), Fresh: fresh, Pos: rel(sel.Pos()),
		seq: w.seq, path: w.pathCopy(), viaRecv: viaRecv})
}

func (w *walker) writeTarget(e ast.Expr) {
	// e is an assignment target / inc-dec operand / &operand / delete first arg
	switch x := e.(type) {
	case *ast.SelectorExpr:
		w.record(x, true)
		w.expr(x.X)
	case *ast.IndexExpr: // x.f[k] = v mutates the map/slice held in f
		if s, ok := x.X.(*ast.SelectorExpr); ok {
			w.record2(s, true, true)
			w.expr(s.X)
		} else {
			w.expr(x.X)
		}
		w.expr(x.Index)
	case *ast.StarExpr:
		w.expr(x.X)
	case *ast.ParenExpr:
		w.writeTarget(x.X)
	default:
		w.expr(e)
	}
}

func (w *walker) expr(e ast.Expr) {
	if e == nil {
		return
	}
	switch x := e.(type) {
	case *ast.SelectorExpr:
		w.record(x, false)
		w.expr(x.X)
	case *ast.CallExpr:
		w.call(x)
	case *ast.FuncLit:
		w.funcLit(x, false)
	case *ast.UnaryExpr:
		if x.Op == token.ARROW {
			w.expr(x.X)
			if n := w.syncName(x.X); n == "ctx" {
				w.op("ctxdone")
			} else {
				w.op("recv:" + n)
			}
			return
		}
		if x.Op == token.AND {
			if s, ok := x.X.(*ast.SelectorExpr); ok {
				if _, v := fieldOf(w.info, s); v != nil && syncKind(v.Type()) == "" {
					w.writeTarget(s) // address of a plain field escapes: treat as write
					return
				}
			}
		}
		w.expr(x.X)
	case *ast.BinaryExpr:
		w.expr(x.X)
		w.expr(x.Y)
	case *ast.ParenExpr:
		w.expr(x.X)
	case *ast.StarExpr:
		w.expr(x.X)
	case *ast.IndexExpr:
		w.expr(x.X)
		w.expr(x.Index)
	case *ast.IndexListExpr:
		w.expr(x.X)
	case *ast.SliceExpr:
		if x.Low == nil && x.High != nil && !x.Slice3 {
			if bl, ok := x.High.(*ast.BasicLit); ok && bl.Value == "0" && w.sharedSlice(x.X) {
				var b strings.Builder
				_ = printer.Fprint(&b, fset, x)
				reuses = append(reuses, fmt.Sprintf("%s: %s", w.fn.name, strings.Join(strings.Fields(b.String()), " ")))
			}
		}
		w.expr(x.X)
		w.expr(x.Low)
		w.expr(x.High)
		w.expr(x.Max)
	case *ast.TypeAssertExpr:
		w.expr(x.X)
	case *ast.CompositeLit:
		for _, el := range x.Elts {
			if kv, ok := el.(*ast.KeyValueExpr); ok {
				w.expr(kv.Value)
			} else {
				w.expr(el)
			}
		}
	case *ast.KeyValueExpr:
		w.expr(x.Key)
		w.expr(x.Value)
	}
}

func (w *walker) funcLit(l *ast.FuncLit, async bool) {
	*w.litN++
	name := fmt.Sprintf("%s#%d", w.parent, *w.litN)
	fi := &fnInfo{name: name, decl: l, pkg: w.fn.pkg, isLit: true, calls: map[string][][]string{}, entryOps: w.nextEntry, goLit: async}
	w.nextEntry = nil
	w.lastLit = fi
	fns[name] = fi
	// a literal runs either later/elsewhere (go, callbacks stored for later) or synchronously; it is
	// analysed with an EMPTY entry lockset (conservative) but keeps the freshness knowledge only when
	// it is not launched asynchronously.
	fr := map[types.Object]bool{}
	if !async {
		for k, v := range w.fresh {
			fr[k] = v
		}
	}
	sub := &walker{fn: fi, info: w.info, fresh: fr, litN: w.litN, parent: w.parent, litVar: map[types.Object]*fnInfo{}}
	sub.block(l.Body)
}

func (w *walker) call(c *ast.CallExpr) {
	// mutex operations
	if sel, ok := c.Fun.(*ast.SelectorExpr); ok {
		if inner, ok := sel.X.(*ast.SelectorExpr); ok {
			if ln := w.lockName(inner); ln != "" {
				switch sel.Sel.Name {
				case "Lock", "RLock":
					w.held = append(w.held, ln)
				case "Unlock", "RUnlock":
					for i := len(w.held) - 1; i >= 0; i-- {
						if w.held[i] == ln {
							w.held = append(w.held[:i], w.held[i+1:]...)
							break
						}
					}
				}
				w.expr(inner.X)
				return
			}
		}
	}
	// builtin delete(x.f, k): write
	if id, ok := c.Fun.(*ast.Ident); ok && id.Name == "delete" && len(c.Args) == 2 {
		if _, isBuiltin := w.info.Uses[id].(*types.Builtin); isBuiltin {
			if s, ok := c.Args[0].(*ast.SelectorExpr); ok {
				w.record2(s, true, true)
				w.expr(s.X)
			} else {
				w.expr(c.Args[0])
			}
			w.expr(c.Args[1])
			return
		}
	}
	// builtin copy(x.f, …) / clear(x.f): element-level write into the slice / map held in f
	if id, ok := c.Fun.(*ast.Ident); ok && (id.Name == "copy" || id.Name == "clear") && len(c.Args) >= 1 {
		if _, isBuiltin := w.info.Uses[id].(*types.Builtin); isBuiltin {
			dst := c.Args[0]
			if se, ok := dst.(*ast.SliceExpr); ok {
				dst = se.X
			}
			if s, ok := dst.(*ast.SelectorExpr); ok {
				w.record2(s, true, true)
			} else if w.sharedSlice(dst) {
				var b strings.Builder
				_ = printer.Fprint(&b, fset, c)
				reuses = append(reuses, fmt.Sprintf("%s: %s", w.fn.name, strings.Join(strings.Fields(b.String()), " ")))
			}
		}
	}
	// callee bookkeeping (for crediting caller-held locks to unexported helpers)
	var calleeObj types.Object
	switch f := c.Fun.(type) {
	case *ast.Ident:
		calleeObj = w.info.Uses[f]
	case *ast.SelectorExpr:
		calleeObj = w.info.Uses[f.Sel]
	}
	calleeName := ""
	if fo, ok := calleeObj.(*types.Func); ok {
		if name, ok := objFn[fo.Origin()]; ok {
			w.fn.calls[name] = append(w.fn.calls[name], w.heldCopy())
			calleeName = name
		}
		if fo.Pkg() != nil && fo.Pkg().Path() == "sync" && (fo.Name() == "OnceFunc" || fo.Name() == "OnceValue" || fo.Name() == "OnceValues") {
			w.nextEntry = []string{"once"}
		}
	}
	w.expr(c.Fun)
	for _, a := range c.Args {
		w.expr(a)
	}
	w.nextEntry = nil
	w.syncOp(c, calleeObj)
	if calleeName != "" {
		w.seq++
		cs := &callSite{caller: w.fn, callee: calleeName, seq: w.seq, path: w.pathCopy()}
		if sel, ok := c.Fun.(*ast.SelectorExpr); ok {
			if id := baseIdent(sel.X); id != nil {
				if obj := w.info.Uses[id]; obj != nil && w.fresh[obj] {
					cs.recvFresh = true
				}
			}
		}
		w.fn.sites = append(w.fn.sites, cs)
	}
	// an object handed to a call may be retained / shared by the callee: it is no longer unpublished
	for _, a := range c.Args {
		ast.Inspect(a, func(n ast.Node) bool {
			if _, isLit := n.(*ast.FuncLit); isLit {
				return false
			}
			if _, isSel := n.(*ast.SelectorExpr); isSel {
				return false // x.f hands over the VALUE of a field, not the object x itself
			}
			if id, ok := n.(*ast.Ident); ok {
				if obj := w.info.Uses[id]; obj != nil && w.fresh[obj] {
					w.fresh[obj] = false
				}
			}
			return true
		})
	}
}

// syncOp records the synchronisation operation a call performs, if any: close(ch), atomic / sync.Map Store/Load/Swap/
// CompareAndSwap/Delete on a field, WaitGroup Wait/Done, a call of a method named Forward (returns after its pumps: wg.Wait),
// panic (an exit).
func (w *walker) syncOp(c *ast.CallExpr, calleeObj types.Object) {
	if id, ok := c.Fun.(*ast.Ident); ok {
		if _, isBuiltin := w.info.Uses[id].(*types.Builtin); isBuiltin {
			switch id.Name {
			case "close":
				if len(c.Args) == 1 {
					w.op("close:" + w.syncName(c.Args[0]))
				}
			case "panic":
				w.exit()
			}
		}
		return
	}
	sel, ok := c.Fun.(*ast.SelectorExpr)
	if !ok {
		return
	}
	if sel.Sel.Name == "Forward" {
		w.op("call:Forward")
		return
	}
	tv, ok := w.info.Types[sel.X]
	if !ok {
		return
	}
	kind := ""
	if n := namedOf(tv.Type); n != nil && n.Obj().Pkg() != nil {
		switch n.Obj().Pkg().Path() {
		case "sync":
			kind = n.Obj().Name()
		case "sync/atomic":
			kind = "atomic"
		}
	}
	name := w.syncName(sel.X)
	switch kind {
	case "WaitGroup":
		switch sel.Sel.Name {
		case "Wait":
			w.op("wait:" + name)
		case "Done":
			w.op("done:" + name)
		}
	case "atomic", "Map":
		switch sel.Sel.Name {
		case "Store", "Delete":
			w.op("store:" + name)
			// the type of the stored value is PUBLISHED to lock-free readers
			if sel.Sel.Name == "Store" && len(c.Args) > 0 {
				if atv, ok := w.info.Types[c.Args[len(c.Args)-1]]; ok {
					if n := namedOf(atv.Type); n != nil {
						if q, ok := structs[n.Origin()]; ok {
							publishedTypes[q] = true
						}
					}
				}
			}
			// a once-wrapped literal published through this atomic can only be called by somebody who loaded it
			if len(c.Args) == 1 {
				if u, ok := c.Args[0].(*ast.UnaryExpr); ok && u.Op == token.AND {
					if id, ok := u.X.(*ast.Ident); ok {
						if lit := w.litVar[w.info.Uses[id]]; lit != nil {
							lit.entryOps = append(lit.entryOps, "load:"+name)
						}
					}
				}
			}
		case "Load", "Range":
			w.op("load:" + name)
		case "Swap", "CompareAndSwap", "LoadOrStore", "LoadAndDelete", "CompareAndDelete", "Add", "And", "Or":
			w.op("load:" + name)
			w.op("store:" + name)
		}
	}
}

func (w *walker) stmt(s ast.Stmt) {
	switch x := s.(type) {
	case nil:
	case *ast.BlockStmt:
		w.block(x)
	case *ast.ExprStmt:
		w.expr(x.X)
	case *ast.AssignStmt:
		lits := make([]*fnInfo, len(x.Rhs))
		for i, r := range x.Rhs {
			w.lastLit = nil
			w.expr(r)
			if ce, ok := r.(*ast.CallExpr); ok && len(ce.Args) == 1 && w.lastLit != nil && len(w.lastLit.entryOps) > 0 {
				if _, isLit := ce.Args[0].(*ast.FuncLit); isLit {
					lits[i] = w.lastLit
				}
			}
		}
		for i, l := range x.Lhs {
			if id, ok := l.(*ast.Ident); ok {
				// track freshness of locals
				obj := w.info.Defs[id]
				if obj == nil {
					obj = w.info.Uses[id]
				}
				if obj != nil && len(x.Lhs) == len(x.Rhs) && lits[i] != nil {
					w.litVar[obj] = lits[i]
				}
				if len(x.Lhs) == len(x.Rhs) {
					w.markShared(id, x.Rhs[i], false)
				} else if len(x.Rhs) == 1 && i == 0 { // v, ok := m[k]
					w.markShared(id, x.Rhs[0], false)
				}
				if obj != nil && len(x.Lhs) == len(x.Rhs) {
					w.fresh[obj] = isFreshExpr(w.info, x.Rhs[i])
				} else if obj != nil {
					w.fresh[obj] = false
				}
				continue
			}
			w.writeTarget(l)
		}
	case *ast.IncDecStmt:
		w.writeTarget(x.X)
	case *ast.DeclStmt:
		if gd, ok := x.Decl.(*ast.GenDecl); ok {
			for _, sp := range gd.Specs {
				if vs, ok := sp.(*ast.ValueSpec); ok {
					for i, v := range vs.Values {
						w.expr(v)
						if i < len(vs.Names) {
							if obj := w.info.Defs[vs.Names[i]]; obj != nil {
								w.fresh[obj] = isFreshExpr(w.info, v)
							}
						}
					}
				}
			}
		}
	case *ast.GoStmt:
		// everything reachable from the go statement runs on another goroutine: objects passed to it are published
		if l, ok := x.Call.Fun.(*ast.FuncLit); ok {
			w.funcLit(l, true)
			w.op("go:" + w.lastLit.name)
		} else {
			w.expr(x.Call.Fun)
			var calleeObj types.Object
			switch f := x.Call.Fun.(type) {
			case *ast.Ident:
				calleeObj = w.info.Uses[f]
			case *ast.SelectorExpr:
				calleeObj = w.info.Uses[f.Sel]
			}
			gname := "?"
			if fo, ok := calleeObj.(*types.Func); ok {
				if name, ok := objFn[fo.Origin()]; ok {
					gname = name
					w.seq++
					cs := &callSite{caller: w.fn, callee: name, seq: w.seq, path: w.pathCopy(), isGo: true}
					if sel, ok := x.Call.Fun.(*ast.SelectorExpr); ok {
						if id := baseIdent(sel.X); id != nil {
							if obj := w.info.Uses[id]; obj != nil && w.fresh[obj] {
								cs.recvFresh = true
							}
						}
					}
					w.fn.sites = append(w.fn.sites, cs)
				}
			}
			w.op("go:" + gname)
		}
		for _, a := range x.Call.Args {
			w.expr(a)
		}
		for k := range w.fresh {
			w.fresh[k] = false
		}
	case *ast.DeferStmt:
		// deferred Unlock keeps the lock until function end: ignore it; other deferred calls are walked now
		if sel, ok := x.Call.Fun.(*ast.SelectorExpr); ok {
			if inner, ok := sel.X.(*ast.SelectorExpr); ok && w.lockName(inner) != "" && (sel.Sel.Name == "Unlock" || sel.Sel.Name == "RUnlock") {
				return
			}
		}
		if l, ok := x.Call.Fun.(*ast.FuncLit); ok {
			w.funcLit(l, false)
		} else {
			w.inDefer = true
			w.call(x.Call)
			w.inDefer = false
		}
	case *ast.ReturnStmt:
		for _, r := range x.Results {
			w.expr(r)
		}
		w.exit()
	case *ast.BranchStmt:
		w.exit()
	case *ast.IfStmt:
		w.stmt(x.Init)
		w.expr(x.Cond)
		w.region(func() { w.block(x.Body) })
		w.region(func() { w.stmt(x.Else) })
	case *ast.ForStmt:
		w.stmt(x.Init)
		w.expr(x.Cond)
		w.region(func() {
			w.block(x.Body)
			w.stmt(x.Post)
		})
	case *ast.RangeStmt:
		w.expr(x.X)
		if id, ok := x.Value.(*ast.Ident); ok {
			w.markShared(id, x.X, true)
		}
		if x.Key != nil {
			if _, ok := x.Key.(*ast.Ident); !ok {
				w.writeTarget(x.Key)
			}
		}
		if x.Value != nil {
			if _, ok := x.Value.(*ast.Ident); !ok {
				w.writeTarget(x.Value)
			}
		}
		w.region(func() { w.block(x.Body) })
	case *ast.SwitchStmt:
		w.stmt(x.Init)
		w.expr(x.Tag)
		w.block(x.Body)
	case *ast.TypeSwitchStmt:
		w.stmt(x.Init)
		w.stmt(x.Assign)
		w.block(x.Body)
	case *ast.CaseClause:
		for _, e := range x.List {
			w.expr(e)
		}
		w.region(func() {
			for _, st := range x.Body {
				w.stmt(st)
			}
		})
	case *ast.SelectStmt:
		w.block(x.Body)
	case *ast.CommClause:
		// the clause body runs only when this clause's communication happened: the receive DOMINATES the body
		w.region(func() {
			w.stmt(x.Comm)
			for _, st := range x.Body {
				w.stmt(st)
			}
		})
	case *ast.SendStmt:
		w.expr(x.Chan)
		w.expr(x.Value)
		w.op("send:" + w.syncName(x.Chan))
	case *ast.LabeledStmt:
		w.stmt(x.Stmt)
	}
}

func (w *walker) block(b *ast.BlockStmt) {
	if b == nil {
		return
	}
	for _, s := range b.List {
		w.stmt(s)
	}
}

func leanStr(s string) string {
	return `"` + strings.ReplaceAll(strings.ReplaceAll(s, `\`, `\\`), `"`, `\"`) + `"`
}

func leanStrs(xs []string) string {
	q := make([]string, len(xs))
	for i, x := range xs {
		q[i] = leanStr(x)
	}
	return "[" + strings.Join(q, ", ") + "]"
}

func main() {
	out := flag.String("out", "", "Lockset.lean path")
	js := flag.String("json", "", "json path")
	flag.StringVar(&repo, "repo", "/repo", "repository root")
	flag.Parse()

	cfg := &packages.Config{Mode: packages.NeedName | packages.NeedFiles | packages.NeedSyntax | packages.NeedTypes |
		packages.NeedTypesInfo | packages.NeedImports | packages.NeedDeps, Dir: repo,
		Env: append(os.Environ(), "GOFLAGS=-mod=mod", "GOPROXY=off", "GOSUMDB=off", "GOTOOLCHAIN=local")}
	pkgs, err := packages.Load(cfg, "./routing", "./grpcadapter", "./reflection", "./webbridge", ".", "./internal/syncset", "./transcoding")
	loadErrs := 0
	if err != nil {
		fmt.Fprintln(os.Stderr, "lockset: load:", err)
		loadErrs++
	}
	sort.Slice(pkgs, func(i, j int) bool { return pkgs[i].PkgPath < pkgs[j].PkgPath })
	for _, p := range pkgs {
		loadErrs += len(p.Errors)
		for _, e := range p.Errors {
			fmt.Fprintln(os.Stderr, "lockset:", e)
		}
		if fset == nil {
			fset = p.Fset
		}
	}
	// pass 1: tracked struct types (declared in the anchor files) and function objects
	for _, p := range pkgs {
		for _, f := range p.Syntax {
			fname, _ := filepath.Rel(repo, p.Fset.Position(f.Pos()).Filename)
			for _, d := range f.Decls {
				switch x := d.(type) {
				case *ast.GenDecl:
					if !anchorFiles[fname] {
						continue
					}
					for _, sp := range x.Specs {
						ts, ok := sp.(*ast.TypeSpec)
						if !ok {
							continue
						}
						if _, ok := ts.Type.(*ast.StructType); !ok {
							continue
						}
						if tn, ok := p.TypesInfo.Defs[ts.Name].(*types.TypeName); ok {
							if n, ok := tn.Type().(*types.Named); ok {
								structs[n] = shortPkg(p.Types) + "." + ts.Name.Name
							}
						}
					}
				case *ast.FuncDecl:
					if x.Body == nil {
						continue
					}
					name := shortPkg(p.Types) + "."
					if x.Recv != nil && len(x.Recv.List) == 1 {
						t := x.Recv.List[0].Type
						if s, ok := t.(*ast.StarExpr); ok {
							t = s.X
						}
						if ix, ok := t.(*ast.IndexExpr); ok {
							t = ix.X
						}
						if id, ok := t.(*ast.Ident); ok {
							name += id.Name + "."
						}
					}
					name += x.Name.Name
					fi := &fnInfo{name: name, decl: x, pkg: p, exported: x.Name.IsExported(), calls: map[string][][]string{}}
					fns[name] = fi
					if fo, ok := p.TypesInfo.Defs[x.Name].(*types.Func); ok {
						objFn[fo] = name
					}
				}
			}
		}
	}
	// pass 2: walk every declared function
	names := []string{}
	for n := range fns {
		names = append(names, n)
	}
	sort.Strings(names)
	for _, n := range names {
		fi := fns[n]
		fd, ok := fi.decl.(*ast.FuncDecl)
		if !ok {
			continue
		}
		cnt := 0
		if fd.Recv != nil && len(fd.Recv.List) == 1 && len(fd.Recv.List[0].Names) == 1 {
			fi.recvObj = fi.pkg.TypesInfo.Defs[fd.Recv.List[0].Names[0]]
		}
		w := &walker{fn: fi, info: fi.pkg.TypesInfo, fresh: map[types.Object]bool{}, litN: &cnt, parent: n, litVar: map[types.Object]*fnInfo{}}
		w.block(fd.Body)
	}
	// pass 3: credit caller-held locks to unexported, non-literal functions: entry lockset =
	// intersection over all call sites (exported functions and literals: empty). Iterate to a fixpoint.
	entry := map[string][]string{}
	callers := map[string][]struct {
		from  string
		locks []string
	}{}
	for _, fi := range fns {
		for callee, sets := range fi.calls {
			for _, s := range sets {
				callers[callee] = append(callers[callee], struct {
					from  string
					locks []string
				}{fi.name, s})
			}
		}
	}
	for iter := 0; iter < 10; iter++ {
		changed := false
		for n, fi := range fns {
			if fi.exported || fi.isLit || len(callers[n]) == 0 {
				continue
			}
			var inter map[string]bool
			for _, c := range callers[n] {
				cur := map[string]bool{}
				for _, l := range c.locks {
					cur[l] = true
				}
				for _, l := range entry[c.from] {
					cur[l] = true
				}
				if inter == nil {
					inter = cur
				} else {
					for l := range inter {
						if !cur[l] {
							delete(inter, l)
						}
					}
				}
			}
			var res []string
			for l := range inter {
				res = append(res, l)
			}
			sort.Strings(res)
			if strings.Join(res, ",") != strings.Join(entry[n], ",") {
				entry[n] = res
				changed = true
			}
		}
		if !changed {
			break
		}
	}
	// pass 3b: happens-before context of every access — dominating / following synchronisation operations, goroutine roots,
	// one row per call site for unexported helpers.
	isPrefix := func(p, q []int) bool {
		if len(p) > len(q) {
			return false
		}
		for i := range p {
			if p[i] != q[i] {
				return false
			}
		}
		return true
	}
	preOf := func(fi *fnInfo, seq int, path []int) []string {
		out := append([]string{}, fi.entryOps...)
		for _, o := range fi.ops {
			if !o.deferred && o.seq < seq && isPrefix(o.path, path) {
				out = append(out, o.name)
			}
		}
		return out
	}
	postOf := func(fi *fnInfo, seq int, path []int) []string {
		var out []string
		for _, o := range fi.ops {
			if !isPrefix(o.path, path) {
				continue
			}
			if o.deferred && o.seq < seq {
				out = append(out, o.name)
				continue
			}
			if o.seq <= seq {
				continue
			}
			blocked := false
			for _, e := range fi.exits {
				if e.seq > seq && e.seq < o.seq && isPrefix(o.path, e.path) {
					blocked = true
				}
			}
			if !blocked {
				out = append(out, o.name)
			}
		}
		return out
	}
	uniqSorted := func(xs []string) []string {
		m := map[string]bool{}
		for _, x := range xs {
			m[x] = true
		}
		out := []string{}
		for x := range m {
			out = append(out, x)
		}
		sort.Strings(out)
		return out
	}
	names = names[:0]
	for n := range fns {
		names = append(names, n)
	}
	sort.Strings(names)
	sitesOf := map[string][]*callSite{}
	for _, n := range names {
		for _, cs := range fns[n].sites {
			sitesOf[cs.callee] = append(sitesOf[cs.callee], cs)
		}
	}
	goRoot := func(cs *callSite) string {
		if cs.recvFresh {
			return "go1:" + cs.callee
		}
		return "go:" + cs.callee
	}
	roots := map[string][]string{}
	for _, n := range names {
		fi := fns[n]
		switch {
		case fi.goLit:
			roots[n] = []string{"go:" + n}
		case fi.exported || fi.isLit || len(sitesOf[n]) == 0:
			roots[n] = []string{n}
		}
	}
	for iter := 0; iter < 12; iter++ {
		changed := false
		for _, n := range names {
			fi := fns[n]
			if fi.exported || fi.isLit || len(sitesOf[n]) == 0 {
				continue
			}
			var rs []string
			for _, cs := range sitesOf[n] {
				if cs.isGo {
					rs = append(rs, goRoot(cs))
				} else {
					rs = append(rs, roots[cs.caller.name]...)
				}
			}
			rs = uniqSorted(rs)
			if strings.Join(rs, ",") != strings.Join(roots[n], ",") {
				roots[n] = rs
				changed = true
			}
		}
		if !changed {
			break
		}
	}
	for _, n := range names {
		fi := fns[n]
		var expanded []*Access
		for _, a := range fi.accesses {
			pre, post := preOf(fi, a.seq, a.path), postOf(fi, a.seq, a.path)
			if fi.exported || fi.isLit || len(sitesOf[n]) == 0 {
				a.Pre, a.Post, a.Roots = uniqSorted(pre), uniqSorted(post), roots[n]
				expanded = append(expanded, a)
				continue
			}
			for _, cs := range sitesOf[n] {
				b := *a
				b.Locks = append([]string{}, a.Locks...)
				if cs.isGo {
					b.Pre = uniqSorted(append(append([]string{"spawned"}, preOf(cs.caller, cs.seq, cs.path)...), pre...))
					b.Post = uniqSorted(post)
					b.Roots = []string{goRoot(cs)}
				} else {
					b.Pre = uniqSorted(append(preOf(cs.caller, cs.seq, cs.path), pre...))
					b.Post = uniqSorted(append(postOf(cs.caller, cs.seq, cs.path), post...))
					b.Roots = roots[cs.caller.name]
					if cs.recvFresh && a.viaRecv {
						b.Fresh = true
					}
				}
				expanded = append(expanded, &b)
			}
		}
		fi.accesses = expanded
	}

	var all []*Access
	names = names[:0]
	for n := range fns {
		names = append(names, n)
	}
	sort.Strings(names)
	for _, n := range names {
		for _, a := range fns[n].accesses {
			base := n
			if i := strings.Index(base, "#"); i >= 0 {
				base = base[:i]
			}
			ls := map[string]bool{}
			for _, l := range a.Locks {
				ls[l] = true
			}
			if !fns[n].isLit {
				for _, l := range entry[n] {
					ls[l] = true
				}
			}
			a.Locks = a.Locks[:0]
			for l := range ls {
				a.Locks = append(a.Locks, l)
			}
			sort.Strings(a.Locks)
			owner := a.Field[:strings.LastIndex(a.Field, ".")]
			a.Own = []string{}
			for _, l := range a.Locks {
				if l[:strings.LastIndex(l, ".")] == owner {
					a.Own = append(a.Own, l)
				}
			}
			all = append(all, a)
		}
	}
	// de-duplicate (field, func, write, locks, fresh)
	seen := map[string]bool{}
	var uniq []*Access
	for _, a := range all {
		k := fmt.Sprintf("%s|%s|%v|%s|%v|%s|%s|%s", a.Field, a.Func, a.Write, strings.Join(a.Locks, ","), a.Fresh,
			strings.Join(a.Pre, ","), strings.Join(a.Post, ","), strings.Join(a.Roots, ","))
		if !seen[k] {
			seen[k] = true
			uniq = append(uniq, a)
		}
	}
	sort.SliceStable(uniq, func(i, j int) bool {
		if uniq[i].Field != uniq[j].Field {
			return uniq[i].Field < uniq[j].Field
		}
		return uniq[i].Func < uniq[j].Func
	})
	// keep only fields that are written somewhere outside a fresh (unpublished) object: a field that is
	// only ever written before publication is immutable afterwards and cannot race.
	writtenLive := map[string]bool{}
	for _, a := range uniq {
		if a.Write && !a.Fresh {
			writtenLive[a.Field] = true
		}
	}
	var live []*Access
	immutable := map[string]bool{}
	for _, a := range uniq {
		if writtenLive[a.Field] {
			live = append(live, a)
		} else {
			immutable[a.Field] = true
		}
	}

	// pass 4: package-level slices / maps handed out by reference (stored into a field, a composite literal or a
	// variable without cloning): every object built that way shares ONE backing store, so per-object
	// confinement arguments do not apply to it.
	var aliases []string
	isGlobalRef := func(info *types.Info, e ast.Expr) string {
		var id *ast.Ident
		switch x := e.(type) {
		case *ast.Ident:
			id = x
		case *ast.SelectorExpr:
			id = x.Sel
		default:
			return ""
		}
		v, ok := info.Uses[id].(*types.Var)
		if !ok || v.Pkg() == nil || v.Parent() != v.Pkg().Scope() {
			return ""
		}
		if !strings.HasPrefix(v.Pkg().Path(), "github.com/renbou/grpcbridge") {
			return ""
		}
		switch v.Type().Underlying().(type) {
		case *types.Slice, *types.Map:
			return v.Pkg().Name() + "." + v.Name()
		}
		return ""
	}
	for _, n := range names {
		fi := fns[n]
		if fi.isLit {
			continue
		}
		fd, ok := fi.decl.(*ast.FuncDecl)
		if !ok {
			continue
		}
		info := fi.pkg.TypesInfo
		ast.Inspect(fd.Body, func(nd ast.Node) bool {
			switch x := nd.(type) {
			case *ast.KeyValueExpr:
				if g := isGlobalRef(info, x.Value); g != "" {
					aliases = append(aliases, g+" -> composite literal in "+n)
				}
			case *ast.AssignStmt:
				for _, r := range x.Rhs {
					if g := isGlobalRef(info, r); g != "" {
						aliases = append(aliases, g+" -> assignment in "+n)
					}
				}
			case *ast.ReturnStmt:
				for _, r := range x.Results {
					if g := isGlobalRef(info, r); g != "" {
						aliases = append(aliases, g+" -> returned by "+n)
					}
				}
			}
			return true
		})
	}
	sort.Strings(aliases)

	// ---- appends that can alias: `x = append(y, …)` where y is a field, a package-level variable or a parameter (a slice
	// somebody else also holds), the result is stored somewhere OTHER than y itself, and y's capacity is not clipped
	// (`y[:n:n]`, slices.Clip, slices.Clone, slices.Concat): with spare capacity in y every such result shares y's backing
	// array with y and with each other (D34: bridgelog wrappedLogger.With; seeded C18-m6: AdaptedClientPool.New).
	var appends []string
	{
		cfgAll := &packages.Config{Mode: packages.NeedName | packages.NeedFiles | packages.NeedSyntax | packages.NeedTypes |
			packages.NeedTypesInfo | packages.NeedImports, Dir: repo,
			Env: append(os.Environ(), "GOFLAGS=-mod=mod", "GOPROXY=off", "GOSUMDB=off", "GOTOOLCHAIN=local")}
		all, err := packages.Load(cfgAll, "./...")
		if err != nil {
			fmt.Fprintln(os.Stderr, "lockset: load ./...:", err)
			loadErrs++
		}
		sort.Slice(all, func(i, j int) bool { return all[i].PkgPath < all[j].PkgPath })
		txt := func(fs *token.FileSet, e ast.Node) string {
			var b strings.Builder
			_ = printer.Fprint(&b, fs, e)
			return strings.Join(strings.Fields(b.String()), " ")
		}
		for _, p := range all {
			if strings.Contains(p.PkgPath, "/internal/bench") || strings.Contains(p.PkgPath, "/internal/bridgetest") ||
				strings.Contains(p.PkgPath, "/examples/") || strings.Contains(p.PkgPath, "/verifx") || strings.Contains(p.PkgPath, "/internal/verifhook") {
				continue
			}
			for _, e := range p.Errors {
				fmt.Fprintln(os.Stderr, "lockset:", e)
				loadErrs++
			}
			info := p.TypesInfo
			for _, file := range p.Syntax {
				fname := p.Fset.Position(file.Pos()).Filename
				if strings.HasSuffix(fname, "_test.go") || strings.Contains(fname, "verif_export") || strings.HasSuffix(fname, ".pb.go") || strings.HasSuffix(fname, ".pb.gw.go") {
					continue
				}
				for _, d := range file.Decls {
					fd, ok := d.(*ast.FuncDecl)
					if !ok || fd.Body == nil {
						continue
					}
					fname := p.Types.Name() + "." + fd.Name.Name
					if fd.Recv != nil && len(fd.Recv.List) == 1 {
						fname = p.Types.Name() + "." + strings.TrimPrefix(txt(p.Fset, fd.Recv.List[0].Type), "*") + "." + fd.Name.Name
					}
					shared := func(e ast.Expr) bool { // does somebody else (possibly) hold this slice?
						switch x := e.(type) {
						case *ast.SelectorExpr:
							if sel, ok := info.Selections[x]; ok && sel.Kind() == types.FieldVal {
								return true
							}
							if v, ok := info.Uses[x.Sel].(*types.Var); ok && v.Pkg() != nil && v.Parent() == v.Pkg().Scope() {
								return true
							}
							return false
						case *ast.Ident:
							v, ok := info.Uses[x].(*types.Var)
							if !ok || v.Pkg() == nil {
								return false
							}
							if v.Parent() == v.Pkg().Scope() {
								return true // package-level variable
							}
							// parameters (incl. receivers) of the enclosing function or of a literal inside it
							param := false
							ast.Inspect(fd, func(n ast.Node) bool {
								var ft *ast.FuncType
								switch y := n.(type) {
								case *ast.FuncDecl:
									ft = y.Type
								case *ast.FuncLit:
									ft = y.Type
								}
								if ft != nil && ft.Params != nil {
									for _, fl := range ft.Params.List {
										for _, nm := range fl.Names {
											if info.Defs[nm] == v {
												param = true
											}
										}
									}
								}
								return !param
							})
							return param
						case *ast.IndexExpr, *ast.StarExpr:
							return true
						case *ast.ParenExpr:
							return false
						}
						return false
					}
					var visit func(n ast.Node, lhs string)
					check := func(c *ast.CallExpr, lhs string) {
						id, ok := c.Fun.(*ast.Ident)
						if !ok || id.Name != "append" || len(c.Args) == 0 {
							return
						}
						if _, isBuiltin := info.Uses[id].(*types.Builtin); !isBuiltin {
							return
						}
						a0 := c.Args[0]
						if se, ok := a0.(*ast.SliceExpr); ok && se.Slice3 {
							return
						}
						if !shared(a0) {
							return
						}
						if lhs == txt(p.Fset, a0) {
							return // self-append: x = append(x, …)
						}
						appends = append(appends, fmt.Sprintf("%s: %s = append(%s, …)", fname, lhs, txt(p.Fset, a0)))
					}
					visit = func(n ast.Node, _ string) {
						ast.Inspect(n, func(nd ast.Node) bool {
							switch x := nd.(type) {
							case *ast.AssignStmt:
								for i, r := range x.Rhs {
									if c, ok := r.(*ast.CallExpr); ok {
										l := "_"
										if len(x.Lhs) == len(x.Rhs) {
											l = txt(p.Fset, x.Lhs[i])
										}
										check(c, l)
									}
								}
							case *ast.ValueSpec:
								for i, r := range x.Values {
									if c, ok := r.(*ast.CallExpr); ok && i < len(x.Names) {
										check(c, x.Names[i].Name)
									}
								}
							case *ast.ReturnStmt:
								for _, r := range x.Results {
									if c, ok := r.(*ast.CallExpr); ok {
										check(c, "return")
									}
								}
							case *ast.KeyValueExpr:
								if c, ok := x.Value.(*ast.CallExpr); ok {
									check(c, "field "+txt(p.Fset, x.Key))
								}
							case *ast.CallExpr:
								for _, a := range x.Args {
									if c, ok := a.(*ast.CallExpr); ok {
										check(c, "argument of "+txt(p.Fset, x.Fun))
									}
								}
							}
							return true
						})
					}
					visit(fd.Body, "")
				}
			}
		}
		sort.Strings(appends)
	}

	var sb strings.Builder
	sb.WriteString("/- REGENERATED on every run by /verif/extract/lockset from the grpcbridge sources. Do not edit. -/\n")
	sb.WriteString("namespace GB.Generated\n\n")
	sb.WriteString("structure Access where\n  field : String\n  fn : String\n  write : Bool\n  locks : List String\n  own : List String\n  fresh : Bool\n  pre : List String\n  post : List String\n  roots : List String\nderiving Repr, DecidableEq\n\n")
	sb.WriteString(fmt.Sprintf("/-- type-check / load errors while extracting (must be 0) -/\ndef locksetLoadErrors : Nat := %d\n\n", loadErrs))
	sb.WriteString("/-- accesses to plain (non-synchronised) fields that are written after publication somewhere -/\n")
	sb.WriteString("def accesses : List Access := [\n")
	for i, a := range live {
		sep := ","
		if i == len(live)-1 {
			sep = ""
		}
		sb.WriteString(fmt.Sprintf("  ⟨%s, %s, %v, %s, %s, %v, %s, %s, %s⟩%s -- %s\n", leanStr(a.Field), leanStr(a.Func), a.Write, leanStrs(a.Locks), leanStrs(a.Own), a.Fresh,
			leanStrs(a.Pre), leanStrs(a.Post), leanStrs(a.Roots), sep, a.Pos))
	}
	sb.WriteString("]\n\n")
	var sf []string
	for f := range syncFld {
		sf = append(sf, f)
	}
	sort.Strings(sf)
	sb.WriteString("/-- fields whose type is a synchronisation primitive (every access is a method call on it) -/\n")
	sb.WriteString("def syncFields : List (String × String) := [")
	for i, f := range sf {
		if i > 0 {
			sb.WriteString(", ")
		}
		sb.WriteString(fmt.Sprintf("(%s, %s)", leanStr(f), leanStr(syncFld[f])))
	}
	sb.WriteString("]\n\n")
	var im []string
	for f := range immutable {
		im = append(im, f)
	}
	sort.Strings(im)
	sb.WriteString("/-- plain fields never written after publication (immutable once shared) -/\n")
	sb.WriteString("def immutableFields : List String := " + leanStrs(im) + "\n\n")
	sb.WriteString("/-- package-level slices/maps handed out by reference (shared backing store between objects) -/\n")
	sb.WriteString("def globalAliases : List String := " + leanStrs(aliases) + "\n\n")
	sb.WriteString("/-- `x = append(y, …)` with y a field / package variable / parameter, x ≠ y and y's capacity not clipped: the result may\n    share y's backing array with y and with other results (all non-test packages of the repository) -/\n")
	sb.WriteString("def aliasingAppends : List String := " + leanStrs(appends) + "\n\n")
	// ---- published objects must be immutable: writes (field or element level) to objects of a published type without
	// a mutex of the object itself, backing-array reuse of shared slices, aliasing appends (D34)
	// …closed under "reachable through a field" (pointers, slices, maps, arrays), plus the element types the pattern router
	// publishes through container/list's `any` values
	for _, extra := range []string{"routing.targetPatternRoutes", "routing.patternRoute"} {
		publishedTypes[extra] = true
	}
	for changed := true; changed; {
		changed = false
		for n, q := range structs {
			if !publishedTypes[q] {
				continue
			}
			st, ok := n.Underlying().(*types.Struct)
			if !ok {
				continue
			}
			for i := 0; i < st.NumFields(); i++ {
				var visit func(t types.Type, depth int)
				visit = func(t types.Type, depth int) {
					if depth > 6 {
						return
					}
					switch x := t.(type) {
					case *types.Pointer:
						visit(x.Elem(), depth+1)
					case *types.Slice:
						visit(x.Elem(), depth+1)
					case *types.Array:
						visit(x.Elem(), depth+1)
					case *types.Map:
						visit(x.Key(), depth+1)
						visit(x.Elem(), depth+1)
					case *types.Named:
						if q2, ok := structs[x.Origin()]; ok && !publishedTypes[q2] {
							publishedTypes[q2] = true
							changed = true
						}
					}
				}
				visit(st.Field(i).Type(), 0)
			}
		}
	}
	var pubT []string
	for t := range publishedTypes {
		pubT = append(pubT, t)
	}
	sort.Strings(pubT)
	var ppw []string
	for _, a := range uniq {
		owner := a.Field[:strings.LastIndex(a.Field, ".")]
		if a.Write && !a.Fresh && publishedTypes[owner] && len(a.Own) == 0 {
			ppw = append(ppw, "write: "+a.Field+" in "+a.Func)
		}
	}
	for _, r := range reuses {
		ppw = append(ppw, "reuse: "+r)
	}
	for _, a := range appends {
		ppw = append(ppw, "append: "+a)
	}
	ppw = uniqSorted(ppw)
	sb.WriteString("/-- struct types whose values are stored into an atomic.Pointer / atomic.Value / sync.Map and read lock-free -/\n")
	sb.WriteString("def publishedTypes : List String := " + leanStrs(pubT) + "\n\n")
	sb.WriteString("/-- writes that can reach memory already published to lock-free readers: `write:` a field / element write on a\n    non-fresh object of a published type without a mutex of that object; `reuse:` `e[:0]` on a slice somebody else may hold\n    (retained backing array); `append:` the aliasing appends above -/\n")
	sb.WriteString("def postPublicationWrites : List String := " + leanStrs(ppw) + "\n\n")
	var gj []string
	for _, n := range names {
		fi := fns[n]
		if fi.isLit {
			continue
		}
		var lits []string
		for _, m := range names {
			if strings.HasPrefix(m, n+"#") && fns[m].goLit {
				var d []string
				for _, o := range fns[m].ops {
					if o.deferred {
						d = append(d, o.name)
					}
				}
				lits = append(lits, "("+leanStr(m)+", "+leanStrs(d)+")")
			}
		}
		if len(lits) == 0 {
			continue
		}
		var d []string
		for _, o := range fi.ops {
			if o.deferred {
				d = append(d, o.name)
			}
		}
		gj = append(gj, "("+leanStr(n)+", "+leanStrs(d)+", ["+strings.Join(lits, ", ")+"])")
	}
	sb.WriteString("/-- functions that start goroutines with `go func(){…}()`: (function, its deferred synchronisation operations,\n    [(literal, the literal's deferred synchronisation operations)]) -/\n")
	sb.WriteString("def goJoins : List (String × List String × List (String × List String)) := [\n  " + strings.Join(gj, ",\n  ") + "]\n\n")
	sb.WriteString("end GB.Generated\n")
	if *out != "" {
		old, _ := os.ReadFile(*out)
		if string(old) != sb.String() {
			if err := os.WriteFile(*out, []byte(sb.String()), 0o644); err != nil {
				fmt.Fprintln(os.Stderr, err)
				os.Exit(1)
			}
		}
	}
	if *js != "" {
		b, _ := json.MarshalIndent(map[string]any{"accesses": live, "syncFields": syncFld, "immutableFields": im, "loadErrors": loadErrs,
			"postPublicationWrites": ppw, "publishedTypes": pubT}, "", " ")
		_ = os.WriteFile(*js, b, 0o644)
	}
}
