package main

import (
	"fmt"
	"go/ast"
	"go/parser"
	"go/token"
	"os"
	"os/exec"
	"path/filepath"
	"sort"
	"strconv"
	"strings"
)

func init() { register("c04", extractC04) }

// C04's last clause — the request message depends only on the target's own descriptors — rests on the glue that
// builds a target's description from the files received over reflection: the resolvers stored in
// bridgedesc.Target must be the target's own file registry and dynamicpb.NewTypes over it, with no wrapper and no
// fallback to the process-global registries. Facts:
//   - c04ResolverDefs: in reflection.parseFileDescriptors, every `:=` whose left-hand side mentions files / types: (lhs, rhs);
//   - c04ParseTargetArgs: the argument expressions of the bridgedesc.ParseTarget call there;
//   - c04TargetLiteral: in bridgedesc.ParseTarget, the FileResolver / TypeResolver entries of the Target literal: (key, value)
//     together with the function's parameter names;
//   - c04ResolverAssignments: every assignment to a selector .FileResolver / .TypeResolver in reflection/ and bridgedesc/ (non-test);
//   - c04ParseTypeDecls: the types declared in reflection/parse.go (a resolver wrapper type would show up here);
//   - c04GlobalRegistryRefs: every mention of protoregistry.GlobalTypes / GlobalFiles in non-test, non-verif files of
//     reflection/, bridgedesc/, transcoding/, internal/gwquery/ ("file:Name").
func extractC04(c *Ctx) {
	pairs := func(ps [][2]string) string {
		parts := make([]string, len(ps))
		for i, p := range ps {
			parts[i] = "(" + strconv.Quote(p[0]) + ", " + strconv.Quote(p[1]) + ")"
		}
		return "[" + strings.Join(parts, ", ") + "]"
	}
	join := func(es []ast.Expr) string {
		s := make([]string, len(es))
		for i, e := range es {
			s[i] = c.Src(e)
		}
		return strings.Join(s, ", ")
	}

	var defs [][2]string
	args := []string{"<ParseTarget call not found>"}
	src := "reflection/parse.go:?"
	if fd := c.FuncDecl("reflection/parse.go", "", "parseFileDescriptors"); fd != nil && fd.Body != nil {
		src = c.Pos(fd)
		ast.Inspect(fd.Body, func(n ast.Node) bool {
			switch x := n.(type) {
			case *ast.AssignStmt:
				for _, l := range x.Lhs {
					if id, ok := l.(*ast.Ident); ok && (id.Name == "files" || id.Name == "types") {
						op := ":="
						if x.Tok != token.DEFINE {
							op = x.Tok.String()
						}
						defs = append(defs, [2]string{join(x.Lhs) + " " + op, join(x.Rhs)})
						break
					}
				}
			case *ast.CallExpr:
				if se, ok := x.Fun.(*ast.SelectorExpr); ok && se.Sel.Name == "ParseTarget" {
					args = nil
					for _, a := range x.Args {
						args = append(args, c.Src(a))
					}
				}
			}
			return true
		})
	} else {
		defs = [][2]string{{"<parseFileDescriptors not found>", ""}}
	}
	c.Add("c04ResolverDefs", "List (String × String)", pairs(defs), src, "definitions of files / types in reflection.parseFileDescriptors")
	c.Add("c04ParseTargetArgs", "List String", LeanStrList(args), src, "arguments of bridgedesc.ParseTarget in reflection.parseFileDescriptors")

	var lit [][2]string
	src2 := "bridgedesc/parse.go:?"
	if fd := c.FuncDecl("bridgedesc/parse.go", "", "ParseTarget"); fd != nil && fd.Body != nil {
		src2 = c.Pos(fd)
		var params []string
		for _, f := range fd.Type.Params.List {
			for _, n := range f.Names {
				params = append(params, n.Name)
			}
		}
		lit = append(lit, [2]string{"params", strings.Join(params, ", ")})
		ast.Inspect(fd.Body, func(n ast.Node) bool {
			cl, ok := n.(*ast.CompositeLit)
			if !ok || c.Src(cl.Type) != "Target" {
				return true
			}
			for _, e := range cl.Elts {
				if kv, ok := e.(*ast.KeyValueExpr); ok {
					k := c.Src(kv.Key)
					if k == "FileResolver" || k == "TypeResolver" {
						lit = append(lit, [2]string{k, c.Src(kv.Value)})
					}
				}
			}
			return true
		})
	} else {
		lit = [][2]string{{"<ParseTarget not found>", ""}}
	}
	c.Add("c04TargetLiteral", "List (String × String)", pairs(lit), src2, "resolver fields of the Target literal in bridgedesc.ParseTarget (and its parameter names)")

	prodFiles := func(dir string) []string {
		ents, err := os.ReadDir(filepath.Join(c.Repo, dir))
		if err != nil {
			return nil
		}
		var out []string
		for _, e := range ents {
			n := e.Name()
			if e.IsDir() || !strings.HasSuffix(n, ".go") || strings.HasSuffix(n, "_test.go") {
				continue
			}
			b, err := os.ReadFile(filepath.Join(c.Repo, dir, n))
			if err != nil || strings.Contains(string(b), "//go:build verif") {
				continue
			}
			out = append(out, dir+"/"+n)
		}
		sort.Strings(out)
		return out
	}

	var assigns, globals, typeDecls []string
	for _, dir := range []string{"reflection", "bridgedesc", "transcoding", "internal/gwquery"} {
		files := prodFiles(dir)
		if files == nil {
			globals = append(globals, dir+":<unreadable>")
		}
		for _, rel := range files {
			f := c.File(rel)
			if f == nil {
				globals = append(globals, rel+":<unparsable>")
				continue
			}
			ast.Inspect(f, func(n ast.Node) bool {
				switch x := n.(type) {
				case *ast.SelectorExpr:
					if id, ok := x.X.(*ast.Ident); ok && id.Name == "protoregistry" && (x.Sel.Name == "GlobalTypes" || x.Sel.Name == "GlobalFiles") {
						globals = append(globals, rel+":"+x.Sel.Name)
					}
				case *ast.AssignStmt:
					if dir == "reflection" || dir == "bridgedesc" {
						for _, l := range x.Lhs {
							if se, ok := l.(*ast.SelectorExpr); ok && (se.Sel.Name == "TypeResolver" || se.Sel.Name == "FileResolver") {
								assigns = append(assigns, rel+":"+c.Src(l)+" = "+join(x.Rhs))
							}
						}
					}
				case *ast.TypeSpec:
					if rel == "reflection/parse.go" {
						typeDecls = append(typeDecls, x.Name.Name)
					}
				}
				return true
			})
		}
	}
	c.Add("c04ResolverAssignments", "List String", LeanStrList(assigns), "reflection/ bridgedesc/", "assignments to .FileResolver / .TypeResolver outside the Target literal")
	c.Add("c04ParseTypeDecls", "List String", LeanStrList(typeDecls), "reflection/parse.go", "types declared in reflection/parse.go")
	c.Add("c04GlobalRegistryRefs", "List String", LeanStrList(globals), "reflection/ bridgedesc/ transcoding/ internal/gwquery/", "mentions of protoregistry.GlobalTypes / GlobalFiles in production files")
}

func init() { register("c04text", extractC04Text) }

// Facts for the Duration text form (round 5):
//   - c04DurationCalls: the call expressions of the `case "google.protobuf.Duration"` clause of gwquery.parseMessage, in
//     source order (time.ParseDuration(value), durationpb.New(d), the error return's protoreflect.Value{});
//   - c04TimeUnitMap: `unitMap` of the Go standard library's time package (the GOROOT the harness is built with):
//     (UTF-8 bytes of the unit, nanoseconds), constants resolved from time/time.go, sorted by unit bytes.
func extractC04Text(c *Ctx) {
	var calls []string
	src := ""
	if fd := c.FuncDecl("internal/gwquery/query.go", "", "parseMessage"); fd != nil {
		ast.Inspect(fd, func(n ast.Node) bool {
			cc, ok := n.(*ast.CaseClause)
			if !ok {
				return true
			}
			for _, e := range cc.List {
				if lit, ok := e.(*ast.BasicLit); ok && lit.Value == `"google.protobuf.Duration"` {
					src = c.Pos(cc)
					for _, st := range cc.Body {
						ast.Inspect(st, func(m ast.Node) bool {
							if ce, ok := m.(*ast.CallExpr); ok {
								calls = append(calls, c.Src(ce))
							}
							return true
						})
					}
				}
			}
			return true
		})
	}
	c.Add("c04DurationCalls", "List String", LeanStrList(calls), src, "calls in the Duration case of gwquery.parseMessage")

	goroot := os.Getenv("GOROOT")
	if goroot == "" {
		if out, err := exec.Command("go", "env", "GOROOT").Output(); err == nil {
			goroot = strings.TrimSpace(string(out))
		}
	}
	consts := map[string]ast.Expr{}
	var unitEntries [][2]ast.Expr
	fset := token.NewFileSet()
	for _, name := range []string{"time.go", "format.go"} {
		f, err := parser.ParseFile(fset, filepath.Join(goroot, "src", "time", name), nil, 0)
		if err != nil {
			continue
		}
		for _, d := range f.Decls {
			gd, ok := d.(*ast.GenDecl)
			if !ok {
				continue
			}
			for _, sp := range gd.Specs {
				vs, ok := sp.(*ast.ValueSpec)
				if !ok {
					continue
				}
				for i, n := range vs.Names {
					if i < len(vs.Values) {
						if gd.Tok == token.CONST {
							consts[n.Name] = vs.Values[i]
						}
						if gd.Tok == token.VAR && n.Name == "unitMap" {
							if cl, ok := vs.Values[i].(*ast.CompositeLit); ok {
								for _, el := range cl.Elts {
									if kv, ok := el.(*ast.KeyValueExpr); ok {
										unitEntries = append(unitEntries, [2]ast.Expr{kv.Key, kv.Value})
									}
								}
							}
						}
					}
				}
			}
		}
	}
	var eval func(e ast.Expr, depth int) (uint64, bool)
	eval = func(e ast.Expr, depth int) (uint64, bool) {
		if depth > 20 {
			return 0, false
		}
		switch x := e.(type) {
		case *ast.BasicLit:
			v, err := strconv.ParseUint(x.Value, 0, 64)
			return v, err == nil
		case *ast.Ident:
			if d, ok := consts[x.Name]; ok {
				return eval(d, depth+1)
			}
		case *ast.ParenExpr:
			return eval(x.X, depth+1)
		case *ast.CallExpr: // uint64(Nanosecond)
			if len(x.Args) == 1 {
				return eval(x.Args[0], depth+1)
			}
		case *ast.BinaryExpr:
			a, ok1 := eval(x.X, depth+1)
			b, ok2 := eval(x.Y, depth+1)
			if ok1 && ok2 && x.Op == token.MUL {
				return a * b, true
			}
		}
		return 0, false
	}
	var rows []string
	for _, kv := range unitEntries {
		lit, ok := kv[0].(*ast.BasicLit)
		if !ok {
			continue
		}
		key, err := strconv.Unquote(lit.Value)
		if err != nil {
			continue
		}
		v, ok := eval(kv[1], 0)
		if !ok {
			v = 0
		}
		var bs []string
		for _, b := range []byte(key) {
			bs = append(bs, strconv.Itoa(int(b)))
		}
		rows = append(rows, fmt.Sprintf("([%s], %d)", strings.Join(bs, ", "), v))
	}
	sort.Strings(rows)
	c.Add("c04TimeUnitMap", "List (List Nat × Nat)", "["+strings.Join(rows, ", ")+"]", "GOROOT/src/time/format.go", "unitMap of package time (unit bytes, nanoseconds)")
}
