package main

import (
	"go/ast"
	"go/token"
	"os"
	"path/filepath"
	"strings"
)

func init() { register("c05", extractC05) }

// c05Flat renders a statement list as one line per statement (comments dropped, white space collapsed,
// logger calls skipped); the body of an if/for is rendered indented below its header.
func c05Flat(c *Ctx, stmts []ast.Stmt, indent string, out *[]string) {
	one := func(n ast.Node) string {
		var keep []string
		for _, l := range strings.Split(c.Src(n), "\n") {
			if !strings.HasPrefix(strings.TrimSpace(l), "//") {
				keep = append(keep, l)
			}
		}
		t := strings.Join(strings.Fields(strings.Join(keep, " ")), " ")
		if strings.HasPrefix(t, "return ") && strings.Contains(t, "fmt.Errorf(") {
			return "return <error>" // message texts are not facts
		}
		return t
	}
	for _, st := range stmts {
		switch s := st.(type) {
		case *ast.IfStmt:
			for cur := ast.Stmt(s); cur != nil; {
				switch x := cur.(type) {
				case *ast.IfStmt:
					h := "if "
					if cur != ast.Stmt(s) {
						h = "else if "
					}
					if x.Init != nil {
						h += one(x.Init) + "; "
					}
					*out = append(*out, indent+h+one(x.Cond))
					c05Flat(c, x.Body.List, indent+"  ", out)
					cur = x.Else
				case *ast.BlockStmt:
					*out = append(*out, indent+"else")
					c05Flat(c, x.List, indent+"  ", out)
					cur = nil
				default:
					cur = nil
				}
			}
		case *ast.ForStmt:
			h := "for "
			if s.Init != nil {
				h += one(s.Init)
			}
			h += "; "
			if s.Cond != nil {
				h += one(s.Cond)
			}
			h += "; "
			if s.Post != nil {
				h += one(s.Post)
			}
			*out = append(*out, indent+h)
			c05Flat(c, s.Body.List, indent+"  ", out)
		case *ast.RangeStmt:
			h := "for "
			if s.Key != nil {
				h += one(s.Key)
				if s.Value != nil {
					h += ", " + one(s.Value)
				}
				h += " " + s.Tok.String() + " "
			}
			h += "range " + one(s.X)
			*out = append(*out, indent+h)
			c05Flat(c, s.Body.List, indent+"  ", out)
		case *ast.SelectStmt:
			*out = append(*out, indent+"select")
			for _, cc := range s.Body.List {
				if cl, ok := cc.(*ast.CommClause); ok {
					if cl.Comm == nil {
						*out = append(*out, indent+"  default")
					} else {
						*out = append(*out, indent+"  case "+one(cl.Comm))
					}
					c05Flat(c, cl.Body, indent+"    ", out)
				}
			}
		case *ast.GoStmt:
			*out = append(*out, indent+"go func")
			if fl, ok := s.Call.Fun.(*ast.FuncLit); ok {
				c05Flat(c, fl.Body.List, indent+"  ", out)
			}
		default:
			t := one(st)
			if strings.HasPrefix(t, "r.logger.") {
				continue
			}
			*out = append(*out, indent+t)
		}
	}
}

func c05Body(c *Ctx, file, recv, name string) ([]string, string) {
	fd := c.FuncDecl(file, recv, name)
	if fd == nil || fd.Body == nil {
		return nil, ""
	}
	var out []string
	c05Flat(c, fd.Body.List, "", &out)
	return out, c.Pos(fd)
}

// c05Loop returns the flattened first for/range statement of a function.
func c05Loop(c *Ctx, file, recv, name string) ([]string, string) {
	fd := c.FuncDecl(file, recv, name)
	if fd == nil || fd.Body == nil {
		return nil, ""
	}
	var out []string
	src := ""
	ast.Inspect(fd.Body, func(n ast.Node) bool {
		if src != "" {
			return false
		}
		switch n.(type) {
		case *ast.ForStmt, *ast.RangeStmt:
			c05Flat(c, []ast.Stmt{n.(ast.Stmt)}, "", &out)
			src = c.Pos(n)
			return false
		}
		return true
	})
	return out, src
}

// Facts about reflection/resolver.go, reflection/client.go the C05 model depends on:
// version order, RecursionLimit / ReqTimeout defaults, the "grpc." prefix, the de-duplication loops
// (incl. the insertion into `processed` — the D5 fix), the BFS loop, the version loop of resolve,
// channel capacities and the shape of the pipelined execFileDescriptorRequests.
func extractC05(c *Ctx) {
	const rfile = "reflection/resolver.go"
	const cfile = "reflection/client.go"

	// var reflectionMethods = []string{ v1, v1alpha }
	methods := []string{}
	src := ""
	if f := c.File(rfile); f != nil {
		for _, d := range f.Decls {
			gd, ok := d.(*ast.GenDecl)
			if !ok || gd.Tok != token.VAR {
				continue
			}
			for _, sp := range gd.Specs {
				vs, ok := sp.(*ast.ValueSpec)
				if !ok || len(vs.Names) != 1 || vs.Names[0].Name != "reflectionMethods" || len(vs.Values) != 1 {
					continue
				}
				if cl, ok := vs.Values[0].(*ast.CompositeLit); ok {
					src = c.Pos(vs)
					for _, e := range cl.Elts {
						methods = append(methods, c.Src(e))
					}
				}
			}
		}
		// import aliases → package paths, so that "reflectionpb" is pinned to v1
		for _, im := range f.Imports {
			if im.Name != nil && strings.HasPrefix(im.Name.Name, "reflection") {
				methods = append(methods, im.Name.Name+"="+strings.Trim(im.Path.Value, "\""))
			}
		}
	}
	c.Add("c05ReflectionMethods", "List String", LeanStrList(methods), src,
		"elements of reflectionMethods in order (initial methodPriority), then the import aliases they use")

	// withDefaults: the RecursionLimit and ReqTimeout branches
	defaults := []string{}
	src = ""
	if fd := c.FuncDecl(rfile, "ResolverOpts", "withDefaults"); fd != nil {
		src = c.Pos(fd)
		var all []string
		c05Flat(c, fd.Body.List, "", &all)
		keep := false
		for _, l := range all {
			t := strings.TrimSpace(l)
			if strings.HasPrefix(t, "if ") {
				keep = strings.Contains(t, "RecursionLimit") || strings.Contains(t, "ReqTimeout")
			} else if strings.HasPrefix(t, "else if ") {
				// same chain
			} else if !strings.HasPrefix(l, " ") {
				keep = false
			}
			if keep {
				defaults = append(defaults, l)
			}
		}
	}
	c.Add("c05Defaults", "List String", LeanStrList(defaults), src, "RecursionLimit / ReqTimeout branches of ResolverOpts.withDefaults")

	body, src := c05Body(c, rfile, "", "NewResolverBuilder")
	c.Add("c05Builder", "List String", LeanStrList(body), src, "NewResolverBuilder: withDefaults, then the administrative prefix is appended")

	body, src = c05Loop(c, rfile, "Resolver", "fileDescriptors")
	c.Add("c05FileDedupLoop", "List String", LeanStrList(body), src, "de-duplication loop of Resolver.fileDescriptors (insertion into processed = the D5 fix)")

	body, src = c05Loop(c, rfile, "Resolver", "listServiceNames")
	c.Add("c05ListLoop", "List String", LeanStrList(body), src, "filter loop of Resolver.listServiceNames")

	body, src = c05Loop(c, rfile, "Resolver", "retrieveDependencies")
	c.Add("c05BfsLoop", "List String", LeanStrList(body), src, "BFS loop of Resolver.retrieveDependencies")

	body, src = c05Body(c, rfile, "Resolver", "resolve")
	c.Add("c05ResolveBody", "List String", LeanStrList(body), src, "Resolver.resolve: version loop, Unimplemented => next, success => swap to front")

	body, src = c05Body(c, cfile, "client", "execFileDescriptorRequests")
	c.Add("c05PipeMain", "List String", LeanStrList(body), src, "client.execFileDescriptorRequests (channel capacities, defers, goroutines, for range 2)")

	body, src = c05Body(c, cfile, "client", "fileDescriptorsRequester")
	c.Add("c05PipeRequester", "List String", LeanStrList(body), src, "requester goroutine")

	body, src = c05Loop(c, cfile, "client", "fileDescriptorsReceiver")
	c.Add("c05PipeReceiver", "List String", LeanStrList(body), src, "receiver loop")

	body, src = c05Body(c, cfile, "client", "close")
	c.Add("c05PipeClose", "List String", LeanStrList(body), src, "client.close")

	// every context.WithTimeout in the client and what duration it uses
	touts := []string{}
	src = ""
	if f := c.File(cfile); f != nil {
		for _, d := range f.Decls {
			fd, ok := d.(*ast.FuncDecl)
			if !ok || fd.Body == nil {
				continue
			}
			ast.Inspect(fd.Body, func(n ast.Node) bool {
				call, ok := n.(*ast.CallExpr)
				if !ok {
					return true
				}
				if sel, ok := call.Fun.(*ast.SelectorExpr); ok && sel.Sel.Name == "WithTimeout" {
					if src == "" {
						src = c.Pos(call)
					}
					touts = append(touts, fd.Name.Name+": "+c.Src(call))
				}
				return true
			})
		}
	}
	if fd := c.FuncDecl(rfile, "Resolver", "resolveWithMethod"); fd != nil {
		ast.Inspect(fd.Body, func(n ast.Node) bool {
			if call, ok := n.(*ast.CallExpr); ok {
				if id, ok := call.Fun.(*ast.Ident); ok && id.Name == "connectClient" {
					touts = append(touts, "resolveWithMethod: "+c.Src(call))
				}
			}
			return true
		})
	}
	c.Add("c05Timeouts", "List String", LeanStrList(touts), src, "context.WithTimeout calls of the reflection client and the timeout passed by the resolver")

	// package-level variables of bridgedesc and reflection (non-test files without the verif tag): the resolver's
	// projection must not keep state between resolutions, so no map / sync.Map / sync.Pool / channel / slice-of-state
	// may live at package level.  Rendered as "<pkg>/<file>: <name> <type or initialiser>".
	vars := []string{}
	src = ""
	for _, dir := range []string{"bridgedesc", "reflection"} {
		ents, err := os.ReadDir(filepath.Join(c.Repo, dir))
		if err != nil {
			continue
		}
		for _, e := range ents {
			n := e.Name()
			if e.IsDir() || !strings.HasSuffix(n, ".go") || strings.HasSuffix(n, "_test.go") {
				continue
			}
			f := c.File(dir + "/" + n)
			if f == nil {
				continue
			}
			tagged := false
			for _, cg := range f.Comments {
				for _, cm := range cg.List {
					if cm.Pos() < f.Package && strings.HasPrefix(cm.Text, "//go:build") && strings.Contains(cm.Text, "verif") {
						tagged = true
					}
				}
			}
			if tagged {
				continue
			}
			for _, d := range f.Decls {
				gd, ok := d.(*ast.GenDecl)
				if !ok || gd.Tok != token.VAR {
					continue
				}
				for _, sp := range gd.Specs {
					vs := sp.(*ast.ValueSpec)
					for i, nm := range vs.Names {
						desc := ""
						if vs.Type != nil {
							desc = strings.Join(strings.Fields(c.Src(vs.Type)), " ")
						} else if i < len(vs.Values) {
							v := strings.Join(strings.Fields(c.Src(vs.Values[i])), " ")
							if k := strings.IndexAny(v, "{("); k > 0 {
								v = v[:k]
							}
							desc = ":= " + v
						}
						if src == "" {
							src = c.Pos(vs)
						}
						vars = append(vars, dir+"/"+n+": "+nm.Name+" "+desc)
					}
				}
			}
		}
	}
	c.Add("c05PackageVars", "List String", LeanStrList(vars), src, "package-level vars of bridgedesc and reflection")
}
