package main

import (
	"go/ast"
	"strconv"
	"strings"
)

func init() { register("c06", extractC06) }

// Facts about the table maintenance of routing.mutablePatternRoutingTable: every statement of addTarget, removeTarget,
// removeRoute, addRoute and commit, in source order, as "<nesting depth> <statement>" (compound statements by their
// header: `range …`, `for …`, `if …`, `else`). The Lean model (GB/C06/Model.lean addLoop1/addLoop2/removeRoute/addRoute,
// GB/C06/Elem.lean at element level) was written against exactly these statements; C06_facts_table_maintenance ties them
// by `decide`: in particular the branch that DROPS the per-target back-link when an HTTP method has no routes any more
// (`removeRoute` + `continue` before the append to newMethodLinks), the final overwrite of targetLinks[target.Name],
// `delete(mt.targetLinks, target)` in removeTarget and `delete(mt.routes, method)` for an emptied list.
func extractC06(c *Ctx) {
	const rt = "routing/pattern_router.go"
	squash := func(s string) string { return strings.Join(strings.Fields(s), " ") }
	var flat func(depth int, stmts []ast.Stmt, out *[]string)
	flat = func(depth int, stmts []ast.Stmt, out *[]string) {
		add := func(s string) { *out = append(*out, strconv.Itoa(depth)+" "+squash(s)) }
		for _, st := range stmts {
			switch x := st.(type) {
			case *ast.RangeStmt:
				h := "range " + c.Src(x.X)
				if x.Key != nil {
					k := c.Src(x.Key)
					if x.Value != nil {
						k += ", " + c.Src(x.Value)
					}
					h = k + " := " + h
				}
				add(h)
				flat(depth+1, x.Body.List, out)
			case *ast.ForStmt:
				h := "for"
				if x.Init != nil {
					h += " " + c.Src(x.Init) + ";"
				}
				if x.Cond != nil {
					h += " " + c.Src(x.Cond)
				}
				if x.Post != nil {
					h += "; " + c.Src(x.Post)
				}
				add(h)
				flat(depth+1, x.Body.List, out)
			case *ast.IfStmt:
				h := "if "
				if x.Init != nil {
					h += c.Src(x.Init) + "; "
				}
				add(h + c.Src(x.Cond))
				flat(depth+1, x.Body.List, out)
				if x.Else != nil {
					add("else")
					if b, ok := x.Else.(*ast.BlockStmt); ok {
						flat(depth+1, b.List, out)
					} else {
						flat(depth+1, []ast.Stmt{x.Else}, out)
					}
				}
			case *ast.BlockStmt:
				flat(depth+1, x.List, out)
			default:
				add(c.Src(st))
			}
		}
	}
	for _, fn := range []string{"addTarget", "removeTarget", "removeRoute", "addRoute", "commit"} {
		fd := c.FuncDecl(rt, "mutablePatternRoutingTable", fn)
		src := rt
		var out []string
		if fd != nil && fd.Body != nil {
			src = c.Pos(fd)
			flat(0, fd.Body.List, &out)
		}
		c.Add("c06"+strings.ToUpper(fn[:1])+fn[1:]+"Stmts", "List String", LeanStrList(out), src,
			"statements of mutablePatternRoutingTable."+fn+" in source order (nesting depth, statement / header)")
	}
	// the fields of the table and of a back-link (a per-target MAP method -> element instead of the slice is C03-m9's shape)
	var fields []string
	if f := c.File(rt); f != nil {
		ast.Inspect(f, func(n ast.Node) bool {
			ts, ok := n.(*ast.TypeSpec)
			if !ok {
				return true
			}
			if ts.Name.Name != "mutablePatternRoutingTable" && ts.Name.Name != "methodPatternRoutes" && ts.Name.Name != "targetPatternRoutes" {
				return true
			}
			if st, ok := ts.Type.(*ast.StructType); ok {
				for _, fl := range st.Fields.List {
					for _, nm := range fl.Names {
						fields = append(fields, ts.Name.Name+"."+nm.Name+" "+squash(c.Src(fl.Type)))
					}
				}
			}
			return true
		})
	}
	c.Add("c06TableFields", "List String", LeanStrList(fields), rt, "fields of targetPatternRoutes, methodPatternRoutes, mutablePatternRoutingTable")
}
