package main

import (
	"fmt"
	"go/ast"
	"go/parser"
	"path/filepath"
	"sort"
	"strings"
)

func init() { register("c09", extractC09) }

// Structural facts about package transcoding for C09 (codec results are history-free):
//   - c09TranscodingPackageVars: every non-blank package-level variable with a coarse class of its type
//     (map / sync.* / chan / ptrMarshaler / slice / other) — shared mutable state a codec could consult;
//   - c09NewEncoderRefs / c09NewDecoderRefs: what JSONMarshaler.NewEncoder / NewDecoder call, construct and
//     which package-level variables they mention — they must build the codec from their arguments only.
func extractC09(c *Ctx) {
	type pv struct{ name, class string }
	var vars []pv
	varNames := map[string]bool{}
	for _, rel := range goFiles(c, "transcoding") {
		f, err := parser.ParseFile(c.Fset, filepath.Join(c.Repo, rel), nil, 0)
		if err != nil {
			vars = append(vars, pv{rel + ":<unparsable>", "other"})
			continue
		}
		for _, decl := range f.Decls {
			gd, ok := decl.(*ast.GenDecl)
			if !ok || gd.Tok.String() != "var" {
				continue
			}
			for _, sp := range gd.Specs {
				vs := sp.(*ast.ValueSpec)
				for i, id := range vs.Names {
					if id.Name == "_" {
						continue
					}
					var val ast.Expr
					if i < len(vs.Values) {
						val = vs.Values[i]
					}
					vars = append(vars, pv{rel + ":" + id.Name, varClass(c, vs.Type, val)})
					varNames[id.Name] = true
				}
			}
		}
	}
	sort.Slice(vars, func(i, j int) bool { return vars[i].name < vars[j].name })
	items := make([]string, len(vars))
	for i, v := range vars {
		items[i] = "(" + LeanStr(v.name) + ", " + LeanStr(v.class) + ")"
	}
	c.Add("c09TranscodingPackageVars", "List (String × String)", "["+strings.Join(items, ", ")+"]", "transcoding/*.go",
		"non-blank package-level variables of package transcoding with the class of their type (file:name, class)")

	sites, pos := bridgeTranscoderSites(c)
	c.Add("c09BridgeTranscoderSites", "List String", LeanStrList(sites), pos,
		"Transcoder field of the webbridge.Transcoded…BridgeOpts literals in grpcbridge.NewWebBridge (type:value)")
	// how many times NewWebBridge builds a StandardTranscoder
	nTr := 0
	if fd := c.FuncDecl("bridge.go", "", "NewWebBridge"); fd != nil && fd.Body != nil {
		ast.Inspect(fd.Body, func(n ast.Node) bool {
			if ce, ok := n.(*ast.CallExpr); ok && strings.HasSuffix(c.Src(ce.Fun), "NewStandardTranscoder") {
				nTr++
			}
			return true
		})
	}
	c.Add("c09BridgeTranscoderCount", "Nat", fmt.Sprint(nTr), pos, "calls of transcoding.NewStandardTranscoder in grpcbridge.NewWebBridge")

	for _, fn := range [][2]string{{"NewEncoder", "c09NewEncoderRefs"}, {"NewDecoder", "c09NewDecoderRefs"}} {
		refs := []string{"<not found>"}
		src := ""
		if fd := c.FuncDecl("transcoding/json.go", "JSONMarshaler", fn[0]); fd != nil && fd.Body != nil {
			src = c.Pos(fd)
			set := map[string]bool{}
			ast.Inspect(fd.Body, func(n ast.Node) bool {
				switch x := n.(type) {
				case *ast.CallExpr:
					set["call:"+c.Src(x.Fun)] = true
				case *ast.CompositeLit:
					if x.Type != nil {
						set["lit:"+c.Src(x.Type)] = true
					}
				case *ast.Ident:
					if varNames[x.Name] {
						set["var:"+x.Name] = true
					}
				case *ast.GoStmt:
					set["go"] = true
				}
				return true
			})
			refs = refs[:0]
			for k := range set {
				refs = append(refs, k)
			}
			sort.Strings(refs)
		}
		c.Add(fn[1], "List String", LeanStrList(refs), src,
			"calls, composite literals and package-level variables mentioned in the body of (*JSONMarshaler)."+fn[0])
	}
}

// bridgeTranscoderSites: the composite literals of webbridge.Transcoded…BridgeOpts inside NewWebBridge and what
// their Transcoder field is set to ("<type>:<value>", "<type>:<unset>").
func bridgeTranscoderSites(c *Ctx) ([]string, string) {
	fd := c.FuncDecl("bridge.go", "", "NewWebBridge")
	if fd == nil || fd.Body == nil {
		return []string{"<not found>"}, ""
	}
	var out []string
	ast.Inspect(fd.Body, func(n ast.Node) bool {
		cl, ok := n.(*ast.CompositeLit)
		if !ok || cl.Type == nil {
			return true
		}
		t := c.Src(cl.Type)
		if !strings.Contains(t, "Transcoded") {
			return true
		}
		val := "<unset>"
		for _, e := range cl.Elts {
			if kv, ok := e.(*ast.KeyValueExpr); ok && c.Src(kv.Key) == "Transcoder" {
				val = c.Src(kv.Value)
			}
		}
		out = append(out, t+":"+val)
		return true
	})
	sort.Strings(out)
	return out, c.Pos(fd)
}

func varClass(c *Ctx, typ, val ast.Expr) string {
	src := ""
	if typ != nil {
		src = c.Src(typ)
	} else if val != nil {
		src = c.Src(val)
	}
	src = strings.TrimSpace(src)
	switch {
	case strings.HasPrefix(src, "map[") || strings.HasPrefix(src, "make(map["):
		return "map"
	case strings.HasPrefix(src, "sync.") || strings.HasPrefix(src, "&sync.") || strings.HasPrefix(src, "new(sync.") || strings.HasPrefix(src, "atomic.") || strings.HasPrefix(src, "&atomic."):
		return "sync"
	case strings.HasPrefix(src, "chan ") || strings.HasPrefix(src, "make(chan"):
		return "chan"
	case strings.Contains(src, "Marshaler") && (strings.HasPrefix(src, "*") || strings.HasPrefix(src, "&") || strings.HasPrefix(src, "new(")):
		return "ptrMarshaler"
	case strings.HasPrefix(src, "[]") || strings.HasPrefix(src, "make([]"):
		return "slice"
	case strings.HasPrefix(src, "*") || strings.HasPrefix(src, "&") || strings.HasPrefix(src, "new("):
		return "pointer"
	}
	return "other"
}
