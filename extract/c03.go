package main

import (
	"go/ast"
	"strconv"
	"strings"
)

func init() { register("c03", extractC03) }

// Facts about where PatternRouter.RouteHTTP cuts the verb off the last path component: inside the per-route
// callback handed to routes.iterate, by that route's own verb (seeded change C03-m10 moved it in front of the loop,
// one split at the last ':'). Tied by `decide` in C03_facts_verb_split.
func extractC03(c *Ctx) {
	const rt = "routing/pattern_router.go"
	fd := c.FuncDecl(rt, "PatternRouter", "RouteHTTP")
	src := rt
	var inner, outer, matchArgs, suffixArgs, innerDecls []string
	if fd != nil {
		src = c.Pos(fd)
		// the callback: the FuncLit argument of the `….iterate(…)` call
		var cb *ast.FuncLit
		ast.Inspect(fd.Body, func(n ast.Node) bool {
			ce, ok := n.(*ast.CallExpr)
			if !ok || cb != nil {
				return true
			}
			if se, ok := ce.Fun.(*ast.SelectorExpr); ok && se.Sel.Name == "iterate" {
				for _, a := range ce.Args {
					if fl, ok := a.(*ast.FuncLit); ok {
						cb = fl
					}
				}
			}
			return true
		})
		ast.Inspect(fd.Body, func(n ast.Node) bool {
			if n == nil {
				return true
			}
			in := cb != nil && n.Pos() >= cb.Pos() && n.End() <= cb.End()
			switch x := n.(type) {
			case *ast.CallExpr:
				name := c.Src(x.Fun)
				if in {
					inner = append(inner, name)
				} else {
					outer = append(outer, name)
				}
				args := make([]string, len(x.Args))
				for i, a := range x.Args {
					args[i] = c.Src(a)
				}
				if strings.HasSuffix(name, ".MatchAndEscape") {
					matchArgs = append(matchArgs, args...)
				}
				if name == "strings.HasSuffix" && in {
					suffixArgs = append(suffixArgs, args...)
				}
			case *ast.ValueSpec:
				if in {
					for _, id := range x.Names {
						innerDecls = append(innerDecls, id.Name)
					}
				}
			case *ast.AssignStmt:
				if in && x.Tok.String() == ":=" {
					for _, l := range x.Lhs {
						innerDecls = append(innerDecls, c.Src(l))
					}
				}
			}
			return true
		})
	}
	c.Add("c03RouteCallbackCalls", "List String", LeanStrList(inner), src, "every call inside the per-route callback of RouteHTTP, in source order")
	c.Add("c03RouteOuterCalls", "List String", LeanStrList(outer), src, "every call of RouteHTTP outside the per-route callback, in source order")
	c.Add("c03RouteMatchArgs", "List String", LeanStrList(matchArgs), src, "arguments of the MatchAndEscape call(s) in RouteHTTP")
	c.Add("c03RouteSuffixArgs", "List String", LeanStrList(suffixArgs), src, "arguments of strings.HasSuffix inside the callback")
	// mutablePatternRoutingTable.commit: every method's list is copied under its OWN key, nothing else is written
	cm := c.FuncDecl(rt, "mutablePatternRoutingTable", "commit")
	csrc := rt
	var idxAssigns, ranges []string
	cstmts := 0
	if cm != nil {
		csrc = c.Pos(cm)
		cstmts = len(cm.Body.List)
		ast.Inspect(cm.Body, func(n ast.Node) bool {
			switch x := n.(type) {
			case *ast.AssignStmt:
				for _, l := range x.Lhs {
					if _, ok := l.(*ast.IndexExpr); ok {
						rhs := make([]string, len(x.Rhs))
						for i, r := range x.Rhs {
							rhs[i] = c.Src(r)
						}
						idxAssigns = append(idxAssigns, c.Src(l)+x.Tok.String()+strings.Join(rhs, ","))
					}
				}
			case *ast.RangeStmt:
				k, v := "_", "_"
				if x.Key != nil {
					k = c.Src(x.Key)
				}
				if x.Value != nil {
					v = c.Src(x.Value)
				}
				ranges = append(ranges, k+","+v+":=range "+c.Src(x.X))
			}
			return true
		})
	}
	c.Add("c03CommitIndexAssigns", "List String", LeanStrList(idxAssigns), csrc, "every map/index assignment in mutablePatternRoutingTable.commit")
	c.Add("c03CommitRanges", "List String", LeanStrList(ranges), csrc, "every range loop of commit")
	c.Add("c03CommitStmts", "Nat", strconv.Itoa(cstmts), csrc, "number of top-level statements of commit")
	c.Add("c03RouteCallbackDecls", "List String", LeanStrList(innerDecls), src, "variables declared inside the per-route callback")
}
