package main

import (
	"fmt"
	"go/ast"
	"go/token"
	"strconv"
	"strings"
)

func init() { register("c12", extractC12) }

// timeoutUnitToDuration switch rows and the size bounds of decodeTimeout.
func extractC12(c *Ctx) {
	const file = "grpcadapter/forwarder.go"
	rows := []string{}
	src := ""
	if fd := c.FuncDecl(file, "", "timeoutUnitToDuration"); fd != nil {
		src = c.Pos(fd)
		ast.Inspect(fd.Body, func(n ast.Node) bool {
			cc, ok := n.(*ast.CaseClause)
			if !ok || len(cc.List) != 1 || len(cc.Body) != 1 {
				return true
			}
			lit, ok := cc.List[0].(*ast.BasicLit)
			if !ok || lit.Kind != token.CHAR {
				return true
			}
			ch, _, _, err := strconv.UnquoteChar(strings.Trim(lit.Value, "'"), '\'')
			if err != nil {
				return true
			}
			ret, ok := cc.Body[0].(*ast.ReturnStmt)
			if !ok || len(ret.Results) != 2 {
				return true
			}
			sel, ok := ret.Results[0].(*ast.SelectorExpr)
			if !ok {
				return true
			}
			if x, ok := sel.X.(*ast.Ident); !ok || x.Name != "time" {
				return true
			}
			rows = append(rows, fmt.Sprintf("(%d, %s)", ch, LeanStr(sel.Sel.Name)))
			return true
		})
	}
	c.Add("timeoutUnits", "List (Nat × String)", "["+strings.Join(rows, ", ")+"]", src, "rows of timeoutUnitToDuration")

	lo, hi := 0, 0
	src = ""
	if fd := c.FuncDecl(file, "", "decodeTimeout"); fd != nil {
		src = c.Pos(fd)
		ast.Inspect(fd.Body, func(n ast.Node) bool {
			switch x := n.(type) {
			case *ast.BinaryExpr:
				if id, ok := x.X.(*ast.Ident); ok && id.Name == "size" {
					if lit, ok := x.Y.(*ast.BasicLit); ok && lit.Kind == token.INT {
						v, _ := strconv.Atoi(lit.Value)
						if x.Op == token.LSS {
							lo = v
						} else if x.Op == token.GTR {
							hi = v
						}
					}
				}
			}
			return true
		})
	}
	c.Add("timeoutSizeBounds", "Nat × Nat", fmt.Sprintf("(%d, %d)", lo, hi), src, "decodeTimeout rejects size < fst or size > snd")
}
