package main

import (
	"fmt"
	"go/ast"
	"go/parser"
	"go/token"
	"os"
	"path/filepath"
	"regexp"
	"strconv"
	"strings"
)

func init() { register("c10", extractC10) }

// C10 facts:
//   - c10GatewayTable: the switch rows of the third-party runtime.HTTPStatusFromCode (grpc-gateway, the version
//     pinned in the repo's go.mod, read from the module cache) as (codes.<Name>, http.<Name> | literal);
//   - c10GatewayDefault: what its default branch returns;
//   - c10HttpStatusCanceled, c10FallbackFormat, c10TextContentTypes: constants/literals of webbridge/webbridge.go.
func extractC10(c *Ctx) {
	rows, def, src := gatewayTable(c)
	c.Add("c10GatewayTable", "List (String × String)", "["+strings.Join(rows, ", ")+"]", src, "rows of grpc-gateway runtime.HTTPStatusFromCode")
	c.Add("c10GatewayDefault", "String", LeanStr(def), src, "default branch of runtime.HTTPStatusFromCode")

	const file = "webbridge/webbridge.go"
	canceled, csrc := 0, ""
	if f := c.File(file); f != nil {
		ast.Inspect(f, func(n ast.Node) bool {
			vs, ok := n.(*ast.ValueSpec)
			if !ok || len(vs.Names) != 1 || vs.Names[0].Name != "httpStatusCanceled" || len(vs.Values) != 1 {
				return true
			}
			if lit, ok := vs.Values[0].(*ast.BasicLit); ok && lit.Kind == token.INT {
				canceled, _ = strconv.Atoi(lit.Value)
				csrc = c.Pos(vs)
			}
			return true
		})
	}
	c.Add("c10HttpStatusCanceled", "Nat", strconv.Itoa(canceled), csrc, "const httpStatusCanceled")

	format, cts, fsrc := "", []string{}, ""
	if fd := c.FuncDecl(file, "", "transcodeError"); fd != nil {
		fsrc = c.Pos(fd)
		// only the fallback path: the else block of `if transcodeErr == nil { … } else { … }`
		var fallback ast.Node = &ast.BlockStmt{}
		for _, st := range fd.Body.List {
			if ifs, ok := st.(*ast.IfStmt); ok && ifs.Else != nil {
				fallback = ifs.Else
			}
		}
		ast.Inspect(fallback, func(n ast.Node) bool {
			switch x := n.(type) {
			case *ast.CallExpr:
				// fmt.Fprintf(&buf, "…%s…", …) / fmt.Sprintf("…%s…", …) / fmt.Appendf(nil, "…", …): the format literal
				for _, a := range x.Args {
					if lit, ok := a.(*ast.BasicLit); ok && lit.Kind == token.STRING && strings.Contains(lit.Value, "%") && format == "" {
						format, _ = strconv.Unquote(lit.Value)
					}
				}
			case *ast.CompositeLit: // []string{"text/plain; charset=utf-8"} / []string{"nosniff"}
				for _, e := range x.Elts {
					if lit, ok := e.(*ast.BasicLit); ok && lit.Kind == token.STRING {
						s, _ := strconv.Unquote(lit.Value)
						cts = append(cts, s)
					}
				}
			}
			return true
		})
	}
	c.Add("c10FallbackFormat", "String", LeanStr(format), fsrc, "format of the plain-text fallback in transcodeError")
	c.Add("c10FallbackHeaders", "List String", LeanStrList(cts), fsrc, "header values set on the fallback path of transcodeError")
}

var gwRequire = regexp.MustCompile(`(?m)^\s*github\.com/grpc-ecosystem/grpc-gateway/v2\s+(v\S+)`)

func gatewayTable(c *Ctx) (rows []string, def string, src string) {
	def = "?"
	gomod, err := os.ReadFile(filepath.Join(c.Repo, "go.mod"))
	if err != nil {
		return nil, def, ""
	}
	m := gwRequire.FindSubmatch(gomod)
	if m == nil {
		return nil, def, ""
	}
	ver := string(m[1])
	var cands []string
	if v := os.Getenv("GOMODCACHE"); v != "" {
		cands = append(cands, v)
	}
	if v := os.Getenv("GOPATH"); v != "" {
		for _, p := range filepath.SplitList(v) {
			cands = append(cands, filepath.Join(p, "pkg", "mod"))
		}
	}
	if h, err := os.UserHomeDir(); err == nil {
		cands = append(cands, filepath.Join(h, "go", "pkg", "mod"))
	}
	for _, mc := range cands {
		p := filepath.Join(mc, "github.com", "grpc-ecosystem", "grpc-gateway", "v2@"+ver, "runtime", "errors.go")
		f, err := parser.ParseFile(c.Fset, p, nil, 0)
		if err != nil {
			continue
		}
		src = fmt.Sprintf("grpc-gateway/v2@%s/runtime/errors.go", ver)
		for _, d := range f.Decls {
			fd, ok := d.(*ast.FuncDecl)
			if !ok || fd.Name.Name != "HTTPStatusFromCode" || fd.Recv != nil {
				continue
			}
			ast.Inspect(fd.Body, func(n ast.Node) bool {
				cc, ok := n.(*ast.CaseClause)
				if !ok {
					return true
				}
				ret := ""
				for _, st := range cc.Body {
					if r, ok := st.(*ast.ReturnStmt); ok && len(r.Results) == 1 {
						switch x := r.Results[0].(type) {
						case *ast.SelectorExpr:
							ret = x.Sel.Name
						case *ast.BasicLit:
							ret = x.Value
						}
					}
				}
				if cc.List == nil {
					def = ret
					return true
				}
				for _, e := range cc.List {
					if sel, ok := e.(*ast.SelectorExpr); ok {
						rows = append(rows, fmt.Sprintf("(%s, %s)", LeanStr(sel.Sel.Name), LeanStr(ret)))
					}
				}
				return true
			})
		}
		return rows, def, src
	}
	return nil, def, ""
}
