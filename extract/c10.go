package main

import (
	"fmt"
	"go/ast"
	"go/parser"
	"go/token"
	"os"
	"path/filepath"
	"regexp"
	"strconv"
	"strings"
)

func init() { register("c10", extractC10) }

// C10 facts:
//   - c10GatewayTable: the switch rows of the third-party runtime.HTTPStatusFromCode (grpc-gateway, the version
//     pinned in the repo's go.mod, read from the module cache) as (codes.<Name>, http.<Name> | literal);
//   - c10GatewayDefault: what its default branch returns;
//   - c10HttpStatusCanceled, c10FallbackFormat, c10TextContentTypes: constants/literals of webbridge/webbridge.go.
func extractC10(c *Ctx) {
	rows, def, src := gatewayTable(c)
	c.Add("c10GatewayTable", "List (String × String)", "["+strings.Join(rows, ", ")+"]", src, "rows of grpc-gateway runtime.HTTPStatusFromCode")
	c.Add("c10GatewayDefault", "String", LeanStr(def), src, "default branch of runtime.HTTPStatusFromCode")

	const file = "webbridge/webbridge.go"
	canceled, csrc := 0, ""
	if f := c.File(file); f != nil {
		ast.Inspect(f, func(n ast.Node) bool {
			vs, ok := n.(*ast.ValueSpec)
			if !ok || len(vs.Names) != 1 || vs.Names[0].Name != "httpStatusCanceled" || len(vs.Values) != 1 {
				return true
			}
			if lit, ok := vs.Values[0].(*ast.BasicLit); ok && lit.Kind == token.INT {
				canceled, _ = strconv.Atoi(lit.Value)
				csrc = c.Pos(vs)
			}
			return true
		})
	}
	c.Add("c10HttpStatusCanceled", "Nat", strconv.Itoa(canceled), csrc, "const httpStatusCanceled")

	format, cts, fsrc := "", []string{}, ""
	if fd := c.FuncDecl(file, "", "transcodeError"); fd != nil {
		fsrc = c.Pos(fd)
		// only the fallback path: the else block of `if transcodeErr == nil { … } else { … }`
		var fallback ast.Node = &ast.BlockStmt{}
		for _, st := range fd.Body.List {
			if ifs, ok := st.(*ast.IfStmt); ok && ifs.Else != nil {
				fallback = ifs.Else
			}
		}
		ast.Inspect(fallback, func(n ast.Node) bool {
			switch x := n.(type) {
			case *ast.CallExpr:
				// fmt.Fprintf(&buf, "…%s…", …) / fmt.Sprintf("…%s…", …) / fmt.Appendf(nil, "…", …): the format literal
				for _, a := range x.Args {
					if lit, ok := a.(*ast.BasicLit); ok && lit.Kind == token.STRING && strings.Contains(lit.Value, "%") && format == "" {
						format, _ = strconv.Unquote(lit.Value)
					}
				}
			case *ast.CompositeLit: // []string{"text/plain; charset=utf-8"} / []string{"nosniff"}
				for _, e := range x.Elts {
					if lit, ok := e.(*ast.BasicLit); ok && lit.Kind == token.STRING {
						s, _ := strconv.Unquote(lit.Value)
						cts = append(cts, s)
					}
				}
			}
			return true
		})
	}
	c.Add("c10FallbackFormat", "String", LeanStr(format), fsrc, "format of the plain-text fallback in transcodeError")
	c.Add("c10FallbackHeaders", "List String", LeanStrList(cts), fsrc, "header values set on the fallback path of transcodeError")

	extractC10Options(c)
}

// Option plumbing facts (bridge.go, transcoding/http.go):
//   - c10NewWebBridgeTranscoderArg: the argument NewWebBridge passes to transcoding.NewStandardTranscoder;
//   - c10NewWebBridgeWrites: every place in NewWebBridge that writes to (a field of) options.transcoderOpts:
//     left-hand sides of assignments / inc-dec, and transcoderOpts values handed to append or taken by address;
//   - c10MarshalerOptions: (function, assigned field, assigned value) of the option constructors that touch transcoderOpts;
//   - c10WithDefaults: (guard, assigned field, value) of every `if <guard> { o.F = v }` of StandardTranscoderOpts.withDefaults;
//   - c10WithDefaultsUnguarded: assignments to the receiver's fields in withDefaults that are not of that shape.
func extractC10Options(c *Ctx) {
	arg, writes, src := "?", []string{}, ""
	if fd := c.FuncDecl("bridge.go", "", "NewWebBridge"); fd != nil {
		src = c.Pos(fd)
		ast.Inspect(fd.Body, func(n ast.Node) bool {
			switch x := n.(type) {
			case *ast.CallExpr:
				if sel, ok := x.Fun.(*ast.SelectorExpr); ok && sel.Sel.Name == "NewStandardTranscoder" && len(x.Args) == 1 {
					arg = c.Src(x.Args[0])
				}
				if id, ok := x.Fun.(*ast.Ident); ok && id.Name == "append" {
					for _, a := range x.Args {
						if strings.Contains(c.Src(a), "transcoderOpts") {
							writes = append(writes, "append:"+c.Src(a))
						}
					}
				}
			case *ast.AssignStmt:
				for _, l := range x.Lhs {
					if strings.Contains(c.Src(l), "transcoderOpts") {
						writes = append(writes, c.Src(l))
					}
				}
			case *ast.IncDecStmt:
				if strings.Contains(c.Src(x.X), "transcoderOpts") {
					writes = append(writes, c.Src(x.X))
				}
			case *ast.UnaryExpr:
				if x.Op == token.AND && strings.Contains(c.Src(x.X), "transcoderOpts") {
					writes = append(writes, "&"+c.Src(x.X))
				}
			}
			return true
		})
	}
	c.Add("c10NewWebBridgeTranscoderArg", "String", LeanStr(arg), src, "argument of transcoding.NewStandardTranscoder in NewWebBridge")
	c.Add("c10NewWebBridgeWrites", "List String", LeanStrList(writes), src, "writes to options.transcoderOpts inside NewWebBridge")

	optRows := []string{}
	if f := c.File("bridge.go"); f != nil {
		for _, d := range f.Decls {
			fd, ok := d.(*ast.FuncDecl)
			if !ok || fd.Recv != nil || fd.Body == nil || fd.Name.Name == "NewWebBridge" {
				continue
			}
			ast.Inspect(fd.Body, func(n ast.Node) bool {
				as, ok := n.(*ast.AssignStmt)
				if !ok || len(as.Lhs) != 1 || len(as.Rhs) != 1 {
					return true
				}
				if l := c.Src(as.Lhs[0]); strings.Contains(l, "transcoderOpts") {
					optRows = append(optRows, fmt.Sprintf("(%s, %s, %s)", LeanStr(fd.Name.Name), LeanStr(l), LeanStr(c.Src(as.Rhs[0]))))
				}
				return true
			})
		}
	}
	sortStrings(optRows)
	c.Add("c10MarshalerOptions", "List (String × String × String)", "["+strings.Join(optRows, ", ")+"]", "bridge.go", "option constructors assigning to transcoderOpts")

	guarded, unguarded, wsrc := []string{}, []string{}, ""
	if fd := c.FuncDecl("transcoding/http.go", "StandardTranscoderOpts", "withDefaults"); fd != nil {
		wsrc = c.Pos(fd)
		recv := "o"
		if len(fd.Recv.List[0].Names) == 1 {
			recv = fd.Recv.List[0].Names[0].Name
		}
		seen := map[*ast.AssignStmt]bool{}
		for _, st := range fd.Body.List {
			ifs, ok := st.(*ast.IfStmt)
			if !ok || ifs.Else != nil || ifs.Init != nil || len(ifs.Body.List) != 1 {
				continue
			}
			as, ok := ifs.Body.List[0].(*ast.AssignStmt)
			if !ok || len(as.Lhs) != 1 || len(as.Rhs) != 1 {
				continue
			}
			seen[as] = true
			guarded = append(guarded, fmt.Sprintf("(%s, %s, %s)", LeanStr(c.Src(ifs.Cond)), LeanStr(c.Src(as.Lhs[0])), LeanStr(c.Src(as.Rhs[0]))))
		}
		ast.Inspect(fd.Body, func(n ast.Node) bool {
			as, ok := n.(*ast.AssignStmt)
			if !ok || seen[as] {
				return true
			}
			for _, l := range as.Lhs {
				if strings.HasPrefix(c.Src(l), recv+".") || c.Src(l) == recv {
					unguarded = append(unguarded, c.Src(l))
				}
			}
			return true
		})
	}
	c.Add("c10WithDefaults", "List (String × String × String)", "["+strings.Join(guarded, ", ")+"]", wsrc, "guarded assignments of withDefaults, in order")
	c.Add("c10WithDefaultsUnguarded", "List String", LeanStrList(unguarded), wsrc, "other assignments to the receiver in withDefaults")

	// what the negotiation reads of the raw request: selectors X in `….RawRequest.X` inside Bind and the two pick functions
	reads := map[string]bool{}
	for _, fn := range []string{"Bind", "pickRequestMarshaler", "pickResponseMarshaler"} {
		fd := c.FuncDecl("transcoding/http.go", "StandardTranscoder", fn)
		if fd == nil {
			reads["?"+fn] = true
			continue
		}
		ast.Inspect(fd.Body, func(n ast.Node) bool {
			sel, ok := n.(*ast.SelectorExpr)
			if !ok {
				return true
			}
			if inner, ok := sel.X.(*ast.SelectorExpr); ok && inner.Sel.Name == "RawRequest" {
				reads[sel.Sel.Name] = true
			}
			return true
		})
	}
	var rl []string
	for k := range reads {
		rl = append(rl, k)
	}
	sortStrings(rl)
	c.Add("c10NegotiationReads", "List String", LeanStrList(rl), "transcoding/http.go", "fields of RawRequest read by Bind / pickRequestMarshaler / pickResponseMarshaler")
}

func sortStrings(xs []string) {
	for i := 1; i < len(xs); i++ {
		for j := i; j > 0 && xs[j] < xs[j-1]; j-- {
			xs[j], xs[j-1] = xs[j-1], xs[j]
		}
	}
}

var gwRequire = regexp.MustCompile(`(?m)^\s*github\.com/grpc-ecosystem/grpc-gateway/v2\s+(v\S+)`)

func gatewayTable(c *Ctx) (rows []string, def string, src string) {
	def = "?"
	gomod, err := os.ReadFile(filepath.Join(c.Repo, "go.mod"))
	if err != nil {
		return nil, def, ""
	}
	m := gwRequire.FindSubmatch(gomod)
	if m == nil {
		return nil, def, ""
	}
	ver := string(m[1])
	var cands []string
	if v := os.Getenv("GOMODCACHE"); v != "" {
		cands = append(cands, v)
	}
	if v := os.Getenv("GOPATH"); v != "" {
		for _, p := range filepath.SplitList(v) {
			cands = append(cands, filepath.Join(p, "pkg", "mod"))
		}
	}
	if h, err := os.UserHomeDir(); err == nil {
		cands = append(cands, filepath.Join(h, "go", "pkg", "mod"))
	}
	for _, mc := range cands {
		p := filepath.Join(mc, "github.com", "grpc-ecosystem", "grpc-gateway", "v2@"+ver, "runtime", "errors.go")
		f, err := parser.ParseFile(c.Fset, p, nil, 0)
		if err != nil {
			continue
		}
		src = fmt.Sprintf("grpc-gateway/v2@%s/runtime/errors.go", ver)
		for _, d := range f.Decls {
			fd, ok := d.(*ast.FuncDecl)
			if !ok || fd.Name.Name != "HTTPStatusFromCode" || fd.Recv != nil {
				continue
			}
			ast.Inspect(fd.Body, func(n ast.Node) bool {
				cc, ok := n.(*ast.CaseClause)
				if !ok {
					return true
				}
				ret := ""
				for _, st := range cc.Body {
					if r, ok := st.(*ast.ReturnStmt); ok && len(r.Results) == 1 {
						switch x := r.Results[0].(type) {
						case *ast.SelectorExpr:
							ret = x.Sel.Name
						case *ast.BasicLit:
							ret = x.Value
						}
					}
				}
				if cc.List == nil {
					def = ret
					return true
				}
				for _, e := range cc.List {
					if sel, ok := e.(*ast.SelectorExpr); ok {
						rows = append(rows, fmt.Sprintf("(%s, %s)", LeanStr(sel.Sel.Name), LeanStr(ret)))
					}
				}
				return true
			})
		}
		return rows, def, src
	}
	return nil, def, ""
}

func init() { register("c10rb", extractC10RespBody) }

// Facts about response_body selection (round 5), transcoding/http.go:
//   - c10TraverseLookups: the methods called on the field list (`fields.<Method>(…)`) inside traverseFieldPath, sorted —
//     ["ByName"]: proto names only;
//   - c10TraverseNotMessageCond: the condition guarding the "… is not a message" error return;
//   - c10TraverseDescend: the right-hand sides assigned to `msg` inside the loop;
//   - c10RespTranscodeCalls: in standardResponseTranscoder.transcodeFunc, the traverseFieldPath call and every call of
//     the marshal callback `f`, as source text in order;
//   - c10RespTranscodeAssigns: how often transcodeFunc assigns each of msg / fd (a second assignment would re-target the
//     selection after the walk).
func extractC10RespBody(c *Ctx) {
	const file = "transcoding/http.go"
	lookups := map[string]bool{}
	cond, csrc := "", ""
	var descend []string
	if fd := c.FuncDecl(file, "", "traverseFieldPath"); fd != nil {
		csrc = c.Pos(fd)
		ast.Inspect(fd, func(n ast.Node) bool {
			switch x := n.(type) {
			case *ast.CallExpr:
				if sel, ok := x.Fun.(*ast.SelectorExpr); ok {
					if id, ok := sel.X.(*ast.Ident); ok && id.Name == "fields" {
						lookups[sel.Sel.Name] = true
					}
				}
			case *ast.IfStmt:
				if strings.Contains(c.Src(x.Body), "is not a message") {
					cond = c.Src(x.Cond)
				}
			case *ast.ForStmt:
				ast.Inspect(x.Body, func(m ast.Node) bool {
					if as, ok := m.(*ast.AssignStmt); ok {
						for i, l := range as.Lhs {
							if id, ok := l.(*ast.Ident); ok && id.Name == "msg" && i < len(as.Rhs) {
								descend = append(descend, c.Src(as.Rhs[i]))
							}
						}
					}
					return true
				})
			}
			return true
		})
	}
	var ll []string
	for k := range lookups {
		ll = append(ll, k)
	}
	sortStrings(ll)
	c.Add("c10TraverseLookups", "List String", LeanStrList(ll), csrc, "methods called on the field list in traverseFieldPath")
	c.Add("c10TraverseNotMessageCond", "String", LeanStr(cond), csrc, "condition of the 'is not a message' error in traverseFieldPath")
	c.Add("c10TraverseDescend", "List String", LeanStrList(descend), csrc, "values assigned to msg inside the loop of traverseFieldPath")

	var calls []string
	counts := map[string]int{"msg": 0, "fd": 0}
	tsrc := ""
	if fd := c.FuncDecl(file, "standardResponseTranscoder", "transcodeFunc"); fd != nil {
		tsrc = c.Pos(fd)
		ast.Inspect(fd.Body, func(n ast.Node) bool {
			switch x := n.(type) {
			case *ast.CallExpr:
				if id, ok := x.Fun.(*ast.Ident); ok && (id.Name == "f" || id.Name == "traverseFieldPath") {
					calls = append(calls, c.Src(x))
				}
			case *ast.AssignStmt:
				for _, l := range x.Lhs {
					if id, ok := l.(*ast.Ident); ok {
						if _, ok := counts[id.Name]; ok {
							counts[id.Name]++
						}
					}
				}
			}
			return true
		})
	}
	c.Add("c10RespTranscodeCalls", "List String", LeanStrList(calls), tsrc, "traverseFieldPath / marshal-callback calls of standardResponseTranscoder.transcodeFunc")
	c.Add("c10RespTranscodeAssigns", "List (String × Nat)", fmt.Sprintf("[(\"fd\", %d), (\"msg\", %d)]", counts["fd"], counts["msg"]), tsrc, "assignments to msg / fd in transcodeFunc")
}

func init() { register("c10marshaler", extractC10Marshaler) }

// Facts about the statelessness of JSONMarshaler (transcoding/json.go), round 5 follow-up:
//   - c10MarshalOptsInit: the statement(s) of JSONMarshaler.Marshal that define `opts` ("opts := m.MarshalOptions": a
//     copy of the struct by value) and the assignments to a `.Resolver` there, as (lhs, rhs) source text;
//   - c10MarshalerSelfWrites: every assignment / inc-dec statement in a method with a *JSONMarshaler receiver whose
//     left-hand side is rooted at the receiver ("Method:lhs") — the marshaler is never written after construction;
//   - c10MarshalerSelfAddrs: every address-of expression rooted at the receiver in those methods ("Method:&expr") — no
//     pointer into the shared struct escapes (a per-call resolver could be written through it).
func extractC10Marshaler(c *Ctx) {
	const file = "transcoding/json.go"
	var inits [][2]string
	var writes, addrs []string
	f := c.File(file)
	if f != nil {
		rootIdent := func(e ast.Expr) string {
			for {
				switch x := e.(type) {
				case *ast.SelectorExpr:
					e = x.X
				case *ast.IndexExpr:
					e = x.X
				case *ast.StarExpr:
					e = x.X
				case *ast.ParenExpr:
					e = x.X
				case *ast.Ident:
					return x.Name
				default:
					return ""
				}
			}
		}
		for _, d := range f.Decls {
			fd, ok := d.(*ast.FuncDecl)
			if !ok || fd.Recv == nil || len(fd.Recv.List) != 1 || len(fd.Recv.List[0].Names) != 1 || fd.Body == nil {
				continue
			}
			st, ok := fd.Recv.List[0].Type.(*ast.StarExpr)
			if !ok {
				continue
			}
			if id, ok := st.X.(*ast.Ident); !ok || id.Name != "JSONMarshaler" {
				continue
			}
			recv := fd.Recv.List[0].Names[0].Name
			ast.Inspect(fd.Body, func(n ast.Node) bool {
				switch x := n.(type) {
				case *ast.AssignStmt:
					for i, l := range x.Lhs {
						if _, isIdent := l.(*ast.Ident); !isIdent && rootIdent(l) == recv {
							writes = append(writes, fd.Name.Name+":"+c.Src(l))
						}
						if fd.Name.Name == "Marshal" && i < len(x.Rhs) {
							ls := c.Src(l)
							if ls == "opts" || strings.HasSuffix(ls, ".Resolver") {
								inits = append(inits, [2]string{ls, c.Src(x.Rhs[i])})
							}
						}
					}
				case *ast.IncDecStmt:
					if rootIdent(x.X) == recv {
						writes = append(writes, fd.Name.Name+":"+c.Src(x.X))
					}
				case *ast.UnaryExpr:
					if x.Op == token.AND && rootIdent(x.X) == recv {
						if _, isIdent := x.X.(*ast.Ident); !isIdent {
							addrs = append(addrs, fd.Name.Name+":"+c.Src(x))
						}
					}
				}
				return true
			})
		}
	}
	parts := make([]string, len(inits))
	for i, p := range inits {
		parts[i] = "(" + LeanStr(p[0]) + ", " + LeanStr(p[1]) + ")"
	}
	c.Add("c10MarshalOptsInit", "List (String × String)", "["+strings.Join(parts, ", ")+"]", file, "definition of opts and assignments to .Resolver in JSONMarshaler.Marshal")
	sortStrings(writes)
	sortStrings(addrs)
	c.Add("c10MarshalerSelfWrites", "List String", LeanStrList(writes), file, "assignments rooted at the receiver in methods of *JSONMarshaler")
	c.Add("c10MarshalerSelfAddrs", "List String", LeanStrList(addrs), file, "address-of expressions rooted at the receiver in methods of *JSONMarshaler")
}
