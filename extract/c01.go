package main

import (
	"go/ast"
	"strings"
)

func init() { register("c01", extractC01) }

// The outgoing glue the Forward LTS takes for granted (C01): one Outgoing.Stream call is ONE call at the target.
// That is only true as long as nothing between AdaptedClientPool.New and grpc.NewClient / ClientConn.NewStream
// injects a service config, a retry / hedging policy, interceptors or per-call options. Facts:
//   - c01PoolWithDefaultsAssigns: left-hand sides of every assignment in AdaptedClientPoolOpts.withDefaults;
//   - c01PoolGrpcOptionCalls: every call grpc.<Name>(…) in grpcadapter/pool.go and conn.go whose name starts with
//     "With" or mentions ServiceConfig / Interceptor / Retry / CallOption ("file:func:grpc.Name");
//   - c01PoolNewClientArgs: the argument expressions handed to NewClientFunc in AdaptedClientPool.New;
//   - c01NewStreamArgs: the argument expressions of conn.NewStream in AdaptedClientConn.Stream (no CallOptions).
func extractC01(c *Ctx) {
	var assigns []string
	src := "grpcadapter/pool.go:?"
	if fd := c.FuncDecl("grpcadapter/pool.go", "AdaptedClientPoolOpts", "withDefaults"); fd != nil && fd.Body != nil {
		src = c.Pos(fd)
		ast.Inspect(fd.Body, func(n ast.Node) bool {
			if as, ok := n.(*ast.AssignStmt); ok {
				for _, l := range as.Lhs {
					assigns = append(assigns, c.Src(l))
				}
			}
			return true
		})
	} else {
		assigns = []string{"<withDefaults not found>"}
	}
	c.Add("c01PoolWithDefaultsAssigns", "List String", LeanStrList(assigns), src, "assignments performed by AdaptedClientPoolOpts.withDefaults")

	var optCalls []string
	for _, rel := range []string{"grpcadapter/pool.go", "grpcadapter/conn.go"} {
		f := c.File(rel)
		if f == nil {
			optCalls = append(optCalls, rel+":<unparsable>")
			continue
		}
		for _, d := range f.Decls {
			name := "<decl>"
			if fd, ok := d.(*ast.FuncDecl); ok {
				name = fd.Name.Name
			}
			ast.Inspect(d, func(n ast.Node) bool {
				se, ok := n.(*ast.SelectorExpr)
				if !ok {
					return true
				}
				id, ok := se.X.(*ast.Ident)
				if !ok || id.Name != "grpc" {
					return true
				}
				s := se.Sel.Name
				if strings.HasPrefix(s, "With") || strings.Contains(s, "ServiceConfig") || strings.Contains(s, "Interceptor") ||
					strings.Contains(s, "Retry") || strings.Contains(s, "CallOption") || strings.Contains(s, "WaitForReady") {
					optCalls = append(optCalls, rel+":"+name+":grpc."+s)
				}
				return true
			})
		}
	}
	c.Add("c01PoolGrpcOptionCalls", "List String", LeanStrList(optCalls), "grpcadapter/pool.go grpcadapter/conn.go", "dial / call options, service configs, interceptors mentioned by the pool and the connection adapter")

	argsOf := func(rel, recv, fn, callee string) ([]string, string) {
		fd := c.FuncDecl(rel, recv, fn)
		if fd == nil || fd.Body == nil {
			return []string{"<" + fn + " not found>"}, rel + ":?"
		}
		var out []string
		found := false
		ast.Inspect(fd.Body, func(n ast.Node) bool {
			ce, ok := n.(*ast.CallExpr)
			if !ok || found {
				return true
			}
			se, ok := ce.Fun.(*ast.SelectorExpr)
			if !ok || se.Sel.Name != callee {
				return true
			}
			found = true
			for i, a := range ce.Args {
				s := c.Src(a)
				if i == len(ce.Args)-1 && ce.Ellipsis.IsValid() {
					s += "..."
				}
				out = append(out, s)
			}
			return true
		})
		if !found {
			return []string{"<" + callee + " call not found>"}, c.Pos(fd)
		}
		return out, c.Pos(fd)
	}
	a, pos := argsOf("grpcadapter/pool.go", "AdaptedClientPool", "New", "NewClientFunc")
	c.Add("c01PoolNewClientArgs", "List String", LeanStrList(a), pos, "arguments of the NewClientFunc call in AdaptedClientPool.New")
	a, pos = argsOf("grpcadapter/conn.go", "AdaptedClientConn", "Stream", "NewStream")
	c.Add("c01NewStreamArgs", "List String", LeanStrList(a), pos, "arguments of conn.NewStream in AdaptedClientConn.Stream")
}
