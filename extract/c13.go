package main

import (
	"fmt"
	"go/ast"
	"go/token"
	"sort"
	"strings"
)

func init() { register("c13", extractC13) }

// extractC13 reads the plumbing of the root constructor NewWebBridge (bridge.go): every call
// webbridge.New…Bridge(router, <Opts>) with the fields its Opts value sets, next to the fields the Opts
// type declares (webbridge/*.go). Facts:
//
//	webBridgeWiring : List (String × String × List String × List (String × String))
//	   (constructor, Opts type, fields declared by the type, [(field set by the literal, expression)])
//	webBridgeTranscoderInit : String   -- the expression the local `transcoder` is initialised with
//
// The Opts argument may be a composite literal or a local variable initialised with one; field
// expressions that are plain local aliases (`logger := options.common.logger`) are resolved to what
// they alias, so a harmless refactoring to shared locals does not change the fact, a dropped field does.
func extractC13(c *Ctx) {
	const file = "bridge.go"
	rows := []string{}
	src, trInit := "", "<not found>"
	fd := c.FuncDecl(file, "", "NewWebBridge")
	if fd != nil && fd.Body != nil {
		src = c.Pos(fd)
		// local definitions: name -> initialiser
		defs := map[string]ast.Expr{}
		ast.Inspect(fd.Body, func(n ast.Node) bool {
			as, ok := n.(*ast.AssignStmt)
			if !ok || as.Tok != token.DEFINE || len(as.Lhs) != len(as.Rhs) {
				return true
			}
			for i, l := range as.Lhs {
				if id, ok := l.(*ast.Ident); ok && id.Name != "_" {
					defs[id.Name] = as.Rhs[i]
				}
			}
			return true
		})
		if e, ok := defs["transcoder"]; ok {
			trInit = c.Src(e)
		}
		// an alias is a local whose initialiser is an identifier / selector chain (no call, no literal)
		var isPath func(e ast.Expr) bool
		isPath = func(e ast.Expr) bool {
			switch x := e.(type) {
			case *ast.Ident:
				return true
			case *ast.SelectorExpr:
				return isPath(x.X)
			}
			return false
		}
		resolve := func(e ast.Expr) string {
			for i := 0; i < 8; i++ {
				id, ok := e.(*ast.Ident)
				if !ok {
					break
				}
				d, ok := defs[id.Name]
				if !ok || !isPath(d) {
					break
				}
				e = d
			}
			return c.Src(e)
		}
		ast.Inspect(fd.Body, func(n ast.Node) bool {
			call, ok := n.(*ast.CallExpr)
			if !ok {
				return true
			}
			sel, ok := call.Fun.(*ast.SelectorExpr)
			if !ok {
				return true
			}
			pkg, ok := sel.X.(*ast.Ident)
			if !ok || pkg.Name != "webbridge" || !strings.HasPrefix(sel.Sel.Name, "New") || !strings.HasSuffix(sel.Sel.Name, "Bridge") {
				return true
			}
			optsType, set := "<none>", []string{}
			if len(call.Args) >= 2 {
				arg := call.Args[1]
				if id, ok := arg.(*ast.Ident); ok {
					if d, ok := defs[id.Name]; ok {
						arg = d
					}
				}
				if lit, ok := arg.(*ast.CompositeLit); ok {
					if ts, ok := lit.Type.(*ast.SelectorExpr); ok {
						optsType = ts.Sel.Name
					}
					for _, el := range lit.Elts {
						if kv, ok := el.(*ast.KeyValueExpr); ok {
							if k, ok := kv.Key.(*ast.Ident); ok {
								set = append(set, fmt.Sprintf("(%s, %s)", LeanStr(k.Name), LeanStr(resolve(kv.Value))))
							}
						}
					}
				}
			}
			sort.Strings(set)
			rows = append(rows, fmt.Sprintf("(%s, %s, %s, [%s])", LeanStr(sel.Sel.Name), LeanStr(optsType),
				LeanStrList(optsFields(c, optsType)), strings.Join(set, ", ")))
			return true
		})
	}
	sort.Strings(rows)
	c.Add("webBridgeWiring", "List (String × String × List String × List (String × String))", "["+strings.Join(rows, ",\n    ")+"]", src,
		"NewWebBridge: (webbridge constructor, Opts type, fields declared by the Opts type, fields set by the Opts value with the expression, local aliases resolved)")
	c.Add("webBridgeTranscoderInit", "String", LeanStr(trInit), src, "initialiser of the local `transcoder` in NewWebBridge")
}

// optsFields lists the field names of struct type `name` declared in package webbridge.
func optsFields(c *Ctx, name string) []string {
	out := []string{}
	for _, rel := range []string{"webbridge/http.go", "webbridge/websocket.go", "webbridge/grpcweb.go", "webbridge/webbridge.go"} {
		f := c.File(rel)
		if f == nil {
			continue
		}
		for _, d := range f.Decls {
			gd, ok := d.(*ast.GenDecl)
			if !ok || gd.Tok != token.TYPE {
				continue
			}
			for _, sp := range gd.Specs {
				ts, ok := sp.(*ast.TypeSpec)
				if !ok || ts.Name.Name != name {
					continue
				}
				st, ok := ts.Type.(*ast.StructType)
				if !ok {
					continue
				}
				for _, fl := range st.Fields.List {
					for _, n := range fl.Names {
						out = append(out, n.Name)
					}
				}
			}
		}
	}
	sort.Strings(out)
	return out
}
