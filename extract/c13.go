package main

import (
	"fmt"
	"go/ast"
	"go/token"
	"sort"
	"strings"
)

func init() { register("c13", extractC13) }

// extractC13 reads the plumbing of the root constructor NewWebBridge (bridge.go): every call
// webbridge.New…Bridge(router, <Opts>) with the fields its Opts value sets, next to the fields the Opts
// type declares (webbridge/*.go). Facts:
//
//	webBridgeWiring : List (String × String × List String × List (String × String))
//	   (constructor, Opts type, fields declared by the type, [(field set by the literal, expression)])
//	webBridgeTranscoderInit : String   -- the expression the local `transcoder` is initialised with
//
// The Opts argument may be a composite literal or a local variable initialised with one; field
// expressions that are plain local aliases (`logger := options.common.logger`) are resolved to what
// they alias, so a harmless refactoring to shared locals does not change the fact, a dropped field does.
func extractC13(c *Ctx) {
	const file = "bridge.go"
	rows := []string{}
	src, trInit := "", "<not found>"
	fd := c.FuncDecl(file, "", "NewWebBridge")
	if fd != nil && fd.Body != nil {
		src = c.Pos(fd)
		// local definitions: name -> initialiser
		defs := map[string]ast.Expr{}
		ast.Inspect(fd.Body, func(n ast.Node) bool {
			as, ok := n.(*ast.AssignStmt)
			if !ok || as.Tok != token.DEFINE || len(as.Lhs) != len(as.Rhs) {
				return true
			}
			for i, l := range as.Lhs {
				if id, ok := l.(*ast.Ident); ok && id.Name != "_" {
					defs[id.Name] = as.Rhs[i]
				}
			}
			return true
		})
		if e, ok := defs["transcoder"]; ok {
			trInit = c.Src(e)
		}
		// an alias is a local whose initialiser is an identifier / selector chain (no call, no literal)
		var isPath func(e ast.Expr) bool
		isPath = func(e ast.Expr) bool {
			switch x := e.(type) {
			case *ast.Ident:
				return true
			case *ast.SelectorExpr:
				return isPath(x.X)
			}
			return false
		}
		resolve := func(e ast.Expr) string {
			for i := 0; i < 8; i++ {
				id, ok := e.(*ast.Ident)
				if !ok {
					break
				}
				d, ok := defs[id.Name]
				if !ok || !isPath(d) {
					break
				}
				e = d
			}
			return c.Src(e)
		}
		ast.Inspect(fd.Body, func(n ast.Node) bool {
			call, ok := n.(*ast.CallExpr)
			if !ok {
				return true
			}
			sel, ok := call.Fun.(*ast.SelectorExpr)
			if !ok {
				return true
			}
			pkg, ok := sel.X.(*ast.Ident)
			if !ok || pkg.Name != "webbridge" || !strings.HasPrefix(sel.Sel.Name, "New") || !strings.HasSuffix(sel.Sel.Name, "Bridge") {
				return true
			}
			optsType, set := "<none>", []string{}
			if len(call.Args) >= 2 {
				arg := call.Args[1]
				if id, ok := arg.(*ast.Ident); ok {
					if d, ok := defs[id.Name]; ok {
						arg = d
					}
				}
				if lit, ok := arg.(*ast.CompositeLit); ok {
					if ts, ok := lit.Type.(*ast.SelectorExpr); ok {
						optsType = ts.Sel.Name
					}
					for _, el := range lit.Elts {
						if kv, ok := el.(*ast.KeyValueExpr); ok {
							if k, ok := kv.Key.(*ast.Ident); ok {
								set = append(set, fmt.Sprintf("(%s, %s)", LeanStr(k.Name), LeanStr(resolve(kv.Value))))
							}
						}
					}
				}
			}
			sort.Strings(set)
			rows = append(rows, fmt.Sprintf("(%s, %s, %s, [%s])", LeanStr(sel.Sel.Name), LeanStr(optsType),
				LeanStrList(optsFields(c, optsType)), strings.Join(set, ", ")))
			return true
		})
	}
	sort.Strings(rows)
	c.Add("webBridgeWiring", "List (String × String × List String × List (String × String))", "["+strings.Join(rows, ",\n    ")+"]", src,
		"NewWebBridge: (webbridge constructor, Opts type, fields declared by the Opts type, fields set by the Opts value with the expression, local aliases resolved)")
	c.Add("webBridgeTranscoderInit", "String", LeanStr(trInit), src, "initialiser of the local `transcoder` in NewWebBridge")
	extractC13Flush(c)
	extractC13Handoff(c)
	extractC13CloseCode(c)
}

// extractC13CloseCode reads how websocketError (webbridge/websocket.go) arrives at the close code:
//
//	websocketErrorReturns : List (String × String)      -- every return: (condition of the innermost enclosing if, "" for none; results)
//	websocketErrorCodeAssigns : List (String × String)  -- every assignment to `code`: (condition of the innermost enclosing if; value)
func extractC13CloseCode(c *Ctx) {
	sq := func(n ast.Node) string { return strings.Join(strings.Fields(c.Src(n)), "") }
	rets, assigns := []string{}, []string{}
	src := "webbridge/websocket.go"
	if fd := c.FuncDecl("webbridge/websocket.go", "", "websocketError"); fd != nil && fd.Body != nil {
		src = c.Pos(fd)
		var walk func(list []ast.Stmt, cond string)
		walk = func(list []ast.Stmt, cond string) {
			for _, st := range list {
				switch x := st.(type) {
				case *ast.ReturnStmt:
					var rs []string
					for _, r := range x.Results {
						rs = append(rs, sq(r))
					}
					rets = append(rets, fmt.Sprintf("(%s, %s)", LeanStr(cond), LeanStr(strings.Join(rs, ","))))
				case *ast.AssignStmt:
					for i, l := range x.Lhs {
						if id, ok := l.(*ast.Ident); ok && id.Name == "code" && i < len(x.Rhs) {
							assigns = append(assigns, fmt.Sprintf("(%s, %s)", LeanStr(cond), LeanStr(sq(x.Rhs[i]))))
						}
					}
				case *ast.IfStmt:
					walk(x.Body.List, sq(x.Cond))
					if eb, ok := x.Else.(*ast.BlockStmt); ok {
						walk(eb.List, "else:"+sq(x.Cond))
					} else if x.Else != nil {
						walk([]ast.Stmt{x.Else}, "else:"+sq(x.Cond))
					}
				case *ast.BlockStmt:
					walk(x.List, cond)
				}
			}
		}
		walk(fd.Body.List, "")
	}
	c.Add("websocketErrorReturns", "List (String × String)", "["+strings.Join(rets, ", ")+"]", src,
		"websocketError: every return statement with the condition of the innermost enclosing if")
	c.Add("websocketErrorCodeAssigns", "List (String × String)", "["+strings.Join(assigns, ", ")+"]", src,
		"websocketError: every assignment to the close code with the condition of the innermost enclosing if")
}

// extractC13Handoff reads the synchronisation skeleton the gwsStream LTS is built on (webbridge/websocket.go):
//
//	gwsSelectShape : List (String × List String)  -- per function: the comm clauses of its select statements, in source order
//	gwsReaderDefers : List String                  -- the deferred calls of the goroutine that runs socket.ReadLoop(), in source order
//	gwsEventsCloseGuard : List String              -- the condition of every `if` that directly contains `close(stream.events)`
func extractC13Handoff(c *Ctx) {
	sq := func(n ast.Node) string { return strings.Join(strings.Fields(c.Src(n)), "") }
	const file = "webbridge/websocket.go"
	rows := []string{}
	for _, m := range [][2]string{{"gwsHandler", "OnMessage"}, {"gwsStream", "Recv"}} {
		comms := []string{}
		if fd := c.FuncDecl(file, m[0], m[1]); fd != nil && fd.Body != nil {
			ast.Inspect(fd.Body, func(n ast.Node) bool {
				if cc, ok := n.(*ast.CommClause); ok {
					if cc.Comm == nil {
						comms = append(comms, "default")
					} else {
						comms = append(comms, sq(cc.Comm))
					}
				}
				return true
			})
		}
		rows = append(rows, fmt.Sprintf("(%s, %s)", LeanStr(m[0]+"."+m[1]), LeanStrList(comms)))
	}
	c.Add("gwsSelectShape", "List (String × List String)", "["+strings.Join(rows, ", ")+"]", file,
		"comm clauses of the select statements in gwsHandler.OnMessage and gwsStream.Recv")

	defers, guards := []string{}, []string{}
	if fd := c.FuncDecl(file, "TranscodedWebSocketBridge", "ServeHTTP"); fd != nil && fd.Body != nil {
		ast.Inspect(fd.Body, func(n ast.Node) bool {
			gs, ok := n.(*ast.GoStmt)
			if !ok {
				return true
			}
			fl, ok := gs.Call.Fun.(*ast.FuncLit)
			if !ok || !strings.Contains(c.Src(fl), "ReadLoop") {
				return true
			}
			for _, st := range fl.Body.List {
				if d, ok := st.(*ast.DeferStmt); ok {
					defers = append(defers, sq(d.Call))
				}
			}
			return true
		})
	}
	if fd := c.FuncDecl(file, "gwsHandler", "OnMessage"); fd != nil && fd.Body != nil {
		ast.Inspect(fd.Body, func(n ast.Node) bool {
			ifs, ok := n.(*ast.IfStmt)
			if !ok {
				return true
			}
			for _, st := range ifs.Body.List {
				if sq(st) == "close(stream.events)" {
					guards = append(guards, sq(ifs.Cond))
				}
			}
			return true
		})
	}
	c.Add("gwsReaderDefers", "List String", LeanStrList(defers), file, "deferred calls of the goroutine running socket.ReadLoop() in TranscodedWebSocketBridge.ServeHTTP")
	c.Add("gwsEventsCloseGuard", "List String", LeanStrList(guards), file, "conditions guarding close(stream.events) in gwsHandler.OnMessage")
}

// extractC13Flush reads the write/flush shape of the streamed HTTP response path:
//
//	httpStreamSendShape : List String   -- the statements of the `if s.respstream != nil { … }` block of httpStream.send, tagged:
//	   "transcode" (a statement calling s.respstream.Transcode), "flush" (the statement `s.flusher.Flush()`), "return", "other:<src>"
//	streamEncoderWrites : List (String × List String)  -- per stream encoder method: the argument of every `.Write(…)` call in it
//	jsonDelimiterLit : String           -- the literal the constant jsonDelimiter is declared with
func extractC13Flush(c *Ctx) {
	sq := func(n ast.Node) string { return strings.Join(strings.Fields(c.Src(n)), "") }
	calls := func(n ast.Node, want string) bool {
		found := false
		ast.Inspect(n, func(m ast.Node) bool {
			if ce, ok := m.(*ast.CallExpr); ok && sq(ce.Fun) == want {
				found = true
			}
			return true
		})
		return found
	}
	shape, src := []string{}, ""
	if fd := c.FuncDecl("webbridge/http.go", "httpStream", "send"); fd != nil && fd.Body != nil {
		src = c.Pos(fd)
		for _, st := range fd.Body.List {
			ifs, ok := st.(*ast.IfStmt)
			if !ok || sq(ifs.Cond) != "s.respstream!=nil" {
				continue
			}
			for _, b := range ifs.Body.List {
				switch {
				case calls(b, "s.respstream.Transcode"):
					shape = append(shape, "transcode")
				case sq(b) == "s.flusher.Flush()":
					shape = append(shape, "flush")
				default:
					if _, ok := b.(*ast.ReturnStmt); ok {
						shape = append(shape, "return")
					} else {
						shape = append(shape, "other:"+sq(b))
					}
				}
			}
		}
	}
	c.Add("httpStreamSendShape", "List String", LeanStrList(shape), src,
		"httpStream.send, block `if s.respstream != nil`: statements tagged transcode / flush / return / other")

	rows := []string{}
	for _, m := range [][3]string{{"transcoding/json.go", "jsonEncoder", "Encode"}, {"transcoding/http.go", "sseResponseStream", "Transcode"}} {
		args := []string{}
		if fd := c.FuncDecl(m[0], m[1], m[2]); fd != nil && fd.Body != nil {
			ast.Inspect(fd.Body, func(n ast.Node) bool {
				if ce, ok := n.(*ast.CallExpr); ok {
					if sel, ok := ce.Fun.(*ast.SelectorExpr); ok && sel.Sel.Name == "Write" && len(ce.Args) == 1 {
						args = append(args, sq(ce.Args[0]))
					}
				}
				return true
			})
		}
		rows = append(rows, fmt.Sprintf("(%s, %s)", LeanStr(m[1]+"."+m[2]), LeanStrList(args)))
	}
	c.Add("streamEncoderWrites", "List (String × List String)", "["+strings.Join(rows, ", ")+"]", "transcoding/json.go, transcoding/http.go",
		"per stream encoder: the argument of every Write call (one Write = one framed record)")

	delim := "<not found>"
	if f := c.File("transcoding/json.go"); f != nil {
		ast.Inspect(f, func(n ast.Node) bool {
			if vs, ok := n.(*ast.ValueSpec); ok {
				for i, nm := range vs.Names {
					if nm.Name == "jsonDelimiter" && i < len(vs.Values) {
						delim = sq(vs.Values[i])
					}
				}
			}
			return true
		})
	}
	c.Add("jsonDelimiterLit", "String", LeanStr(delim), "transcoding/json.go", "declaration of jsonDelimiter")

	// where SSE framing is NOT applied: the per-message standardResponseTranscoder.Transcode (the unary HTTP body and every
	// WebSocket message are built from it) must not look at isSSE nor produce "data:" — anything framing-related it mentions
	mentions := []string{}
	if fd := c.FuncDecl("transcoding/http.go", "standardResponseTranscoder", "Transcode"); fd != nil && fd.Body != nil {
		ast.Inspect(fd.Body, func(n ast.Node) bool {
			switch x := n.(type) {
			case *ast.SelectorExpr:
				if x.Sel.Name == "isSSE" {
					mentions = append(mentions, "isSSE")
				}
			case *ast.BasicLit:
				if x.Kind == token.STRING && (strings.Contains(x.Value, "data:") || strings.Contains(x.Value, `\n`)) {
					mentions = append(mentions, "lit:"+x.Value)
				}
			}
			return true
		})
	} else {
		mentions = append(mentions, "<not found>")
	}
	c.Add("responseTranscodeFramingMentions", "List String", LeanStrList(mentions), "transcoding/http.go",
		"standardResponseTranscoder.Transcode: uses of isSSE and framing literals inside the per-message Transcode (must be none)")
}

// optsFields lists the field names of struct type `name` declared in package webbridge.
func optsFields(c *Ctx, name string) []string {
	out := []string{}
	for _, rel := range []string{"webbridge/http.go", "webbridge/websocket.go", "webbridge/grpcweb.go", "webbridge/webbridge.go"} {
		f := c.File(rel)
		if f == nil {
			continue
		}
		for _, d := range f.Decls {
			gd, ok := d.(*ast.GenDecl)
			if !ok || gd.Tok != token.TYPE {
				continue
			}
			for _, sp := range gd.Specs {
				ts, ok := sp.(*ast.TypeSpec)
				if !ok || ts.Name.Name != name {
					continue
				}
				st, ok := ts.Type.(*ast.StructType)
				if !ok {
					continue
				}
				for _, fl := range st.Fields.List {
					for _, n := range fl.Names {
						out = append(out, n.Name)
					}
				}
			}
		}
	}
	sort.Strings(out)
	return out
}
