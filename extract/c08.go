package main

import (
	"fmt"
	"go/ast"
	"go/token"
	"strconv"
	"strings"
)

func init() { register("c08", extractC08) }

// Framing constants and guards of webbridge/grpcweb.go that the model GB.C08 hard-codes:
// header size, message limit and its comparison, frame flags, the WebSocket payload offset and
// length guards, the trailer line format and keys, and the absence of WriteHeader calls (always 200).
func extractC08(c *Ctx) {
	const file = "webbridge/grpcweb.go"

	intLit := func(e ast.Expr) (int64, bool) {
		switch x := e.(type) {
		case *ast.BasicLit:
			if x.Kind == token.INT {
				v, err := strconv.ParseInt(x.Value, 0, 64)
				return v, err == nil
			}
		case *ast.BinaryExpr:
			if x.Op == token.SHL {
				a, ok1 := x.X.(*ast.BasicLit)
				b, ok2 := x.Y.(*ast.BasicLit)
				if ok1 && ok2 {
					av, e1 := strconv.ParseInt(a.Value, 0, 64)
					bv, e2 := strconv.ParseInt(b.Value, 0, 64)
					if e1 == nil && e2 == nil && bv < 62 {
						return av << uint(bv), true
					}
				}
			}
		case *ast.ParenExpr:
			return intLitParen(x.X)
		}
		return 0, false
	}

	// recv: header size, empty-message guard, oversize guard, body allocation
	hdr, src := int64(0), ""
	var conds []string
	alloc := ""
	if fd := c.FuncDecl(file, "gRPCWebStream", "recv"); fd != nil {
		src = c.Pos(fd)
		ast.Inspect(fd.Body, func(n ast.Node) bool {
			switch x := n.(type) {
			case *ast.AssignStmt:
				if len(x.Lhs) == 1 && len(x.Rhs) == 1 {
					if call, ok := x.Rhs[0].(*ast.CallExpr); ok {
						if id, ok := call.Fun.(*ast.Ident); ok && id.Name == "make" && len(call.Args) == 2 {
							name := ""
							if l, ok := x.Lhs[0].(*ast.Ident); ok {
								name = l.Name
							}
							if name == "header" {
								hdr, _ = intLit(call.Args[1])
							} else if name == "data" {
								alloc = c.Src(call.Args[1])
							}
						}
					}
				}
			case *ast.IfStmt:
				if be, ok := x.Cond.(*ast.BinaryExpr); ok {
					if id, ok := be.X.(*ast.Ident); ok && id.Name == "length" {
						conds = append(conds, c.Src(be))
					}
				}
			}
			return true
		})
	}
	c.Add("grpcwebHeaderLen", "Nat", fmt.Sprint(hdr), src, "recv: make([]byte, N) for the frame header")
	c.Add("grpcwebRecvGuards", "List String", LeanStrList(conds), src, "recv: guards on the declared length, in order")
	c.Add("grpcwebRecvAlloc", "String", LeanStr(alloc), src, "recv: size of the body buffer")

	// maxRecvMessageSize
	maxv, msrc := int64(0), ""
	if f := c.File(file); f != nil {
		for _, d := range f.Decls {
			gd, ok := d.(*ast.GenDecl)
			if !ok || gd.Tok != token.CONST {
				continue
			}
			for _, sp := range gd.Specs {
				vs := sp.(*ast.ValueSpec)
				for i, n := range vs.Names {
					if n.Name == "maxRecvMessageSize" && i < len(vs.Values) {
						maxv, _ = intLit(vs.Values[i])
						msrc = c.Pos(vs)
					}
				}
			}
		}
	}
	c.Add("grpcwebMaxMsg", "Nat", fmt.Sprint(maxv), msrc, "const maxRecvMessageSize")

	// lpmMessage / lpmTrailer header literals and the trailer line format
	headerLit := func(fn string) (string, string) {
		fd := c.FuncDecl(file, "", fn)
		if fd == nil {
			return "[]", ""
		}
		out := "[]"
		ast.Inspect(fd.Body, func(n ast.Node) bool {
			cl, ok := n.(*ast.CompositeLit)
			if !ok {
				return true
			}
			if at, ok := cl.Type.(*ast.ArrayType); !ok || c.Src(at.Elt) != "byte" {
				return true
			}
			vals := []string{}
			for _, e := range cl.Elts {
				v, ok := intLit(e)
				if !ok {
					return true
				}
				vals = append(vals, fmt.Sprint(v))
			}
			out = "[" + strings.Join(vals, ", ") + "]"
			return false
		})
		return out, c.Pos(fd)
	}
	v, s := headerLit("lpmMessage")
	c.Add("grpcwebDataHeader", "List Nat", v, s, "lpmMessage: header literal")
	v, s = headerLit("lpmTrailer")
	c.Add("grpcwebTrailerHeader", "List Nat", v, s, "lpmTrailer: header literal")

	strLits := func(fd *ast.FuncDecl) []string {
		var out []string
		if fd == nil {
			return out
		}
		ast.Inspect(fd.Body, func(n ast.Node) bool {
			if bl, ok := n.(*ast.BasicLit); ok && bl.Kind == token.STRING {
				if sv, err := strconv.Unquote(bl.Value); err == nil {
					out = append(out, sv)
				}
			}
			return true
		})
		return out
	}
	fd := c.FuncDecl(file, "", "lpmTrailer")
	src = ""
	if fd != nil {
		src = c.Pos(fd)
	}
	c.Add("grpcwebTrailerFormat", "List String", LeanStrList(strLits(fd)), src, "lpmTrailer: string literals (the line format)")
	fd = c.FuncDecl(file, "", "trailerWithStatus")
	src = ""
	calls := []string{}
	if fd != nil {
		src = c.Pos(fd)
		ast.Inspect(fd.Body, func(n ast.Node) bool {
			if call, ok := n.(*ast.CallExpr); ok {
				if sel, ok := call.Fun.(*ast.SelectorExpr); ok && sel.Sel.Name == "Set" {
					calls = append(calls, c.Src(call))
				}
			}
			return true
		})
	}
	c.Add("grpcwebTrailerSets", "List String", LeanStrList(calls), src, "trailerWithStatus: the Set calls")

	// OnMessage: guards on len(data), payload offset
	var guards []string
	var offs []string
	src = ""
	if fd := c.FuncDecl(file, "gwsGRPCWebHandler", "OnMessage"); fd != nil {
		src = c.Pos(fd)
		ast.Inspect(fd.Body, func(n ast.Node) bool {
			switch x := n.(type) {
			case *ast.BinaryExpr:
				if call, ok := x.X.(*ast.CallExpr); ok && c.Src(call) == "len(data)" {
					guards = append(guards, c.Src(x))
				}
			case *ast.SliceExpr:
				offs = append(offs, c.Src(x))
			case *ast.AssignStmt:
				if len(x.Lhs) == 1 && c.Src(x.Lhs[0]) == "stream.closed" {
					offs = append(offs, c.Src(x))
				}
			}
			return true
		})
	}
	c.Add("grpcwebWSGuards", "List String", LeanStrList(guards), src, "OnMessage: comparisons on len(data), in source order")
	c.Add("grpcwebWSSlices", "List String", LeanStrList(offs), src, "OnMessage: payload slice and the closed assignment")

	// WebSocket close: no hard close (gws WriteClose = close frame + immediate TCP close) in the bridges; the close
	// timeout constant; who calls closeGracefully
	wc, cg := 0, []string{}
	for _, wf := range []string{file, "webbridge/websocket.go"} {
		f := c.File(wf)
		if f == nil {
			wc += 1000
			continue
		}
		for _, d := range f.Decls {
			fd, ok := d.(*ast.FuncDecl)
			if !ok || fd.Body == nil {
				continue
			}
			ast.Inspect(fd.Body, func(n ast.Node) bool {
				call, ok := n.(*ast.CallExpr)
				if !ok {
					return true
				}
				if sel, ok := call.Fun.(*ast.SelectorExpr); ok && sel.Sel.Name == "WriteClose" {
					wc++
				}
				if id, ok := call.Fun.(*ast.Ident); ok && id.Name == "closeGracefully" {
					cg = append(cg, fd.Name.Name)
				}
				return true
			})
		}
	}
	c.Add("wsWriteCloseCalls", "Nat", fmt.Sprint(wc), "webbridge/grpcweb.go, webbridge/websocket.go", "calls of gws.Conn.WriteClose (hard close) in the WebSocket bridges (1000 = file missing)")
	c.Add("wsGracefulCloseCallers", "List String", LeanStrList(cg), "webbridge/grpcweb.go, webbridge/websocket.go", "functions calling closeGracefully")
	toMs := int64(0)
	tsrc := ""
	if f := c.File("webbridge/websocket.go"); f != nil {
		for _, d := range f.Decls {
			gd, ok := d.(*ast.GenDecl)
			if !ok || gd.Tok != token.CONST {
				continue
			}
			for _, sp := range gd.Specs {
				vs := sp.(*ast.ValueSpec)
				for i, n := range vs.Names {
					if n.Name != "wsCloseTimeout" || i >= len(vs.Values) {
						continue
					}
					tsrc = c.Pos(vs)
					if be, ok := vs.Values[i].(*ast.BinaryExpr); ok && be.Op == token.MUL {
						k, ok1 := intLit(be.X)
						unit := c.Src(be.Y)
						if ok1 {
							switch unit {
							case "time.Second":
								toMs = k * 1000
							case "time.Millisecond":
								toMs = k
							}
						}
					}
				}
			}
		}
	}
	c.Add("wsCloseTimeoutMs", "Nat", fmt.Sprint(toMs), tsrc, "const wsCloseTimeout in milliseconds (0 = not found)")

	// sendTrailer: the closing sequence in statement order (the deadline must be set before sendMu is taken)
	seq := []string{}
	ssrc := ""
	if fd := c.FuncDecl(file, "gRPCWebSocketStream", "sendTrailer"); fd != nil {
		ssrc = c.Pos(fd)
		for _, st := range fd.Body.List {
			ast.Inspect(st, func(n ast.Node) bool {
				call, ok := n.(*ast.CallExpr)
				if !ok {
					return true
				}
				name := ""
				switch f := call.Fun.(type) {
				case *ast.SelectorExpr:
					name = f.Sel.Name
				case *ast.Ident:
					name = f.Name
				}
				switch name {
				case "SetDeadline", "SetWriteDeadline", "Lock", "Unlock", "WriteMessage", "WriteClose", "closeGracefully":
					seq = append(seq, name)
					return false
				}
				return true
			})
		}
	}
	c.Add("wsSendTrailerCalls", "List String", LeanStrList(seq), ssrc, "sendTrailer: deadline / mutex / write calls in statement order")

	// the Send / trailer fence (Fence.lean): lock scope and flag order of send / finish / sendTrailer, and the
	// epilogue of GRPCWebBridge.ServeHTTP, as token sequences in source order
	fence := func(recv, name string) ([]string, string) {
		fd := c.FuncDecl(file, recv, name)
		if fd == nil {
			return []string{"missing"}, file
		}
		var toks []string
		var walk func(n ast.Node, pre string)
		walk = func(n ast.Node, pre string) {
			ast.Inspect(n, func(n ast.Node) bool {
				switch x := n.(type) {
				case *ast.DeferStmt:
					walk(x.Call, "defer ")
					return false
				case *ast.GoStmt:
					walk(x.Call, "go ")
					return false
				case *ast.IfStmt:
					cond := strings.ReplaceAll(c.Src(x.Cond), " ", "")
					if i := strings.LastIndex(cond, "."); i >= 0 && (strings.HasSuffix(cond, ".finished") || strings.HasSuffix(cond, ".sentMD")) {
						neg := ""
						if strings.HasPrefix(cond, "!") {
							neg = "!"
						}
						t := "if " + neg + cond[i+1:]
						if len(x.Body.List) > 0 {
							if _, ok := x.Body.List[len(x.Body.List)-1].(*ast.ReturnStmt); ok {
								t += " return"
							}
						}
						toks = append(toks, t)
					}
				case *ast.AssignStmt:
					if len(x.Lhs) == 1 && len(x.Rhs) == 1 {
						if sel, ok := x.Lhs[0].(*ast.SelectorExpr); ok && (sel.Sel.Name == "finished" || sel.Sel.Name == "sentMD") {
							toks = append(toks, sel.Sel.Name+"="+c.Src(x.Rhs[0]))
						}
					}
				case *ast.CallExpr:
					nm := ""
					switch f := x.Fun.(type) {
					case *ast.SelectorExpr:
						nm = f.Sel.Name
					case *ast.Ident:
						nm = f.Name
					}
					switch nm {
					case "Lock", "Unlock", "Write", "WriteMessage", "Forward", "finish", "writeTrailerWithStatus", "sendTrailer", "SetDeadline", "closeGracefully", "WriteClose":
						toks = append(toks, pre+nm)
						pre = ""
					}
				}
				return true
			})
		}
		walk(fd.Body, "")
		return toks, c.Pos(fd)
	}
	for _, f := range [][3]string{
		{"grpcwebFenceHTTPSend", "gRPCWebStream", "send"},
		{"grpcwebFenceHTTPFinish", "gRPCWebStream", "finish"},
		{"grpcwebFenceHTTPServe", "GRPCWebBridge", "ServeHTTP"},
		{"grpcwebFenceWSSend", "gRPCWebSocketStream", "send"},
		{"grpcwebFenceWSTrailer", "gRPCWebSocketStream", "sendTrailer"},
	} {
		toks, pos := fence(f[1], f[2])
		c.Add(f[0], "List String", LeanStrList(toks), pos, f[1]+"."+f[2]+": mutex / finished / sentMD / write tokens in source order")
	}

	// The trailer is written on EVERY way out of GRPCWebBridge.ServeHTTP once forwarding has started: no `return` (at any
	// depth) between the statement that calls Forward and the statement that calls writeTrailerWithStatus, which must be a
	// plain top-level statement (seeded change C08-m8: `if err != nil && requestCanceled(r) { return }` in front of it).
	{
		var early []string
		final := "missing"
		pos := file
		if fd := c.FuncDecl(file, "GRPCWebBridge", "ServeHTTP"); fd != nil {
			pos = c.Pos(fd)
			calls := func(n ast.Node, name string) bool {
				found := false
				ast.Inspect(n, func(n ast.Node) bool {
					if ce, ok := n.(*ast.CallExpr); ok {
						switch f := ce.Fun.(type) {
						case *ast.SelectorExpr:
							found = found || f.Sel.Name == name
						case *ast.Ident:
							found = found || f.Name == name
						}
					}
					return !found
				})
				return found
			}
			after := false
			for _, st := range fd.Body.List {
				if !after {
					after = calls(st, "Forward")
					continue
				}
				if calls(st, "writeTrailerWithStatus") {
					if _, ok := st.(*ast.ExprStmt); ok {
						final = "plain"
					} else {
						final = "nested:" + strings.Join(strings.Fields(c.Src(st)), " ")
					}
					break
				}
				ast.Inspect(st, func(n ast.Node) bool {
					if _, ok := n.(*ast.FuncLit); ok {
						return false
					}
					if _, ok := n.(*ast.ReturnStmt); ok {
						src := strings.Join(strings.Fields(c.Src(st)), " ")
						if len(src) > 80 {
							src = src[:80]
						}
						early = append(early, src)
					}
					return true
				})
			}
		}
		c.Add("grpcwebReturnsBeforeTrailer", "List String", LeanStrList(early), pos, "GRPCWebBridge.ServeHTTP: statements containing a return between the Forward call and the trailer write")
		c.Add("grpcwebTrailerStmt", "String", LeanStr(final), pos, "GRPCWebBridge.ServeHTTP: shape of the statement that writes the trailer (plain = unconditional top-level call)")
	}

	// always HTTP 200: no WriteHeader call anywhere in the gRPC-Web HTTP path
	wh := 0
	for _, fn := range [][2]string{{"GRPCWebBridge", "ServeHTTP"}, {"gRPCWebStream", "send"}, {"gRPCWebStream", "SetHeader"}, {"", "writeTrailerWithStatus"}} {
		fd := c.FuncDecl(file, fn[0], fn[1])
		if fd == nil {
			wh += 1000
			continue
		}
		ast.Inspect(fd.Body, func(n ast.Node) bool {
			if sel, ok := n.(*ast.SelectorExpr); ok && sel.Sel.Name == "WriteHeader" {
				wh++
			}
			return true
		})
	}
	c.Add("grpcwebWriteHeaderCalls", "Nat", fmt.Sprint(wh), file, "WriteHeader calls in GRPCWebBridge.ServeHTTP / send / SetHeader / writeTrailerWithStatus (1000 = function missing)")
}

func intLitParen(e ast.Expr) (int64, bool) {
	if bl, ok := e.(*ast.BasicLit); ok && bl.Kind == token.INT {
		v, err := strconv.ParseInt(bl.Value, 0, 64)
		return v, err == nil
	}
	return 0, false
}
