import GB.Base.Proto
import GB.C12.Driver

open GB GB.Proto

def handlerFor : String → Option Handler
  | "c12" => some GB.C12.handle
  | _ => none

partial def loop (h : IO.FS.Stream) (out : IO.FS.Stream) (f : Handler) : IO Unit := do
  let line ← h.getLine
  if line.isEmpty then return ()
  let l := (line.dropEndWhile (fun c => c == '\n' || c == '\r')).toString
  if l.isEmpty then
    out.putStrLn "BAD empty"
  else
    match splitCase l with
    | none => out.putStrLn "BAD split"
    | some (i, o) => out.putStrLn (f i o)
  loop h out f

def main (args : List String) : IO UInt32 := do
  match args with
  | [area] =>
    match handlerFor area with
    | none => IO.eprintln s!"unknown area {area}"; return 2
    | some f =>
      let stdin ← IO.getStdin
      let stdout ← IO.getStdout
      loop stdin stdout f
      stdout.flush
      return 0
  | _ => IO.eprintln "usage: gbdriver <area>"; return 2
