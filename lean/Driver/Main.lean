import GB.Base.Proto
import GB.C01.Driver
import GB.C02.Driver
import GB.C03.Driver
import GB.C04.Driver
import GB.C05.Driver
import GB.C06.Driver
import GB.C07.Driver
import GB.C08.Driver
import GB.C09.Driver
import GB.C10.Driver
import GB.C11.Driver
import GB.C12.Driver
import GB.C13.Driver
import GB.C14.Driver
import GB.C15.Driver
import GB.C16.Driver
import GB.C17.Driver
import GB.C18.Driver
import GB.C19.Driver
import GB.C20.Driver
import GB.Stack.Driver

open GB GB.Proto

def handlerFor : String → Option Handler
  | "c01" => some GB.C01.handle
  | "c02" => some GB.C02.handle
  | "c03" => some GB.C03.handle
  | "c04" => some GB.C04.handle
  | "c05" => some GB.C05.handle
  | "c06" => some GB.C06.handle
  | "c07" => some GB.C07.handle
  | "c08" => some GB.C08.handle
  | "c09" => some GB.C09.handle
  | "c10" => some GB.C10.handle
  | "c10race" => some GB.C10.handle
  | "c11" => some GB.C11.handle
  | "c12" => some GB.C12.handle
  | "c12e2e" => some GB.C12.handle
  | "c13" => some GB.C13.handle
  | "c14" => some GB.C14.handle
  | "c15" => some GB.C15.handle
  | "c16" => some GB.C16.handle
  | "c17" => some GB.C17.handle
  | "c18" => some GB.C18.handle
  | "c19" => some GB.C19.handle
  | "c20" => some GB.C20.handle
  | "stack" => some GB.Stack.handle
  | _ => none

partial def loop (h : IO.FS.Stream) (out : IO.FS.Stream) (f : Handler) : IO Unit := do
  let line ← h.getLine
  if line.isEmpty then return ()
  let l := (line.dropEndWhile (fun c => c == '\n' || c == '\r')).toString
  if l.isEmpty then
    out.putStrLn "BAD empty"
  else
    match splitCase l with
    | none => out.putStrLn "BAD split"
    | some (i, o) => out.putStrLn (f i o)
  loop h out f

def main (args : List String) : IO UInt32 := do
  match args with
  | [area] =>
    match handlerFor area with
    | none => IO.eprintln s!"unknown area {area}"; return 2
    | some f =>
      let stdin ← IO.getStdin
      let stdout ← IO.getStdout
      loop stdin stdout f
      stdout.flush
      return 0
  | _ => IO.eprintln "usage: gbdriver <area>"; return 2
