import GB.C11.Proofs
set_option linter.unusedVariables false
namespace GB.C11

theorem ClW_setThread {s : State} {t : Tid} {th th' : Thread} {w : Wid} {p : A → Bool}
    (ht : s.threads t = some th) (hop : th'.op = th.op) (hcl : th'.a.cl = th.a.cl) (hp : p th.a = true → p th'.a = true)
    (h : ClW s w p) : ClW (setThread s t th') w p := by
  obtain ⟨t0, th0, h0, hw, hc, hp0⟩ := h
  by_cases e : t0 = t
  · subst e
    rw [ht] at h0; cases h0
    exact ⟨t0, th', by simp [setThread], by simp [Thread.w, hop] at hw ⊢; exact hw, by rw [hcl]; exact hc, hp hp0⟩
  · exact ⟨t0, th0, by simp [setThread, upd, e]; exact h0, hw, hc, hp0⟩

theorem inv_setThread {P : Progs} {s : State} {t : Tid} {th th' : Thread} (h : Inv P s)
    (ht : s.threads t = some th) (hT : TInv P.svc s t th')
    (hop : th'.op = th.op) (hcl : th'.a.cl = th.a.cl) (hrm : th'.a.rm = th.a.rm) (hrs : th'.a.rs = th.a.rs)
    (hrr : th'.a.rr = th.a.rr) (hmid : th'.a.mid = th.a.mid) (hpres : th'.present = th.present) :
    Inv P (setThread s t th') := by
  have hw : th'.w = th.w := by simp [Thread.w, hop]
  have hd : th'.desc = th.desc := by simp [Thread.desc, hop]
  constructor
  · intro t0 th0 h0
    rcases upd_some_cases h0 with ⟨rfl, rfl⟩ | ⟨ne, h0'⟩
    · exact ⟨hT.wf, hT.hw, hT.ht, hT.chk, hT.cl, hT.rsrm, hT.mid⟩
    · have := h.th t0 th0 h0'
      exact ⟨this.wf, this.hw, this.ht, this.chk, this.cl, this.rsrm, this.mid⟩
  · intro t0 t1 th0 th1 h0 h1 c0 c1 hw01
    rcases upd_some_cases h0 with ⟨rfl, rfl⟩ | ⟨ne0, h0'⟩ <;> rcases upd_some_cases h1 with ⟨rfl, rfl⟩ | ⟨ne1, h1'⟩
    · rfl
    · exact h.clU _ _ _ _ ht h1' (hcl ▸ c0) c1 (hw ▸ hw01)
    · exact h.clU _ _ _ _ h0' ht c0 (hcl ▸ c1) (hw ▸ hw01)
    · exact h.clU _ _ _ _ h0' h1' c0 c1 hw01
  · intro e he
    rcases h.mtab e he with h1 | h1
    · left; exact h1
    · right; exact ClW_setThread ht hop hcl (by simp [hrm]) h1
  · intro e he
    rcases h.static e he with h1 | h1
    · left; exact h1
    · right; exact ClW_setThread ht hop hcl (by simp [hrs]) h1
  · intro k e he
    rcases h.routes k e he with h1 | h1
    · left; exact h1
    · right; exact ClW_setThread ht hop hcl (by simp [hrr]) h1
  · exact h.ownM
  · exact h.ownR
  · intro k e he
    rcases h.cover k e he with h1 | ⟨t0, th0, h0, m0, d0, p0⟩
    · left; exact h1
    · right
      by_cases e0 : t0 = t
      · subst e0; rw [ht] at h0; cases h0
        exact ⟨t0, th', by simp [setThread], by rw [hmid]; exact m0, by rw [hd]; exact d0, by rw [hpres]; exact p0⟩
      · exact ⟨t0, th0, by simp [setThread, upd, e0]; exact h0, m0, d0, p0⟩
  · intro w hwc
    exact ClW_setThread ht hop hcl (by simp [A.cleaned, hcl, hrm, hrs, hrr]) (h.cr w hwc)
  · exact h.kindP
  · exact h.kindS
  · exact h.fresh
end GB.C11
