import GB.C07.Model
/-
  C07 — specification, stated over what the CLIENT sent / what the TARGET emitted, not over the
  intermediate metadata maps of the implementation.

  Request direction.  `items` = every (name, value) the request carried on its entry point
  (header lines, `_metadata[k]=v` query entries, gRPC-WebSocket metadata lines, gRPC metadata).
  An entry `(k', vs)` may reach the target only if `k' ≠ grpc-timeout` and some allow-listed name
  `a` is renamed onto `k'` and every value in `vs` is the admissible form of a value the client
  sent under a name equal to `a` (ASCII case-insensitively): the value itself, or — when the
  forwarded key is binary (`-bin`) and the entry point carries text — its base64 decoding.

  Response direction.  Likewise against the target's header / trailer metadata and their lists.
-/
namespace GB.C07
open GB

/-- spec-level renaming: configured prefix, or the gateway prefix stripped; metadata keys are lower-case -/
def rename (pfx a : Bytes) : Bytes := lower (renameRaw pfx a)

/-- the admissible forwarded form of client value `w` sent under name `k` and forwarded under `k'`.
    `wire = true`: the entry point carries text (HTTP headers, query, frames) — a value forwarded under a
    binary (`-bin`) key is the base64 decoding of what was sent, any other value is what was sent.
    `wire = false` (gRPC): a value the client sent under a binary key IS binary already (grpc-go carries it
    base64-encoded on the wire and hands it over decoded) and must arrive as exactly those bytes; a value sent
    under a text key is text and is treated as on the other entry points. -/
def admissible (wire : Bool) (k k' : Bytes) (w v : Bytes) : Bool :=
  if !wire && grpcBin k then v == w
  else if hasBinSuffix k' then decodeBinHeader w == some v else v == w

def flatten (md : MD) : List (Bytes × Bytes) := md.flatMap (fun e => e.2.map (fun v => (e.1, v)))

def entryOK (wire : Bool) (o : Opts) (items : List (Bytes × Bytes)) (e : Bytes × List Bytes) : Bool :=
  o.allowReq.any (fun a =>
    rename o.prefixReq a == e.1 &&
    e.2.all (fun v => items.any (fun p => lower p.1 == lower a && admissible wire p.1 (renameRaw o.prefixReq a) p.2 v)))

/-- request direction: everything in `out` (what the target received) is licensed by the allow-list -/
def reqSpec (wire : Bool) (o : Opts) (items : List (Bytes × Bytes)) (out : MD) : Bool :=
  out.all (fun e => e.1 != timeoutKey && entryOK wire o items e)

def respEntryOK (allow : List Bytes) (pfx : Bytes) (src : MD) (e : Bytes × List Bytes) : Bool :=
  allow.any (fun a => lower (pfx ++ a) == e.1 && e.2.all (fun v => (src.get a).contains v))

/-- response direction at metadata level (gRPC-Web trailer frame, gRPC-WebSocket frames, gRPC) -/
def respSpec (allow : List Bytes) (pfx : Bytes) (src : MD) (out : MD) : Bool :=
  out.all (respEntryOK allow pfx src)

/-- response direction at HTTP-header level: every value of every header is either licensed by
    the header allow-list, by the trailer allow-list, or is one the bridge itself wrote (`own`). -/
def httpValueOK (o : Opts) (hdr trl : MD) (own : Bytes → Bytes → Bool) (K v : Bytes) : Bool :=
  own K v ||
  o.allowResp.any (fun a => canonKey (lower (o.prefixResp ++ a)) == K && (hdr.get a).contains v) ||
  o.allowTrl.any (fun a => canonKey (lower (o.prefixTrl ++ a)) == K && (trl.get a).contains v)

def httpSpec (o : Opts) (hdr trl : MD) (own : Bytes → Bytes → Bool) (seen : MD) : Bool :=
  seen.all (fun e => e.2.all (httpValueOK o hdr trl own e.1))

/-- what the client put on the wire, per entry point -/
def items : Entry → Request → List (Bytes × Bytes)
  | .http, r => flatten r.hdr
  | .grpcweb, r => flatten r.hdr
  | .ws, r => r.qmd ++ flatten r.hdr
  | .grpcws, r => r.lines
  | .proxy, r => flatten r.hdr

/-- what the entry point offers the filter, in wire form: on the proxy entry (after fix D13) the client's
    binary values re-encoded; everywhere else exactly what the client sent -/
def wireItems : Entry → Request → List (Bytes × Bytes)
  | .proxy, r => if r.normalise then flatten (wireFormMetadata r.hdr) else flatten r.hdr
  | e, r => items e r

def Entry.wire : Entry → Bool
  | .proxy => false
  | _ => true

end GB.C07
