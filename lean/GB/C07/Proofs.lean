import GB.C07.Spec
/- C07 — helper lemmas (core only). -/
set_option linter.unusedSimpArgs false
set_option linter.unusedVariables false
namespace GB.C07
open GB

/-! ### maps -/

theorem lookup_put (md : MD) (k k' : Bytes) (v : List Bytes) :
    MD.lookup (MD.put md k v) k' = if k' = k then v else MD.lookup md k' := by
  induction md with
  | nil =>
    simp only [MD.put, MD.lookup]
    by_cases h : k' = k
    · simp [h]
    · have : (k == k') = false := by simp; exact fun hh => h hh.symm
      simp [h, this]
  | cons e rest ih =>
    obtain ⟨k0, v0⟩ := e
    simp only [MD.put]
    by_cases h0 : k0 = k
    · subst h0
      simp only [beq_self_eq_true, ↓reduceIte, MD.lookup]
      by_cases h : k' = k0
      · subst h; simp
      · have : (k0 == k') = false := by simp; exact fun hh => h hh.symm
        simp [h, this]
    · have hne : (k0 == k) = false := by simp [h0]
      simp only [hne, Bool.false_eq_true, ↓reduceIte, MD.lookup]
      by_cases h1 : k0 = k'
      · subst h1; simp [h0]
      · have : (k0 == k') = false := by simp [h1]
        simp only [this, Bool.false_eq_true, ↓reduceIte]
        exact ih

theorem mem_put (md : MD) (k : Bytes) (v : List Bytes) (e : Bytes × List Bytes) (h : e ∈ MD.put md k v) :
    e = (k, v) ∨ e ∈ md := by
  induction md with
  | nil => simp [MD.put] at h; exact Or.inl h
  | cons x rest ih =>
    obtain ⟨k0, v0⟩ := x
    simp only [MD.put] at h
    split at h
    · rcases List.mem_cons.1 h with h | h
      · exact Or.inl h
      · exact Or.inr (List.mem_cons_of_mem _ h)
    · rcases List.mem_cons.1 h with h | h
      · exact Or.inr (by rw [h]; simp)
      · rcases ih h with h | h
        · exact Or.inl h
        · exact Or.inr (List.mem_cons_of_mem _ h)

theorem lookup_mem (md : MD) (k v : Bytes) (h : v ∈ MD.lookup md k) : ∃ vs, (k, vs) ∈ md ∧ v ∈ vs := by
  induction md with
  | nil => simp [MD.lookup] at h
  | cons x rest ih =>
    obtain ⟨k0, v0⟩ := x
    simp only [MD.lookup] at h
    split at h
    · rename_i hk
      have : k0 = k := by simpa using hk
      exact ⟨v0, by rw [this]; simp, h⟩
    · obtain ⟨vs, h1, h2⟩ := ih h
      exact ⟨vs, List.mem_cons_of_mem _ h1, h2⟩

/-- when every stored value list is non-empty, an empty lookup means the key is absent -/
theorem absent_of_lookup_nil (md : MD) (k : Bytes) (hne : ∀ e ∈ md, e.2 ≠ []) (h : MD.lookup md k = []) :
    ∀ e ∈ md, e.1 ≠ k := by
  induction md with
  | nil => simp
  | cons x rest ih =>
    obtain ⟨k0, v0⟩ := x
    simp only [MD.lookup] at h
    intro e he
    split at h
    · exact absurd h (hne (k0, v0) (by simp))
    · rename_i hk
      rcases List.mem_cons.1 he with he | he
      · rw [he]; simpa using hk
      · exact ih (fun e he => hne e (List.mem_cons_of_mem _ he)) h e he

theorem delete_put (md : MD) (k : Bytes) (v : List Bytes) (hk : lower k = k) :
    MD.delete (MD.put md k v) k = MD.delete md k := by
  unfold MD.delete
  rw [hk]
  induction md with
  | nil => simp [MD.put]
  | cons x rest ih =>
    obtain ⟨k0, v0⟩ := x
    simp only [MD.put]
    by_cases h0 : k0 = k
    · subst h0; simp
    · have : (k0 == k) = false := by simp [h0]
      simp only [this, Bool.false_eq_true, ↓reduceIte, List.filter_cons, Bool.not_false]
      rw [ih]

theorem delete_absent (md : MD) (k : Bytes) (hk : lower k = k) (h : ∀ e ∈ md, e.1 ≠ k) : MD.delete md k = md := by
  unfold MD.delete
  rw [hk]
  apply List.filter_eq_self.2
  intro e he
  simp [h e he]

theorem mem_delete (md : MD) (k : Bytes) (e : Bytes × List Bytes) (h : e ∈ MD.delete md k) :
    e ∈ md ∧ e.1 ≠ lower k := by
  unfold MD.delete at h
  have := List.mem_filter.1 h
  exact ⟨this.1, by simpa using this.2⟩

/-! ### invariants of folds that only `put` -/

/-- entries of `out` all satisfy `P`; `set` of a `P` entry keeps that -/
theorem all_set (P : Bytes × List Bytes → Prop) (out : MD) (k : Bytes) (v : List Bytes)
    (ho : ∀ e ∈ out, P e) (hv : v ≠ [] → P (lower k, v)) : ∀ e ∈ MD.set out k v, P e := by
  unfold MD.set
  split
  · exact ho
  · rename_i hne
    intro e he
    rcases mem_put _ _ _ _ he with h | h
    · rw [h]; exact hv (by intro hh; rw [hh] at hne; simp at hne)
    · exact ho e h

theorem foldl_inv {α β} (f : β → α → β) (I : β → Prop) (l : List α) (b : β) (hb : I b)
    (hstep : ∀ b a, a ∈ l → I b → I (f b a)) : I (l.foldl f b) := by
  induction l generalizing b with
  | nil => exact hb
  | cons a rest ih =>
    simp only [List.foldl_cons]
    exact ih (f b a) (hstep b a (by simp) hb) (fun b' a' ha' => hstep b' a' (List.mem_cons_of_mem _ ha'))

/-! ### filters -/

def ReqEntry (md : MD) (allow : List Bytes) (pfx : Bytes) (e : Bytes × List Bytes) : Prop :=
  ∃ a ∈ allow, e.1 = rename pfx a ∧ e.2 = decodeVals (renameRaw pfx a) (md.get a) ∧ e.2 ≠ []

theorem filterRequest_entries (md : MD) (allow : List Bytes) (pfx : Bytes) :
    ∀ e ∈ filterRequest md allow pfx, ReqEntry md allow pfx e := by
  unfold filterRequest
  apply foldl_inv (reqStep md pfx) (fun out => ∀ e ∈ out, ReqEntry md allow pfx e)
  · simp
  · intro out a ha ho
    unfold reqStep
    simp only
    split
    · exact ho
    · apply all_set _ _ _ _ ho
      intro hne
      exact ⟨a, ha, rfl, rfl, hne⟩

def RespEntry (md : MD) (allow : List Bytes) (pfx : Bytes) (e : Bytes × List Bytes) : Prop :=
  ∃ a ∈ allow, e.1 = lower (pfx ++ a) ∧ e.2 = md.get a ∧ e.2 ≠ []

theorem filterResponse_entries (md : MD) (allow : List Bytes) (pfx : Bytes) :
    ∀ e ∈ filterResponse md allow pfx, RespEntry md allow pfx e := by
  unfold filterResponse
  apply foldl_inv (respStep md pfx) (fun out => ∀ e ∈ out, RespEntry md allow pfx e)
  · simp
  · intro out a ha ho
    unfold respStep
    simp only
    split
    · apply all_set _ _ _ _ ho
      intro hne
      exact ⟨a, ha, rfl, rfl, hne⟩
    · exact ho

theorem timeoutKey_lower : lower timeoutKey = timeoutKey := by decide

/-- `baseContext ∘ FilterRequestMD`: the outgoing metadata is the allow-list filter's output minus `grpc-timeout`. -/
theorem outgoing_eq (o : Opts) (ctxMD : MD) :
    outgoing o ctxMD = MD.delete (filterRequest (fromIncoming ctxMD) o.allowReq o.prefixReq) timeoutKey := by
  have hne : ∀ e ∈ filterRequest (fromIncoming ctxMD) o.allowReq o.prefixReq, e.2 ≠ [] := by
    intro e he
    obtain ⟨a, _, _, _, h⟩ := filterRequest_entries _ _ _ e he
    exact h
  unfold outgoing forwardRequest filterRequestMD
  simp only
  split
  · -- the client sent grpc-timeout: Set, then baseContext deletes it again
    rename_i hv
    unfold baseContext MD.set
    have hv' : ((fromIncoming ctxMD).get timeoutKey).isEmpty = false := by
      cases hh : (fromIncoming ctxMD).get timeoutKey with
      | nil => rw [hh] at hv; simp at hv
      | cons _ _ => rfl
    simp only [hv', Bool.false_eq_true, ↓reduceIte]
    have hg : MD.get (MD.put (filterRequest (fromIncoming ctxMD) o.allowReq o.prefixReq) (lower timeoutKey)
        ((fromIncoming ctxMD).get timeoutKey)) timeoutKey = (fromIncoming ctxMD).get timeoutKey := by
      unfold MD.get; rw [lookup_put]; simp
    rw [hg]
    cases hh : (fromIncoming ctxMD).get timeoutKey with
    | nil => rw [hh] at hv; simp at hv
    | cons v0 vs =>
      simp only
      rw [timeoutKey_lower, delete_put _ _ _ timeoutKey_lower]
  · -- no client grpc-timeout: whatever the allow-list renamed onto the key is consumed and deleted
    unfold baseContext
    cases hh : MD.get (filterRequest (fromIncoming ctxMD) o.allowReq o.prefixReq) timeoutKey with
    | nil =>
      simp only
      have := absent_of_lookup_nil _ _ hne (by unfold MD.get at hh; rw [timeoutKey_lower] at hh; exact hh)
      rw [delete_absent _ _ timeoutKey_lower this]
    | cons v0 vs => simp only

/-! ### conversions: where a value offered to the filter comes from -/

/-- `S k v` holds for every value of every entry -/
def ESrc (md : MD) (S : Bytes → Bytes → Prop) : Prop := ∀ e ∈ md, ∀ v ∈ e.2, S e.1 v

theorem esrc_put (md : MD) (S : Bytes → Bytes → Prop) (k : Bytes) (vs : List Bytes)
    (h : ESrc md S) (hv : ∀ v ∈ vs, S k v) : ESrc (MD.put md k vs) S := by
  intro e he v hm
  rcases mem_put _ _ _ _ he with h1 | h1
  · rw [h1] at hm ⊢; exact hv v hm
  · exact h e h1 v hm

theorem esrc_lookup (md : MD) (S : Bytes → Bytes → Prop) (h : ESrc md S) (k v : Bytes)
    (hm : v ∈ MD.lookup md k) : S k v := by
  obtain ⟨vs, h1, h2⟩ := lookup_mem md k v hm
  exact h (k, vs) h1 v h2

theorem esrc_nil (S : Bytes → Bytes → Prop) : ESrc [] S := by intro e he; simp at he

theorem esrc_mono (md : MD) (S T : Bytes → Bytes → Prop) (h : ESrc md S) (hst : ∀ k v, S k v → T k v) : ESrc md T :=
  fun e he v hv => hst _ _ (h e he v hv)

theorem fromIncoming_src (md : MD) :
    ESrc (fromIncoming md) (fun k v => ∃ e ∈ md, lower e.1 = k ∧ v ∈ e.2) := by
  unfold fromIncoming
  exact foldl_inv _ (fun o => ESrc o (fun k v => ∃ e ∈ md, lower e.1 = k ∧ v ∈ e.2)) md [] (esrc_nil _)
    (fun o e he ho => esrc_put _ _ _ _ ho (fun v hv => ⟨e, he, rfl, hv⟩))

theorem headersToMD_src (h : MD) :
    ESrc (headersToMD h) (fun k v => ∃ e ∈ h, lower e.1 = k ∧ v ∈ e.2) := by
  unfold headersToMD
  refine foldl_inv _ (fun o => ESrc o (fun k v => ∃ e ∈ h, lower e.1 = k ∧ v ∈ e.2)) h [] (esrc_nil _) ?_
  intro o e he ho
  show ESrc (MD.set o e.1 e.2) _
  unfold MD.set
  split
  · exact ho
  · exact esrc_put _ _ _ _ ho (fun v hv => ⟨e, he, rfl, hv⟩)

theorem pairsToMD_src (ps : List (Bytes × Bytes)) :
    ESrc (pairsToMD ps) (fun k v => ∃ p ∈ ps, lower p.1 = k ∧ v = p.2) := by
  unfold pairsToMD
  refine foldl_inv _ (fun o => ESrc o (fun k v => ∃ p ∈ ps, lower p.1 = k ∧ v = p.2)) ps [] (esrc_nil _) ?_
  intro o p hp ho
  show ESrc (MD.append o p.1 [p.2]) _
  unfold MD.append
  simp only [List.isEmpty_cons, Bool.false_eq_true, ↓reduceIte]
  refine esrc_put _ _ _ _ ho ?_
  intro v hv
  rcases List.mem_append.1 hv with h | h
  · exact esrc_lookup _ _ ho _ v h
  · exact ⟨p, hp, rfl, by simpa using h⟩

theorem mimeHeader_src (ps : List (Bytes × Bytes)) :
    ESrc (mimeHeader ps) (fun k v => ∃ p ∈ ps, canonKey p.1 = k ∧ v = p.2) := by
  unfold mimeHeader
  refine foldl_inv _ (fun o => ESrc o (fun k v => ∃ p ∈ ps, canonKey p.1 = k ∧ v = p.2)) ps [] (esrc_nil _) ?_
  intro o p hp ho
  refine esrc_put _ _ _ _ ho ?_
  intro v hv
  rcases List.mem_append.1 hv with h | h
  · exact esrc_lookup _ _ ho _ v h
  · exact ⟨p, hp, rfl, by simpa using h⟩

theorem joinInto_src (out md : MD) (S : Bytes → Bytes → Prop) (ho : ESrc out S) (hm : ESrc md S) :
    ESrc (joinInto out md) S := by
  unfold joinInto
  refine foldl_inv _ (fun o => ESrc o S) md out ho ?_
  intro o e he hoo
  refine esrc_put _ _ _ _ hoo ?_
  intro v hv
  rcases List.mem_append.1 hv with h | h
  · exact esrc_lookup _ _ hoo _ v h
  · exact hm e he v h

/-! ### canonical header keys only change case -/

set_option maxRecDepth 100000 in
theorem lower_case_all : ∀ n, n < 256 →
    lowerB (upperB (UInt8.ofNat n)) = lowerB (UInt8.ofNat n) ∧ lowerB (lowerB (UInt8.ofNat n)) = lowerB (UInt8.ofNat n) := by
  decide

theorem lowerB_upperB (c : UInt8) : lowerB (upperB c) = lowerB c := by
  have := (lower_case_all c.toNat (UInt8.toNat_lt c)).1; simpa using this
theorem lowerB_lowerB (c : UInt8) : lowerB (lowerB c) = lowerB c := by
  have := (lower_case_all c.toNat (UInt8.toNat_lt c)).2; simpa using this

theorem lower_canonLoop (up : Bool) (s : Bytes) : lower (canonLoop up s) = lower s := by
  induction s generalizing up with
  | nil => simp [canonLoop, lower]
  | cons c r ih =>
    simp only [canonLoop, lower, List.map_cons] at ih ⊢
    rw [ih]
    cases up <;> simp [lowerB_upperB, lowerB_lowerB]

theorem lower_canonKey (k : Bytes) : lower (canonKey k) = lower k := by
  unfold canonKey; split
  · exact lower_canonLoop true k
  · rfl

theorem lower_lower (k : Bytes) : lower (lower k) = lower k := by
  unfold lower; simp [lowerB_lowerB]

/-- the client-side source of a value offered to the filter under key `k` -/
def FromClient (its : List (Bytes × Bytes)) (k v : Bytes) : Prop := ∃ p ∈ its, lower p.1 = k ∧ p.2 = v

theorem mem_flatten (h : MD) (e : Bytes × List Bytes) (v : Bytes) (he : e ∈ h) (hv : v ∈ e.2) : (e.1, v) ∈ flatten h := by
  unfold flatten
  exact List.mem_flatMap.2 ⟨e, he, List.mem_map.2 ⟨v, hv, rfl⟩⟩

theorem headersToMD_client (h : MD) : ESrc (headersToMD h) (FromClient (flatten h)) := by
  refine esrc_mono _ _ (FromClient (flatten h)) (headersToMD_src h) ?_
  rintro k v ⟨e, he, hk, hv⟩
  exact ⟨(e.1, v), mem_flatten h e v he hv, hk, rfl⟩

/-- the second lower-casing (FromIncomingContext) changes nothing about the source -/
theorem fromIncoming_client (md : MD) (its : List (Bytes × Bytes)) (h : ESrc md (FromClient its)) :
    ESrc (fromIncoming md) (FromClient its) := by
  refine esrc_mono _ _ (FromClient its) (fromIncoming_src md) ?_
  rintro k v ⟨e, he, hk, hv⟩
  obtain ⟨p, hs, hpk, hpv⟩ := h e he v hv
  exact ⟨p, hs, by rw [← hk, ← hpk, lower_lower], hpv⟩

theorem fromClient_mono (a b : List (Bytes × Bytes)) (hab : ∀ p ∈ a, p ∈ b) (md : MD) (h : ESrc md (FromClient a)) :
    ESrc md (FromClient b) := by
  refine esrc_mono _ _ (FromClient b) h ?_
  rintro k v ⟨p, hp, h1, h2⟩
  exact ⟨p, hab p hp, h1, h2⟩

theorem fromIncoming_flat (md : MD) : ESrc (fromIncoming md) (FromClient (flatten md)) := by
  refine esrc_mono _ _ (FromClient (flatten md)) (fromIncoming_src md) ?_
  rintro k v ⟨e, he, hk, hv⟩
  exact ⟨(e.1, v), mem_flatten md e v he hv, hk, rfl⟩

/-- every value an entry point offers the filter under key `k` was sent by the client under a name
    equal to `k` up to ASCII case -/
theorem toCtxMD_src (en : Entry) (r : Request) :
    ESrc (fromIncoming (toCtxMD en r)) (FromClient (wireItems en r)) := by
  cases en with
  | http => exact fromIncoming_client _ _ (headersToMD_client r.hdr)
  | grpcweb => exact fromIncoming_client _ _ (headersToMD_client r.hdr)
  | ws =>
    apply fromIncoming_client
    show ESrc (join (pairsToMD r.qmd) (headersToMD r.hdr)) (FromClient (r.qmd ++ flatten r.hdr))
    unfold join
    refine joinInto_src _ _ _ (joinInto_src _ _ _ (esrc_nil _) ?_) ?_
    · refine esrc_mono _ _ _ (pairsToMD_src r.qmd) ?_
      rintro k v ⟨p, hp, h1, h2⟩
      exact ⟨p, List.mem_append_left _ hp, h1, h2.symm⟩
    · exact fromClient_mono _ _ (fun p hp => List.mem_append_right _ hp) _ (headersToMD_client r.hdr)
  | grpcws =>
    show ESrc (fromIncoming (mimeHeader r.lines)) (FromClient r.lines)
    refine esrc_mono _ _ (FromClient r.lines) (fromIncoming_src (mimeHeader r.lines)) ?_
    rintro k v ⟨e, he, hk, hv⟩
    obtain ⟨p, hp, h1, h2⟩ := mimeHeader_src r.lines e he v hv
    exact ⟨p, hp, by rw [← hk, ← h1, lower_canonKey], h2.symm⟩
  | proxy =>
    show ESrc (fromIncoming (if r.normalise then wireFormMetadata r.hdr else r.hdr))
      (FromClient (if r.normalise then flatten (wireFormMetadata r.hdr) else flatten r.hdr))
    cases r.normalise
    · exact fromIncoming_flat r.hdr
    · exact fromIncoming_flat (wireFormMetadata r.hdr)

/-! ### base64: decode ∘ encode = id -/

set_option maxRecDepth 100000 in
theorem b64val_char_all : ∀ n, n < 64 → b64val (b64char n) = some n := by decide

theorem b64val_char (n : Nat) (h : n < 64) : b64val (b64char n) = some n := b64val_char_all n h

theorem dec_step (n : Nat) (h : n < 64) (rest : Bytes) (acc : List Nat) (hl : acc.length ≠ 3) :
    b64dec true (b64char n :: rest) acc = b64dec true rest (acc ++ [n]) := by
  rw [b64dec]
  simp [b64val_char n h, hl]

theorem dec_step4 (n : Nat) (h : n < 64) (rest : Bytes) (acc : List Nat) (hl : acc.length = 3) :
    b64dec true (b64char n :: rest) acc = (b64dec true rest []).map (emitQ (acc ++ [n]) ++ ·) := by
  rw [b64dec]
  simp [b64val_char n h, hl]

theorem emit4 (a b d : UInt8) :
    emitQ [a.toNat / 4, a.toNat % 4 * 16 + b.toNat / 16, b.toNat % 16 * 4 + d.toNat / 64, d.toNat % 64] = [a, b, d] := by
  have ha := UInt8.toNat_lt a; have hb := UInt8.toNat_lt b; have hd := UInt8.toNat_lt d
  simp only [emitQ, List.getD_cons_zero, List.getD_cons_succ, List.length_cons, List.length_nil]
  have e0 : ((a.toNat / 4) * 262144 + (a.toNat % 4 * 16 + b.toNat / 16) * 4096 + (b.toNat % 16 * 4 + d.toNat / 64) * 64 + d.toNat % 64) / 65536 % 256 = a.toNat := by omega
  have e1 : ((a.toNat / 4) * 262144 + (a.toNat % 4 * 16 + b.toNat / 16) * 4096 + (b.toNat % 16 * 4 + d.toNat / 64) * 64 + d.toNat % 64) / 256 % 256 = b.toNat := by omega
  have e2 : ((a.toNat / 4) * 262144 + (a.toNat % 4 * 16 + b.toNat / 16) * 4096 + (b.toNat % 16 * 4 + d.toNat / 64) * 64 + d.toNat % 64) % 256 = d.toNat := by omega
  simp [e0, e1, e2]

theorem emit2 (a : UInt8) : emitQ [a.toNat / 4, a.toNat % 4 * 16] = [a] := by
  have ha := UInt8.toNat_lt a
  simp only [emitQ, List.getD_cons_zero, List.getD_cons_succ, List.length_cons, List.length_nil, List.getD_nil]
  have e0 : (a.toNat / 4 * 262144 + a.toNat % 4 * 16 * 4096) / 65536 % 256 = a.toNat := by omega
  simp [e0]

theorem emit3 (a b : UInt8) : emitQ [a.toNat / 4, a.toNat % 4 * 16 + b.toNat / 16, b.toNat % 16 * 4] = [a, b] := by
  have ha := UInt8.toNat_lt a; have hb := UInt8.toNat_lt b
  simp only [emitQ, List.getD_cons_zero, List.getD_cons_succ, List.length_cons, List.length_nil, List.getD_nil]
  have e0 : (a.toNat / 4 * 262144 + (a.toNat % 4 * 16 + b.toNat / 16) * 4096 + b.toNat % 16 * 4 * 64) / 65536 % 256 = a.toNat := by omega
  have e1 : (a.toNat / 4 * 262144 + (a.toNat % 4 * 16 + b.toNat / 16) * 4096 + b.toNat % 16 * 4 * 64) / 256 % 256 = b.toNat := by omega
  simp [e0, e1]

/-- `StdEncoding.DecodeString(StdEncoding.EncodeToString(b)) = b` for EVERY byte string -/
theorem b64_roundtrip (bs : Bytes) : b64dec true (encodeStd bs) [] = some bs := by
  induction bs using encodeStd.induct with
  | case1 => simp [encodeStd, b64dec]
  | case2 a =>
    have ha := UInt8.toNat_lt a
    simp only [encodeStd]
    rw [dec_step _ (by omega) _ _ (by simp), dec_step _ (by omega) _ _ (by simp)]
    rw [b64dec]
    simp [b64val, isNL, skipNL, emit2]
  | case3 a b =>
    have ha := UInt8.toNat_lt a; have hb := UInt8.toNat_lt b
    simp only [encodeStd]
    rw [dec_step _ (by omega) _ _ (by simp), dec_step _ (by omega) _ _ (by simp), dec_step _ (by omega) _ _ (by simp)]
    rw [b64dec]
    simp [b64val, isNL, skipNL, emit3]
  | case4 a b d rest ih =>
    have ha := UInt8.toNat_lt a; have hb := UInt8.toNat_lt b; have hd := UInt8.toNat_lt d
    simp only [encodeStd]
    rw [dec_step _ (by omega) _ _ (by simp), dec_step _ (by omega) _ _ (by simp), dec_step _ (by omega) _ _ (by simp),
      dec_step4 _ (by omega) _ _ (by simp), ih]
    simp [emit4]

theorem encodeStd_length (bs : Bytes) : (encodeStd bs).length % 4 = 0 := by
  induction bs using encodeStd.induct with
  | case1 => simp [encodeStd]
  | case2 a => simp [encodeStd]
  | case3 a b => simp [encodeStd]
  | case4 a b d rest ih => simp only [encodeStd, List.length_cons]; omega

/-- `decodeBinHeader(base64.StdEncoding.EncodeToString(b)) = b` for EVERY byte string `b` -/
theorem decodeBin_encodeStd (bs : Bytes) : decodeBinHeader (encodeStd bs) = some bs := by
  unfold decodeBinHeader
  simp [encodeStd_length, b64_roundtrip]


/-! ### the proxy entry's normalisation -/

theorem lower_drop (k : Bytes) (n : Nat) : lower (k.drop n) = (lower k).drop n := by
  unfold lower; exact List.map_drop

theorem lower_length (k : Bytes) : (lower k).length = k.length := by unfold lower; simp

theorem grpcBin_lower (k : Bytes) : grpcBin (lower k) = grpcBin k := by
  unfold grpcBin equalFold
  rw [lower_length, ← lower_drop, lower_lower, lower_length]

theorem grpcBin_congr (k a : Bytes) (h : lower k = lower a) : grpcBin k = grpcBin a := by
  rw [← grpcBin_lower k, ← grpcBin_lower a, h]

/-- a wire-form item is a client item, its value `StdEncoding`-encoded iff the key is binary for grpc-go -/
theorem mem_flatten_wire (md : MD) (p : Bytes × Bytes) (h : p ∈ flatten (wireFormMetadata md)) :
    ∃ w, (p.1, w) ∈ flatten md ∧ p.2 = if grpcBin p.1 then encodeStd w else w := by
  unfold flatten wireFormMetadata at h
  obtain ⟨e', he', hp⟩ := List.mem_flatMap.1 h
  obtain ⟨e, he, rfl⟩ := List.mem_map.1 he'
  obtain ⟨v, hv, rfl⟩ := List.mem_map.1 hp
  by_cases hb : grpcBin e.1 = true
  · simp only [hb, ↓reduceIte] at hv ⊢
    obtain ⟨w, hw, rfl⟩ := List.mem_map.1 hv
    exact ⟨w, mem_flatten md e w he hw, rfl⟩
  · simp only [hb, Bool.false_eq_true, ↓reduceIte] at hv ⊢
    exact ⟨v, mem_flatten md e v he hv, rfl⟩

theorem binSuffix_ne_timeout (k : Bytes) (h : hasBinSuffix k = true) : lower k ≠ timeoutKey := by
  intro hk
  unfold hasBinSuffix equalFold at h
  simp only [Bool.and_eq_true, decide_eq_true_eq, beq_iff_eq] at h
  have hlen : k.length = 12 := by rw [← lower_length, hk]; rfl
  have h2 := h.2.2
  rw [lower_drop, hk, hlen] at h2
  revert h2; decide

theorem hasBinSuffix_append (pfx k : Bytes) (h : hasBinSuffix k = true) : hasBinSuffix (pfx ++ k) = true := by
  unfold hasBinSuffix at h ⊢
  simp only [Bool.and_eq_true, decide_eq_true_eq] at h ⊢
  have hl : binSuffix.length = 4 := rfl
  rw [hl] at h ⊢
  refine ⟨by rw [List.length_append]; omega, ?_⟩
  have : (pfx ++ k).length - 4 = pfx.length + (k.length - 4) := by rw [List.length_append]; omega
  rw [this, List.drop_append]
  have e1 : List.drop (pfx.length + (k.length - 4)) pfx = [] := List.drop_eq_nil_of_le (by omega)
  have e2 : pfx.length + (k.length - 4) - pfx.length = k.length - 4 := by omega
  rw [e1, e2, List.nil_append]
  exact h.2

theorem grpcBin_of_hasBinSuffix (k : Bytes) (h : hasBinSuffix k = true) : grpcBin k = true := by
  unfold hasBinSuffix at h
  unfold grpcBin
  simp only [Bool.and_eq_true, decide_eq_true_eq] at h ⊢
  exact ⟨by omega, h.2⟩

/-! ### response placement -/

theorem appendHeaders_src (w md : MD) (S : Bytes → Bytes → Prop) (hw : ESrc w S)
    (hm : ∀ e ∈ md, ∀ v ∈ e.2, S (canonKey e.1) v) : ESrc (appendHeaders w md) S := by
  unfold appendHeaders
  refine foldl_inv _ (fun o => ESrc o S) md w hw ?_
  intro o e he ho
  refine esrc_put _ _ _ _ ho ?_
  intro v hv
  rcases List.mem_append.1 hv with h | h
  · exact esrc_lookup _ _ ho _ v h
  · exact hm e he v h

end GB.C07
