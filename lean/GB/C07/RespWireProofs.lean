import GB.C07.RespWire
import GB.C08.TrailerProofs
/- C07 — lemmas about response header values on the wire (RespWire.lean). -/
namespace GB.C07
open GB

theorem dropWhile_blank_id (v : Bytes) (h : ∀ c ∈ v, C08.Printable c) : v.dropWhile isBlank = v := by
  cases v with
  | nil => rfl
  | cons c v =>
    have hc := h c (by simp)
    have : isBlank c = false := by
      unfold C08.Printable at hc
      simp only [isBlank, Bool.or_eq_false_iff, beq_eq_false_iff_ne, ne_eq]
      refine ⟨⟨⟨?_, ?_⟩, ?_⟩, ?_⟩ <;> (intro e; subst e; revert hc; decide)
    simp [List.dropWhile, this]

theorem trimBlanks_id (v : Bytes) (h : ∀ c ∈ v, C08.Printable c) : trimBlanks v = v := by
  unfold trimBlanks
  rw [dropWhile_blank_id v h, dropWhile_blank_id v.reverse (fun c hc => h c (by simpa using hc))]
  simp

theorem netHTTPValue_id (v : Bytes) (h : ∀ c ∈ v, C08.Printable c) : netHTTPValue v = v := by
  unfold netHTTPValue
  rw [C08.nlToSpace_id v h, trimBlanks_id v h]

theorem mem_dropWhile {p : UInt8 → Bool} {c : UInt8} : ∀ {v : Bytes}, c ∈ v.dropWhile p → c ∈ v
  | [], h => by simp at h
  | a :: v, h => by
    simp only [List.dropWhile] at h
    split at h
    · exact List.mem_cons_of_mem _ (mem_dropWhile h)
    · exact h

theorem mem_trimBlanks {c : UInt8} {v : Bytes} (h : c ∈ trimBlanks v) : c ∈ v := by
  unfold trimBlanks at h
  have h1 := mem_dropWhile (List.mem_reverse.mp h)
  exact mem_dropWhile (List.mem_reverse.mp h1)

theorem netHTTPValue_clean (v : Bytes) : (13 : UInt8) ∉ netHTTPValue v ∧ (10 : UInt8) ∉ netHTTPValue v :=
  ⟨fun h => (C08.nlToSpace_clean v).1 (mem_trimBlanks h), fun h => (C08.nlToSpace_clean v).2 (mem_trimBlanks h)⟩

end GB.C07
