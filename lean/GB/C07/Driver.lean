import GB.Base.Proto
import GB.C07.Spec
import GB.C07.Glue
import GB.C07.Wire
import GB.C07.RespWire
import GB.C19.Model
/-
  C07 driver.  Line formats (byte strings hex `x…`; `l:` list = hex items joined by `,`;
  `m:` MD = entries `xKEY:xV1,xV2` joined by `;`, sorted by key by whoever prints it;
  `p:` pairs = `xK=xV` joined by `;`, order significant):

    bin  x<v>                                             => none | some:x<bytes>
    filt req|resp|trl  <OPTS> m:<md>                      => m:<out>
    fwd  <OPTS> m:<ctx md> m:<target hdr> m:<target trl> <MODE>
                                                          => out=m:… dl=none|<sec> hdr=m:… trl=m:…|unset
    e2e  <entry> <OPTS> m:<sent hdr> p:<query md | lines> m:<target hdr> m:<target trl> <MODE>
                                                          => fwd=0 | fwd=1 seen=m:… out=m:… dl=… ch=m:… ct=m:…
  <MODE> = unary|stream[:h<0|1>m<n><k|e>]  — how the scripted target's stream ends: header block sent (h1) or
           Trailers-Only (h0), n messages, then io.EOF (k) or an error status (e); default unary = h1m1k, stream = h1m2k
  <OPTS> = l:<allowReq> x<prefixReq> l:<allowResp> x<prefixResp> l:<allowTrl> x<prefixTrl>
-/
namespace GB.C07
open GB GB.Proto

/-! parsing / printing -/

def dropPrefix? (s p : String) : Option String :=
  if s.startsWith p then some (s.drop p.length).toString else none

def parseHexList (s : String) : Option (List Bytes) :=
  if s.isEmpty then some [] else (s.splitOn ",").mapM parseHex

def parseL (s : String) : Option (List Bytes) := (dropPrefix? s "l:").bind parseHexList

def parseEntry (s : String) : Option (Bytes × List Bytes) :=
  match s.splitOn ":" with
  | [k, vs] => do let k ← parseHex k; let vs ← parseHexList vs; pure (k, vs)
  | _ => none

def parseM (s : String) : Option MD :=
  (dropPrefix? s "m:").bind fun b => if b.isEmpty then some [] else (b.splitOn ";").mapM parseEntry

def parsePair (s : String) : Option (Bytes × Bytes) :=
  match s.splitOn "=" with
  | [k, v] => do let k ← parseHex k; let v ← parseHex v; pure (k, v)
  | _ => none

def parseP (s : String) : Option (List (Bytes × Bytes)) :=
  (dropPrefix? s "p:").bind fun b => if b.isEmpty then some [] else (b.splitOn ";").mapM parsePair

def bytesLt : Bytes → Bytes → Bool
  | [], [] => false
  | [], _ :: _ => true
  | _ :: _, [] => false
  | a :: as, b :: bs => if a < b then true else if b < a then false else bytesLt as bs

def insertSorted (e : Bytes × List Bytes) : MD → MD
  | [] => [e]
  | x :: xs => if bytesLt e.1 x.1 then e :: x :: xs else x :: insertSorted e xs

def sortMD (md : MD) : MD := md.foldl (fun acc e => insertSorted e acc) []

def showMD (md : MD) : String :=
  "m:" ++ ";".intercalate ((sortMD md).map fun e => toHex e.1 ++ ":" ++ ",".intercalate (e.2.map toHex))

def parseOpts : List String → Option (Opts × List String)
  | a :: b :: c :: d :: e :: f :: rest => do
    let ar ← parseL a; let pr ← parseHex b
    let as ← parseL c; let ps ← parseHex d
    let at' ← parseL e; let pt ← parseHex f
    pure ({ allowReq := ar, prefixReq := pr, allowResp := as, prefixResp := ps, allowTrl := at', prefixTrl := pt }, rest)
  | _ => none

def parseEntryName : String → Option Entry
  | "http" => some .http | "ws" => some .ws | "grpcweb" => some .grpcweb
  | "grpcws" => some .grpcws | "proxy" => some .proxy | _ => none

def field (outs : List String) (name : String) : Option String :=
  outs.findSome? (fun s => dropPrefix? s (name ++ "="))

/-- rounded seconds of a nanosecond duration, as the harness reports the remaining deadline -/
def showDeadline : Option Int → String
  | none => "none"
  | some d => toString ((d + 500000000) / 1000000000)

/-! bridge-owned response headers (never derived from target metadata) -/
def ctKey : Bytes := ascii "Content-Type"
def ownCT : List Bytes := [ascii "application/json", ascii "application/grpc-web+proto", ascii "text/plain; charset=utf-8"]
def own (K v : Bytes) : Bool := K == ctKey && ownCT.contains v

/-- `unary` / `stream` / `unary:h0m0e` … ⇒ (streaming, script, label) -/
def parseMode (m : String) : Option (Bool × Script × String) :=
  match m.splitOn ":" with
  | [k] =>
    if k == "unary" then some (false, { hdrSent := true, msgs := 1, ok := true }, "unary-h1m1k")
    else if k == "stream" then some (true, { hdrSent := true, msgs := 2, ok := true }, "stream-h1m2k")
    else none
  | [k, sc] =>
    if k != "unary" && k != "stream" then none else
    match sc.toList with
    | ['h', hd, 'm', md, en] =>
      if (hd == '0' || hd == '1') && md.isDigit && (en == 'k' || en == 'e') then
        some (k == "stream", { hdrSent := hd == '1', msgs := md.toNat - '0'.toNat, ok := en == 'k' }, k ++ "-" ++ sc)
      else none
    | _ => none
  | _ => none

def isOpt (o : Opts) : String :=
  if o.allowReq.isEmpty && o.allowResp.isEmpty && o.allowTrl.isEmpty then "deny" else "cfg"

/-- request-direction verdict shared by fwd / e2e: `out` vs the model and the spec -/
def judgeReq (wire : Bool) (o : Opts) (its : List (Bytes × Bytes)) (mOut : MD) (mDl : Option Int)
    (out : MD) (dl : String) (mOld : MD := []) : Option String :=
  if out.any (fun e => e.1 == timeoutKey) then some "VIOL grpc-timeout forwarded as metadata"
  else if !wire && !(reqSpec false o its out) && sortMD out != sortMD mOut && sortMD out == sortMD mOld then
    some "VIOL D13 binary metadata already decoded by grpc-go was base64-decoded a second time on the gRPC proxy entry"
  else if !(reqSpec wire o its out) then some s!"VIOL target received metadata not licensed by the request allow-list model={showMD mOut}"
  else if sortMD out != sortMD mOut then some s!"DIFF model=out:{showMD mOut}"
  else if dl != showDeadline mDl then
    (if mDl.isSome && dl == "none" then some s!"VIOL grpc-timeout not consumed as a deadline model={showDeadline mDl}"
     else some s!"DIFF model=dl:{showDeadline mDl}")
  else none

def dropKeys (ks : List Bytes) (md : MD) : MD := md.filter (fun e => !ks.contains e.1)
def infra : List Bytes := [ascii "Date", ascii "Content-Length"]

/-! construction glue (`build`) -/

/-- `p:w`, `b:d+l`, … ⇒ constructor call; forwarder 0 = the W-marker forwarder, 1 = the N-marker one -/
def parseCtor (t : String) : Option Ctor :=
  let (kc, extra) : String × List Opt := match t.splitOn "+" with
    | [a, "l"] => (a, [.withLogger])
    | _ => (t, [])
  match kc.splitOn ":" with
  | [k, c] =>
    let kind? : Option Kind := if k == "p" then some .proxy else if k == "b" then some .bridge else none
    let fw? : Option (List Opt) :=
      if c == "w" then some [.withForwarder 0] else if c == "n" then some [.withForwarder 1]
      else if c == "d" then some [] else none
    match kind?, fw? with
    | some kind, some fw => some { kind := kind, opts := extra ++ fw }
    | _, _ => none
  | _ => none

def markerOf : Fwd → String
  | .given 0 => "w"
  | .given _ => "n"
  | .fresh _ => "-"

/-- judge one `c<i>.<entry>=<req>/<hdr>/<trl>` observation against the component's forwarder per the SPEC -/
def judgeObs (seq : List Ctor) (tok : String) : String :=
  match tok.splitOn "=" with
  | [lhs, obs] =>
    match lhs.splitOn ".", obs.splitOn "/" with
    | [ci, entry], [rq, hd, tr] =>
      match (ci.drop 1).toString.toNat? with
      | none => "BAD component"
      | some i =>
        match seq[i]? with
        | none => "BAD component index"
        | some c =>
          let f := specFwd i c                 -- = (build seq)[i] by C07_components_isolated
          let m := markerOf f
          let vis := if entry == "ws" then "-" else m
          let all := rq ++ hd ++ tr
          let foreign := all.toList.any (fun ch => ch != '-' && !m.toList.contains ch)
          if m == "-" && foreign then s!"VIOL default-component-forwards {tok}: built without WithForwarder, yet markers crossed"
          else if foreign then s!"VIOL foreign-forwarder {tok}: markers of another component's forwarder crossed"
          else if rq != m || hd != vis || tr != vis then s!"DIFF model={lhs}={m}/{vis}/{vis}"
          else ""
    | _, _ => "BAD obs"
  | _ => "BAD obs token"

/-- which irregularities the raw metadata frame has (branch histogram only) -/
def rmdClass (data : Bytes) : String :=
  if (wireLines (data ++ [13, 10])).any isCont then "cont"
  else if data.any (fun c => c ≥ 128) then "high"
  else if data.any (fun c => (c < 32 && c != 13 && c != 10 && c != 9) || c == 127) then "ctl"
  else if (wireLines (data ++ [13, 10])).any (fun l => !l.isEmpty && !l.contains 58) then "nocolon"
  else "plain"

def handle : Handler
  | ["rbin", en, whereS, modeS, keyS, valsS], outs =>
    -- an allow-listed response header / trailer value on the raw HTTP/1.1 wire (harness/c07/resp.go), judged against the spec
    -- (no line the bridge does not own; a binary value decodes to the target's bytes) and against `respWireValue`
    match parseHex keyS, parseL valsS, field outs "hl", field outs "tl" with
    | some k, some vs, some hlS, some tlS =>
      match parseP hlS, parseP tlS with
      | some hl, some tl =>
        let streaming := modeS.startsWith "stream"
        let inTrailer := en == "http" && whereS == "trl" && streaming
        let lk := lower k
        let infra : List Bytes := ["content-type", "date", "content-length", "connection", "transfer-encoding"].map ascii
        let (sec, other) := if inTrailer then (tl, hl) else (hl, tl)
        let mine := (sec.filter (fun p => lower p.1 == lk)).map (·.2)
        let foreign := (hl ++ tl).filter (fun p => !(infra.contains (lower p.1)) && lower p.1 != lk)
        let stray := other.filter (fun p => lower p.1 == lk)
        let cr := (hl ++ tl).any (fun p => p.2.contains 13 || p.1.contains 13)
        let bin := C08.isBinKey k
        let odd := vs.any (fun v => v.any (fun c => c < 32 || c ≥ 127) || v != trimBlanks v)
        if field outs "st" != some "200" then "DIFF model=st:200"
        else if field outs "terr" != none then "VIOL the response is not a well-formed HTTP/1.1 message after a target value was written into it"
        else if !foreign.isEmpty || cr || !stray.isEmpty then
          s!"VIOL a target metadata value added a header line of its own: {";".intercalate (foreign.map fun p => toHex p.1)}"
        else if bin && mine.map (fun w => b64dec false w []) != vs.map some then
          s!"VIOL binary response metadata is not recoverable by the client (value is not the base64 form of the target's bytes) model={",".intercalate (vs.map fun v => toHex (respWireValue k v))}"
        else if mine != vs.map (respWireValue k) then s!"DIFF model={",".intercalate (vs.map fun v => toHex (respWireValue k v))}"
        else s!"OK nt b=rbin-{en}-{whereS}-{modeS}-{if bin then "bin" else "text"}-{if odd then "odd" else "plain"}"
      | _, _ => "BAD rbin out"
    | _, _, _, _ => "BAD rbin fields"
  | ["rmd", via, allowS, pfxS, dataS], outs =>
    match parseL allowS, parseHex pfxS, parseHex dataS with
    | some allow, some pfx, some data =>
      let o : Opts := { allowReq := allow, prefixReq := pfx }
      let cls := rmdClass data
      match readMDPairs data with
      | none =>
        if outs == ["fwd=0"] then s!"OK nt b=rmd-{via}-rejected-{cls}"
        else "DIFF model=fwd:0 (ReadMIMEHeader reports an error)"
      | some ps =>
        match field outs "out", field outs "dl" with
        | some outS, some dl =>
          match parseM outS with
          | some out =>
            let r : Request := { lines := ps }
            match judgeReq true o ps (targetMD .grpcws o r) (targetDeadline .grpcws o r) out dl with
            | some v => v
            | none => s!"OK nt b=rmd-{via}-accepted-{cls}-{if out.isEmpty then "nothing-forwarded" else "forwarded"}"
          | none => "BAD rmd out"
        | _, _ => if outs == ["fwd=0"] then "DIFF model=fwd:1" else "BAD rmd fields"
    | _, _, _ => "BAD rmd line"
  | ["build", seqS], outs =>
    match (seqS.splitOn ",").mapM parseCtor with
    | none => "BAD build seq"
    | some seq =>
      let verdicts := outs.map (judgeObs seq)
      let expected := (seq.map (fun c => match c.kind with | .proxy => 1 | .bridge => 4)).foldl (· + ·) 0
      match verdicts.find? (·.startsWith "VIOL"), verdicts.find? (·.startsWith "BAD"), verdicts.find? (·.startsWith "DIFF") with
      | some v, _, _ => v
      | none, some b, _ => b
      | none, none, some d => d
      | none, none, none =>
        if outs.length != expected then s!"DIFF model=observations:{expected}"
        else
          let firstGiven := match seq with | c :: _ => (applyOpts c.opts).isSome | [] => false
          let hasDefault := seq.any (fun c => (applyOpts c.opts).isNone)
          s!"OK nt b=build-{seq.length}-{if firstGiven then "first-explicit" else "first-default"}-{if hasDefault then "with-default" else "all-explicit"}"
  | ["bin", hx], [out] =>
    match parseHex hx with
    | none => "BAD hex"
    | some v =>
      let m := match decodeBinHeader v with | none => "none" | some b => "some:" ++ toHex b
      if out == m then
        let nt := if (decodeBinHeader v).isSome && !v.isEmpty then " nt" else ""
        s!"OK{nt} b=bin-{if v.length % 4 == 0 then "std" else "raw"}-{if (decodeBinHeader v).isSome then "ok" else "err"}"
      else s!"DIFF model={m}"
  | "filt" :: which :: rest, [outS] =>
    match parseOpts rest with
    | some (o, [mdS]) =>
      match parseM mdS, parseM outS with
      | some md, some out =>
        let (m, ok) : MD × Bool := match which with
          | "req" =>
            (filterRequestMD o md,
             out.all (fun e => (e.1 == timeoutKey && e.2 == md.get timeoutKey) || entryOK true o (flatten md) e))
          | "resp" => (filterResponseMD o md, respSpec o.allowResp o.prefixResp md out)
          | _ => (filterTrailerMD o md, respSpec o.allowTrl o.prefixTrl md out)
        if which != "req" && which != "resp" && which != "trl" then "BAD which"
        else if !ok then s!"VIOL filter {which} let through metadata that is not allow-listed model={showMD m}"
        else if sortMD out != sortMD m then s!"DIFF model={showMD m}"
        else s!"OK{if m.isEmpty then "" else " nt"} b=filt-{which}-{isOpt o}-{if m.isEmpty then "empty" else "some"}"
      | _, _ => "BAD md"
    | _ => "BAD filt line"
  | "fwd" :: rest, outs =>
    match parseOpts rest with
    | some (o, [cS, hS, tS, modeS]) =>
      match parseMode modeS, parseM cS, parseM hS, parseM tS, field outs "out", field outs "dl", field outs "hdr", field outs "trl" with
      | some (streaming, sc, mode), some c, some h, some t, some outS, some dl, some ohS, some otS =>
        match parseM outS, parseM ohS with
        | some out, some oh =>
          let (mOut, mDl) := forwardRequest o c
          match judgeReq true o (flatten c) mOut mDl out dl with
          | some v => v
          | none =>
            let (mh, mt?, mn) := forwardResponse o streaming sc h t
            let mtS := match mt? with | none => "unset" | some m => showMD m
            let ok := fun (nt : String) => s!"OK{nt} b=fwd-{mode}-{isOpt o}-{if mDl.isSome then "dl" else "nodl"}"
            -- the header block the target actually sent (empty for Trailers-Only) is the only licence for SetHeader
            if !(respSpec o.allowResp o.prefixResp (sc.header h) oh) then s!"VIOL SetHeader got metadata that the response allow-list does not license from the target's header block model={showMD mh}"
            else if sortMD oh != sortMD mh then s!"DIFF model=hdr:{showMD mh}"
            else if field outs "sent" != none && field outs "sent" != some (toString mn) then s!"DIFF model=sent:{mn}"
            else match (if otS == "unset" then some none else (parseM otS).map some) with
              | none => "BAD trl"
              | some none => if mt?.isNone then ok (if mOut.isEmpty && mh.isEmpty && mDl.isNone then "" else " nt") else s!"DIFF model=trl:{mtS}"
              | some (some ot) =>
                if !(respSpec o.allowTrl o.prefixTrl t ot) then s!"VIOL SetTrailer got metadata not on the trailer allow-list model={mtS}"
                else if mt?.map sortMD != some (sortMD ot) then s!"DIFF model=trl:{mtS}"
                else ok (if mOut.isEmpty && mh.isEmpty && ot.isEmpty && mDl.isNone then "" else " nt")
        | _, _ => "BAD fwd out md"
      | _, _, _, _, _, _, _, _ => "BAD fwd fields"
    | _ => "BAD fwd line"
  | "e2e" :: en :: rest, outs =>
    match parseEntryName en, parseOpts rest with
    | some e, some (o, [sS, pS, hS, tS, modeS]) =>
      match parseMode modeS, parseM sS, parseP pS, parseM hS, parseM tS with
      | some (streaming, sc, mode), some _sent, some ps, some h, some t =>
        if field outs "fwd" == some "0" then s!"OK b=e2e-{en}-notforwarded"
        else
        match field outs "seen", field outs "out", field outs "dl", field outs "ch", field outs "ct" with
        | some seenS, some outS, some dl, some chS, some ctS =>
          match parseM seenS, parseM outS, parseM chS, parseM ctS with
          | some seen, some out, some ch0, some ct0 =>
            -- gRPC-Web frames (the trailer frame; the gRPC-WebSocket header frame) carry binary (-bin) values in wire form,
            -- unpadded base64 (webbridge lpmTrailerValue, fix D38 of slice C08): the client's view is compared decoded
            let unbin (md : MD) : MD :=
              md.map fun kv => if grpcBin kv.1 then (kv.1, kv.2.map fun v => (b64dec false v []).getD v) else kv
            -- ... and so do real HTTP response headers / trailers on the HTTP entry points (webbridge headerValues, fix D40;
            -- judged byte for byte by the `rbin` stream)
            let ch := match e with | .grpcws | .http | .grpcweb => unbin ch0 | _ => ch0
            let ct := match e with | .grpcws | .grpcweb | .http => unbin ct0 | _ => ct0
            let qmd := ps.filter (fun p => GB.C19.isValidMetadataKey p.1 && GB.C19.isValidMetadataValue p.2)
            let r : Request := match e with
              | .grpcws => { lines := ps }
              | .ws => { hdr := seen, qmd := qmd }
              | _ => { hdr := seen }            -- proxy: `normalise := true`, the entry point as it is after fix D13
            let mOut := targetMD e o r
            -- what the proxy entry did before the fix (only used to name the regression precisely)
            let mOld := targetMD e o { r with normalise := false }
            -- proxy: grpc-go itself turns the client's grpc-timeout into the deadline of the incoming context;
            -- a timeout the allow-list renames onto grpc-timeout is applied on top (context.WithTimeout: the earlier wins)
            let mDl := match e with
              | .proxy =>
                let c := (match MD.get _sent timeoutKey with | v0 :: _ => GB.C12.decodeTimeout v0 | [] => none)
                (match c, targetDeadline e o r with
                 | some a, some b => some (if b < a then b else a)
                 | some a, none => some a
                 | none, b => b)
              | _ => targetDeadline e o r
            match judgeReq e.wire o (items e r) mOut mDl out dl mOld with
            | some v => v
            | none =>
              let (mh0, mt) := clientVisible e o streaming sc h t
              let hb := sc.header h            -- the header block the target actually sent
              -- HTTP: trailers are sent as headers only while no body byte has been written
              let early := !(streaming && (forwardResponse o streaming sc h t).2.2 > 0)
              -- bridge-owned headers around the target-derived ones
              let mh : MD := match e with
                | .http =>
                  -- the bridge writes its Content-Type with the first message or with the error body;
                  -- a streaming call that ends OK without a message writes neither
                  if (forwardResponse o streaming sc h t).2.2 > 0 || !(streaming && sc.ok)
                  then MD.put mh0 ctKey [ascii "application/json"] else mh0
                | .grpcweb => appendHeaders [(ctKey, [ascii "application/grpc-web+proto"])] (filterResponseMD o hb)
                | _ => mh0
              let ch' := dropKeys infra ch
              let mh' := dropKeys infra mh
              -- every header: RESPONSE list applied to the HEADER block (+ on early HTTP: TRAILER list applied to the TRAILER block)
              let specH : Bool := match e with
                | .http => httpSpec o hb (if early then t else []) own ch'
                | .grpcweb => httpSpec o hb [] own ch'
                | .ws => ch'.isEmpty
                | _ => respSpec o.allowResp o.prefixResp hb ch'
              let specT : Bool := match e with
                | .http => httpSpec o [] t (fun _ _ => false) ct
                | .ws => ct.isEmpty
                | _ => respSpec o.allowTrl o.prefixTrl t ct
              if !specH then s!"VIOL client saw response headers that the response allow-list does not license from the target's header block model={showMD mh'}"
              else if !specT then s!"VIOL client saw trailers not on the trailer allow-list model={showMD mt}"
              else if sortMD ch' != sortMD mh' then s!"DIFF model=ch:{showMD mh'}"
              else if sortMD ct != sortMD mt then s!"DIFF model=ct:{showMD mt}"
              else
                let nt := if mOut.isEmpty && mt.isEmpty && (filterResponseMD o hb).isEmpty && mDl.isNone then "" else " nt"
                s!"OK{nt} b=e2e-{en}-{mode}-{isOpt o}-{if mDl.isSome then "dl" else "nodl"}"
          | _, _, _, _ => "BAD e2e out md"
        | _, _, _, _, _ => "BAD e2e fields"
      | _, _, _, _, _ => "BAD e2e md"
    | _, _ => "BAD e2e line"
  | _, _ => "BAD c07 line"

end GB.C07
