import GB.Base.Proto
namespace GB.C07
open GB GB.Proto

/-- stub: replaced when the C07 slice is built -/
def handle : Handler := fun _ _ => "BAD c07 unimplemented"

end GB.C07
