import GB.C08.Trailer
import GB.C07.Model
/-
  C07 — the VALUE of a response header / HTTP trailer line that the transcoded-HTTP and gRPC-Web entry points produce from
  target metadata (webbridge/http.go appendHeaders / httpStream.SetTrailer -> headerValues, fix D40), followed by what
  net/http does to every header value it writes (net/http Header.writeSubset).

    headerValues(k, vs)    = vs                                              unless strings.HasSuffix(k, "-bin")
                           = map base64.RawStdEncoding.EncodeToString vs      for binary keys  (= lpmTrailerValue, C08)
    net/http writeSubset v = textproto.TrimString(headerNewlineToSpace.Replace(v))     ("\n" -> " ", "\r" -> " ", then
                             ASCII blanks SP HTAB CR LF cut from both ends); no other byte is touched or rejected

  gRPC-Go hands binary metadata to the bridge DECODED (arbitrary bytes); before the fix every value went into http.Header as-is.
-/
namespace GB.C07
open GB

/-- textproto.isASCIISpace -/
def isBlank (c : UInt8) : Bool := c == 32 || c == 9 || c == 10 || c == 13

/-- textproto.TrimString -/
def trimBlanks (v : Bytes) : Bytes := ((v.dropWhile isBlank).reverse.dropWhile isBlank).reverse

/-- net/http Header.writeSubset, per value -/
def netHTTPValue (v : Bytes) : Bytes := trimBlanks (C08.nlToSpace v)

/-- webbridge headerValues, per value (the code after fix D40) -/
def bridgeHeaderValue (k v : Bytes) : Bytes := if C08.isBinKey k then C08.trailerValue k v else v

/-- the value bytes of the header / trailer line on the wire: the code under test -/
def respWireValue (k v : Bytes) : Bytes := netHTTPValue (bridgeHeaderValue k v)

/-- the same before the fix: the decoded bytes handed to net/http -/
def respWireValuePreFix (_k v : Bytes) : Bytes := netHTTPValue v

end GB.C07
