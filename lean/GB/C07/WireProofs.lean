import GB.C07.Wire
import GB.C07.Proofs
/-
  C07 — lemmas about the wire parser (`GB/C07/Wire.lean`).
-/
set_option linter.unusedSimpArgs false
set_option linter.unusedVariables false
namespace GB.C07
open GB

/-- the values of the lines whose canonical key is `K`, in wire order -/
def wireValues (K : Bytes) (ps : List (Bytes × Bytes)) : List Bytes :=
  ps.filterMap (fun p => if canonKey p.1 == K then some p.2 else none)

theorem lookup_mimeHeader_acc (ps : List (Bytes × Bytes)) (m : MD) (K : Bytes) :
    MD.lookup (ps.foldl (fun o p => MD.put o (canonKey p.1) (MD.lookup o (canonKey p.1) ++ [p.2])) m) K =
      MD.lookup m K ++ wireValues K ps := by
  induction ps generalizing m with
  | nil => simp [wireValues]
  | cons p ps ih =>
    simp only [List.foldl_cons]
    rw [ih, lookup_put]
    by_cases h : K = canonKey p.1
    · subst h
      simp [wireValues, List.filterMap_cons]
    · have h' : ¬ canonKey p.1 = K := fun hh => h hh.symm
      simp [wireValues, List.filterMap_cons, h, h']

theorem lookup_mimeHeader (ps : List (Bytes × Bytes)) (K : Bytes) :
    MD.lookup (mimeHeader ps) K = wireValues K ps := by
  unfold mimeHeader
  rw [lookup_mimeHeader_acc]
  simp [MD.lookup]

theorem parseGroups_keyOK (gs : List (List Bytes)) (ps : List (Bytes × Bytes)) (h : parseGroups gs = some ps) :
    ∀ p ∈ ps, keyOK p.1 = true := by
  induction gs generalizing ps with
  | nil => simp [parseGroups] at h
  | cons g gs ih =>
    cases g with
    | nil => simp [parseGroups] at h
    | cons first conts =>
      simp only [parseGroups] at h
      split at h
      · simp only [Option.some.injEq] at h; subst h; simp
      · split at h
        · rename_i p ps' hp hps
          simp only [Option.some.injEq] at h
          subst h
          intro q hq
          rcases List.mem_cons.mp hq with hq | hq
          · subst hq
            simp only [parseLogical] at hp
            split at hp
            · simp at hp
            · split at hp
              · simp at hp
              · rename_i hk
                split at hp
                · simp at hp
                · simp only [Option.some.injEq] at hp
                  subst hp
                  simpa using hk
          · exact ih ps' hps q hq
        · simp at h

theorem readPairs_keyOK (ls : List Bytes) (ps : List (Bytes × Bytes)) (h : readPairs ls = some ps) :
    ∀ p ∈ ps, keyOK p.1 = true := by
  unfold readPairs at h
  cases ls with
  | nil => simp at h
  | cons l rest =>
    simp only at h
    split at h
    · simp at h
    · exact parseGroups_keyOK _ _ h

set_option maxRecDepth 100000 in
theorem tokOrSP_ascii_all : ∀ n, n < 256 → (validTok (UInt8.ofNat n) || UInt8.ofNat n == 32) = true → n < 128 := by
  decide

theorem keyOK_ascii (k : Bytes) (h : keyOK k = true) : k ≠ [] ∧ ∀ c ∈ k, c.toNat < 128 := by
  unfold keyOK at h
  simp only [Bool.and_eq_true, Bool.not_eq_true', List.all_eq_true] at h
  refine ⟨?_, ?_⟩
  · intro hh; subst hh; simp at h
  · intro c hc
    have := tokOrSP_ascii_all c.toNat c.toNat_lt (by simpa using h.2 c hc)
    exact this

set_option maxRecDepth 100000 in
theorem canon_byte_ascii_all : ∀ n, n < 128 → (upperB (UInt8.ofNat n)).toNat < 128 ∧ (lowerB (UInt8.ofNat n)).toNat < 128 := by
  decide

theorem canonLoop_ascii (up : Bool) (k : Bytes) (h : ∀ c ∈ k, c.toNat < 128) : ∀ c ∈ canonLoop up k, c.toNat < 128 := by
  induction k generalizing up with
  | nil => simp [canonLoop]
  | cons c r ih =>
    intro d hd
    simp only [canonLoop, List.mem_cons] at hd
    have hc := canon_byte_ascii_all c.toNat (h c (by simp))
    simp only [UInt8.ofNat_toNat] at hc
    rcases hd with hd | hd
    · subst hd
      cases up <;> simp [hc.1, hc.2]
    · exact ih _ (fun x hx => h x (List.mem_cons_of_mem _ hx)) d hd

theorem canonKey_ascii (k : Bytes) (h : ∀ c ∈ k, c.toNat < 128) : ∀ c ∈ canonKey k, c.toNat < 128 := by
  unfold canonKey
  split
  · exact canonLoop_ascii true k h
  · exact h

end GB.C07
