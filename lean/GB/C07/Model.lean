import GB.Base.Bytes
import GB.C12.Model
/-
  C07 — executable model of the metadata path of grpcbridge.

  * `MD`            google.golang.org/grpc/metadata.MD (`map[string][]string`) with
                    `Get/Set/Append/Delete`, `Join`, `FromIncomingContext` (copies, lower-casing keys).
  * `decodeBinHeader` grpcadapter/metadata.go + encoding/base64 `StdEncoding`/`RawStdEncoding`
                    `.DecodeString` (non-strict; `\r`,`\n` skipped; padding rules) — success value only,
                    because the caller drops the value on any error.
  * `filterRequest`, `filterResponse`, `filterRequestMD`, `filterResponseMD`, `filterTrailerMD`
                    grpcadapter/metadata.go, statement by statement.
  * `baseContext`   grpcadapter/forwarder.go: timeout value read, key deleted, first value decoded.
  * conversions     webbridge `headersToMD`, `metadata.Join(queryMD, headersToMD(h))`,
                    gRPC-WebSocket `metadata.MD(mimeHeader)`, grpc-go incoming MD; every entry point
                    then goes through `metadata.FromIncomingContext` inside `ProxyForwarder.Forward`.
  * placements      webbridge `appendHeaders`, `httpStream.SetTrailer`, gRPC-Web trailer frame
                    (`trailerWithStatus`), gRPC-WebSocket header/trailer frames, nothing on WebSocket.

  A Go map is an association list whose keys are pairwise distinct; the list order is the
  (unobservable) insertion order — the line protocol sorts by key on both sides.  `strings.ToLower`
  is modelled on ASCII only: the correspondence is run on ASCII keys (HTTP tokens, gRPC metadata
  keys, validated query keys); values are arbitrary bytes.
-/
namespace GB.C07
open GB

abbrev MD := List (Bytes × List Bytes)

def lowerB (b : UInt8) : UInt8 := if 65 ≤ b ∧ b ≤ 90 then b + 32 else b
def lower (s : Bytes) : Bytes := s.map lowerB

/-- `internal/ascii.EqualFold` -/
def equalFold (s t : Bytes) : Bool := s.length == t.length && lower s == lower t

namespace MD

/-- Go `md[k]` (nil when absent) -/
def lookup : MD → Bytes → List Bytes
  | [], _ => []
  | (k', v) :: rest, k => if k' == k then v else lookup rest k

/-- Go `md[k] = v` -/
def put : MD → Bytes → List Bytes → MD
  | [], k, v => [(k, v)]
  | (k', v') :: rest, k, v => if k' == k then (k, v) :: rest else (k', v') :: put rest k v

/-- `md.Get(k)` -/
def get (md : MD) (k : Bytes) : List Bytes := lookup md (lower k)

/-- `md.Set(k, vals...)` -/
def set (md : MD) (k : Bytes) (vals : List Bytes) : MD :=
  if vals.isEmpty then md else put md (lower k) vals

/-- `md.Append(k, vals...)` -/
def append (md : MD) (k : Bytes) (vals : List Bytes) : MD :=
  if vals.isEmpty then md else put md (lower k) (lookup md (lower k) ++ vals)

/-- `md.Delete(k)` -/
def delete (md : MD) (k : Bytes) : MD := md.filter (fun e => !(e.1 == lower k))

def keys (md : MD) : List Bytes := md.map (·.1)

end MD

/-- `metadata.Join(a, b)`: `out[k] = append(out[k], v...)` — keys are NOT lower-cased. -/
def joinInto (out : MD) (md : MD) : MD :=
  md.foldl (fun o e => MD.put o e.1 (MD.lookup o e.1 ++ e.2)) out
def join (a b : MD) : MD := joinInto (joinInto [] a) b

/-- `metadata.FromIncomingContext`: `out[strings.ToLower(k)] = copyOf(v)` for every entry. -/
def fromIncoming (md : MD) : MD := md.foldl (fun o e => MD.put o (lower e.1) e.2) []

/-! ### encoding/base64 DecodeString (non-strict) -/

def b64val (c : UInt8) : Option Nat :=
  if 65 ≤ c ∧ c ≤ 90 then some (c.toNat - 65)
  else if 97 ≤ c ∧ c ≤ 122 then some (c.toNat - 97 + 26)
  else if 48 ≤ c ∧ c ≤ 57 then some (c.toNat - 48 + 52)
  else if c = 43 then some 62
  else if c = 47 then some 63
  else none

def isNL (c : UInt8) : Bool := c == 10 || c == 13

def skipNL : Bytes → Bytes
  | [] => []
  | c :: r => if isNL c then skipNL r else c :: r

/-- the bytes a (possibly short) quantum of `acc.length` sextets yields (`dlen-1` bytes) -/
def emitQ (acc : List Nat) : Bytes :=
  let s (i : Nat) : Nat := acc.getD i 0
  let val := s 0 * 262144 + s 1 * 4096 + s 2 * 64 + s 3
  let b0 := UInt8.ofNat (val / 65536 % 256)
  let b1 := UInt8.ofNat (val / 256 % 256)
  let b2 := UInt8.ofNat (val % 256)
  match acc.length with
  | 0 | 1 => []
  | 2 => [b0]
  | 3 => [b0, b1]
  | _ => [b0, b1, b2]

/-- `Encoding.Decode` as the sequence of `decodeQuantum` calls (the 8/4-byte fast paths are the
    same function on well-formed input); `pad = true` is StdEncoding, `false` RawStdEncoding.
    `acc` = sextets collected in the current quantum. `none` = any CorruptInputError. -/
def b64dec (pad : Bool) : Bytes → List Nat → Option Bytes
  | [], acc =>
    match acc.length with
    | 0 => some []
    | 1 => none
    | _ => if pad then none else some (emitQ acc)
  | c :: rest, acc =>
    match b64val c with
    | some v =>
      if acc.length == 3 then (b64dec pad rest []).map (emitQ (acc ++ [v]) ++ ·)
      else b64dec pad rest (acc ++ [v])
    | none =>
      if isNL c then b64dec pad rest acc
      else if !pad || c != 61 then none
      else match acc.length with
        | 0 | 1 => none
        | 2 =>
          match skipNL rest with
          | [] => none
          | d :: r' => if d != 61 then none else if (skipNL r').isEmpty then some (emitQ acc) else none
        | _ => if (skipNL rest).isEmpty then some (emitQ acc) else none

/-- `decodeBinHeader` -/
def decodeBinHeader (v : Bytes) : Option Bytes :=
  if v.length % 4 == 0 then b64dec true v [] else b64dec false v []

/-! ### encoding/base64 StdEncoding.EncodeToString (padded) -/

def b64char (n : Nat) : UInt8 :=
  if n < 26 then UInt8.ofNat (65 + n)
  else if n < 52 then UInt8.ofNat (97 + (n - 26))
  else if n < 62 then UInt8.ofNat (48 + (n - 52))
  else if n = 62 then 43 else 47

def encodeStd : Bytes → Bytes
  | [] => []
  | [a] => [b64char (a.toNat / 4), b64char (a.toNat % 4 * 16), 61, 61]
  | [a, b] => [b64char (a.toNat / 4), b64char (a.toNat % 4 * 16 + b.toNat / 16), b64char (b.toNat % 16 * 4), 61]
  | a :: b :: d :: rest =>
    b64char (a.toNat / 4) :: b64char (a.toNat % 4 * 16 + b.toNat / 16) ::
      b64char (b.toNat % 16 * 4 + d.toNat / 64) :: b64char (d.toNat % 64) :: encodeStd rest

/-! ### ProxyMDFilter -/

structure Opts where
  allowReq : List Bytes := []
  prefixReq : Bytes := []
  allowResp : List Bytes := []
  prefixResp : Bytes := []
  allowTrl : List Bytes := []
  prefixTrl : Bytes := []
deriving Repr, DecidableEq

def gwPrefix : Bytes := [103,114,112,99,45,109,101,116,97,100,97,116,97,45]   -- "grpc-metadata-"
def timeoutKey : Bytes := [103,114,112,99,45,116,105,109,101,111,117,116]     -- "grpc-timeout"
def binSuffix : Bytes := [45,98,105,110]                                      -- "-bin"

def hasGwPrefix (k : Bytes) : Bool := k.length > gwPrefix.length && equalFold (k.take gwPrefix.length) gwPrefix
def hasBinSuffix (k : Bytes) : Bool := k.length > binSuffix.length && equalFold (k.drop (k.length - binSuffix.length)) binSuffix

/-- the key an allow-listed name is forwarded under, before `Set` lower-cases it -/
def renameRaw (pfx k : Bytes) : Bytes := if hasGwPrefix k then k.drop gwPrefix.length else pfx ++ k

def decodeVals (k' : Bytes) (v : List Bytes) : List Bytes :=
  if hasBinSuffix k' then v.filterMap decodeBinHeader else v

/-- one iteration of the loop of `filterRequest` -/
def reqStep (md : MD) (pfx : Bytes) (out : MD) (k : Bytes) : MD :=
  let v := md.get k
  if v.length < 1 then out
  else MD.set out (renameRaw pfx k) (decodeVals (renameRaw pfx k) v)

def filterRequest (md : MD) (allow : List Bytes) (pfx : Bytes) : MD :=
  allow.foldl (reqStep md pfx) []

def respStep (md : MD) (pfx : Bytes) (out : MD) (k : Bytes) : MD :=
  let v := md.get k
  if v.length > 0 then MD.set out (pfx ++ k) v else out

def filterResponse (md : MD) (allow : List Bytes) (pfx : Bytes) : MD :=
  allow.foldl (respStep md pfx) []

def filterRequestMD (o : Opts) (md : MD) : MD :=
  let out := filterRequest md o.allowReq o.prefixReq
  let v := md.get timeoutKey
  if v.length > 0 then MD.set out timeoutKey v else out

def filterResponseMD (o : Opts) (md : MD) : MD := filterResponse md o.allowResp o.prefixResp
def filterTrailerMD (o : Opts) (md : MD) : MD := filterResponse md o.allowTrl o.prefixTrl

/-- `ProxyForwarder.baseContext`: (metadata of the outgoing context, timeout of the call). -/
def baseContext (md : MD) : MD × Option Int :=
  match md.get timeoutKey with
  | [] => (md, none)
  | v0 :: _ => (md.delete timeoutKey, GB.C12.decodeTimeout v0)

/-- What `ProxyForwarder.Forward` attaches to the outgoing stream for an incoming-context MD. -/
def forwardRequest (o : Opts) (ctxMD : MD) : MD × Option Int :=
  baseContext (filterRequestMD o (fromIncoming ctxMD))

def outgoing (o : Opts) (ctxMD : MD) : MD := (forwardRequest o ctxMD).1
def deadline (o : Opts) (ctxMD : MD) : Option Int := (forwardRequest o ctxMD).2

/-! ### entry points: request conversion -/

/-- webbridge `headersToMD`: `md.Set(k, v...)` for every header-map entry. -/
def headersToMD (h : MD) : MD := h.foldl (fun o e => MD.set o e.1 e.2) []

/-- token bytes of net/textproto `validHeaderFieldByte` -/
def validTok (c : UInt8) : Bool :=
  (48 ≤ c && c ≤ 57) || (97 ≤ c && c ≤ 122) || (65 ≤ c && c ≤ 90) ||
  c == 33 || c == 35 || c == 36 || c == 37 || c == 38 || c == 39 || c == 42 || c == 43 ||
  c == 45 || c == 46 || c == 94 || c == 95 || c == 96 || c == 124 || c == 126

def upperB (b : UInt8) : UInt8 := if 97 ≤ b ∧ b ≤ 122 then b - 32 else b

def canonLoop : Bool → Bytes → Bytes
  | _, [] => []
  | up, c :: r =>
    let c' := if up then upperB c else lowerB c
    c' :: canonLoop (c' == 45) r

/-- `http.CanonicalHeaderKey` / `textproto.CanonicalMIMEHeaderKey` -/
def canonKey (k : Bytes) : Bytes := if k.all validTok then canonLoop true k else k

/-- query metadata of `parseMetadataQuery` is built with `md.Append(key, v)` per pair -/
def pairsToMD (ps : List (Bytes × Bytes)) : MD := ps.foldl (fun o p => MD.append o p.1 [p.2]) []

/-- `textproto.Reader.ReadMIMEHeader` on well-formed `key: value` lines: canonical keys, values in order. -/
def mimeHeader (ps : List (Bytes × Bytes)) : MD :=
  ps.foldl (fun o p => MD.put o (canonKey p.1) (MD.lookup o (canonKey p.1) ++ [p.2])) []

inductive Entry | http | ws | grpcweb | grpcws | proxy
deriving Repr, DecidableEq

/-- What each entry point offers the forwarder.
    `hdr` = `r.Header` as the handler sees it (HTTP, WebSocket, gRPC-Web), the `key: value` lines of the
    first frame (gRPC-WebSocket) or grpc-go's incoming MD (proxy); `qmd` = the valid `_metadata[k]=v`
    pairs of the query (WebSocket only). -/
structure Request where
  hdr : MD := []
  qmd : List (Bytes × Bytes) := []
  lines : List (Bytes × Bytes) := []
  /-- model parameter, proxy entry only: `GRPCProxy.StreamHandler` as it is now (`true`: `wireFormMetadata`
      re-encodes the `-bin` values grpc-go has already decoded, fix D13) or as it was (`false`) -/
  normalise : Bool := true

/-- the keys whose values grpc-go delivers decoded: `len(k) >= 4 && EqualFold(k[len(k)-4:], "-bin")` -/
def grpcBin (k : Bytes) : Bool := k.length ≥ binSuffix.length && equalFold (k.drop (k.length - binSuffix.length)) binSuffix

/-- proxy.go `wireFormMetadata`: a copy of the incoming MD with every value of every `-bin` key
    `base64.StdEncoding`-encoded — the form the metadata has on the wire and on the HTTP-based entry points -/
def wireFormMetadata (md : MD) : MD :=
  md.map (fun e => if grpcBin e.1 then (e.1, e.2.map encodeStd) else e)

/-- the MD put into the incoming context by the entry point -/
def toCtxMD : Entry → Request → MD
  | .http, r => headersToMD r.hdr
  | .grpcweb, r => headersToMD r.hdr
  | .ws, r => join (pairsToMD r.qmd) (headersToMD r.hdr)
  | .grpcws, r => mimeHeader r.lines            -- `metadata.MD(mimeHeader)`: a cast
  | .proxy, r => if r.normalise then wireFormMetadata r.hdr else r.hdr   -- grpc-go's own incoming MD (binary values decoded)

def targetMD (e : Entry) (o : Opts) (r : Request) : MD := outgoing o (toCtxMD e r)
def targetDeadline (e : Entry) (o : Opts) (r : Request) : Option Int := deadline o (toCtxMD e r)

/-! ### entry points: response placement -/

/-- webbridge `appendHeaders`: `w.Header()[Canonical(k)] = append(w.Header()[Canonical(k)], v...)`. -/
def appendHeaders (w : MD) (md : MD) : MD :=
  md.foldl (fun o e => MD.put o (canonKey e.1) (MD.lookup o (canonKey e.1) ++ e.2)) w

def trailerPrefix : Bytes := [84,114,97,105,108,101,114,58]  -- "Trailer:"

/-- `httpStream.SetTrailer` once the body has started: `Trailer:`-prefixed keys ⇒ HTTP trailers.
    The client sees them as trailers named `Canonical(k)` (net/http strips the prefix). -/
def appendTrailers (w : MD) (md : MD) : MD := appendHeaders w md

/-- `trailerWithStatus` adds grpc-status / grpc-message (`Set`, overriding) -/
def grpcStatusKey : Bytes := [103,114,112,99,45,115,116,97,116,117,115]
def grpcMessageKey : Bytes := [103,114,112,99,45,109,101,115,115,97,103,101]

/-- How the target's stream ends.  `hdrSent = false` is a gRPC Trailers-Only response (the stream's
    `Header()` is empty, everything the target attached comes through `Trailer()`); `msgs` messages are
    received before the end; `ok` = the stream ends with `io.EOF`, otherwise with an error status. -/
structure Script where
  hdrSent : Bool := true
  msgs : Nat := 1
  ok : Bool := true
deriving Repr, DecidableEq

/-- what `outgoing.Header()` reports -/
def Script.header (s : Script) (hdr : MD) : MD := if s.hdrSent then hdr else []

/-- Response half of `ProxyForwarder.Forward` (`forwardOutgoingToIncoming` / `forwardUnaryResponse`):
    (argument of `Incoming.SetHeader`, argument of `Incoming.SetTrailer` when it is called, number of
    messages passed to `Incoming.Send`).  Headers come from `Header()` only, trailers from `Trailer()`
    only, whatever the outcome of the call. -/
def forwardResponse (o : Opts) (streaming : Bool) (s : Script) (hdr trl : MD) : MD × Option MD × Nat :=
  let h := filterResponseMD o (s.header hdr)
  let t := filterTrailerMD o trl
  if streaming then (h, some t, s.msgs)            -- header at the first Recv, trailer at the failing/last Recv
  else if s.msgs ≥ 2 then (h, none, 1)             -- misbehaving unary target: second message ⇒ no trailers
  else (h, some t, if s.msgs == 1 && s.ok then 1 else 0)

def optMD : Option MD → MD
  | none => []
  | some m => m

/-- What the client can observe that originates in target metadata: (headers, trailers).
    HTTP: `SetTrailer` before the first body byte (unary path, or no message delivered) ⇒ trailer MD is
    sent as headers; afterwards ⇒ `Trailer:`-prefixed HTTP trailers.  gRPC-WebSocket: the header frame is
    only written in front of the first message. -/
def clientVisible (e : Entry) (o : Opts) (streaming : Bool) (s : Script) (hdr trl : MD) : MD × MD :=
  match forwardResponse o streaming s hdr trl with
  | (fh, ft?, n) =>
    let ft := optMD ft?
    match e with
    | .http =>
      if streaming && n > 0 then (appendHeaders [] fh, appendTrailers [] ft)
      else (appendHeaders (appendHeaders [] fh) ft, [])
    | .ws => ([], [])
    | .grpcweb => (appendHeaders [] fh, ft)       -- trailers: gRPC-Web trailer frame, keys as in the MD
    | .grpcws => (if n > 0 then fh else [], ft)   -- header frame (with the first message) + trailer frame
    | .proxy => (fh, ft)                           -- grpc SetHeader / SetTrailer

end GB.C07
