import GB.C07.Model
/-
  C07 / C19 — the wire parser in front of the header map: Go 1.23 `net/textproto` `Reader.ReadMIMEHeader`
  (`readMIMEHeader`, `readContinuedLineSlice`, `readLineSlice`/`bufio.ReadLine`, `trim`, `canonicalMIMEHeaderKey`,
  `validHeaderFieldByte`, `validHeaderValueByte`) as a total function on ARBITRARY bytes.  Used twice by the code:

    * webbridge/grpcweb.go `readMD`: `ReadMIMEHeader` over `data ++ "\r\n"` of the first gRPC-WebSocket frame,
      result cast to `metadata.MD` (`readMD` below);
    * net/http's server: `ReadMIMEHeader` over the header block of the request, then `ValidHeaderFieldName` on every
      key (400 otherwise), `Host` removed (`serverHeader` below) — what `WebBridge.ServeHTTP` gets as `r.Header`.

  Not modelled: the size limits (`errMessageTooLarge`; `readMD` passes `math.MaxInt64`, the server 1 MiB ⇒ 431),
  net/http's special treatment of `Content-Length` / `Transfer-Encoding` / `Trailer` / `Expect` / `Pragma` / a second `Host`.
-/
namespace GB.C07
open GB

def isSPHT (c : UInt8) : Bool := c == 32 || c == 9

def trimL : Bytes → Bytes
  | [] => []
  | c :: r => if isSPHT c then trimL r else c :: r

/-- textproto `trim`: leading and trailing SP / HTAB removed -/
def trimB (s : Bytes) : Bytes := (trimL (trimL s).reverse).reverse

/-- split at LF -/
def splitLF : Bytes → List Bytes
  | [] => [[]]
  | c :: r =>
    if c == 10 then [] :: splitLF r
    else match splitLF r with
      | [] => [[c]]
      | e :: es => (c :: e) :: es

/-- `bufio.Reader.ReadLine`: the LF is dropped together with ONE CR directly in front of it -/
def stripCR (l : Bytes) : Bytes := if l.getLast? == some 13 then l.dropLast else l

/-- the lines a `textproto.Reader` reads from `data`, in order; an unterminated non-empty rest is a last line
    (returned as it is, a trailing CR included); after the last line the reader reports `io.EOF` -/
def wireLines (data : Bytes) : List Bytes :=
  (splitLF data).dropLast.map stripCR ++
    (match (splitLF data).getLast? with
     | some [] => []
     | some l => [l]
     | none => [])

/-- a continuation line starts with SP or HTAB (`skipSpace() > 0`) -/
def isCont (l : Bytes) : Bool := match l with | c :: _ => isSPHT c | [] => false

/-- physical lines grouped into logical lines: every line + the continuation lines that follow it -/
def groupLines : List Bytes → List (List Bytes)
  | [] => []
  | l :: rest =>
    match rest, groupLines rest with
    | r :: _, g :: gs => if isCont r then (l :: g) :: gs else [l] :: g :: gs
    | _, gs => [l] :: gs

/-- `strings.Cut(s, ":")` -/
def cutColon : Bytes → Bytes × Bytes
  | [] => ([], [])
  | c :: r => if c == 58 then ([], r) else ((c :: (cutColon r).1), (cutColon r).2)

/-- textproto `validHeaderValueByte`: HTAB, SP, VCHAR (0x21–0x7E) and obs-text (≥ 0x80) -/
def validValueByte (c : UInt8) : Bool := c == 9 || (32 ≤ c && c != 127)

/-- `canonicalMIMEHeaderKey` reports ok: non-empty, every byte a token byte or SP (go.dev/issue/34540) -/
def keyOK (k : Bytes) : Bool := !k.isEmpty && k.all (fun c => validTok c || c == 32)

/-- one logical line ⇒ `(key as written, value)`; `none` = `ProtocolError`.
    `mustHaveFieldNameColon` on the first physical line; the line and its continuations are `trim`med and joined by
    one SP; key = what precedes the first ':' (NOT trimmed: `Key : v` has the key `Key `); every byte of the rest must
    be a valid value byte; the value is the rest without leading SP/HTAB. -/
def parseLogical : List Bytes → Option (Bytes × Bytes)
  | [] => none
  | first :: conts =>
    if !first.contains 58 then none
    else
      let kv := trimB first ++ conts.flatMap (fun c => 32 :: trimB c)
      if !keyOK (cutColon kv).1 then none
      else if !(cutColon kv).2.all validValueByte then none
      else some ((cutColon kv).1, trimL (cutColon kv).2)

/-- the loop of `readMIMEHeader` over the logical lines: stops at the first blank line (whatever follows is not
    read), fails on the first malformed line before it, fails with `io.EOF` when the input ends before a blank line -/
def parseGroups : List (List Bytes) → Option (List (Bytes × Bytes))
  | [] => none
  | g :: gs =>
    match g with
    | [] => none
    | first :: _ =>
      if first.isEmpty then some []
      else match parseLogical g, parseGroups gs with
        | some p, some ps => some (p :: ps)
        | _, _ => none

/-- `(key as written, value)` of every header line, or `none` when `ReadMIMEHeader` returns an error.
    "The first line cannot start with a leading space." -/
def readPairs (ls : List Bytes) : Option (List (Bytes × Bytes)) :=
  match ls with
  | [] => none
  | l :: _ => if isCont l then none else parseGroups (groupLines ls)

/-- `textproto.Reader.ReadMIMEHeader` (keys canonicalised unless they contain a SP, values appended in order) -/
def readMIMEHeader (ls : List Bytes) : Option MD := (readPairs ls).map mimeHeader

/-- webbridge/grpcweb.go `readMD`: the metadata of the first gRPC-WebSocket frame, `none` = the call fails with
    InvalidArgument "expected metadata as valid HTTP/1.1 header" -/
def readMDPairs (data : Bytes) : Option (List (Bytes × Bytes)) := readPairs (wireLines (data ++ [13, 10]))
def readMD (data : Bytes) : Option MD := (readMDPairs data).map mimeHeader

def hostKey : Bytes := [72, 111, 115, 116]

/- net/http server, header block of a request (everything after the request line, blank line included):
    `none` = 400 Bad Request.  `httpguts.ValidHeaderFieldName` rejects the keys with a SP that textproto lets through;
    `Host` is moved to `r.Host`. -/
/-- x/net/http/httpguts `validHostByte` -/
def validHostByte (c : UInt8) : Bool :=
  (48 ≤ c && c ≤ 57) || (97 ≤ c && c ≤ 122) || (65 ≤ c && c ≤ 90) ||
  [33,36,37,38,39,40,41,42,43,44,45,46,58,59,61,91,93,95,126].contains c

/-- HTTP/1.1: exactly one `Host` line, its value made of host bytes ("missing required / too many / malformed Host header") -/
def hostOK (ps : List (Bytes × Bytes)) : Bool :=
  match (ps.filter (fun p => canonKey p.1 == hostKey)).map (·.2) with
  | [h] => h.all validHostByte
  | _ => false

def serverPairs (block : Bytes) : Option (List (Bytes × Bytes)) :=
  match readPairs (wireLines block) with
  | none => none
  | some ps => if ps.all (fun p => p.1.all validTok) && hostOK ps then some ps else none

def serverHeader (block : Bytes) : Option MD :=
  (serverPairs block).map (fun ps => (mimeHeader ps).filter (fun e => !(e.1 == hostKey)))

end GB.C07
