import GB.C07.Spec
/-
  C07 — construction glue of the root package (bridge.go `NewWebBridge`, proxy.go `NewGRPCProxy`,
  forwarder.go `NewForwarder`): which forwarder each component ends up with, as a function of the
  SEQUENCE of constructor calls made in one process.

  Real code, per constructor call: `options := default…()` (forwarder = nil), every option applied in
  order (`WithForwarder(f)` stores `f`, the last one wins; `WithLogger`, `WithMarshalers`, … do not touch
  the forwarder), then `if options.common.forwarder == nil { options.common.forwarder = NewForwarder() }`
  — a FRESH forwarder with default (deny-all) filter options, created inside that call.  There is no
  package-level state (regenerated fact `c07MutablePackageVars = []`), so `build` is a plain map.

  `buildShared` is the seeded variant C07-m5 (`options.resolveForwarder()` with a process-wide
  `sync.Once`): kept to state, kernel-checked, what goes wrong there.
-/
namespace GB.C07
open GB

inductive Kind | proxy | bridge
deriving Repr, DecidableEq

inductive Opt
  | withForwarder (f : Nat)     -- `WithForwarder(f)`, `f` names a forwarder the application built
  | withLogger | withMarshalers | withDefaultMarshaler   -- options that do not concern the forwarder
deriving Repr, DecidableEq

structure Ctor where
  kind : Kind
  opts : List Opt := []
deriving Repr, DecidableEq

/-- the forwarder a component holds: one it was given, or the fresh default created by the `idx`-th call -/
inductive Fwd
  | given (f : Nat)
  | fresh (idx : Nat)
deriving Repr, DecidableEq

/-- `for _, opt := range opts { opt.apply(&options) }` as far as `options.common.forwarder` goes -/
def applyOpts (opts : List Opt) : Option Nat :=
  opts.foldl (fun acc o => match o with | .withForwarder f => some f | _ => acc) none

/-- one constructor call of the real code: explicit forwarder, else `NewForwarder()` right here -/
def construct (idx : Nat) (c : Ctor) : Fwd :=
  match applyOpts c.opts with
  | some f => .given f
  | none => .fresh idx

def buildFrom (idx : Nat) : List Ctor → List Fwd
  | [] => []
  | c :: rest => construct idx c :: buildFrom (idx + 1) rest

/-- the components of a process, in construction order -/
def build (seq : List Ctor) : List Fwd := buildFrom 0 seq

/-- seeded variant C07-m5: the first call's forwarder — explicit or fresh — becomes the shared default -/
def buildSharedFrom (idx : Nat) (shared : Option Fwd) : List Ctor → List Fwd
  | [] => []
  | c :: rest =>
    let own : Option Fwd := (applyOpts c.opts).map .given
    let shared' : Fwd := match shared with
      | some s => s
      | none => match own with | some g => g | none => .fresh idx     -- the sync.Once body
    (match own with | some g => g | none => shared') :: buildSharedFrom (idx + 1) (some shared') rest

def buildShared (seq : List Ctor) : List Fwd := buildSharedFrom 0 none seq

/-- filter options of a forwarder: what the application configured for a given one, deny-all for a fresh default -/
def optsOf (cfg : Nat → Opts) : Fwd → Opts
  | .given f => cfg f
  | .fresh _ => {}

/-- SPEC: a component uses exactly the forwarder it was given, else a fresh deny-all default of its own -/
def specFwd (idx : Nat) (c : Ctor) : Fwd := (applyOpts c.opts).map Fwd.given |>.getD (.fresh idx)

end GB.C07
