import GB.C19.TransTie
import GB.C12.TransTie
import GB.C07.Model
/-
  C07 — SOURCE-TO-LEAN TRANSLATOR TIE for the two pure functions of the repository the C07 model calls:
  `internal/ascii.EqualFold` (used by `ProxyMDFilter.filterRequest` for the `Grpc-Metadata-` prefix and the `-bin`
  suffix tests; C07 has its own copy `GB.C07.equalFold` of the model) and `grpcadapter.decodeTimeout`
  (`baseContext`, through `GB.C12.decodeTimeout`).  Both are regenerated from the Go sources on every run
  (docs/notes/TRANS.md); the proofs reuse the C19 / C12 ties.
-/
open GB GB.Trans

theorem GB.C07.TransTie.equalFold_eq (s t : Bytes) : GB.C07.equalFold s t = GB.C19.equalFold s t := rfl

/-- internal/ascii `EqualFold` = the C07 model's `equalFold` -/
theorem C07_trans_EqualFold : ∀ s t : GB.Bytes, GB.Generated.Trans.EqualFold s t = GB.C07.equalFold s t := by
  intro s t; rw [GB.C07.TransTie.equalFold_eq]; exact C19_trans_EqualFold s t

/-- grpcadapter `decodeTimeout` = the model function `baseContext` of C07 applies to the first grpc-timeout value -/
theorem C07_trans_decodeTimeout : ∀ s : GB.Bytes,
    GB.Generated.Trans.decodeTimeout s = GB.C12.TransTie.ofOption (GB.C12.decodeTimeout s) :=
  C12_trans_decodeTimeout

/-- Wave 4: the timeout component of the C07 model's `baseContext` IS the skeleton of `ProxyForwarder.baseContext` over
    the regenerated presence test (`if v := md.Get("grpc-timeout"); len(v) > 0`) and first-value decode
    (`if d, ok := decodeTimeout(v[0]); ok`), with `metadata.MD` = the model's `MD.get` -/
theorem C07_trans_baseContext : ∀ md : GB.C07.MD,
    (GB.C07.baseContext md).2 = GB.C12.TransTie.baseContextDeadline (fun k => GB.C07.MD.get md k) := by
  intro md
  rw [C12_trans_baseContext]
  show (GB.C07.baseContext md).2 = GB.C12.callDeadline (GB.C07.MD.get md GB.C07.timeoutKey)
  unfold GB.C07.baseContext GB.C12.callDeadline
  cases GB.C07.MD.get md GB.C07.timeoutKey <;> rfl
