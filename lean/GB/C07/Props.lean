import GB.C07.Proofs
import GB.C07.Glue
import GB.C07.WireProofs
import GB.C07.RespWireProofs
import GB.Generated.Facts
/-
  C07 — property theorems.  The model (GB/C07/Model.lean) is grpcadapter/metadata.go,
  ProxyForwarder.baseContext, the header→metadata conversions and the metadata→response placements
  of the five entry points; the specification (GB/C07/Spec.lean) speaks about what the CLIENT sent
  (`items`) and what the TARGET emitted.  Every theorem quantifies over ALL configurations (allow
  lists, prefixes), ALL header / metadata sets and — where it says `en` — ALL five entry points.
-/
set_option linter.unusedSimpArgs false
set_option linter.unusedVariables false
open GB GB.C07

/-- **Each entry point = filter ∘ conversion.** What reaches the target is the allow-list filter
    applied to the entry point's conversion of the request (through `FromIncomingContext`), with
    `grpc-timeout` removed — nothing bypasses the filter, for every entry point and configuration. -/
theorem C07_all_entries (en : Entry) (o : Opts) (r : Request) :
    targetMD en o r =
      MD.delete (filterRequest (fromIncoming (toCtxMD en r)) o.allowReq o.prefixReq) timeoutKey :=
  outgoing_eq o (toCtxMD en r)

/-- **Request direction, at the filter.** Every entry of `FilterRequestMD`'s result is either the
    carried `grpc-timeout` (consumed by `baseContext`, see `C07_timeout_never_forwarded`) or comes from
    an allow-listed name: renamed, values decoded when binary, never empty. -/
theorem C07_filter_request_only_allowed (o : Opts) (md : MD) (e : Bytes × List Bytes)
    (h : e ∈ filterRequestMD o md) :
    (e.1 = timeoutKey ∧ e.2 = md.get timeoutKey) ∨
    ∃ a ∈ o.allowReq, e.1 = rename o.prefixReq a ∧
      e.2 = decodeVals (renameRaw o.prefixReq a) (md.get a) ∧ e.2 ≠ [] := by
  unfold filterRequestMD at h
  simp only at h
  split at h
  · unfold MD.set at h
    split at h
    · exact Or.inr (filterRequest_entries md _ _ e h)
    · rcases mem_put _ _ _ _ h with h1 | h1
      · left; rw [h1, timeoutKey_lower]; exact ⟨rfl, rfl⟩
      · exact Or.inr (filterRequest_entries md _ _ e h1)
  · exact Or.inr (filterRequest_entries md _ _ e h)

/-- **Response headers, at the filter**: only allow-listed names, under `prefix ++ name`, values untouched. -/
theorem C07_filter_response_only_allowed (o : Opts) (md : MD) (e : Bytes × List Bytes)
    (h : e ∈ filterResponseMD o md) :
    ∃ a ∈ o.allowResp, e.1 = lower (o.prefixResp ++ a) ∧ e.2 = md.get a ∧ e.2 ≠ [] :=
  filterResponse_entries md _ _ e h

/-- **Trailers, at the filter**: the trailer allow-list and prefix, not the header ones. -/
theorem C07_filter_trailer_only_allowed (o : Opts) (md : MD) (e : Bytes × List Bytes)
    (h : e ∈ filterTrailerMD o md) :
    ∃ a ∈ o.allowTrl, e.1 = lower (o.prefixTrl ++ a) ∧ e.2 = md.get a ∧ e.2 ≠ [] :=
  filterResponse_entries md _ _ e h

/-- **`grpc-timeout` is never forwarded as metadata** — for every configuration, including allow-lists
    that name it (`grpc-timeout`), rename onto it (`Grpc-Metadata-Grpc-Timeout`, prefix `grpc-` +
    `timeout`), and for every entry point. -/
theorem C07_timeout_never_forwarded (en : Entry) (o : Opts) (r : Request) :
    timeoutKey ∉ (targetMD en o r).keys := by
  rw [C07_all_entries]
  intro h
  unfold MD.keys at h
  obtain ⟨e, he, hk⟩ := List.mem_map.1 h
  have := (mem_delete _ _ e he).2
  rw [timeoutKey_lower] at this
  exact this hk

/-- **The client's `grpc-timeout` is what is consumed as the deadline**: whenever the request carries
    one, the call's timeout is its (first) value decoded per the gRPC spec (C12), whatever the
    allow-list renames onto the key. -/
theorem C07_timeout_consumed (en : Entry) (o : Opts) (r : Request) (v0 : Bytes) (vs : List Bytes)
    (h : (fromIncoming (toCtxMD en r)).get timeoutKey = v0 :: vs) :
    targetDeadline en o r = GB.C12.decodeTimeout v0 := by
  unfold targetDeadline deadline forwardRequest filterRequestMD
  simp only [h, List.length_cons, Nat.zero_lt_succ, ↓reduceIte, gt_iff_lt]
  unfold baseContext MD.set
  simp only [List.isEmpty_cons, Bool.false_eq_true, ↓reduceIte]
  have hg : MD.get (MD.put (filterRequest (fromIncoming (toCtxMD en r)) o.allowReq o.prefixReq) (lower timeoutKey) (v0 :: vs))
      timeoutKey = v0 :: vs := by
    unfold MD.get; rw [lookup_put]; simp
  rw [hg]

/-- **Request direction, end to end, against what the client sent** (all five entry points, all
    configurations).  An entry `(k', vs)` reaches the target only if `k'` is not `grpc-timeout` and
    some allow-listed `a` is renamed onto `k'`, and every value is one the client sent under a name
    equal to `a` up to ASCII case — base64-decoded when the forwarded key is binary.  `wireItems` is what
    the client sent in wire form: exactly `items` on the four web entry points, and on the proxy entry the
    client's metadata with its binary values re-encoded by `wireFormMetadata` (see `C07_proxy_spec` for the
    statement against the binary values themselves). -/
theorem C07_target_only_allowed (en : Entry) (o : Opts) (r : Request) (e : Bytes × List Bytes)
    (h : e ∈ targetMD en o r) :
    e.1 ≠ timeoutKey ∧ ∃ a ∈ o.allowReq, e.1 = rename o.prefixReq a ∧
      ∀ v ∈ e.2, ∃ p ∈ wireItems en r, lower p.1 = lower a ∧
        (if hasBinSuffix (renameRaw o.prefixReq a) then decodeBinHeader p.2 = some v else p.2 = v) := by
  rw [C07_all_entries] at h
  obtain ⟨hm, hk⟩ := mem_delete _ _ e h
  rw [timeoutKey_lower] at hk
  refine ⟨hk, ?_⟩
  obtain ⟨a, ha, h1, h2, _⟩ := filterRequest_entries _ _ _ e hm
  refine ⟨a, ha, h1, ?_⟩
  intro v hv
  rw [h2] at hv
  unfold decodeVals at hv
  have hsrc := toCtxMD_src en r
  split at hv
  · rename_i hb
    obtain ⟨w, hw, hd⟩ := List.mem_filterMap.1 hv
    obtain ⟨p, hp, hpk, hpv⟩ := esrc_lookup _ _ hsrc _ w hw
    exact ⟨p, hp, hpk, by rw [if_pos hb, hpv]; exact hd⟩
  · rename_i hb
    obtain ⟨p, hp, hpk, hpv⟩ := esrc_lookup _ _ hsrc _ v hv
    exact ⟨p, hp, hpk, by rw [if_neg hb]; exact hpv⟩

/-- The same as the executable criterion the driver applies to the REAL target's metadata
    (`VIOL` iff it is false): on the four web entry points the model always meets it. -/
theorem C07_reqSpec_web (en : Entry) (o : Opts) (r : Request) (hw : en.wire = true) :
    reqSpec true o (items en r) (targetMD en o r) = true := by
  have hitems : wireItems en r = items en r := by cases en <;> first | rfl | (simp [Entry.wire] at hw)
  unfold reqSpec
  rw [List.all_eq_true]
  intro e he
  obtain ⟨hk, a, ha, h1, h2⟩ := C07_target_only_allowed en o r e he
  rw [hitems] at h2
  simp only [Bool.and_eq_true, bne_iff_ne, ne_eq]
  refine ⟨hk, ?_⟩
  unfold entryOK
  rw [List.any_eq_true]
  refine ⟨a, ha, ?_⟩
  simp only [Bool.and_eq_true, beq_iff_eq, List.all_eq_true, List.any_eq_true]
  refine ⟨h1.symm, ?_⟩
  intro v hv
  obtain ⟨p, hp, hpk, hpv⟩ := h2 v hv
  refine ⟨p, hp, hpk, ?_⟩
  unfold admissible
  split at hpv
  · rename_i hb; simp [hb, hpv]
  · rename_i hb; simp [hb, hpv]

/-- **gRPC proxy entry, full statement** (after fix D13: `StreamHandler` hands `Forward` the metadata in wire
    form).  grpc-go delivers the values of `-bin` keys ALREADY binary, so the admissible form of such a value is
    the value ITSELF: everything the target receives is licensed by the allow-list, binary values arrive as
    exactly the bytes the gRPC client sent, text values are treated as on the web entry points.  The proviso
    only excludes configurations that turn a binary name into a text name (the gateway prefix stripped from the
    degenerate `grpc-metadata--bin` / `grpc-metadata-bin`, or the bare name `-bin` without a prefix). -/
theorem C07_proxy_spec (o : Opts) (r : Request) (hn : r.normalise = true)
    (hkeys : ∀ a ∈ o.allowReq, grpcBin a = true → hasBinSuffix (renameRaw o.prefixReq a) = true) :
    reqSpec false o (items .proxy r) (targetMD .proxy o r) = true := by
  unfold reqSpec
  rw [List.all_eq_true]
  intro e he
  obtain ⟨hk, a, ha, h1, h2⟩ := C07_target_only_allowed .proxy o r e he
  have hw : wireItems .proxy r = flatten (wireFormMetadata r.hdr) := by simp [wireItems, hn]
  rw [hw] at h2
  simp only [Bool.and_eq_true, bne_iff_ne, ne_eq]
  refine ⟨hk, ?_⟩
  unfold entryOK
  rw [List.any_eq_true]
  refine ⟨a, ha, ?_⟩
  simp only [Bool.and_eq_true, beq_iff_eq, List.all_eq_true, List.any_eq_true]
  refine ⟨h1.symm, ?_⟩
  intro v hv
  obtain ⟨p, hp, hpk, hpv⟩ := h2 v hv
  obtain ⟨w, hwm, hpw⟩ := mem_flatten_wire r.hdr p hp
  refine ⟨(p.1, w), hwm, hpk, ?_⟩
  unfold admissible
  by_cases hb : grpcBin p.1 = true
  · -- binary for grpc-go: re-encoded by the entry point, decoded once by the filter ⇒ the client's bytes
    have hka : grpcBin a = true := by rw [← grpcBin_congr p.1 a hpk]; exact hb
    rw [hkeys a ha hka] at hpv
    simp only [↓reduceIte] at hpv
    rw [hpw, if_pos hb, decodeBin_encodeStd] at hpv
    simp only [hb, Bool.not_false, Bool.true_and, ↓reduceIte, beq_iff_eq]
    exact (Option.some.inj hpv).symm
  · rw [hpw, if_neg hb] at hpv
    simp only [hb, Bool.and_false, Bool.false_eq_true, ↓reduceIte]
    split at hpv
    · rename_i hb'; simp [hb', hpv]
    · rename_i hb'; simp [hb', hpv]

/-- `decodeBinHeader (base64.StdEncoding.EncodeToString b) = b` for EVERY byte string `b` (model of
    encoding/base64: induction over 3-byte groups, the two padded endings, `len % 4 = 0` ⇒ the StdEncoding branch). -/
theorem C07_base64_roundtrip (b : Bytes) : decodeBinHeader (encodeStd b) = some b := decodeBin_encodeStd b

/-- **Binary metadata round trip on the proxy entry**: for EVERY prefix, every binary key `k` (not
    gateway-prefixed) on the allow-list and EVERY non-empty list of byte strings `vs` — valid base64 text,
    invalid base64, empty, 0x00/0xff, anything — that a gRPC client sends under `k`, the target receives
    exactly `vs` under `prefix ++ k`.  Rests on `decodeBin_encodeStd`: `decodeBinHeader (StdEncoding.encode b)
    = some b` for ALL byte strings `b` (proved over the base64 model by induction, no sampling). -/
theorem C07_proxy_bin_roundtrip (pfx k : Bytes) (vs : List Bytes)
    (hk : hasBinSuffix k = true) (hg : hasGwPrefix k = false) (hv : vs ≠ []) :
    targetMD .proxy { allowReq := [k], prefixReq := pfx } { hdr := [(k, vs)] } = [(lower (pfx ++ k), vs)] := by
  have hgb := grpcBin_of_hasBinSuffix k hk
  have hk' := hasBinSuffix_append pfx k hk
  have hne : (vs.map encodeStd).isEmpty = false := by cases vs with | nil => exact absurd rfl hv | cons _ _ => rfl
  have hne' : vs.isEmpty = false := by cases vs with | nil => exact absurd rfl hv | cons _ _ => rfl
  have hlen : ¬ (vs.map encodeStd).length < 1 := by cases vs with | nil => exact absurd rfl hv | cons _ _ => simp
  have hdec : (vs.map encodeStd).filterMap decodeBinHeader = vs := by
    rw [List.filterMap_map]
    have : (decodeBinHeader ∘ encodeStd) = some := by funext b; exact decodeBin_encodeStd b
    rw [this]; simp
  rw [C07_all_entries]
  simp only [toCtxMD, wireFormMetadata, List.map_cons, List.map_nil, hgb, ↓reduceIte, fromIncoming, List.foldl_cons,
    List.foldl_nil, MD.put, filterRequest, reqStep, MD.get, MD.lookup, beq_self_eq_true, hlen, renameRaw, hg,
    Bool.false_eq_true, decodeVals, hk', hdec, MD.set, hne']
  unfold MD.delete
  have := binSuffix_ne_timeout (pfx ++ k) hk'
  simp [timeoutKey_lower, this]

/-- D13, kernel-checked negative witness about the ORIGINAL proxy entry (`normalise := false`, the code
    before the fix): allow-list `x-bin`; a gRPC client sends the 4 bytes `QUJD` as binary metadata `x-bin`;
    grpc-go hands the proxy those 4 bytes; the target receives the 3 bytes `ABC` — not what the client sent.
    With the entry point's normalisation (`normalise := true`) it receives `QUJD`. -/
theorem C07_proxy_bin_fails :
    let o : Opts := { allowReq := [[120,45,98,105,110]] }
    let r : Request := { hdr := [([120,45,98,105,110], [[81,85,74,68]])], normalise := false }
    targetMD .proxy o r = [([120,45,98,105,110], [[65,66,67]])] ∧
    reqSpec false o (items .proxy r) (targetMD .proxy o r) = false ∧
    targetMD .proxy o { r with normalise := true } = [([120,45,98,105,110], [[81,85,74,68]])] := by
  decide

/-- **Default options forward nothing, in either direction, on every entry point**, however the
    target's stream ends. -/
theorem C07_default_deny (en : Entry) (o : Opts) (r : Request) (streaming : Bool) (s : Script) (hdr trl : MD)
    (h1 : o.allowReq = []) (h2 : o.allowResp = []) (h3 : o.allowTrl = []) :
    targetMD en o r = [] ∧ clientVisible en o streaming s hdr trl = ([], []) := by
  constructor
  · rw [C07_all_entries, h1]; simp [filterRequest, MD.delete]
  · have e1 : filterResponseMD o (s.header hdr) = [] := by unfold filterResponseMD; rw [h2]; rfl
    have e2 : filterTrailerMD o trl = [] := by unfold filterTrailerMD; rw [h3]; rfl
    unfold clientVisible forwardResponse
    simp only [e1, e2]
    cases en <;> cases streaming <;> simp [appendHeaders, appendTrailers, optMD] <;>
      (split <;> simp [optMD, appendHeaders])

/-- **What `Forward` hands to the incoming stream**, for every way the target's stream can end (headers
    sent or Trailers-Only, any number of messages, EOF or error): the `SetHeader` argument is the RESPONSE
    allow-list applied to the target's HEADER block, the `SetTrailer` argument (when called) the TRAILER
    allow-list applied to its TRAILER block — never one list applied to the other block. -/
theorem C07_forward_response_blocks (o : Opts) (streaming : Bool) (s : Script) (hdr trl : MD) :
    (forwardResponse o streaming s hdr trl).1 = filterResponseMD o (s.header hdr) ∧
    ∀ t, (forwardResponse o streaming s hdr trl).2.1 = some t → t = filterTrailerMD o trl := by
  unfold forwardResponse
  simp only
  cases streaming
  · simp only [Bool.false_eq_true, ↓reduceIte]
    split
    · exact ⟨rfl, fun t ht => by simp at ht⟩
    · exact ⟨rfl, fun t ht => by simpa using ht.symm⟩
  · simp only [↓reduceIte]
    exact ⟨by first | rfl | trivial, fun t ht => by simpa using ht.symm⟩

/-- A Trailers-Only response (the target failed, or finished, before sending headers) puts NOTHING into
    the response headers, whatever its trailers carry and whatever the response allow-list names. -/
theorem C07_trailers_only_no_headers (o : Opts) (streaming : Bool) (s : Script) (hdr trl : MD)
    (h : s.hdrSent = false) : (forwardResponse o streaming s hdr trl).1 = [] := by
  rw [(C07_forward_response_blocks o streaming s hdr trl).1]
  unfold Script.header filterResponseMD
  rw [h]
  simp only [Bool.false_eq_true, ↓reduceIte]
  have : ∀ allow : List Bytes, ∀ out : MD, allow.foldl (respStep [] o.prefixResp) out = out := by
    intro allow
    induction allow with
    | nil => intro out; rfl
    | cons a rest ih => intro out; simp only [List.foldl_cons]; rw [show respStep [] o.prefixResp out a = out from by simp [respStep, MD.get, MD.lookup]]; exact ih out
  exact this _ _

/-- **Response direction, end to end** (all five entry points, every way the target's stream can end).
    Every header value the client can observe that stems from target metadata is licensed by the
    RESPONSE allow-list against the target's HEADER block (`Header()`: empty for Trailers-Only); the only
    exception is the HTTP entry while no body byte has been written (unary calls, or no message
    delivered), where trailers are sent as headers and are then licensed by the TRAILER allow-list
    against the TRAILER block.  Every trailer value is licensed by the TRAILER allow-list against the
    TRAILER block.  Names compare up to ASCII case (HTTP canonicalises them). -/
theorem C07_client_only_allowed (en : Entry) (o : Opts) (streaming : Bool) (s : Script) (hdr trl : MD) :
    (∀ e ∈ (clientVisible en o streaming s hdr trl).1, ∀ v ∈ e.2,
        (∃ a ∈ o.allowResp, lower e.1 = lower (o.prefixResp ++ a) ∧ v ∈ (s.header hdr).get a) ∨
        (en = .http ∧ ¬ (streaming = true ∧ (forwardResponse o streaming s hdr trl).2.2 > 0) ∧
          ∃ a ∈ o.allowTrl, lower e.1 = lower (o.prefixTrl ++ a) ∧ v ∈ trl.get a)) ∧
    (∀ e ∈ (clientVisible en o streaming s hdr trl).2, ∀ v ∈ e.2,
        ∃ a ∈ o.allowTrl, lower e.1 = lower (o.prefixTrl ++ a) ∧ v ∈ trl.get a) := by
  let SR : Bytes → Bytes → Prop := fun K v =>
    ∃ a ∈ o.allowResp, lower K = lower (o.prefixResp ++ a) ∧ v ∈ (s.header hdr).get a
  let ST : Bytes → Bytes → Prop := fun K v =>
    ∃ a ∈ o.allowTrl, lower K = lower (o.prefixTrl ++ a) ∧ v ∈ trl.get a
  have fh : ∀ e ∈ filterResponseMD o (s.header hdr), ∀ v ∈ e.2, ∀ K, lower K = lower e.1 → SR K v := by
    intro e he v hv K hK
    obtain ⟨a, ha, h1, h2, _⟩ := C07_filter_response_only_allowed o _ e he
    exact ⟨a, ha, by rw [hK, h1, lower_lower], by rw [← h2]; exact hv⟩
  have ft : ∀ e ∈ filterTrailerMD o trl, ∀ v ∈ e.2, ∀ K, lower K = lower e.1 → ST K v := by
    intro e he v hv K hK
    obtain ⟨a, ha, h1, h2, _⟩ := C07_filter_trailer_only_allowed o trl e he
    exact ⟨a, ha, by rw [hK, h1, lower_lower], by rw [← h2]; exact hv⟩
  -- whatever SetTrailer got (or nothing), it is licensed by the trailer list against the trailer block
  have ftO : ∀ t? : Option MD, (∀ t, t? = some t → t = filterTrailerMD o trl) →
      ∀ e ∈ optMD t?, ∀ v ∈ e.2, ∀ K, lower K = lower e.1 → ST K v := by
    intro t? ht e he v hv K hK
    cases t? with
    | none => simp [optMD] at he
    | some t => rw [ht t rfl] at he; exact ft e he v hv K hK
  obtain ⟨hb1, hb2⟩ := C07_forward_response_blocks o streaming s hdr trl
  unfold clientVisible
  generalize hfr : forwardResponse o streaming s hdr trl = fr at hb1 hb2
  obtain ⟨h0, t?, n⟩ := fr
  simp only at hb1 hb2
  subst hb1
  have eR : ESrc (filterResponseMD o (s.header hdr)) SR := fun e he v hv => fh e he v hv e.1 rfl
  have eT : ESrc (optMD t?) ST := fun e he v hv => ftO t? hb2 e he v hv e.1 rfl
  have aR : ESrc (appendHeaders [] (filterResponseMD o (s.header hdr))) SR :=
    appendHeaders_src _ _ SR (esrc_nil _) (fun e he v hv => fh e he v hv _ (lower_canonKey e.1))
  have aT : ESrc (appendHeaders [] (optMD t?)) ST :=
    appendHeaders_src _ _ ST (esrc_nil _) (fun e he v hv => ftO t? hb2 e he v hv _ (lower_canonKey e.1))
  cases en with
  | http =>
    simp only [appendTrailers]
    by_cases hc : (streaming && decide (n > 0)) = true
    · simp only [hc, ↓reduceIte]
      exact ⟨fun e he v hv => Or.inl (aR e he v hv), fun e he v hv => aT e he v hv⟩
    · simp only [hc, Bool.false_eq_true, ↓reduceIte]
      have hearly : ¬ (streaming = true ∧ n > 0) := by
        intro ⟨h1, h2⟩; apply hc; simp [h1, h2]
      have aRT : ESrc (appendHeaders (appendHeaders [] (filterResponseMD o (s.header hdr))) (optMD t?))
          (fun K v => SR K v ∨ ST K v) :=
        appendHeaders_src _ _ _ (esrc_mono _ _ _ aR (fun _ _ h => Or.inl h))
          (fun e he v hv => Or.inr (ftO t? hb2 e he v hv _ (lower_canonKey e.1)))
      refine ⟨fun e he v hv => ?_, fun e he => by simp at he⟩
      rcases aRT e he v hv with h | h
      · exact Or.inl h
      · exact Or.inr ⟨by first | rfl | trivial, hearly, h⟩
  | ws => exact ⟨fun e he => by simp at he, fun e he => by simp at he⟩
  | grpcweb => exact ⟨fun e he v hv => Or.inl (aR e he v hv), fun e he v hv => eT e he v hv⟩
  | grpcws =>
    refine ⟨fun e he v hv => ?_, fun e he v hv => eT e he v hv⟩
    simp only at he
    split at he
    · exact Or.inl (eR e he v hv)
    · simp at he
  | proxy => exact ⟨fun e he v hv => Or.inl (eR e he v hv), fun e he v hv => eT e he v hv⟩

/-- The seeded regression in one line: a Trailers-Only failure whose trailer `x-r` is on the response
    list but not on the trailer list shows the client nothing — on every entry point. -/
theorem C07_trailers_only_example (en : Entry) :
    clientVisible en { allowResp := [[120,45,114]], allowTrl := [[120,45,116]] } true
      { hdrSent := false, msgs := 0, ok := false } [] [([120,45,114], [[115]])] = ([], []) := by
  cases en <;> decide

/-- Nothing at all is observable on the plain WebSocket entry (no headers after the upgrade, no trailers). -/
theorem C07_websocket_nothing (o : Opts) (streaming : Bool) (s : Script) (hdr trl : MD) :
    clientVisible .ws o streaming s hdr trl = ([], []) := rfl

/-- The hypotheses above are satisfiable and the renaming / decoding behaves as documented
    (gateway prefix stripped case-insensitively; padded and unpadded base64; undecodable value
    dropped silently; a name that is not listed is not forwarded even if its stripped form is). -/
theorem C07_examples :
    filterRequestMD { allowReq := [ascii "Grpc-Metadata-Data-Bin", ascii "x-a"], prefixReq := ascii "p-" }
        [(ascii "grpc-metadata-data-bin", [ascii "QUJD", ascii "QUI", ascii "!!"]), (ascii "x-a", [ascii "1"]),
         (ascii "data-bin", [ascii "QQ"]), (ascii "x-internal", [ascii "s"])]
      = [(ascii "data-bin", [ascii "ABC", ascii "AB"]), (ascii "p-x-a", [ascii "1"])]
    ∧ targetMD .http { allowReq := [ascii "grpc-metadata-grpc-timeout", ascii "grpc-timeout", ascii "timeout"], prefixReq := ascii "grpc-" }
        { hdr := [(ascii "Grpc-Metadata-Grpc-Timeout", [ascii "1n"]), (ascii "Timeout", [ascii "2n"])] } = []
    ∧ targetDeadline .http { allowReq := [ascii "timeout"], prefixReq := ascii "grpc-" }
        { hdr := [(ascii "Grpc-Timeout", [ascii "10S"]), (ascii "Timeout", [ascii "2n"])] } = some 10000000000
    ∧ targetMD .grpcws { allowReq := [ascii "x-a"] } { lines := [(ascii "X-a", ascii "1"), (ascii "x-A", ascii "2"), (ascii "x-b", ascii "3")] }
      = [(ascii "x-a", [ascii "1", ascii "2"])] := by
  decide

/-! ### construction glue: which forwarder a component ends up with -/

theorem C07_construct_spec (idx : Nat) (c : Ctor) : construct idx c = specFwd idx c := by
  unfold construct specFwd
  cases applyOpts c.opts <;> rfl

/-- **Components are isolated**, over ALL sequences of constructor calls in one process: the `i`-th
    component built holds exactly the forwarder it was given (the last `WithForwarder`), else a fresh default
    created by its own constructor call — a function of its OWN call only. -/
theorem C07_components_isolated (seq : List Ctor) (i : Nat) (c : Ctor) (h : seq[i]? = some c) :
    (build seq)[i]? = some (specFwd i c) := by
  have gen : ∀ (l : List Ctor) (n i : Nat) (c : Ctor), l[i]? = some c → (buildFrom n l)[i]? = some (specFwd (n + i) c) := by
    intro l
    induction l with
    | nil => intro n i c h; simp at h
    | cons x rest ih =>
      intro n i c h
      cases i with
      | zero =>
        simp only [List.getElem?_cons_zero, Option.some.injEq] at h
        subst h
        simp [buildFrom, C07_construct_spec]
      | succ j =>
        simp only [List.getElem?_cons_succ] at h
        simp only [buildFrom, List.getElem?_cons_succ]
        rw [ih (n + 1) j c h]
        congr 2; omega
  have := gen seq 0 i c h
  simpa [build] using this

/-- … hence no dependence on any other constructor call: two processes that agree on the `i`-th call agree
    on the `i`-th component, whatever was built before or after it. -/
theorem C07_components_independent (seq seq' : List Ctor) (i : Nat) (c : Ctor)
    (h : seq[i]? = some c) (h' : seq'[i]? = some c) : (build seq)[i]? = (build seq')[i]? := by
  rw [C07_components_isolated seq i c h, C07_components_isolated seq' i c h']

/-- Options that do not concern the forwarder (`WithLogger`, `WithMarshalers`, …) do not change it. -/
theorem C07_irrelevant_options (opts : List Opt) :
    applyOpts (opts.filter (fun o => match o with | .withForwarder _ => true | _ => false)) = applyOpts opts := by
  unfold applyOpts
  have gen : ∀ (l : List Opt) (acc : Option Nat),
      (l.filter (fun o => match o with | .withForwarder _ => true | _ => false)).foldl
        (fun acc o => match o with | .withForwarder f => some f | _ => acc) acc =
      l.foldl (fun acc o => match o with | .withForwarder f => some f | _ => acc) acc := by
    intro l
    induction l with
    | nil => intro acc; rfl
    | cons o rest ih => intro acc; cases o <;> simp [List.filter, ih]
  exact gen opts none

/-- **A component built with default options forwards nothing in either direction on any of its entry
    points, whatever else the process constructs, in whatever order, with whatever forwarders.** -/
theorem C07_default_component_denies (seq : List Ctor) (i : Nat) (c : Ctor) (cfg : Nat → Opts)
    (h : seq[i]? = some c) (hd : applyOpts c.opts = none) :
    ∃ f, (build seq)[i]? = some f ∧
      ∀ (en : Entry) (r : Request) (streaming : Bool) (s : Script) (hdr trl : MD),
        targetMD en (optsOf cfg f) r = [] ∧ clientVisible en (optsOf cfg f) streaming s hdr trl = ([], []) := by
  refine ⟨specFwd i c, C07_components_isolated seq i c h, ?_⟩
  intro en r streaming s hdr trl
  have : optsOf cfg (specFwd i c) = {} := by unfold specFwd; rw [hd]; rfl
  rw [this]
  exact C07_default_deny en {} r streaming s hdr trl rfl rfl rfl

/-- Seeded variant C07-m5 (process-wide default seeded by the first constructor call), kernel-checked
    negative witness: `[NewGRPCProxy(WithForwarder(wide)), NewWebBridge()]` — the default-options bridge holds
    the proxy's forwarder and forwards the `X-W` header to the target; the real construction gives it a fresh
    deny-all forwarder and nothing crosses. -/
theorem C07_shared_default_fails :
    let seq : List Ctor := [{ kind := .proxy, opts := [.withForwarder 0] }, { kind := .bridge }]
    let cfg : Nat → Opts := fun _ => { allowReq := [[120,45,119]] }
    let r : Request := { hdr := [([88,45,87], [[49]])] }
    buildShared seq = [.given 0, .given 0] ∧ build seq = [.given 0, .fresh 1] ∧
    targetMD .http (optsOf cfg ((buildShared seq).getD 1 (.fresh 1))) r = [([120,45,119], [[49]])] ∧
    targetMD .http (optsOf cfg ((build seq).getD 1 (.fresh 1))) r = [] ∧
    buildShared [{ kind := .bridge }, { kind := .proxy, opts := [.withForwarder 0] }] = [.fresh 0, .given 0] := by
  decide

/-! Facts ties (regenerated from the sources on every run). -/

theorem C07_facts_constants :
    GB.Generated.c07GatewayPrefix = gwPrefix.map UInt8.toNat
    ∧ GB.Generated.c07TimeoutKey = timeoutKey.map UInt8.toNat
    ∧ GB.Generated.c07BinSuffix = binSuffix.map UInt8.toNat := by
  decide

/-- The only places that attach outgoing metadata are `baseContext` (and `AdaptedClientConn.Stream`,
    which copies the MD it was given onto the stream context); the request filter is applied in
    `Forward` only, the response/trailer filters in the two response pumps only, and `SetHeader` /
    `SetTrailer` are called from those pumps (and the proxy's adapter methods) only. -/
theorem C07_facts_call_sites :
    GB.Generated.c07OutgoingContextSites =
      ["grpcadapter/conn.go:Stream", "grpcadapter/forwarder.go:baseContext", "grpcadapter/forwarder.go:baseContext"]
    ∧ GB.Generated.c07AppendOutgoingSites = []
    ∧ GB.Generated.c07FilterRequestSites = ["grpcadapter/forwarder.go:Forward"]
    ∧ GB.Generated.c07FilterResponseSites =
      ["grpcadapter/forwarder.go:forwardOutgoingToIncoming", "grpcadapter/forwarder.go:forwardUnaryResponse"]
    ∧ GB.Generated.c07FilterTrailerSites =
      ["grpcadapter/forwarder.go:forwardOutgoingToIncoming", "grpcadapter/forwarder.go:forwardUnaryResponse"]
    ∧ GB.Generated.c07SetHeaderSites =
      ["grpcadapter/forwarder.go:forwardOutgoingToIncoming", "grpcadapter/forwarder.go:forwardUnaryResponse", "proxy.go:SetHeader"]
    ∧ GB.Generated.c07SetTrailerSites =
      ["grpcadapter/forwarder.go:forwardOutgoingToIncoming", "grpcadapter/forwarder.go:forwardUnaryResponse", "proxy.go:SetTrailer"] := by
  decide

/-- Construction glue: the root package and `grpcadapter` hold NO package-level mutable state (no variable
    besides blank compile-time assertions and error sentinels, no `sync.Once` / `sync.Pool`), and the
    default forwarder is created by a `NewForwarder()` call inside each of the two constructors — so `build`
    (a plain map over the constructor calls) is the shape of the code. -/
theorem C07_facts_no_shared_defaults :
    GB.Generated.c07MutablePackageVars = []
    ∧ GB.Generated.c07SharedSyncTypes = []
    ∧ GB.Generated.c07DefaultForwarderSites = ["bridge.go:NewWebBridge", "proxy.go:NewGRPCProxy"] := by
  decide


/-! ### Round 5 (w2net): the gRPC-WebSocket metadata MESSAGE as arbitrary bytes (`textproto.ReadMIMEHeader` in the model)

  `readMDPairs data` = the `(key as written, value)` lines `readMD` (webbridge/grpcweb.go) accepts from the first
  frame `data`, `none` = the call fails with InvalidArgument and nothing is forwarded; `readMD data` = the
  `metadata.MD(mimeHeader)` handed to the forwarder. -/

/-- The allow-list theorem over the RAW frame bytes, for every byte string: either `ReadMIMEHeader` rejects the frame,
    or an entry reaches the target only if its key is not `grpc-timeout`, some allow-listed name is renamed onto it,
    and every value is (the base64 decoding of, for binary keys) the value of a wire line whose name equals the
    listed name up to ASCII case. -/
theorem C07_grpcws_raw_only_allowed (data : Bytes) (o : Opts) :
    readMDPairs data = none ∨
    ∃ ps, readMDPairs data = some ps ∧ ∀ e ∈ targetMD .grpcws o { lines := ps },
      e.1 ≠ timeoutKey ∧ ∃ a ∈ o.allowReq, e.1 = rename o.prefixReq a ∧
        ∀ v ∈ e.2, ∃ p ∈ ps, lower p.1 = lower a ∧
          (if hasBinSuffix (renameRaw o.prefixReq a) then decodeBinHeader p.2 = some v else p.2 = v) := by
  cases h : readMDPairs data with
  | none => exact Or.inl rfl
  | some ps =>
    refine Or.inr ⟨ps, rfl, ?_⟩
    intro e he
    exact C07_target_only_allowed .grpcws o { lines := ps } e he

/-- Multiple lines of one header: the values under a canonical key are the values of exactly the lines whose name
    canonicalises to it, in wire order (names differing only in ASCII case merge; a name with a SP is kept as written). -/
theorem C07_wire_lookup (ps : List (Bytes × Bytes)) (K : Bytes) :
    MD.lookup (mimeHeader ps) K = wireValues K ps := lookup_mimeHeader ps K

/-- Every key `ReadMIMEHeader` lets through — in the gRPC-WebSocket frame and in an HTTP request alike — is non-empty
    and pure ASCII (token bytes, or SP): a line whose name has a byte ≥ 0x80, a CTL or NUL fails the whole frame. -/
theorem C07_wire_keys_ascii (ls : List Bytes) (ps : List (Bytes × Bytes)) (h : readPairs ls = some ps) :
    ∀ p ∈ ps, p.1 ≠ [] ∧ (∀ c ∈ p.1, c.toNat < 128) ∧ (∀ c ∈ canonKey p.1, c.toNat < 128) := by
  intro p hp
  obtain ⟨h1, h2⟩ := keyOK_ascii p.1 (readPairs_keyOK ls ps h p hp)
  exact ⟨h1, h2, canonKey_ascii p.1 h2⟩

/-- `strings.ToLower` on non-ASCII keys cannot matter on this entry point: for ANY lower-casing function `L` that
    agrees with ASCII lower-casing on ASCII strings (as `strings.ToLower` does; on non-ASCII input it may do anything,
    e.g. map U+212A KELVIN SIGN to `k`), `L` and the model's `lower` agree on every key of the metadata `readMD`
    hands on — so a non-ASCII name can never be folded onto an ASCII allow-list entry: it never gets that far. -/
theorem C07_wire_tolower_ascii_only (L : Bytes → Bytes)
    (hL : ∀ s : Bytes, (∀ c ∈ s, c.toNat < 128) → L s = lower s)
    (data : Bytes) (ps : List (Bytes × Bytes)) (h : readMDPairs data = some ps) :
    ∀ p ∈ ps, L (canonKey p.1) = lower (canonKey p.1) ∧ L p.1 = lower p.1 := by
  intro p hp
  obtain ⟨_, h2, h3⟩ := C07_wire_keys_ascii _ ps h p hp
  exact ⟨hL _ h3, hL _ h2⟩

/-- kernel-checked instances of the wire parser (`decide`): continuation lines are joined with one SP after trimming;
    `Key : v` keeps the key `Key ` uncanonicalised; a missing colon, an empty key, a leading SP on the first line, a NUL
    in a value, a non-ASCII key (`K` U+212A = E2 84 AA) and a frame without the final CRLF all fail the frame; what
    follows a blank line is not read. -/
theorem C07_wire_examples :
    -- "x-a: 1\r\n\t2 \r\nX-A:3\r\n": one key `X-A` with the values "1 2", "3"
    readMDPairs [120,45,97,58,32,49,13,10,9,50,32,13,10,88,45,65,58,51,13,10] = some [([120,45,97], [49,32,50]), ([88,45,65], [51])] ∧
    (readMDPairs [120,45,97,58,32,49,13,10,9,50,32,13,10,88,45,65,58,51,13,10]).map (fun ps => MD.lookup (mimeHeader ps) [88,45,65]) =
      some [[49,32,50], [51]] ∧
    -- "x-a : 1\r\n"
    readMDPairs [120,45,97,32,58,32,49,13,10] = some [([120,45,97,32], [49])] ∧
    -- "x-a\r\n", ": 1\r\n", " x-a: 1\r\n", "x-a: \x00\r\n", "\xe2\x84\xaa: v\r\n", "x-a: 1" (no CRLF)
    readMDPairs [120,45,97,13,10] = none ∧ readMDPairs [58,32,49,13,10] = none ∧ readMDPairs [32,120,45,97,58,32,49,13,10] = none ∧
    readMDPairs [120,45,97,58,32,0,13,10] = none ∧ readMDPairs [0xe2,0x84,0xaa,58,32,118,13,10] = none ∧
    readMDPairs [120,45,97,58,32,49] = none ∧
    -- "x-a: 1\r\n\r\nbroken\r\n" and the empty frame
    readMDPairs [120,45,97,58,32,49,13,10,13,10,98,114,111,107,101,110,13,10] = some [([120,45,97], [49])] ∧
    readMDPairs [] = some [] := by
  decide


/-! ### response header / HTTP trailer VALUES on the transcoded-HTTP and gRPC-Web entry points (fix D40) -/

/-- Binary response metadata is lossless on the HTTP carrier: for EVERY binary key and EVERY byte string the target sent
    (NUL, CR LF, bytes >= 0x80, blanks at either end, empty), the bytes of the header / trailer line — `headerValues` of the
    bridge followed by net/http's own rewriting of every value it writes — decode, with the client's `base64.RawStdEncoding`,
    to exactly the target's bytes. -/
theorem C07_resp_bin_recoverable (k v : Bytes) (hb : GB.C08.isBinKey k = true) :
    GB.C07.b64dec false (GB.C07.respWireValue k v) [] = some v := by
  simp only [GB.C07.respWireValue, GB.C07.bridgeHeaderValue, hb, ↓reduceIte, GB.C08.trailerValue]
  rw [GB.C07.netHTTPValue_id _ (GB.C08.encodeRaw_printable v)]
  exact GB.C08.b64raw_roundtrip v

/-- ... and net/http changes nothing in it: what the bridge puts into `http.Header` for a binary key is what is on the wire,
    and it consists of visible ASCII only (no CR, LF, NUL, blank or byte >= 0x80 for any parser to trip over). -/
theorem C07_resp_bin_wire_form (k v : Bytes) (hb : GB.C08.isBinKey k = true) :
    GB.C07.respWireValue k v = GB.C08.encodeRaw v ∧ ∀ c ∈ GB.C07.respWireValue k v, 33 ≤ c ∧ c ≤ 126 := by
  have h : GB.C07.respWireValue k v = GB.C08.encodeRaw v := by
    simp only [GB.C07.respWireValue, GB.C07.bridgeHeaderValue, hb, ↓reduceIte, GB.C08.trailerValue]
    exact GB.C07.netHTTPValue_id _ (GB.C08.encodeRaw_printable v)
  exact ⟨h, fun c hc => GB.C08.encodeRaw_printable v c (h ▸ hc)⟩

/-- No value can add a line to the response head or to the trailer section, for EVERY key (binary or not) and EVERY value,
    before and after the fix: this part IS guaranteed by net/http alone (CR and LF become SP before a value is written). -/
theorem C07_resp_no_line_injection (k v : Bytes) :
    (13 : UInt8) ∉ GB.C07.respWireValue k v ∧ (10 : UInt8) ∉ GB.C07.respWireValue k v ∧
    (13 : UInt8) ∉ GB.C07.respWireValuePreFix k v ∧ (10 : UInt8) ∉ GB.C07.respWireValuePreFix k v :=
  ⟨(GB.C07.netHTTPValue_clean _).1, (GB.C07.netHTTPValue_clean _).2, (GB.C07.netHTTPValue_clean _).1, (GB.C07.netHTTPValue_clean _).2⟩

/-- Text values the carrier can hold arrive unchanged: a value of visible ASCII under a non-binary key is written as it is. -/
theorem C07_resp_text_unchanged (k v : Bytes) (hb : GB.C08.isBinKey k = false) (hv : ∀ c ∈ v, 33 ≤ c ∧ c ≤ 126) :
    GB.C07.respWireValue k v = v := by
  simp only [GB.C07.respWireValue, GB.C07.bridgeHeaderValue, hb, Bool.false_eq_true, ↓reduceIte]
  exact GB.C07.netHTTPValue_id v hv

/-- Witness of the behaviour before the fix (kernel-evaluated; the same inputs are replayed on the real code by the `rbin`
    stream): under `x-bin` the distinct target values "a\r\nb" / "a  b", "\r\n" / "" and "v " / "v" gave the same header
    line, so no client could tell them apart, and NUL / 0xff went onto the wire as they were (Go's own client rejects such a
    response); after the fix the lines are `YQ0KYg` / `YSAgYg`, `DQo` / (empty), `diA` / `dg`, `AP8`. -/
theorem C07_resp_bin_prefix_lossy :
    let k : Bytes := [120, 45, 98, 105, 110]
    GB.C07.respWireValuePreFix k [97, 13, 10, 98] = GB.C07.respWireValuePreFix k [97, 32, 32, 98] ∧
    GB.C07.respWireValuePreFix k [13, 10] = GB.C07.respWireValuePreFix k [] ∧
    GB.C07.respWireValuePreFix k [118, 32] = GB.C07.respWireValuePreFix k [118] ∧
    GB.C07.respWireValuePreFix k [0, 255] = [0, 255] ∧
    GB.C07.respWireValue k [97, 13, 10, 98] = [89, 81, 48, 75, 89, 103] ∧
    GB.C07.respWireValue k [97, 32, 32, 98] = [89, 83, 65, 103, 89, 103] ∧
    GB.C07.respWireValue k [13, 10] = [68, 81, 111] ∧ GB.C07.respWireValue k [] = [] ∧
    GB.C07.respWireValue k [118, 32] = [100, 105, 65] ∧ GB.C07.respWireValue k [118] = [100, 103] ∧
    GB.C07.respWireValue k [0, 255] = [65, 80, 56] := by
  decide
