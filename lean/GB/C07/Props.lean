import GB.C07.Proofs
import GB.Generated.Facts
/-
  C07 — property theorems.  The model (GB/C07/Model.lean) is grpcadapter/metadata.go,
  ProxyForwarder.baseContext, the header→metadata conversions and the metadata→response placements
  of the five entry points; the specification (GB/C07/Spec.lean) speaks about what the CLIENT sent
  (`items`) and what the TARGET emitted.  Every theorem quantifies over ALL configurations (allow
  lists, prefixes), ALL header / metadata sets and — where it says `en` — ALL five entry points.
-/
set_option linter.unusedSimpArgs false
set_option linter.unusedVariables false
open GB GB.C07

/-- **Each entry point = filter ∘ conversion.** What reaches the target is the allow-list filter
    applied to the entry point's conversion of the request (through `FromIncomingContext`), with
    `grpc-timeout` removed — nothing bypasses the filter, for every entry point and configuration. -/
theorem C07_all_entries (en : Entry) (o : Opts) (r : Request) :
    targetMD en o r =
      MD.delete (filterRequest (fromIncoming (toCtxMD en r)) o.allowReq o.prefixReq) timeoutKey :=
  outgoing_eq o (toCtxMD en r)

/-- **Request direction, at the filter.** Every entry of `FilterRequestMD`'s result is either the
    carried `grpc-timeout` (consumed by `baseContext`, see `C07_timeout_never_forwarded`) or comes from
    an allow-listed name: renamed, values decoded when binary, never empty. -/
theorem C07_filter_request_only_allowed (o : Opts) (md : MD) (e : Bytes × List Bytes)
    (h : e ∈ filterRequestMD o md) :
    (e.1 = timeoutKey ∧ e.2 = md.get timeoutKey) ∨
    ∃ a ∈ o.allowReq, e.1 = rename o.prefixReq a ∧
      e.2 = decodeVals (renameRaw o.prefixReq a) (md.get a) ∧ e.2 ≠ [] := by
  unfold filterRequestMD at h
  simp only at h
  split at h
  · unfold MD.set at h
    split at h
    · exact Or.inr (filterRequest_entries md _ _ e h)
    · rcases mem_put _ _ _ _ h with h1 | h1
      · left; rw [h1, timeoutKey_lower]; exact ⟨rfl, rfl⟩
      · exact Or.inr (filterRequest_entries md _ _ e h1)
  · exact Or.inr (filterRequest_entries md _ _ e h)

/-- **Response headers, at the filter**: only allow-listed names, under `prefix ++ name`, values untouched. -/
theorem C07_filter_response_only_allowed (o : Opts) (md : MD) (e : Bytes × List Bytes)
    (h : e ∈ filterResponseMD o md) :
    ∃ a ∈ o.allowResp, e.1 = lower (o.prefixResp ++ a) ∧ e.2 = md.get a ∧ e.2 ≠ [] :=
  filterResponse_entries md _ _ e h

/-- **Trailers, at the filter**: the trailer allow-list and prefix, not the header ones. -/
theorem C07_filter_trailer_only_allowed (o : Opts) (md : MD) (e : Bytes × List Bytes)
    (h : e ∈ filterTrailerMD o md) :
    ∃ a ∈ o.allowTrl, e.1 = lower (o.prefixTrl ++ a) ∧ e.2 = md.get a ∧ e.2 ≠ [] :=
  filterResponse_entries md _ _ e h

/-- **`grpc-timeout` is never forwarded as metadata** — for every configuration, including allow-lists
    that name it (`grpc-timeout`), rename onto it (`Grpc-Metadata-Grpc-Timeout`, prefix `grpc-` +
    `timeout`), and for every entry point. -/
theorem C07_timeout_never_forwarded (en : Entry) (o : Opts) (r : Request) :
    timeoutKey ∉ (targetMD en o r).keys := by
  rw [C07_all_entries]
  intro h
  unfold MD.keys at h
  obtain ⟨e, he, hk⟩ := List.mem_map.1 h
  have := (mem_delete _ _ e he).2
  rw [timeoutKey_lower] at this
  exact this hk

/-- **The client's `grpc-timeout` is what is consumed as the deadline**: whenever the request carries
    one, the call's timeout is its (first) value decoded per the gRPC spec (C12), whatever the
    allow-list renames onto the key. -/
theorem C07_timeout_consumed (en : Entry) (o : Opts) (r : Request) (v0 : Bytes) (vs : List Bytes)
    (h : (fromIncoming (toCtxMD en r)).get timeoutKey = v0 :: vs) :
    targetDeadline en o r = GB.C12.decodeTimeout v0 := by
  unfold targetDeadline deadline forwardRequest filterRequestMD
  simp only [h, List.length_cons, Nat.zero_lt_succ, ↓reduceIte, gt_iff_lt]
  unfold baseContext MD.set
  simp only [List.isEmpty_cons, Bool.false_eq_true, ↓reduceIte]
  have hg : MD.get (MD.put (filterRequest (fromIncoming (toCtxMD en r)) o.allowReq o.prefixReq) (lower timeoutKey) (v0 :: vs))
      timeoutKey = v0 :: vs := by
    unfold MD.get; rw [lookup_put]; simp
  rw [hg]

/-- **Request direction, end to end, against what the client sent** (all five entry points, all
    configurations).  An entry `(k', vs)` reaches the target only if `k'` is not `grpc-timeout` and
    some allow-listed `a` is renamed onto `k'`, and every value is one the client sent under a name
    equal to `a` up to ASCII case — base64-decoded when the forwarded key is binary. -/
theorem C07_target_only_allowed (en : Entry) (o : Opts) (r : Request) (e : Bytes × List Bytes)
    (h : e ∈ targetMD en o r) :
    e.1 ≠ timeoutKey ∧ ∃ a ∈ o.allowReq, e.1 = rename o.prefixReq a ∧
      ∀ v ∈ e.2, ∃ p ∈ items en r, lower p.1 = lower a ∧
        (if hasBinSuffix (renameRaw o.prefixReq a) then decodeBinHeader p.2 = some v else p.2 = v) := by
  rw [C07_all_entries] at h
  obtain ⟨hm, hk⟩ := mem_delete _ _ e h
  rw [timeoutKey_lower] at hk
  refine ⟨hk, ?_⟩
  obtain ⟨a, ha, h1, h2, _⟩ := filterRequest_entries _ _ _ e hm
  refine ⟨a, ha, h1, ?_⟩
  intro v hv
  rw [h2] at hv
  unfold decodeVals at hv
  have hsrc := toCtxMD_src en r
  split at hv
  · rename_i hb
    obtain ⟨w, hw, hd⟩ := List.mem_filterMap.1 hv
    obtain ⟨p, hp, hpk, hpv⟩ := esrc_lookup _ _ hsrc _ w hw
    exact ⟨p, hp, hpk, by rw [if_pos hb, hpv]; exact hd⟩
  · rename_i hb
    obtain ⟨p, hp, hpk, hpv⟩ := esrc_lookup _ _ hsrc _ v hv
    exact ⟨p, hp, hpk, by rw [if_neg hb]; exact hpv⟩

/-- The same as the executable criterion the driver applies to the REAL target's metadata
    (`VIOL` iff it is false): on the four web entry points the model always meets it. -/
theorem C07_reqSpec_web (en : Entry) (o : Opts) (r : Request) (hw : en.wire = true) :
    reqSpec true o (items en r) (targetMD en o r) = true := by
  unfold reqSpec
  rw [List.all_eq_true]
  intro e he
  obtain ⟨hk, a, ha, h1, h2⟩ := C07_target_only_allowed en o r e he
  simp only [Bool.and_eq_true, bne_iff_ne, ne_eq]
  refine ⟨hk, ?_⟩
  unfold entryOK
  rw [List.any_eq_true]
  refine ⟨a, ha, ?_⟩
  simp only [Bool.and_eq_true, beq_iff_eq, List.all_eq_true, List.any_eq_true]
  refine ⟨h1.symm, ?_⟩
  intro v hv
  obtain ⟨p, hp, hpk, hpv⟩ := h2 v hv
  refine ⟨p, hp, hpk, ?_⟩
  unfold admissible
  split at hpv
  · rename_i hb; simp [hb, hpv]
  · rename_i hb; simp [hb, hpv]

/- FULL STATEMENT wanted for the gRPC proxy entry (values arrive from grpc-go ALREADY binary, so
   the admissible form is the value itself):
     ∀ o r, reqSpec false o (items .proxy r) (targetMD .proxy o r) = true
   It is FALSE for the code as it is (D13, `C07_proxy_bin_fails`): `filterRequest` base64-decodes
   `-bin` values a second time.  What does hold: -/

/-- gRPC proxy entry, partial: licensed exactly, provided no allow-listed name is forwarded under a
    binary (`-bin`) key.  (The "only if allow-listed" half — `C07_target_only_allowed` — holds on
    the proxy without this proviso.) -/
theorem C07_proxy_partial (o : Opts) (r : Request)
    (hnb : ∀ a ∈ o.allowReq, hasBinSuffix (renameRaw o.prefixReq a) = false) :
    reqSpec false o (items .proxy r) (targetMD .proxy o r) = true := by
  unfold reqSpec
  rw [List.all_eq_true]
  intro e he
  obtain ⟨hk, a, ha, h1, h2⟩ := C07_target_only_allowed .proxy o r e he
  simp only [Bool.and_eq_true, bne_iff_ne, ne_eq]
  refine ⟨hk, ?_⟩
  unfold entryOK
  rw [List.any_eq_true]
  refine ⟨a, ha, ?_⟩
  simp only [Bool.and_eq_true, beq_iff_eq, List.all_eq_true, List.any_eq_true]
  refine ⟨h1.symm, ?_⟩
  intro v hv
  obtain ⟨p, hp, hpk, hpv⟩ := h2 v hv
  refine ⟨p, hp, hpk, ?_⟩
  unfold admissible
  rw [hnb a ha] at hpv
  simp at hpv
  simp [hpv]

/-- D13, kernel-checked negative witness: allow-list `x-bin`; a gRPC client sends the 4 bytes `QUJD`
    as binary metadata `x-bin`; grpc-go hands the proxy those 4 bytes; the target receives the
    3 bytes `ABC` — not what the client sent. -/
theorem C07_proxy_bin_fails :
    let o : Opts := { allowReq := [[120,45,98,105,110]] }
    let r : Request := { hdr := [([120,45,98,105,110], [[81,85,74,68]])] }
    targetMD .proxy o r = [([120,45,98,105,110], [[65,66,67]])] ∧
    reqSpec false o (items .proxy r) (targetMD .proxy o r) = false := by
  decide

/-- **Default options forward nothing, in either direction, on every entry point.** -/
theorem C07_default_deny (en : Entry) (o : Opts) (r : Request) (unary : Bool) (hdr trl : MD)
    (h1 : o.allowReq = []) (h2 : o.allowResp = []) (h3 : o.allowTrl = []) :
    targetMD en o r = [] ∧ clientVisible en o unary hdr trl = ([], []) := by
  constructor
  · rw [C07_all_entries, h1]; simp [filterRequest, MD.delete]
  · unfold clientVisible filterResponseMD filterTrailerMD
    rw [h2, h3]
    cases en <;> cases unary <;> simp [filterResponse, appendHeaders, appendTrailers]

/-- **Response direction, end to end** (all five entry points): every header value the client can
    observe that stems from target metadata is licensed by the response allow-list against the
    target's headers or (unary HTTP: trailers are sent as headers) by the trailer allow-list against
    the target's trailers; every trailer value by the trailer allow-list.  Names compare up to ASCII
    case (HTTP canonicalises them). -/
theorem C07_client_only_allowed (en : Entry) (o : Opts) (unary : Bool) (hdr trl : MD) :
    (∀ e ∈ (clientVisible en o unary hdr trl).1, ∀ v ∈ e.2,
        (∃ a ∈ o.allowResp, lower e.1 = lower (o.prefixResp ++ a) ∧ v ∈ hdr.get a) ∨
        (∃ a ∈ o.allowTrl, lower e.1 = lower (o.prefixTrl ++ a) ∧ v ∈ trl.get a)) ∧
    (∀ e ∈ (clientVisible en o unary hdr trl).2, ∀ v ∈ e.2,
        ∃ a ∈ o.allowTrl, lower e.1 = lower (o.prefixTrl ++ a) ∧ v ∈ trl.get a) := by
  let SH : Bytes → Bytes → Prop := fun K v =>
    (∃ a ∈ o.allowResp, lower K = lower (o.prefixResp ++ a) ∧ v ∈ hdr.get a) ∨
    (∃ a ∈ o.allowTrl, lower K = lower (o.prefixTrl ++ a) ∧ v ∈ trl.get a)
  let ST : Bytes → Bytes → Prop := fun K v =>
    ∃ a ∈ o.allowTrl, lower K = lower (o.prefixTrl ++ a) ∧ v ∈ trl.get a
  have fh : ∀ e ∈ filterResponseMD o hdr, ∀ v ∈ e.2, ∀ K, lower K = lower e.1 → SH K v := by
    intro e he v hv K hK
    obtain ⟨a, ha, h1, h2, _⟩ := C07_filter_response_only_allowed o hdr e he
    exact Or.inl ⟨a, ha, by rw [hK, h1, lower_lower], by rw [← h2]; exact hv⟩
  have ft : ∀ e ∈ filterTrailerMD o trl, ∀ v ∈ e.2, ∀ K, lower K = lower e.1 → ST K v := by
    intro e he v hv K hK
    obtain ⟨a, ha, h1, h2, _⟩ := C07_filter_trailer_only_allowed o trl e he
    exact ⟨a, ha, by rw [hK, h1, lower_lower], by rw [← h2]; exact hv⟩
  have eH : ESrc (filterResponseMD o hdr) SH := fun e he v hv => fh e he v hv e.1 rfl
  have eT : ESrc (filterTrailerMD o trl) ST := fun e he v hv => ft e he v hv e.1 rfl
  have aH : ESrc (appendHeaders [] (filterResponseMD o hdr)) SH :=
    appendHeaders_src _ _ SH (esrc_nil _) (fun e he v hv => fh e he v hv _ (lower_canonKey e.1))
  have aT : ESrc (appendHeaders [] (filterTrailerMD o trl)) ST :=
    appendHeaders_src _ _ ST (esrc_nil _) (fun e he v hv => ft e he v hv _ (lower_canonKey e.1))
  have aHT : ESrc (appendHeaders (appendHeaders [] (filterResponseMD o hdr)) (filterTrailerMD o trl)) SH :=
    appendHeaders_src _ _ SH aH (fun e he v hv => Or.inr (ft e he v hv _ (lower_canonKey e.1)))
  unfold clientVisible
  cases en <;> cases unary <;> simp only [appendTrailers]
  all_goals first
    | exact ⟨fun e he v hv => aHT e he v hv, fun e he => by simp at he⟩
    | exact ⟨fun e he v hv => aH e he v hv, fun e he v hv => aT e he v hv⟩
    | exact ⟨fun e he v hv => aH e he v hv, fun e he v hv => eT e he v hv⟩
    | exact ⟨fun e he v hv => eH e he v hv, fun e he v hv => eT e he v hv⟩
    | exact ⟨fun e he => by simp at he, fun e he => by simp at he⟩

/-- Nothing at all is observable on the plain WebSocket entry (no headers after the upgrade, no trailers). -/
theorem C07_websocket_nothing (o : Opts) (unary : Bool) (hdr trl : MD) :
    clientVisible .ws o unary hdr trl = ([], []) := rfl

/-- The hypotheses above are satisfiable and the renaming / decoding behaves as documented
    (gateway prefix stripped case-insensitively; padded and unpadded base64; undecodable value
    dropped silently; a name that is not listed is not forwarded even if its stripped form is). -/
theorem C07_examples :
    filterRequestMD { allowReq := [ascii "Grpc-Metadata-Data-Bin", ascii "x-a"], prefixReq := ascii "p-" }
        [(ascii "grpc-metadata-data-bin", [ascii "QUJD", ascii "QUI", ascii "!!"]), (ascii "x-a", [ascii "1"]),
         (ascii "data-bin", [ascii "QQ"]), (ascii "x-internal", [ascii "s"])]
      = [(ascii "data-bin", [ascii "ABC", ascii "AB"]), (ascii "p-x-a", [ascii "1"])]
    ∧ targetMD .http { allowReq := [ascii "grpc-metadata-grpc-timeout", ascii "grpc-timeout", ascii "timeout"], prefixReq := ascii "grpc-" }
        { hdr := [(ascii "Grpc-Metadata-Grpc-Timeout", [ascii "1n"]), (ascii "Timeout", [ascii "2n"])] } = []
    ∧ targetDeadline .http { allowReq := [ascii "timeout"], prefixReq := ascii "grpc-" }
        { hdr := [(ascii "Grpc-Timeout", [ascii "10S"]), (ascii "Timeout", [ascii "2n"])] } = some 10000000000
    ∧ targetMD .grpcws { allowReq := [ascii "x-a"] } { lines := [(ascii "X-a", ascii "1"), (ascii "x-A", ascii "2"), (ascii "x-b", ascii "3")] }
      = [(ascii "x-a", [ascii "1", ascii "2"])] := by
  decide

/-! Facts ties (regenerated from the sources on every run). -/

theorem C07_facts_constants :
    GB.Generated.c07GatewayPrefix = gwPrefix.map UInt8.toNat
    ∧ GB.Generated.c07TimeoutKey = timeoutKey.map UInt8.toNat
    ∧ GB.Generated.c07BinSuffix = binSuffix.map UInt8.toNat := by
  decide

/-- The only places that attach outgoing metadata are `baseContext` (and `AdaptedClientConn.Stream`,
    which copies the MD it was given onto the stream context); the request filter is applied in
    `Forward` only, the response/trailer filters in the two response pumps only, and `SetHeader` /
    `SetTrailer` are called from those pumps (and the proxy's adapter methods) only. -/
theorem C07_facts_call_sites :
    GB.Generated.c07OutgoingContextSites =
      ["grpcadapter/conn.go:Stream", "grpcadapter/forwarder.go:baseContext", "grpcadapter/forwarder.go:baseContext"]
    ∧ GB.Generated.c07AppendOutgoingSites = []
    ∧ GB.Generated.c07FilterRequestSites = ["grpcadapter/forwarder.go:Forward"]
    ∧ GB.Generated.c07FilterResponseSites =
      ["grpcadapter/forwarder.go:forwardOutgoingToIncoming", "grpcadapter/forwarder.go:forwardUnaryResponse"]
    ∧ GB.Generated.c07FilterTrailerSites =
      ["grpcadapter/forwarder.go:forwardOutgoingToIncoming", "grpcadapter/forwarder.go:forwardUnaryResponse"]
    ∧ GB.Generated.c07SetHeaderSites =
      ["grpcadapter/forwarder.go:forwardOutgoingToIncoming", "grpcadapter/forwarder.go:forwardUnaryResponse", "proxy.go:SetHeader"]
    ∧ GB.Generated.c07SetTrailerSites =
      ["grpcadapter/forwarder.go:forwardOutgoingToIncoming", "grpcadapter/forwarder.go:forwardUnaryResponse", "proxy.go:SetTrailer"] := by
  decide
