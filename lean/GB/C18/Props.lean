import GB.C18.Proofs
import GB.Generated.Lockset
/-
  C18 — property theorems. PARTIAL by nature (DESIGN.md 5.18): data-race freedom over all
  multi-core schedules is a property of the runtime; what is proved here is
   (1) the lock discipline of the regenerated access table: every conflicting pair of accesses to a
       plain field of the shared structs is ordered by a common mutex or by a listed confinement row,
       except the explicitly listed known-unprotected pairs (genuine finding, see known_findings.json);
   (2) why (1) suffices for mutex-protected pairs: in every well-formed mutex trace two accesses by
       different threads under a common mutex are separated by an Unlock/Lock pair (a happens-before edge).
  The single-owner use of streams by Forward is an invariant of the Forward LTS (GB.C01/C02).
-/
open GB GB.C18

def C18_table : List Acc := GB.Generated.accesses.map (fun a => ⟨a.field, a.fn, a.write, a.locks, a.own, a.fresh⟩)

/-- The extractor type-checked every package without errors. -/
theorem C18_lockset_loaded : GB.Generated.locksetLoadErrors = 0 := by decide

/-- No package-level slice or map is handed out by reference (stored into an object, a variable or
    returned without cloning): the per-object confinement rows are only sound when every object owns its
    state. (Added after seeded change C18-m3 made every Resolver share the package-level
    `reflectionMethods` slice as its `methodPriority`.) -/
theorem C18_no_shared_globals : GB.Generated.globalAliases = [] := by decide

/-- Lock discipline over the table regenerated from the sources in this run.
    Full statement wanted: `∀ a b ∈ table, conflict a b → protectedPair a b`; it FAILS on the current
    tree (see `C18_writtenStatus_unprotected`), so the proved statement excuses exactly the listed pairs. -/
theorem C18_lockset_partial : allPairsOk C18_table = true := by decide +kernel

/-- Unfolded form of the above. -/
theorem C18_lockset_partial_forall (a b : Acc) (ha : a ∈ C18_table) (hb : b ∈ C18_table)
    (hc : conflict a b = true) (hk : isKnown a b = false) : protectedPair a b = true := by
  have h := C18_lockset_partial
  unfold allPairsOk at h
  rw [List.all_eq_true] at h
  have h1 := h a ha
  rw [List.all_eq_true] at h1
  have h2 := h1 b hb
  simp only [pairOk, hc, hk, Bool.not_true, Bool.false_or, Bool.or_false] at h2
  exact h2

/-- Negative witness (kernel-checked): on the current tree the response wrapper's `writtenStatus`
    flag is written by the helper goroutine of a cancelled Send and read by the handler's error path
    with no ordering between them. -/
theorem C18_writtenStatus_unprotected :
    ∃ a b, a ∈ C18_table ∧ b ∈ C18_table ∧ conflict a b = true ∧ protectedPair a b = false := by
  refine ⟨⟨"webbridge.responseWrapper.writtenStatus", "webbridge.responseWrapper.Write", true, [], [], false⟩,
          ⟨"webbridge.responseWrapper.writtenStatus", "webbridge.writeError", false, [], [], false⟩, ?_, ?_, ?_, ?_⟩
  · decide +kernel
  · decide +kernel
  · decide
  · decide

theorem runEv_append (h : Holders) (xs ys : List Ev) :
    runEv h (xs ++ ys) = (runEv h xs).bind (fun h' => runEv h' ys) := by
  induction xs generalizing h with
  | nil => simp [runEv]
  | cons x xs ih =>
    simp only [List.cons_append, runEv]
    cases stepEv h x with
    | none => simp
    | some h' => simp [ih]

/-- Why a common mutex is enough: for EVERY well-formed trace (any number of threads, mutexes and
    events), if thread `t1` performs an access while holding `l` and later a different thread `t2`
    performs an access while holding `l`, then between the two accesses `t1` released `l` and `t2`
    acquired it afterwards — the Unlock→Lock edge of the Go memory model orders the accesses. -/
theorem C18_common_lock_orders (pre mid post : List Ev) (t1 t2 a b l : Nat) (hne : t1 ≠ t2)
    (h0 hA hB hEnd : Holders)
    (hpre : runEv h0 pre = some hA) (hheldA : hA l = some t1)
    (hmid : runEv hA (Ev.acc t1 a :: mid) = some hB) (hheldB : hB l = some t2)
    (_hrest : runEv hB (Ev.acc t2 b :: post) = some hEnd) :
    ∃ m1 m2 m3, mid = m1 ++ Ev.rel t1 l :: (m2 ++ Ev.acq t2 l :: m3) := by
  simp only [runEv, stepEv] at hmid
  exact release_acquire_between mid hA hB t1 t2 l hne hmid hheldA hheldB

/-- Mutual exclusion itself: two different threads never hold the same mutex (holders is a function). -/
theorem C18_mutex_exclusive (h : Holders) (l t1 t2 : Nat) (h1 : h l = some t1) (h2 : h l = some t2) : t1 = t2 := by
  rw [h1] at h2; injection h2

/-- Non-vacuity: a concrete well-formed trace meeting the hypotheses of `C18_common_lock_orders`. -/
example : runEv (fun _ => none) [Ev.acq 1 7, Ev.acc 1 0, Ev.rel 1 7, Ev.acq 2 7, Ev.acc 2 1, Ev.rel 2 7] ≠ none := by
  decide
