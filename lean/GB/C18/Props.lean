import GB.C18.Proofs
import GB.C18.HBProofs
import GB.Generated.Lockset
import GB.Generated.Facts
import GB.C02.Props   -- CONFINEMENT BACKING block at the end of this file
import GB.C10.Props   -- idem
import GB.C15.Props   -- idem
import GB.C16.Props   -- idem
/-
  C18 — property theorems. PARTIAL by nature (DESIGN.md 5.18): data-race freedom over all
  multi-core schedules is a property of the runtime; what is proved here is
   (1) the lock discipline of the regenerated access table: every conflicting pair of accesses to a
       plain field of the shared structs is ordered by a common mutex or by a listed confinement row,
       except the explicitly listed known-unprotected pairs (genuine finding, see known_findings.json);
   (2) why (1) suffices for mutex-protected pairs: in every well-formed mutex trace two accesses by
       different threads under a common mutex are separated by an Unlock/Lock pair (a happens-before edge).
  The single-owner use of streams by Forward is an invariant of the Forward LTS (GB.C01/C02).
-/
open GB GB.C18

def C18_table : List Acc := GB.Generated.accesses.map (fun a => ⟨a.field, a.fn, a.write, a.locks, a.own, a.fresh, a.pre, a.post, a.roots⟩)

/-- The extractor type-checked every package without errors. -/
theorem C18_lockset_loaded : GB.Generated.locksetLoadErrors = 0 := by decide

/-- No package-level slice or map is handed out by reference (stored into an object, a variable or
    returned without cloning): the per-object confinement rows are only sound when every object owns its
    state. (Added after seeded change C18-m3 made every Resolver share the package-level
    `reflectionMethods` slice as its `methodPriority`.) -/
theorem C18_no_shared_globals : GB.Generated.globalAliases = [] := by decide

/-- No `x = append(y, …)` in any non-test package where `y` is a field, a package-level variable or a parameter,
    `x` is not `y` itself and `y`'s capacity is not clipped (`y[:n:n]`, `slices.Clip/Clone/Concat`): such a result
    shares `y`'s backing array with `y` and with every other result as soon as `y` has spare capacity — objects that
    look independent then write into each other (fix D34: `bridgelog.wrappedLogger.With`, where the per-target and
    per-request loggers derived from one user-supplied logger raced; seeded change C18-m6: `AdaptedClientPool.New`). -/
theorem C18_no_aliasing_appends : GB.Generated.aliasingAppends = [] := by decide

/-- Lock discipline over the table regenerated from the sources in this run.
    Full statement wanted: `∀ a b ∈ table, conflict a b → protectedPair a b`; it failed before fix D21
    (see `C18_writtenStatus_needs_fence`), so the proved statement excuses exactly the listed pairs
    (`knownUnprotected`, EMPTY since fix D21: see `C18_lockset` for the full statement). -/
theorem C18_lockset_partial : allPairsOk C18_table = true := by decide +kernel

/-- Unfolded form of the above. -/
theorem C18_lockset_partial_forall (a b : Acc) (ha : a ∈ C18_table) (hb : b ∈ C18_table)
    (hc : conflict a b = true) (hk : isKnown a b = false) : protectedPair a b = true := by
  have h := C18_lockset_partial
  unfold allPairsOk at h
  rw [List.all_eq_true] at h
  have h1 := h a ha
  rw [List.all_eq_true] at h1
  have h2 := h1 b hb
  simp only [pairOk, hc, hk, Bool.not_true, Bool.false_or, Bool.or_false] at h2
  exact h2

/-- Full statement over the regenerated table: EVERY conflicting pair is ordered by a common own-mutex or by a
    confinement row — no excused pair is left (the list of known-unprotected pairs is empty since fix D21). -/
theorem C18_lockset (a b : Acc) (ha : a ∈ C18_table) (hb : b ∈ C18_table) (hc : conflict a b = true) :
    protectedPair a b = true :=
  C18_lockset_partial_forall a b ha hb hc (by simp [isKnown, knownUnprotected])

/-- What fix D21 was about, kept as a kernel-checked statement about the table: the response wrapper's `writtenStatus`
    flag is written on the send side (`responseWrapper.Write`) and read by the handler's error path (`writeError`) and
    NO mutex of its own struct orders the two — the pair is ordered only by the stream's `finish()` fence (confinement
    row backed by `C18_backing_handler_fence`). Before the fix that row did not exist and the pair was a data race
    (race detector scenario `straggler-http`). -/
theorem C18_writtenStatus_needs_fence :
    ∃ a b, a ∈ C18_table ∧ b ∈ C18_table ∧ conflict a b = true ∧ commonLock a b = false ∧ confined a b = true := by
  refine ⟨⟨"webbridge.responseWrapper.writtenStatus", "webbridge.responseWrapper.Write", true, [], [], false, [], [], ["webbridge.responseWrapper.Write"]⟩,
          ⟨"webbridge.responseWrapper.writtenStatus", "webbridge.writeError", false, [], [], false, ["call:Forward"], [], ["webbridge.TranscodedHTTPBridge.ServeHTTP"]⟩, ?_, ?_, ?_, ?_, ?_⟩
  · decide +kernel
  · decide +kernel
  · decide
  · decide
  · decide

theorem runEv_append (h : Holders) (xs ys : List Ev) :
    runEv h (xs ++ ys) = (runEv h xs).bind (fun h' => runEv h' ys) := by
  induction xs generalizing h with
  | nil => simp [runEv]
  | cons x xs ih =>
    simp only [List.cons_append, runEv]
    cases stepEv h x with
    | none => simp
    | some h' => simp [ih]

/-- Why a common mutex is enough: for EVERY well-formed trace (any number of threads, mutexes and
    events), if thread `t1` performs an access while holding `l` and later a different thread `t2`
    performs an access while holding `l`, then between the two accesses `t1` released `l` and `t2`
    acquired it afterwards — the Unlock→Lock edge of the Go memory model orders the accesses. -/
theorem C18_common_lock_orders (pre mid post : List Ev) (t1 t2 a b l : Nat) (hne : t1 ≠ t2)
    (h0 hA hB hEnd : Holders)
    (hpre : runEv h0 pre = some hA) (hheldA : hA l = some t1)
    (hmid : runEv hA (Ev.acc t1 a :: mid) = some hB) (hheldB : hB l = some t2)
    (_hrest : runEv hB (Ev.acc t2 b :: post) = some hEnd) :
    ∃ m1 m2 m3, mid = m1 ++ Ev.rel t1 l :: (m2 ++ Ev.acq t2 l :: m3) := by
  simp only [runEv, stepEv] at hmid
  exact release_acquire_between mid hA hB t1 t2 l hne hmid hheldA hheldB

/-- Mutual exclusion itself: two different threads never hold the same mutex (holders is a function). -/
theorem C18_mutex_exclusive (h : Holders) (l t1 t2 : Nat) (h1 : h l = some t1) (h2 : h l = some t2) : t1 = t2 := by
  rw [h1] at h2; injection h2

/-- Non-vacuity: a concrete well-formed trace meeting the hypotheses of `C18_common_lock_orders`. -/
example : runEv (fun _ => none) [Ev.acq 1 7, Ev.acc 1 0, Ev.rel 1 7, Ev.acq 2 7, Ev.acc 2 1, Ev.rel 2 7] ≠ none := by
  decide


/-! ## Happens-before beyond mutexes (trace model GB/C18/HB.lean)

  Shape of every lemma (the same as `C18_common_lock_orders`): `sA` is the state right after the first access,
  `mid` the well-formed segment up to the acquire-side operation `q`, which is enabled in `sB`. If `q` was NOT enabled
  in `sA`, then `mid` contains the matching release-side operation — so: first access → (program order) release op →
  acquire op `q` → (program order) second access. Threads, objects, values and segment lengths are universal. -/

theorem C18_hb_chan_send_recv (mid : List HB.Ev) (sA sB sC : HB.St) (t c : Nat)
    (hmid : HB.run sA mid = some sB) (hempty : sA.queued c = 0) (hq : HB.step sB (.recv t c) = some sC) :
    ∃ t' m1 m2, mid = m1 ++ HB.Ev.send t' c :: m2 := by
  have hB : sB.queued c ≠ 0 := by
    have := (HB.step_core hq).1; simp only [HB.stepCore] at this; split at this
    · cases this
    · assumption
  obtain ⟨m1, e, m2, rfl, he⟩ := HB.enabler_between (fun s => decide (s.queued c ≠ 0))
    (fun e => match e with | .send _ c' => decide (c' = c) | _ => false)
    (by
      intro s e s' hs h0 h1
      have hc := (HB.step_core hs).1
      simp only [decide_eq_false_iff_not, Decidable.not_not, decide_eq_true_eq] at h0 h1
      cases e <;> simp only [HB.stepCore] at hc <;> (try split at hc) <;> (try cases hc) <;> (try exact absurd h0 h1)
      all_goals (simp only [HB.upd] at h1; split at h1 <;> simp_all <;> omega))
    mid sA sB hmid (by simp [hempty]) (by simp [hB])
  cases e <;> simp at he
  subst he
  exact ⟨_, m1, m2, rfl⟩

/-- close → receive-of-closed. -/
theorem C18_hb_close_recv (mid : List HB.Ev) (sA sB sC : HB.St) (t c : Nat)
    (hmid : HB.run sA mid = some sB) (hopen : sA.closed c = false) (hq : HB.step sB (.recvClosed t c) = some sC) :
    ∃ t' m1 m2, mid = m1 ++ HB.Ev.close t' c :: m2 := by
  have hB : sB.closed c = true := by
    have := (HB.step_core hq).1; simp only [HB.stepCore] at this; split at this
    · rename_i h; exact h.1
    · cases this
  obtain ⟨m1, e, m2, rfl, he⟩ := HB.enabler_between (fun s => s.closed c)
    (fun e => match e with | .close _ c' => decide (c' = c) | _ => false)
    (by
      intro s e s' hs h0 h1
      have hc := (HB.step_core hs).1
      cases e <;> simp only [HB.stepCore] at hc <;> (try split at hc) <;> (try cases hc) <;> (try (rw [h0] at h1; cases h1))
      all_goals (simp only [HB.upd] at h1; split at h1 <;> simp_all))
    mid sA sB hmid hopen hB
  cases e <;> simp at he
  subst he
  exact ⟨_, m1, m2, rfl⟩

/-- sync.Once / sync.OnceFunc: a call returns only after the (single) execution of the function completed. -/
theorem C18_hb_once (mid : List HB.Ev) (sA sB sC : HB.St) (t o : Nat)
    (hmid : HB.run sA mid = some sB) (hnot : sA.once o ≠ 2) (hq : HB.step sB (.onceRet t o) = some sC) :
    ∃ t' m1 m2, mid = m1 ++ HB.Ev.onceEnd t' o :: m2 := by
  have hB : sB.once o = 2 := by
    have := (HB.step_core hq).1; simp only [HB.stepCore] at this; split at this
    · assumption
    · cases this
  obtain ⟨m1, e, m2, rfl, he⟩ := HB.enabler_between (fun s => decide (s.once o = 2))
    (fun e => match e with | .onceEnd _ o' => decide (o' = o) | _ => false)
    (by
      intro s e s' hs h0 h1
      have hc := (HB.step_core hs).1
      simp only [decide_eq_false_iff_not, decide_eq_true_eq] at h0 h1
      cases e <;> simp only [HB.stepCore] at hc <;> (try split at hc) <;> (try cases hc) <;> (try exact absurd h1 h0)
      all_goals (simp only [HB.upd] at h1; split at h1 <;> simp_all))
    mid sA sB hmid (by simp [hnot]) (by simp [hB])
  cases e <;> simp at he
  subst he
  exact ⟨_, m1, m2, rfl⟩

/-- …and the function of a Once runs at most once in any well-formed trace (so "the" execution is well defined). -/
theorem C18_once_runs_once (es : List HB.Ev) (s s' : HB.St) (o : Nat) (hr : HB.run s es = some s') :
    HB.onceRuns o es ≤ 1 := HB.onceRuns_le_one es s s' o hr

/-- sync.WaitGroup: `Wait` returns only after a `Done` when the counter was positive. -/
theorem C18_hb_waitgroup (mid : List HB.Ev) (sA sB sC : HB.St) (t w : Nat)
    (hmid : HB.run sA mid = some sB) (hpos : sA.wg w ≠ 0) (hq : HB.step sB (.wgWait t w) = some sC) :
    ∃ t' m1 m2, mid = m1 ++ HB.Ev.wgDone t' w :: m2 := by
  have hB : sB.wg w = 0 := by
    have := (HB.step_core hq).1; simp only [HB.stepCore] at this; split at this
    · assumption
    · cases this
  obtain ⟨m1, e, m2, rfl, he⟩ := HB.enabler_between (fun s => decide (s.wg w = 0))
    (fun e => match e with | .wgDone _ w' => decide (w' = w) | _ => false)
    (by
      intro s e s' hs h0 h1
      have hc := (HB.step_core hs).1
      simp only [decide_eq_false_iff_not, decide_eq_true_eq] at h0 h1
      cases e <;> simp only [HB.stepCore] at hc <;> (try split at hc) <;> (try cases hc) <;> (try exact absurd h1 h0)
      all_goals (simp only [HB.upd] at h1; split at h1 <;> simp_all <;> omega))
    mid sA sB hmid (by simp [hpos]) (by simp [hB])
  cases e <;> simp at he
  subst he
  exact ⟨_, m1, m2, rfl⟩

/-- `go` statement: a goroutine's first step comes after the statement that started it. -/
theorem C18_hb_spawn (mid : List HB.Ev) (sA sB sC : HB.St) (e2 : HB.Ev)
    (hmid : HB.run sA mid = some sB) (hnot : sA.started e2.thread = false) (hq : HB.step sB e2 = some sC) :
    ∃ t' m1 m2, mid = m1 ++ HB.Ev.spawn t' e2.thread :: m2 := by
  have hB : sB.started e2.thread = true := (HB.step_core hq).2
  obtain ⟨m1, e, m2, rfl, he⟩ := HB.enabler_between (fun s => s.started e2.thread)
    (fun e => match e with | .spawn _ c' => decide (c' = e2.thread) | _ => false)
    (by
      intro s e s' hs h0 h1
      have hc := (HB.step_core hs).1
      cases e <;> simp only [HB.stepCore] at hc <;> (try split at hc) <;> (try cases hc) <;> (try (rw [h0] at h1; cases h1))
      all_goals (simp only [HB.upd] at h1; split at h1 <;> simp_all))
    mid sA sB hmid hnot hB
  cases e <;> simp at he
  subst he
  exact ⟨_, m1, m2, rfl⟩

/-- atomics (release/acquire): a load that observes `v` comes after a store of `v` when `x` did not hold `v` before. -/
theorem C18_hb_atomic_store_load (mid : List HB.Ev) (sA sB sC : HB.St) (t x v : Nat)
    (hmid : HB.run sA mid = some sB) (hne : sA.val x ≠ v) (hq : HB.step sB (.load t x v) = some sC) :
    ∃ t' m1 m2, mid = m1 ++ HB.Ev.store t' x v :: m2 := by
  have hB : sB.val x = v := by
    have := (HB.step_core hq).1; simp only [HB.stepCore] at this; split at this
    · assumption
    · cases this
  obtain ⟨m1, e, m2, rfl, he⟩ := HB.enabler_between (fun s => decide (s.val x = v))
    (fun e => match e with | .store _ x' v' => decide (x' = x ∧ v' = v) | _ => false)
    (by
      intro s e s' hs h0 h1
      have hc := (HB.step_core hs).1
      simp only [decide_eq_false_iff_not, decide_eq_true_eq] at h0 h1
      cases e <;> simp only [HB.stepCore] at hc <;> (try split at hc) <;> (try cases hc) <;> (try exact absurd h1 h0)
      all_goals (simp only [HB.upd] at h1; split at h1 <;> simp_all))
    mid sA sB hmid (by simp [hne]) (by simp [hB])
  cases e <;> simp at he
  obtain ⟨h1, h2⟩ := he; subst h1; subst h2
  exact ⟨_, m1, m2, rfl⟩

/-- context: `<-ctx.Done()` returns only after the cancellation. -/
theorem C18_hb_ctx_cancel_done (mid : List HB.Ev) (sA sB sC : HB.St) (t c : Nat)
    (hmid : HB.run sA mid = some sB) (hlive : sA.cancelled c = false) (hq : HB.step sB (.ctxDone t c) = some sC) :
    ∃ t' m1 m2, mid = m1 ++ HB.Ev.cancel t' c :: m2 := by
  have hB : sB.cancelled c = true := by
    have := (HB.step_core hq).1; simp only [HB.stepCore] at this; split at this
    · assumption
    · cases this
  obtain ⟨m1, e, m2, rfl, he⟩ := HB.enabler_between (fun s => s.cancelled c)
    (fun e => match e with | .cancel _ c' => decide (c' = c) | _ => false)
    (by
      intro s e s' hs h0 h1
      have hc := (HB.step_core hs).1
      cases e <;> simp only [HB.stepCore] at hc <;> (try split at hc) <;> (try cases hc) <;> (try (rw [h0] at h1; cases h1))
      all_goals (simp only [HB.upd] at h1; split at h1 <;> simp_all))
    mid sA sB hmid hlive hB
  cases e <;> simp at he
  subst he
  exact ⟨_, m1, m2, rfl⟩

/-- Non-vacuity, and the resolver's wake-up chain as ONE well-formed trace: main (0) arms generation 1 (plain write `acc 0 1`,
    atomic store of notify), starts the poller (1) and a ResolveNow caller (2); the caller loads notify, wins the once, reads the
    channel field (`acc 2 2`), closes it; the poller's receive observes the close and only then writes the field again (`acc 1 3`). -/
example : HB.run HB.St.init [.acc 0 1, .store 0 9 1, .spawn 0 1, .spawn 0 2, .load 2 9 1, .onceBegin 2 5, .acc 2 2, .close 2 7,
    .onceEnd 2 5, .onceRet 2 5, .recvClosed 1 7, .acc 1 3, .store 1 9 2] ≠ none := by decide
/-- …and the same trace with the poller re-arming BEFORE the close is observed is still well-formed as a trace (nothing in the
    primitives forbids it): it is the code's select/receive placement that excludes it — the CHECKED row `hbRows`. -/
example : HB.run HB.St.init [.spawn 0 1, .recvClosed 1 7] = none := by decide
example : HB.run HB.St.init [.wgAdd 0 3 1, .spawn 0 1, .acc 1 0, .wgDone 1 3, .wgWait 0 3, .acc 0 1, .send 0 4, .recv 1 4,
    .cancel 0 6, .ctxDone 1 6] ≠ none := by decide


/-! ## CHECKED confinement rows (happens-before operations regenerated per access) and published-object immutability -/

/-- Which rows of the confinement table are CHECKED against the regenerated pre/post/roots columns (the rest is prose backed by
    other slices' invariants or trusted). -/
theorem C18_checked_rows :
    (confinement.filter (fun c => c.mech.isChecked)).map (·.field) =
      ["reflection.Resolver.lastProtoHash", "reflection.Resolver.lastServicesHash", "reflection.Resolver.methodPriority",
       "reflection.Resolver.resolveNow", "webbridge.gRPCWebStream.trailer"] := by decide

/-- Every name pair of `syncPairs` is a release/acquire pair on ONE object: atomic store → load (`C18_hb_atomic_store_load`),
    close → receive (`C18_hb_close_recv`). -/
theorem C18_sync_pairs_are_edges :
    syncPairs = [("store:" ++ "reflection.Resolver.notifyResolveNow", "load:" ++ "reflection.Resolver.notifyResolveNow"),
                 ("close:" ++ "reflection.Resolver.resolveNow", "recv:" ++ "reflection.Resolver.resolveNow")] := by decide

def C18_wakeupOk (t : List Acc) : Bool := t.all fun a => t.all fun b =>
  !(conflict a b && a.field == "reflection.Resolver.resolveNow") ||
  ((a.roots == ["go1:reflection.Resolver.watch"] && b.roots == ["go1:reflection.Resolver.watch"]) || (edgeTo a b && edgeTo b a))

/-- The resolver's wake-up row, CHECKED on the regenerated table: every conflicting pair of accesses to `Resolver.resolveNow`
    (the poller re-arming the channel in `newResolveNow`, the once-closure of a `ResolveNow` caller reading it to close it, the
    poller's `select` reading it) either runs on the one poller goroutine of the object (`go1:` = the single `go r.watch()` on the
    still unpublished Resolver), or is ordered BOTH ways by a release/acquire pair: the write is followed by the atomic
    `notifyResolveNow.Store` and the closure is entered only through a `Load` of it; the closure's read is followed by
    `close(r.resolveNow)` and the next write is dominated by the receive from that channel. Moving `r.newResolveNow()` out from
    under `case <-r.resolveNow:` removes "recv" from the write's `pre` column and this theorem (and `C18_lockset_partial`) fails
    with the pair newResolveNow / newResolveNow#1 named by the driver. -/
theorem C18_wakeup_row_checked : C18_wakeupOk C18_table = true := by decide +kernel

theorem C18_wakeup_row_forall (a b : Acc) (ha : a ∈ C18_table) (hb : b ∈ C18_table) (hc : conflict a b = true)
    (hf : a.field = "reflection.Resolver.resolveNow") :
    (a.roots = ["go1:reflection.Resolver.watch"] ∧ b.roots = ["go1:reflection.Resolver.watch"]) ∨
    (edgeTo a b = true ∧ edgeTo b a = true) := by
  have h := C18_wakeup_row_checked
  unfold C18_wakeupOk at h
  rw [List.all_eq_true] at h
  have h1 := h a ha
  rw [List.all_eq_true] at h1
  have h2 := h1 b hb
  simp only [hc, hf, beq_self_eq_true, Bool.and_self, Bool.not_true, Bool.false_or, Bool.or_eq_true, Bool.and_eq_true,
    beq_iff_eq] at h2
  exact h2

/-- Non-vacuity: the cross-goroutine pair is in the table, and it is ordered by edges, not by the single-goroutine clause. -/
theorem C18_wakeup_pair_edges :
    ∃ w r, w ∈ C18_table ∧ r ∈ C18_table ∧ w.fn = "reflection.Resolver.newResolveNow" ∧ w.write = true ∧ w.fresh = false ∧
      r.fn = "reflection.Resolver.newResolveNow#1" ∧ conflict w r = true ∧ edgeTo w r = true ∧ edgeTo r w = true ∧
      r.pre.contains "once" = true := by
  refine ⟨⟨"reflection.Resolver.resolveNow", "reflection.Resolver.newResolveNow", true, [], [], false,
      ["recv:reflection.Resolver.resolveNow"], ["store:reflection.Resolver.notifyResolveNow"], ["go1:reflection.Resolver.watch"]⟩,
    ⟨"reflection.Resolver.resolveNow", "reflection.Resolver.newResolveNow#1", false, [], [], false,
      ["load:reflection.Resolver.notifyResolveNow", "once"], ["close:reflection.Resolver.resolveNow"], ["reflection.Resolver.newResolveNow#1"]⟩,
    ?_, ?_, rfl, rfl, rfl, rfl, ?_, ?_, ?_, ?_⟩
  · decide +kernel
  · decide +kernel
  · decide
  · decide
  · decide
  · decide

/-- The other CHECKED rows as one statement over the regenerated table: a conflicting pair that lies in a checked row by name is
    accepted only through that row's check (goroutine root / edges / dominated by the call of Forward) or a common own-mutex. -/
theorem C18_checked_rows_hold :
    (C18_table.all fun a => C18_table.all fun b =>
      !conflict a b || commonLock a b || !(confinement.any fun c => rowOf c a b && c.mech.isChecked) ||
      (confinement.any fun c => rowOf c a b && c.mech.isChecked && mechOk c.mech a b)) = true := by decide +kernel

/-- "pump, then handler after Forward returned": `ProxyForwarder.Forward` defers `wg.Wait()` and each of its two pump goroutines
    defers `wg.Done()` (`C18_hb_waitgroup`: Wait returns after the Dones), regenerated from grpcadapter/forwarder.go. -/
theorem C18_forward_joins :
    GB.Generated.goJoins.find? (fun j => j.1 == "grpcadapter.ProxyForwarder.Forward") =
      some ("grpcadapter.ProxyForwarder.Forward", ["wait:$wg"],
        [("grpcadapter.ProxyForwarder.Forward#1", ["done:$wg"]), ("grpcadapter.ProxyForwarder.Forward#2", ["done:$wg"])]) := by
  decide

/-- Objects published to lock-free readers are immutable: over all tracked packages there is NO write (field or element level)
    to a non-fresh object of a published type outside a mutex of that object, NO `e[:0]` re-slicing of a slice somebody else may
    hold (retained backing array reused for the next version), and NO aliasing append (D34). Published types = struct types
    stored into an atomic.Pointer / atomic.Value / sync.Map, closed under reachability through fields, plus the element types
    the pattern table publishes through `container/list` values. -/
theorem C18_published_immutable : GB.Generated.postPublicationWrites = [] := by decide

theorem C18_published_types :
    GB.Generated.publishedTypes = ["grpcadapter.AdaptedClientConn", "grpcadapter.adaptedClientState", "routing.patternRoute",
      "routing.serviceRoute", "routing.staticPatternRoutingTable", "routing.targetPatternRoutes"] := by decide


/-- WaitGroup discipline of every function that starts goroutines from literals and defers `wg.Wait()`: each of its
    goroutine literals defers `wg.Done()` (regenerated; with `C18_hb_waitgroup`: everything the goroutines did
    happens-before the function's return). Covers `ProxyForwarder.Forward` and the reflection client's request pumps. -/
theorem C18_waitgroup_discipline :
    (GB.Generated.goJoins.all fun j => !j.2.1.contains "wait:$wg" || (j.2.2.length > 0 && j.2.2.all fun l => l.2.contains "done:$wg")) = true ∧
    (GB.Generated.goJoins.filter fun j => j.2.1.contains "wait:$wg").map (·.1) =
      ["grpcadapter.ProxyForwarder.Forward", "reflection.client.execFileDescriptorRequests"] := by decide

/-- The construction-time write of the wake-up channel: `Build` calls `newResolveNow` on the still unpublished Resolver and the
    `go r.watch()` statement FOLLOWS it (`C18_hb_spawn`: the poller's first step comes after the spawn). -/
theorem C18_build_write_then_spawn :
    ∃ w, w ∈ C18_table ∧ w.fn = "reflection.Resolver.newResolveNow" ∧ w.write = true ∧ w.fresh = true ∧
      w.roots = ["reflection.ResolverBuilder.Build"] ∧ w.post.contains "go:reflection.Resolver.watch" = true := by
  refine ⟨⟨"reflection.Resolver.resolveNow", "reflection.Resolver.newResolveNow", true, [], [], true, [],
    ["go:reflection.Resolver.watch", "store:reflection.Resolver.notifyResolveNow"], ["reflection.ResolverBuilder.Build"]⟩,
    ?_, rfl, rfl, rfl, rfl, ?_⟩
  · decide +kernel
  · decide

/-! ### The wake-up chain, composed from the ordering lemmas (all well-formed traces) -/

theorem C18_run_split (s0 s1 : HB.St) (X Y : List HB.Ev) (e : HB.Ev) (h : HB.run s0 (X ++ e :: Y) = some s1) :
    ∃ sB sC, HB.run s0 X = some sB ∧ HB.step sB e = some sC := by
  rw [HB.run_append] at h
  cases hx : HB.run s0 X with
  | none => simp [hx] at h
  | some sB =>
    simp only [hx, Option.bind_some, HB.run] at h
    cases hs : HB.step sB e with
    | none => simp [hs] at h
    | some sC => exact ⟨sB, sC, rfl, hs⟩

/-- write → read: if every store of the closure value `v` into the atomic `x` is preceded (program order of `newResolveNow`) by
    the plain write `w` of the channel field, then in EVERY well-formed trace the write has happened before a caller's load
    observes `v` — and the closure's read comes after that load in the caller's program order. -/
theorem C18_wakeup_write_before_read (X Y : List HB.Ev) (s0 s1 : HB.St) (p c x v w : Nat)
    (hrun : HB.run s0 (X ++ HB.Ev.load c x v :: Y) = some s1) (hx : s0.val x ≠ v)
    (hpo : ∀ t U1 U2, X = U1 ++ HB.Ev.store t x v :: U2 → HB.Ev.acc p w ∈ U1) : HB.Ev.acc p w ∈ X := by
  obtain ⟨sB, sC, hX, hs⟩ := C18_run_split s0 s1 X Y _ hrun
  obtain ⟨t', m1, m2, hm⟩ := C18_hb_atomic_store_load X s0 sB sC c x v hX hx hs
  have := hpo t' m1 m2 hm
  rw [hm]; exact List.mem_append_left _ this

/-- read → next write: if every `close` of the wake-up channel is preceded (program order of the once-closure) by the closure's
    read `r` of the channel field, then in EVERY well-formed trace that read has happened before the poller's receive observes
    the close — and the re-arming write comes after that receive in the poller's program order (the CHECKED `recv` in `pre`). -/
theorem C18_wakeup_read_before_rearm (X Y : List HB.Ev) (s0 s1 : HB.St) (p c ch r : Nat)
    (hrun : HB.run s0 (X ++ HB.Ev.recvClosed p ch :: Y) = some s1) (hopen : s0.closed ch = false)
    (hpo : ∀ t U1 U2, X = U1 ++ HB.Ev.close t ch :: U2 → HB.Ev.acc c r ∈ U1) : HB.Ev.acc c r ∈ X := by
  obtain ⟨sB, sC, hX, hs⟩ := C18_run_split s0 s1 X Y _ hrun
  obtain ⟨t', m1, m2, hm⟩ := C18_hb_close_recv X s0 sB sC p ch hX hopen hs
  have := hpo t' m1 m2 hm
  rw [hm]; exact List.mem_append_left _ this

/-- "pump, then handler after Forward returned": if every `Done` of the WaitGroup is preceded by the pump's write `a`, the write
    has happened before `Wait` returns (counter positive when the pump was started). -/
theorem C18_pump_write_before_wait (X Y : List HB.Ev) (s0 s1 : HB.St) (h g wgp a : Nat)
    (hrun : HB.run s0 (X ++ HB.Ev.wgWait h wgp :: Y) = some s1) (hpos : s0.wg wgp ≠ 0)
    (hpo : ∀ t U1 U2, X = U1 ++ HB.Ev.wgDone t wgp :: U2 → HB.Ev.acc g a ∈ U1) : HB.Ev.acc g a ∈ X := by
  obtain ⟨sB, sC, hX, hs⟩ := C18_run_split s0 s1 X Y _ hrun
  obtain ⟨t', m1, m2, hm⟩ := C18_hb_waitgroup X s0 sB sC h wgp hX hpos hs
  have := hpo t' m1 m2 hm
  rw [hm]; exact List.mem_append_left _ this

/-- sync.WaitGroup, full form: when `Wait` returns, at least as many `Done`s have happened since any earlier point as the counter
    held there — with ONE deferred `Done` per pump goroutine (`C18_waitgroup_discipline`) that is every pump's `Done`. -/
theorem C18_hb_waitgroup_all (mid : List HB.Ev) (sA sB sC : HB.St) (t w : Nat)
    (hmid : HB.run sA mid = some sB) (hq : HB.step sB (.wgWait t w) = some sC) :
    sA.wg w ≤ HB.wgDones w mid := by
  have hB : sB.wg w = 0 := by
    have := (HB.step_core hq).1; simp only [HB.stepCore] at this; split at this
    · assumption
    · cases this
  have := HB.wg_balance mid sA sB w hmid
  omega


/-! ## CONFINEMENT BACKING block: the non-mutex ordering arguments of `GB.C18.confinement`, as theorems of the
    models that own them

  The rows of the confinement table (GB/C18/Model.lean) name an ordering mechanism instead of a mutex. Four of the
  mechanisms are invariants of LTS models proved in other slices (each tied to the code by its own slice's
  correspondence run); they are restated here so that the lock-discipline result rests on kernel-checked statements
  rather than on a comment:

   * "send side / receive side, single owner" ........ `C18_backing_single_owner`, `C18_backing_incoming_call_rules`
   * "pump, then handler after Forward returned" ..... `C18_backing_handler_after_pumps`
   * "atomic publish + once + channel close→receive" . `C18_backing_wakeup_protocol`
   * "poller goroutine only" ......................... `C18_backing_one_poller_per_target`

  Not backed by a theorem (trusted, listed in the trusted base): "construction-time options" (Go evaluates option
  closures inside the constructor call), "function-local builder", "gws read loop goroutine only" (library contract of
  lxzan/gws with ParallelEnabled = false). -/
section ConfinementBacking
open GB.Fwd

/-- Single owner of the stream operations inside Forward, in every reachable state (any client, target, schedule):
    `Incoming.Recv` / `outgoing.Send` / `outgoing.CloseSend` are called by the main goroutine only while the request
    pump does not exist (or has exited); everything on the response side is called by the response pump only
    (by construction of the step function). -/
theorem C18_backing_single_owner {M E : Type} [DecidableEq M] [DecidableEq E] (p : Params) (s : State M E)
    (hr : Reachable p s) :
    (s.main = .uRecvPending → s.i2o = .absent) ∧ (s.main = .uSendPending → s.i2o = .absent) ∧
    (s.main = .uCloseSend → s.i2o = .absent) ∧ (s.main = .loopCloseSend → s.i2o = .exited) :=
  C02_single_owner p s hr

/-- …and as a language statement on the incoming stream of the transcoding bridges (methods that are not
    client-streaming): the calls Forward makes form a word of the discipline automaton — `Recv` once and first,
    `SetHeader/SetTrailer/Send` never while a `Send` is pending, nothing after the return. -/
theorem C18_backing_incoming_call_rules {M E : Type} [DecidableEq M] [DecidableEq E] (p : Params) (hcs : p.cs = false)
    (tr : List (Label M E)) (s : State M E) (h : Run p tr s) :
    GB.C10.HS.drun GB.C10.HS.dinit (tr.filterMap GB.C10.HS.kindOf) = some (GB.C10.HS.discOf s) :=
  C10_forward_call_rules p hcs tr s h

/-- "pump, then handler after Forward returned": when Forward has returned, both pumps have exited (wg.Wait), so
    whatever the handler reads afterwards (`trailer`, the stream's flags) was written before — and while a pump is
    still running Forward has not returned. -/
theorem C18_backing_handler_after_pumps {M E : Type} [DecidableEq M] [DecidableEq E] (p : Params) (s : State M E)
    (hr : Reachable p s) :
    (isDone s = true → pumpsGone s = true) ∧ (pumpsGone s = false → isDone s = false) :=
  ⟨fun hd => (C02_cleanup p s hr hd).2.1, C02_no_return_before_pumps p s hr⟩

/-- "atomic publish + once + channel close→receive": a `ResolveNow` caller that won the once of generation `g` finds
    `g` still current — the poller has not re-armed (not written `r.resolveNow` again) before this very close. -/
theorem C18_backing_wakeup_protocol (manual : Bool) (s : GB.C15.W)
    (h : GB.LTS.Reachable GB.C15.step (GB.C15.W.init manual) s) (i : Nat) (hw : (s.callers i).pc = .won) :
    (s.callers i).gen = s.cur ∧ s.ppc ≠ .woken ∧ s.ppc ≠ .madeChan :=
  C15_winner_closes_armed_channel manual s h i hw

/-- "poller goroutine only": after any Add/Remove history the live pollers are exactly one per present target
    (so `lastProtoHash`, `lastServicesHash`, `methodPriority` of a Resolver have one goroutine touching them). -/
theorem C18_backing_one_poller_per_target (ops : List GB.C16.ROp) (N : Nat) (hN : ∀ op ∈ ops, GB.C16.opName op < N) :
    GB.C16.pollers (GB.C16.afterR true ops) = GB.C16.targetCount (GB.C16.afterR true ops) N :=
  (C16_pollers_eq_present ops N hN).1

/-- "send side, then handler after the stream's finish() fence": in the httpStream LTS of the repaired code (any schedule,
    abandoned sends included) nothing touches the ResponseWriter after the handler returned, the handler reads
    `writtenStatus` only after `finish()`, and a helper never marks or writes once `finished` is set. -/
theorem C18_backing_handler_fence (cfg : GB.C10.HS.Cfg) (hfx : cfg.fx = true) (s : GB.C10.HS.St)
    (h : GB.C10.HS.Reachable cfg s) :
    (s.finished = true → s.returnedAt = some s.writes) ∧
    (s.fin = true → s.sendHelper.isMarked = false ∧ s.mu = false) ∧ (s.decision.isSome = true → s.fin = true) :=
  ⟨fun hf => C10_no_write_after_return cfg hfx s h hf, (C10_stream_single_writer cfg hfx s h).2.1,
   (C10_stream_single_writer cfg hfx s h).2.2.1⟩

/-- Facts tie for the fence (regenerated from webbridge/http.go and webbridge/grpcweb.go on every run): in both HTTP-based
    handlers the stream's `finish()` is called after `Forward` and before the handler's own write to the response, and both
    `send` methods take the stream's mutex and check `finished` before touching the response. Reverting fix D21 or D30,
    or moving the fence behind the write, breaks this theorem. -/
theorem C18_facts_handler_fence :
    GB.Generated.handlerEpilogues = [("TranscodedHTTPBridge", ["Forward", "finish", "writeError"]),
      ("GRPCWebBridge", ["Forward", "finish", "writeTrailerWithStatus"])] ∧
    GB.Generated.sendFences = [("httpStream", "lock-then-finished-check"), ("gRPCWebStream", "lock-then-finished-check")] := by
  decide

/-- Every confinement row names one of the mechanisms accounted for above or in the trusted base. -/
theorem C18_confinement_mechanisms :
    confinement.all (fun c => ["construction-time options, read-only afterwards", "construction-time options",
      "poller goroutine only (watch → resolve → resolveWithMethod)", "poller goroutine only",
      "atomic publish + once + channel close→receive (C15)", "function-local builder", "gws read loop goroutine only",
      "send side, single owner", "send side, single owner (sendActive guard)",
      "send side, then handler after the stream's finish() fence (C10)",
      "per-request object, receive side single owner",
      "receive side, single owner (recvActive guard)",
      "pump, then handler after Forward returned (wg.Wait)"].contains c.why) = true := by decide

end ConfinementBacking
