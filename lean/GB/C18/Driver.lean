import GB.Base.Proto
import GB.C18.Model
namespace GB.C18
open GB GB.Proto

def parseLocks (s : String) : List String := if s == "-" then [] else s.splitOn ","

/-- `pair <field> <fnA> <wA> <locksA> <ownA> <freshA> <fnB> <wB> <locksB> <ownB> <freshB> => present|absent`
    One conflicting-candidate pair of the regenerated access table; judged with the same
    `conflict` / `protectedPair` definitions the theorem `C18_lockset_partial` is about. -/
def handle : Handler
  | ["pair", f, fa, wa, la, oa, fra, fb, wb, lb, ob, frb], [out] =>
    let a : Acc := ⟨f, fa, wa == "1", parseLocks la, parseLocks oa, fra == "1"⟩
    let b : Acc := ⟨f, fb, wb == "1", parseLocks lb, parseLocks ob, frb == "1"⟩
    if out == "absent" then "OK b=absent"   -- replayed pair no longer exists in the current table
    else if !conflict a b then "OK b=noconflict"
    else if commonLock a b then "OK nt b=mutex"
    else if confined a b then "OK nt b=confined"
    else s!"VIOL unprotected field={f} a={fa} b={fb}"
  | _, _ => "BAD c18 line"

end GB.C18
