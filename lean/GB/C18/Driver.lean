import GB.Base.Proto
namespace GB.C18
open GB GB.Proto

/-- stub: replaced when the C18 slice is built -/
def handle : Handler := fun _ _ => "BAD c18 unimplemented"

end GB.C18
