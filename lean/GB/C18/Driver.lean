import GB.Base.Proto
import GB.C18.Model
namespace GB.C18
open GB GB.Proto

def parseLocks (s : String) : List String := if s == "-" then [] else s.splitOn ","

/-- `pair <field> <fnA> <wA> <locksA> <ownA> <freshA> <preA> <postA> <rootsA> <fnB> … <rootsB> => present|absent`
    One conflicting-candidate pair of the regenerated access table; judged with the same
    `conflict` / `protectedPair` definitions the theorem `C18_lockset_partial` is about. -/
def handle : Handler
  | ["pair", f, fa, wa, la, oa, fra, pa, qa, ra, fb, wb, lb, ob, frb, pb, qb, rb], [out] =>
    let a : Acc := ⟨f, fa, wa == "1", parseLocks la, parseLocks oa, fra == "1", parseLocks pa, parseLocks qa, parseLocks ra⟩
    let b : Acc := ⟨f, fb, wb == "1", parseLocks lb, parseLocks ob, frb == "1", parseLocks pb, parseLocks qb, parseLocks rb⟩
    if out == "absent" then "OK b=absent"   -- replayed pair no longer exists in the current table
    else if !conflict a b then "OK b=noconflict"
    else if commonLock a b then "OK nt b=mutex"
    else if confined a b then
      (if confinement.any (fun c => rowOf c a b && c.mech.isChecked && mechOk c.mech a b) then "OK nt b=confined-checked" else "OK nt b=confined")
    else if rowBroken a b then
      s!"VIOL hb-unordered field={f} a={fa} b={fb} (confinement row present, but the regenerated table does not show its release/acquire operations: a.pre={pa} a.post={qa} a.roots={ra} b.pre={pb} b.post={qb} b.roots={rb})"
    else s!"VIOL unprotected field={f} a={fa} b={fb}"
  | ["ppw", e], [out] =>
    -- one entry of the regenerated list `postPublicationWrites` (must be empty: `C18_published_immutable`)
    if out == "absent" then "OK b=absent" else s!"VIOL post-publication-write {e}"
  | _, _ => "BAD c18 line"

end GB.C18
