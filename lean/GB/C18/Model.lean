import GB.Base.Bytes
/-
  C18 — lock discipline over the regenerated access table (extract/lockset) and the
  happens-before consequence of holding a common mutex.

  `Acc` is one access to a plain (non-synchronised) struct field: field, function, write?,
  mutexes held (intra-procedural + credited from all call sites), object still unpublished?
  Two accesses conflict when they touch the same field, at least one writes, and neither is
  on an unpublished object. A conflict is *protected* when both hold a common mutex, or both
  belong to one row of the hand-written confinement table below (functions that run on one
  goroutine at a time per object, with the reason; every row is part of the trusted base and is
  printed into the evidence).
-/
namespace GB.C18

structure Acc where
  field : String
  fn : String
  write : Bool
  locks : List String
  /-- the held mutexes that are fields of the same struct as `field` (computed by the extractor) -/
  own : List String
  fresh : Bool
  /-- synchronisation operations (not mutexes) that dominate the access in its function / call-site context -/
  pre : List String := []
  /-- synchronisation operations that follow the access (no early exit in between; deferred ones included) -/
  post : List String := []
  /-- goroutine roots the access is reachable from (`go1:f` = started by a `go` statement on a still unpublished object) -/
  roots : List String := []
deriving Repr, DecidableEq

/-- How a confinement row is justified.
    `prose`: a human argument only (trusted base; most are backed by an LTS invariant of another slice, see Props.lean).
    The other three are CHECKED against the regenerated table — the row is accepted for a pair of accesses only if the table
    shows the synchronisation the argument relies on:
    * `goroutine r`: both accesses are reachable only from the goroutine root `r` (`go1:f`: exactly one `go x.f()` per object,
      executed while `x` is still unpublished) — program order on one goroutine;
    * `hb r need`: either both on the single goroutine `r`, or there is a release/acquire edge in BOTH directions: a release-side
      operation follows `a` and its matching acquire-side operation dominates `b`, and vice versa (`syncPairs`); every `(fn, op)`
      of `need` must dominate the accesses of `fn` (e.g. the closure runs under a `sync.OnceFunc`);
    * `afterForward streamFns`: every access is either made by one of the stream methods Forward's pumps call, or is dominated by
      the call of `Forward` in its function (Forward returns after `wg.Wait()`: fact `forwardJoins`). -/
inductive Mech where
  | prose
  | goroutine (root : String)
  | hb (root : String) (need : List (String × String))
  | afterForward (streamFns : List String)
deriving Repr

structure Confine where
  field : String
  fns : List String
  why : String
  mech : Mech := .prose
deriving Repr

/-- Matching release → acquire operation names (as the extractor prints them) that carry a happens-before edge, each an
    instance of an ordering lemma of the trace model GB/C18/HB.lean:
    atomic store → load (`C18_hb_atomic_store_load`), close → receive (`C18_hb_close_recv`). -/
def syncPairs : List (String × String) := [
  ("store:reflection.Resolver.notifyResolveNow", "load:reflection.Resolver.notifyResolveNow"),
  ("close:reflection.Resolver.resolveNow", "recv:reflection.Resolver.resolveNow")]

def syncMatch (r q : String) : Bool := syncPairs.any (fun p => p.1 == r && p.2 == q)

def conflict (a b : Acc) : Bool :=
  a.field == b.field && (a.write || b.write) && !(a.fresh || b.fresh)

/-- Mutexes are named by declaring struct and field, not by instance. A mutex is therefore only credited
    when it is a field of the SAME struct as the accessed field (`mt.mu` guarding `mt.routes`): both are
    then reached through the same object, so the same name means the same mutex instance. A mutex of another
    object (e.g. a per-watcher mutex held while the shared table is touched) is never credited. -/
def commonLock (a b : Acc) : Bool := a.own.any (fun l => b.own.contains l)

/-- Ordering arguments that are not a mutex. Each row: all listed functions access the field of
    one object from one goroutine at a time, ordered by the named mechanism. -/
def confinement : List Confine := [
  -- construction-time configuration: option closures run inside New…()/NewReflectionRouter before
  -- the configured component exists; afterwards the options are only read
  ⟨"grpcadapter.AdaptedClientPoolOpts.DefaultOpts", ["grpcadapter.AdaptedClientPool.New", "grpcbridge.WithDialOpts#1"], "construction-time options, read-only afterwards", .prose⟩,
  ⟨"grpcadapter.AdaptedClientPoolOpts.NewClientFunc", ["grpcadapter.AdaptedClientPool.New", "grpcbridge.WithConnFunc#1"], "construction-time options, read-only afterwards", .prose⟩,
  ⟨"grpcbridge.routerOptions.common", ["grpcbridge.funcOption.applyRouter"], "construction-time options", .prose⟩,
  ⟨"reflection.ResolverOpts.Logger", ["grpcbridge.NewReflectionRouter"], "construction-time options", .prose⟩,
  ⟨"reflection.ResolverOpts.PollInterval", ["grpcbridge.WithReflectionPollInterval#1", "reflection.Resolver.afterInterval"], "construction-time options, read-only afterwards", .prose⟩,
  ⟨"reflection.ResolverOpts.PollManually", ["grpcbridge.WithDisabledReflectionPolling#1", "reflection.Resolver.afterInterval"], "construction-time options, read-only afterwards", .prose⟩,
  -- poller goroutine: exactly one `go r.watch()` per Resolver (Build), these run only below watch()
  ⟨"reflection.Resolver.lastProtoHash", ["reflection.Resolver.resolveWithMethod"], "poller goroutine only (watch → resolve → resolveWithMethod)", .goroutine "go1:reflection.Resolver.watch"⟩,
  ⟨"reflection.Resolver.lastServicesHash", ["reflection.Resolver.resolveWithMethod"], "poller goroutine only", .goroutine "go1:reflection.Resolver.watch"⟩,
  ⟨"reflection.Resolver.methodPriority", ["reflection.Resolver.resolve"], "poller goroutine only", .goroutine "go1:reflection.Resolver.watch"⟩,
  -- wake-up protocol: the field is written by the poller (or by Build before `go watch`), then published by
  -- the atomic store of notifyResolveNow; the OnceFunc closure reads it after the atomic load and before
  -- close(), which happens-before the poller's receive and hence before the next write (C15 wake-up LTS)
  ⟨"reflection.Resolver.resolveNow", ["reflection.Resolver.newResolveNow", "reflection.Resolver.newResolveNow#1", "reflection.Resolver.watch"], "atomic publish + once + channel close→receive (C15)",
    .hb "go1:reflection.Resolver.watch" [("reflection.Resolver.newResolveNow#1", "once"), ("reflection.Resolver.newResolveNow#1", "load:reflection.Resolver.notifyResolveNow")]⟩,
  -- transcoding: option closures run inside NewWebBridge; the request transcoder (one per Bind, i.e. per request) and the
  -- JSON decoder (one per Unmarshal call / per request stream) are objects of ONE request, used by its receive side only
  -- (Forward's request pump, or the main goroutine on the unary path: C18_backing_single_owner). The transcoder itself
  -- (StandardTranscoder.mimeMarshalers etc.) is shared by all requests and must stay read-only after construction: any
  -- write to it shows up in the table as an unprotected pair (seeded change C18-m7).
  ⟨"grpcbridge.options.logger", ["grpcbridge.NewGRPCProxy", "grpcbridge.NewWebBridge", "grpcbridge.NewReflectionRouter", "grpcbridge.WithLogger#1"], "construction-time options, read-only afterwards", .prose⟩,
  ⟨"grpcbridge.options.forwarder", ["grpcbridge.NewGRPCProxy", "grpcbridge.NewWebBridge", "grpcbridge.WithForwarder#1"], "construction-time options, read-only afterwards", .prose⟩,
  ⟨"grpcbridge.proxyOptions.common", ["grpcbridge.funcOption.applyProxy"], "construction-time options", .prose⟩,
  ⟨"grpcbridge.bridgeOptions.common", ["grpcbridge.funcOption.applyBridge"], "construction-time options", .prose⟩,
  ⟨"grpcbridge.forwarderOptions.common", ["grpcbridge.funcOption.applyForwarder"], "construction-time options", .prose⟩,
  ⟨"transcoding.StandardTranscoderOpts.DefaultMarshaler", ["grpcbridge.WithDefaultMarshaler#1"], "construction-time options", .prose⟩,
  ⟨"transcoding.StandardTranscoderOpts.Marshalers", ["grpcbridge.WithMarshalers#1"], "construction-time options", .prose⟩,
  ⟨"transcoding.standardRequestTranscoder.queryFilter", ["transcoding.standardRequestTranscoder.queryParamFilter"], "per-request object, receive side single owner", .prose⟩,
  ⟨"transcoding.jsonDecoder.dec", ["transcoding.jsonDecoder.unmarshalList", "transcoding.jsonDecoder.unmarshalList#1", "transcoding.jsonDecoder.unmarshalMap", "transcoding.jsonDecoder.unmarshalMap#1", "transcoding.jsonDecoder.unmarshalMessage", "transcoding.jsonDecoder.unmarshalScalar"], "per-request object, receive side single owner", .prose⟩,
  -- a builder local to buildPatternRoutes, never shared
  ⟨"routing.patternRouteBuilder.routes", ["routing.patternRouteBuilder.addBinding"], "function-local builder", .prose⟩,
  -- gws ReadLoop goroutine (ParallelEnabled = false ⇒ OnMessage calls are sequential)
  ⟨"webbridge.gRPCWebSocketStream.closed", ["webbridge.gwsGRPCWebHandler.OnMessage", "webbridge.gwsGRPCWebHandler.readMD"], "gws read loop goroutine only", .prose⟩,
  ⟨"webbridge.gRPCWebSocketStream.receivedMD", ["webbridge.gwsGRPCWebHandler.OnMessage", "webbridge.gwsGRPCWebHandler.readMD"], "gws read loop goroutine only", .prose⟩,
  -- send side of a stream: used by the response pump only, one call at a time (Forward LTS single-owner
  -- invariant; httpStream/gwsStream additionally trip the sendActive guard otherwise)
  ⟨"webbridge.gRPCWebSocketStream.header", ["webbridge.gRPCWebSocketStream.SetHeader", "webbridge.gRPCWebSocketStream.send"], "send side, single owner", .prose⟩,
  ⟨"webbridge.gRPCWebSocketStream.sentMD", ["webbridge.gRPCWebSocketStream.send"], "send side, single owner", .prose⟩,
  ⟨"webbridge.httpStream.sent", ["webbridge.httpStream.SetHeader", "webbridge.httpStream.SetTrailer", "webbridge.httpStream.send"], "send side, single owner (sendActive guard)", .prose⟩,
  ⟨"webbridge.httpStream.read", ["webbridge.httpStream.recv"], "receive side, single owner (recvActive guard)", .prose⟩,
  -- written by the response pump, read by the handler after Forward returned (Forward waits for its pumps: C02 cleanup)
  ⟨"webbridge.gRPCWebSocketStream.trailer", ["webbridge.gRPCWebSocketStream.SetTrailer", "webbridge.gRPCWebSocketStream.sendTrailer"], "pump, then handler after Forward returned (wg.Wait)", .prose⟩,
  ⟨"webbridge.gRPCWebStream.trailer", ["webbridge.gRPCWebStream.SetTrailer", "webbridge.GRPCWebBridge.ServeHTTP"], "pump, then handler after Forward returned (wg.Wait)",
    .afterForward ["webbridge.gRPCWebStream.SetTrailer"]⟩,
  -- the send side (the helper goroutine of withCtx, under httpStream.mu / gRPCWebStream.mu) and then the handler's error
  -- path: since fixes D30 (gRPC-Web) and D21 (transcoded HTTP) the handler calls finish() after Forward returned and BEFORE
  -- writeError — finish() takes the stream's mutex and sets `finished`, so a straggling send is waited for or becomes a
  -- no-op (C10 httpStream LTS: C10_stream_single_writer, C10_no_write_after_return). The mutex belongs to the STREAM, not to
  -- responseWrapper, so the lock table cannot credit it (`own`); the ordering is recorded here instead.
  ⟨"webbridge.responseWrapper.writtenStatus", ["webbridge.responseWrapper.Write", "webbridge.responseWrapper.WriteHeader", "webbridge.writeError"], "send side, then handler after the stream's finish() fence (C10)", .prose⟩
]

/-- a release-side operation follows `a` and its matching acquire-side operation dominates `b` -/
def edgeTo (a b : Acc) : Bool := a.post.any (fun r => b.pre.any (fun q => syncMatch r q))

def needOk (need : List (String × String)) (x : Acc) : Bool := need.all (fun n => n.1 != x.fn || x.pre.contains n.2)

/-- the CHECKED part of a row: does the regenerated table show the synchronisation the row's argument relies on? -/
def mechOk (m : Mech) (a b : Acc) : Bool :=
  match m with
  | .prose => true
  | .goroutine r => a.roots == [r] && b.roots == [r]
  | .hb r need => needOk need a && needOk need b && ((a.roots == [r] && b.roots == [r]) || (edgeTo a b && edgeTo b a))
  | .afterForward fns => (fns.contains a.fn || a.pre.contains "call:Forward") && (fns.contains b.fn || b.pre.contains "call:Forward")

def rowOf (c : Confine) (a b : Acc) : Bool := c.field == a.field && c.fns.contains a.fn && c.fns.contains b.fn

def confined (a b : Acc) : Bool := confinement.any (fun c => rowOf c a b && mechOk c.mech a b)

/-- the pair lies in a row by name, but the table does not show the row's synchronisation (a CHECKED row that fails) -/
def rowBroken (a b : Acc) : Bool := !confined a b && confinement.any (fun c => rowOf c a b)

def Mech.isChecked : Mech → Bool
  | .prose => false
  | _ => true

def protectedPair (a b : Acc) : Bool := commonLock a b || confined a b

/-- Conflicting pairs known to be unordered on the current tree (genuine findings, mirrored in
    /verif/known_findings.json): (field, function, function). -/
def knownUnprotected : List (String × String × String) := []   -- empty since fix D21 (was: writtenStatus, Write/WriteHeader vs writeError)

def isKnown (a b : Acc) : Bool :=
  knownUnprotected.any (fun k => k.1 == a.field && ((k.2.1 == a.fn && k.2.2 == b.fn) || (k.2.1 == b.fn && k.2.2 == a.fn)))

/-- verdict used by the driver and by the theorem over the regenerated table -/
def pairOk (a b : Acc) : Bool := !conflict a b || protectedPair a b

def allPairsOk (t : List Acc) : Bool := t.all (fun a => t.all (fun b => pairOk a b || isKnown a b))

/-! ### Why a common mutex orders two accesses: a small trace model of mutexes -/

inductive Ev where
  | acq (t l : Nat)      -- thread t acquires mutex l
  | rel (t l : Nat)      -- thread t releases mutex l
  | acc (t a : Nat)      -- thread t performs access a
deriving Repr, DecidableEq

abbrev Holders := Nat → Option Nat

def Holders.set (h : Holders) (l : Nat) (v : Option Nat) : Holders := fun x => if x = l then v else h x

/-- mutex semantics: acquire only a free mutex, release only a mutex you hold -/
def stepEv (h : Holders) : Ev → Option Holders
  | .acq t l => if h l = none then some (h.set l (some t)) else none
  | .rel t l => if h l = some t then some (h.set l none) else none
  | .acc _ _ => some h

def runEv (h : Holders) : List Ev → Option Holders
  | [] => some h
  | e :: es => match stepEv h e with
    | some h' => runEv h' es
    | none => none

end GB.C18
