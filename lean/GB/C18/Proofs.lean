import GB.C18.Model
namespace GB.C18

theorem set_same (h : Holders) (l : Nat) (v : Option Nat) : (h.set l v) l = v := by simp [Holders.set]
theorem set_other (h : Holders) (l x : Nat) (v : Option Nat) (hx : x ≠ l) : (h.set l v) x = h x := by simp [Holders.set, hx]

/-- Only `acq t l` can make `t` the holder of `l`. -/
theorem step_becomes_holder (h h' : Holders) (e : Ev) (t l : Nat)
    (hs : stepEv h e = some h') (h0 : h l ≠ some t) (h1 : h' l = some t) : e = .acq t l := by
  cases e with
  | acq t' l' =>
    simp only [stepEv] at hs
    split at hs
    · injection hs with hs; subst hs
      by_cases hl : l = l'
      · subst hl; rw [set_same] at h1; injection h1 with h1; subst h1; rfl
      · rw [set_other _ _ _ _ hl] at h1; exact absurd h1 h0
    · simp at hs
  | rel t' l' =>
    simp only [stepEv] at hs
    split at hs
    · injection hs with hs; subst hs
      by_cases hl : l = l'
      · subst hl; rw [set_same] at h1; simp at h1
      · rw [set_other _ _ _ _ hl] at h1; exact absurd h1 h0
    · simp at hs
  | acc _ _ =>
    simp only [stepEv] at hs; injection hs with hs; subst hs; exact absurd h1 h0

/-- While `t` holds `l`, only `rel t l` can change the holder of `l`. -/
theorem step_loses_holder (h h' : Holders) (e : Ev) (t l : Nat)
    (hs : stepEv h e = some h') (h0 : h l = some t) (h1 : h' l ≠ some t) : e = .rel t l := by
  cases e with
  | acq t' l' =>
    simp only [stepEv] at hs
    split at hs
    · rename_i hfree
      injection hs with hs; subst hs
      by_cases hl : l = l'
      · subst hl; rw [h0] at hfree; simp at hfree
      · rw [set_other _ _ _ _ hl] at h1; exact absurd h0 h1
    · simp at hs
  | rel t' l' =>
    simp only [stepEv] at hs
    split at hs
    · rename_i hheld
      injection hs with hs; subst hs
      by_cases hl : l = l'
      · subst hl; rw [h0] at hheld; injection hheld with hheld; subst hheld; rfl
      · rw [set_other _ _ _ _ hl] at h1; exact absurd h0 h1
    · simp at hs
  | acc _ _ =>
    simp only [stepEv] at hs; injection hs with hs; subst hs; exact absurd h0 h1

/-- If `t2` ends up holding `l` and did not hold it at the start, the segment contains `acq t2 l`. -/
theorem acquires_in_segment (mid : List Ev) (h h' : Holders) (t2 l : Nat)
    (hr : runEv h mid = some h') (h0 : h l ≠ some t2) (h1 : h' l = some t2) :
    ∃ m2 m3, mid = m2 ++ Ev.acq t2 l :: m3 := by
  induction mid generalizing h with
  | nil => simp only [runEv] at hr; injection hr with hr; subst hr; exact absurd h1 h0
  | cons e es ih =>
    simp only [runEv] at hr
    cases hs : stepEv h e with
    | none => simp [hs] at hr
    | some hm =>
      rw [hs] at hr
      by_cases hm2 : hm l = some t2
      · have := step_becomes_holder h hm e t2 l hs h0 hm2
        subst this
        exact ⟨[], es, rfl⟩
      · obtain ⟨m2, m3, rfl⟩ := ih hm hr hm2
        exact ⟨e :: m2, m3, rfl⟩

/-- Mutual exclusion as a happens-before edge: if `t1` holds `l` before a segment and a different
    thread `t2` holds it after, the segment contains `rel t1 l` followed later by `acq t2 l`
    (Go memory model: that Unlock is synchronised before that Lock). -/
theorem release_acquire_between (mid : List Ev) (h h' : Holders) (t1 t2 l : Nat) (hne : t1 ≠ t2)
    (hr : runEv h mid = some h') (h0 : h l = some t1) (h1 : h' l = some t2) :
    ∃ m1 m2 m3, mid = m1 ++ Ev.rel t1 l :: (m2 ++ Ev.acq t2 l :: m3) := by
  induction mid generalizing h with
  | nil =>
    simp only [runEv] at hr; injection hr with hr; subst hr
    rw [h0] at h1; injection h1 with h1; exact absurd h1 hne
  | cons e es ih =>
    simp only [runEv] at hr
    cases hs : stepEv h e with
    | none => simp [hs] at hr
    | some hm =>
      rw [hs] at hr
      by_cases hm1 : hm l = some t1
      · obtain ⟨m1, m2, m3, rfl⟩ := ih hm hr hm1
        exact ⟨e :: m1, m2, m3, rfl⟩
      · have he := step_loses_holder h hm e t1 l hs h0 hm1
        subst he
        have hfree : hm l ≠ some t2 := by
          simp only [stepEv, h0, ↓reduceIte] at hs
          injection hs with hs; subst hs; rw [set_same]; simp
        obtain ⟨m2, m3, rfl⟩ := acquires_in_segment es hm h' t2 l hr hfree h1
        exact ⟨[], m2, m3, rfl⟩

end GB.C18
