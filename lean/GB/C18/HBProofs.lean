import GB.C18.HB
namespace GB.C18.HB

theorem run_append (s : St) (xs ys : List Ev) :
    run s (xs ++ ys) = (run s xs).bind (fun s' => run s' ys) := by
  induction xs generalizing s with
  | nil => simp [run]
  | cons x xs ih =>
    simp only [List.cons_append, run]
    cases step s x with
    | none => simp
    | some s' => simp [ih]

/-- The generic ordering lemma: a state predicate that is false before a well-formed segment and true after it was
    switched on by some event of the segment, and that event is one of the predicate's *enablers*. Every primitive's
    happens-before edge is an instance (P = "the acquire-side operation is enabled", enabler = the release-side op). -/
theorem enabler_between (P : St → Bool) (isEn : Ev → Bool)
    (hstep : ∀ s e s', step s e = some s' → P s = false → P s' = true → isEn e = true)
    (mid : List Ev) (s s' : St) (hr : run s mid = some s') (h0 : P s = false) (h1 : P s' = true) :
    ∃ m1 e m2, mid = m1 ++ e :: m2 ∧ isEn e = true := by
  induction mid generalizing s with
  | nil => simp only [run] at hr; injection hr with hr; subst hr; rw [h0] at h1; cases h1
  | cons e es ih =>
    simp only [run] at hr
    cases hs : step s e with
    | none => simp [hs] at hr
    | some sm =>
      rw [hs] at hr
      cases hm : P sm with
      | true => exact ⟨[], e, es, rfl, hstep s e sm hs h0 hm⟩
      | false =>
        obtain ⟨m1, e', m2, rfl, he⟩ := ih sm hr hm
        exact ⟨e :: m1, e', m2, rfl, he⟩

theorem step_core {s s' : St} {e : Ev} (h : step s e = some s') : stepCore s e = some s' ∧ s.started e.thread = true := by
  unfold step at h
  split at h
  · exact ⟨h, by assumption⟩
  · cases h

theorem upd_same {α : Type} (f : Nat → α) (k : Nat) (v : α) : upd f k v k = v := by simp [upd]
theorem upd_other {α : Type} (f : Nat → α) (k x : Nat) (v : α) (h : x ≠ k) : upd f k v x = f x := by simp [upd, h]

/-- once `o`'s function never starts again once it has started -/
theorem once_started_mono (s s' : St) (e : Ev) (o : Nat) (hs : step s e = some s') (h : s.once o ≠ 0) : s'.once o ≠ 0 := by
  have hc := (step_core hs).1
  cases e <;> simp only [stepCore] at hc <;> (try split at hc) <;> (try cases hc) <;> (try exact h)
  all_goals
    rename_i o' _
    by_cases ho : o = o'
    · subst ho; simp [upd]
    · simp [upd, ho]; exact h

theorem onceRuns_zero_of_started (es : List Ev) (s s' : St) (o : Nat) (hr : run s es = some s') (h : s.once o ≠ 0) :
    onceRuns o es = 0 := by
  induction es generalizing s with
  | nil => rfl
  | cons e es ih =>
    simp only [run] at hr
    cases hs : step s e with
    | none => simp [hs] at hr
    | some sm =>
      rw [hs] at hr
      have hm := once_started_mono s sm e o hs h
      have hrest := ih sm hr hm
      cases e <;> simp only [onceRuns, hrest] <;> try rfl
      rename_i t o'
      have hc := (step_core hs).1
      simp only [stepCore] at hc
      split at hc
      · rename_i h0
        have : o' ≠ o := fun heq => h (heq ▸ h0)
        simp [this]
      · cases hc

theorem onceRuns_le_one (es : List Ev) (s s' : St) (o : Nat) (hr : run s es = some s') : onceRuns o es ≤ 1 := by
  induction es generalizing s with
  | nil => simp [onceRuns]
  | cons e es ih =>
    simp only [run] at hr
    cases hs : step s e with
    | none => simp [hs] at hr
    | some sm =>
      rw [hs] at hr
      have hrest := ih sm hr
      cases e <;> simp only [onceRuns] <;> try exact hrest
      rename_i t o'
      by_cases ho : o' = o
      · subst ho
        have hc := (step_core hs).1
        simp only [stepCore] at hc
        split at hc
        · injection hc with hc
          have hm : sm.once o' ≠ 0 := by subst hc; simp [upd]
          have := onceRuns_zero_of_started es sm s' o' hr hm
          simp [this]
        · cases hc
      · simp [ho]; exact hrest

/-- counter bookkeeping of a WaitGroup along any well-formed trace -/
theorem wg_balance (es : List Ev) (s s' : St) (w : Nat) (hr : run s es = some s') :
    s'.wg w + wgDones w es = s.wg w + wgAdds w es := by
  induction es generalizing s with
  | nil => simp only [run] at hr; injection hr with hr; subst hr; simp [wgDones, wgAdds]
  | cons e es ih =>
    simp only [run] at hr
    cases hs : step s e with
    | none => simp [hs] at hr
    | some sm =>
      rw [hs] at hr
      have hrest := ih sm hr
      have hc := (step_core hs).1
      cases e <;> simp only [stepCore] at hc <;> (try split at hc) <;> (try cases hc) <;>
        simp only [wgDones, wgAdds] <;> (try exact hrest)
      all_goals (simp only [upd] at hrest; split at hrest <;> simp_all <;> omega)

end GB.C18.HB
