/-
  C18 — happens-before beyond mutexes: a trace model of the synchronisation primitives this code base uses
  (channels, close, sync.Once / OnceFunc, sync.WaitGroup, `go`, atomics, context cancellation).

  One global interleaving (a list of events) is *well-formed* when every event is enabled in the state the
  previous events produced (`run`). The enabling conditions are the guarantees of the Go memory model that carry a
  happens-before edge:
    * a value receive needs an earlier, not yet consumed send on that channel;
    * a receive that observes "closed" (also: `<-ctx.Done()` of a cancelled context) needs an earlier close/cancel;
    * `once.Do(f)` / a `sync.OnceFunc` call returns only after the single execution of `f` has completed;
    * `wg.Wait()` returns only when the counter is zero, i.e. after the matching `Done`s;
    * a goroutine takes no step before the `go` statement that starts it;
    * an atomic load that observes `v` needs an earlier store of `v` (release/acquire).
  Core-only Lean (the ordering lemmas live in Props.lean).
-/
namespace GB.C18.HB

inductive Ev where
  | send (t c : Nat)          -- thread t sends on channel c
  | recv (t c : Nat)          -- thread t receives a VALUE from channel c
  | close (t c : Nat)         -- close(c)
  | recvClosed (t c : Nat)    -- a receive that observes c closed and drained
  | onceBegin (t o : Nat)     -- the winning call of once o starts running f
  | onceEnd (t o : Nat)       -- … f has returned
  | onceRet (t o : Nat)       -- a call of once o (winner or not) returns
  | wgAdd (t w n : Nat)
  | wgDone (t w : Nat)
  | wgWait (t w : Nat)        -- Wait() returns
  | spawn (t child : Nat)     -- `go` statement executed by t, starting goroutine child
  | store (t x v : Nat)       -- atomic store of v into x
  | load (t x v : Nat)        -- atomic load of x observing v
  | cancel (t c : Nat)        -- context c cancelled
  | ctxDone (t c : Nat)       -- `<-c.Done()` returns
  | acc (t a : Nat)           -- plain memory access a
deriving Repr, DecidableEq

def Ev.thread : Ev → Nat
  | .send t _ | .recv t _ | .close t _ | .recvClosed t _ | .onceBegin t _ | .onceEnd t _ | .onceRet t _
  | .wgAdd t _ _ | .wgDone t _ | .wgWait t _ | .spawn t _ | .store t _ _ | .load t _ _ | .cancel t _ | .ctxDone t _
  | .acc t _ => t

structure St where
  queued : Nat → Nat        -- sends not yet received, per channel
  closed : Nat → Bool
  once : Nat → Nat          -- 0 = not started, 1 = f running, 2 = f completed
  wg : Nat → Nat
  started : Nat → Bool
  val : Nat → Nat
  cancelled : Nat → Bool

def upd {α : Type} (f : Nat → α) (k : Nat) (v : α) : Nat → α := fun x => if x = k then v else f x

/-- the primitive's own enabling condition and effect -/
def stepCore (s : St) : Ev → Option St
  | .send _ c => if s.closed c = true then none else some { s with queued := upd s.queued c (s.queued c + 1) }
  | .recv _ c => if s.queued c = 0 then none else some { s with queued := upd s.queued c (s.queued c - 1) }
  | .close _ c => if s.closed c = true then none else some { s with closed := upd s.closed c true }
  | .recvClosed _ c => if s.closed c = true ∧ s.queued c = 0 then some s else none
  | .onceBegin _ o => if s.once o = 0 then some { s with once := upd s.once o 1 } else none
  | .onceEnd _ o => if s.once o = 1 then some { s with once := upd s.once o 2 } else none
  | .onceRet _ o => if s.once o = 2 then some s else none
  | .wgAdd _ w n => some { s with wg := upd s.wg w (s.wg w + n) }
  | .wgDone _ w => if s.wg w = 0 then none else some { s with wg := upd s.wg w (s.wg w - 1) }
  | .wgWait _ w => if s.wg w = 0 then some s else none
  | .spawn _ c => if s.started c = true then none else some { s with started := upd s.started c true }
  | .store _ x v => some { s with val := upd s.val x v }
  | .load _ x v => if s.val x = v then some s else none
  | .cancel _ c => some { s with cancelled := upd s.cancelled c true }
  | .ctxDone _ c => if s.cancelled c = true then some s else none
  | .acc _ _ => some s

/-- only started goroutines take steps -/
def step (s : St) (e : Ev) : Option St := if s.started e.thread = true then stepCore s e else none

def run (s : St) : List Ev → Option St
  | [] => some s
  | e :: es => match step s e with
    | some s' => run s' es
    | none => none

/-- initial state: only goroutine 0 (main) runs; everything else is zero / open / not started -/
def St.init : St := ⟨fun _ => 0, fun _ => false, fun _ => 0, fun _ => 0, fun t => t == 0, fun _ => 0, fun _ => false⟩

/-- number of executions of once `o`'s function in a trace -/
def onceRuns (o : Nat) : List Ev → Nat
  | [] => 0
  | .onceBegin _ o' :: es => (if o' = o then 1 else 0) + onceRuns o es
  | _ :: es => onceRuns o es


/-- number of `Done` calls on WaitGroup `w` in a trace -/
def wgDones (w : Nat) : List Ev → Nat
  | [] => 0
  | .wgDone _ w' :: es => (if w = w' then 1 else 0) + wgDones w es
  | _ :: es => wgDones w es

/-- sum of the `Add` arguments on WaitGroup `w` in a trace -/
def wgAdds (w : Nat) : List Ev → Nat
  | [] => 0
  | .wgAdd _ w' n :: es => (if w = w' then n else 0) + wgAdds w es
  | _ :: es => wgAdds w es

end GB.C18.HB
