import GB.C15.Spec
/-
  C15 — hash pre-images: the length-prefixed encoding is injective, sorting canonicalises sets.
-/
namespace GB.C15
open GB

set_option linter.unusedSimpArgs false

theorem be64_length (n : Nat) : (be64 n).length = 8 := by simp [be64]

theorem ofNat_inj256 {a b : Nat} (ha : a < 256) (hb : b < 256) (h : UInt8.ofNat a = UInt8.ofNat b) : a = b := by
  have := congrArg UInt8.toNat h
  simp [UInt8.toNat_ofNat'] at this
  omega

theorem be64_injective {n m : Nat} (hn : n < 18446744073709551616) (hm : m < 18446744073709551616)
    (h : be64 n = be64 m) : n = m := by
  simp only [be64, List.cons.injEq, and_true] at h
  obtain ⟨h7, h6, h5, h4, h3, h2, h1, h0⟩ := h
  have e7 := ofNat_inj256 (Nat.mod_lt _ (by decide)) (Nat.mod_lt _ (by decide)) h7
  have e6 := ofNat_inj256 (Nat.mod_lt _ (by decide)) (Nat.mod_lt _ (by decide)) h6
  have e5 := ofNat_inj256 (Nat.mod_lt _ (by decide)) (Nat.mod_lt _ (by decide)) h5
  have e4 := ofNat_inj256 (Nat.mod_lt _ (by decide)) (Nat.mod_lt _ (by decide)) h4
  have e3 := ofNat_inj256 (Nat.mod_lt _ (by decide)) (Nat.mod_lt _ (by decide)) h3
  have e2 := ofNat_inj256 (Nat.mod_lt _ (by decide)) (Nat.mod_lt _ (by decide)) h2
  have e1 := ofNat_inj256 (Nat.mod_lt _ (by decide)) (Nat.mod_lt _ (by decide)) h1
  have e0 := ofNat_inj256 (Nat.mod_lt _ (by decide)) (Nat.mod_lt _ (by decide)) h0
  omega

/-- Go slice lengths fit in 63 bits. -/
def Short (b : Bytes) : Prop := b.length < 18446744073709551616

theorem encodeList_injective : ∀ (l₁ l₂ : List Bytes), (∀ b ∈ l₁, Short b) → (∀ b ∈ l₂, Short b) →
    encodeList l₁ = encodeList l₂ → l₁ = l₂
  | [], [], _, _, _ => rfl
  | [], b :: l₂, _, _, h => by
    have := congrArg List.length h
    simp [encodeList, lenPrefixed, be64_length] at this
    try omega
  | a :: l₁, [], _, _, h => by
    have := congrArg List.length h
    simp [encodeList, lenPrefixed, be64_length] at this
    try omega
  | a :: l₁, b :: l₂, h₁, h₂, h => by
    simp only [encodeList, List.flatMap_cons, lenPrefixed, List.append_assoc] at h
    have hlen : (be64 a.length).length = (be64 b.length).length := by simp [be64_length]
    obtain ⟨hp, hrest⟩ := List.append_inj h hlen
    have hab : a.length = b.length :=
      be64_injective (h₁ a List.mem_cons_self) (h₂ b List.mem_cons_self) hp
    obtain ⟨e, htail⟩ := List.append_inj hrest hab
    have := encodeList_injective l₁ l₂ (fun x hx => h₁ x (List.mem_cons_of_mem _ hx))
      (fun x hx => h₂ x (List.mem_cons_of_mem _ hx)) htail
    rw [this, e]

/-! ### the byte-string order is a total order -/

theorem bytesLe_refl : ∀ a : Bytes, bytesLe a a = true
  | [] => rfl
  | x :: xs => by simp [bytesLe, bytesLe_refl xs]

theorem bytesLe_total : ∀ a b : Bytes, bytesLe a b = true ∨ bytesLe b a = true
  | [], _ => Or.inl rfl
  | _ :: _, [] => Or.inr rfl
  | x :: xs, y :: ys => by
    simp only [bytesLe]
    by_cases h1 : x < y
    · simp [h1]
    · by_cases h2 : y < x
      · simp [h1, h2]
      · simp [h1, h2]; exact bytesLe_total xs ys

theorem bytesLe_antisymm : ∀ a b : Bytes, bytesLe a b = true → bytesLe b a = true → a = b
  | [], [], _, _ => rfl
  | [], _ :: _, _, h => by simp [bytesLe] at h
  | _ :: _, [], h, _ => by simp [bytesLe] at h
  | x :: xs, y :: ys, h₁, h₂ => by
    simp only [bytesLe] at h₁ h₂
    by_cases h1 : x < y
    · have : ¬ y < x := by
        rw [UInt8.lt_iff_toNat_lt] at h1 ⊢; omega
      simp [h1, this] at h₂
    · by_cases h2 : y < x
      · simp [h1, h2] at h₁
      · simp [h1, h2] at h₁ h₂
        have : x = y := by
          rw [UInt8.lt_iff_toNat_lt] at h1 h2
          exact UInt8.toNat_inj.mp (by omega)
        rw [this, bytesLe_antisymm xs ys h₁ h₂]

theorem bytesLe_trans : ∀ a b c : Bytes, bytesLe a b = true → bytesLe b c = true → bytesLe a c = true
  | [], _, _, _, _ => rfl
  | _ :: _, [], _, h, _ => by simp [bytesLe] at h
  | _ :: _, _ :: _, [], _, h => by simp [bytesLe] at h
  | x :: xs, y :: ys, z :: zs, h₁, h₂ => by
    simp only [bytesLe] at h₁ h₂ ⊢
    by_cases hxy : x < y
    · by_cases hyz : y < z
      · have : x < z := by rw [UInt8.lt_iff_toNat_lt] at *; omega
        simp [this]
      · by_cases hzy : z < y
        · simp [hyz, hzy] at h₂
        · have : x < z := by rw [UInt8.lt_iff_toNat_lt] at *; omega
          simp [this]
    · by_cases hyx : y < x
      · simp [hxy, hyx] at h₁
      · simp [hxy, hyx] at h₁
        by_cases hyz : y < z
        · have : x < z := by rw [UInt8.lt_iff_toNat_lt] at *; omega
          simp [this]
        · by_cases hzy : z < y
          · simp [hyz, hzy] at h₂
          · simp [hyz, hzy] at h₂
            have h1 : ¬ x < z := by rw [UInt8.lt_iff_toNat_lt] at *; omega
            have h2 : ¬ z < x := by rw [UInt8.lt_iff_toNat_lt] at *; omega
            simp [h1, h2]
            exact bytesLe_trans xs ys zs h₁ h₂

/-! ### insertion sort -/

variable {α : Type}

theorem insertBy_perm (le : α → α → Bool) (x : α) : ∀ l, (insertBy le x l).Perm (x :: l)
  | [] => List.Perm.refl _
  | y :: ys => by
    simp only [insertBy]
    split
    · exact List.Perm.refl _
    · exact ((insertBy_perm le x ys).cons y).trans (List.Perm.swap x y ys)

theorem sortBy_perm (le : α → α → Bool) : ∀ l, (sortBy le l).Perm l
  | [] => List.Perm.refl _
  | x :: xs => (insertBy_perm le x _).trans ((sortBy_perm le xs).cons x)

theorem insertBy_pairwise (le : α → α → Bool)
    (total : ∀ a b, le a b = true ∨ le b a = true) (trans : ∀ a b c, le a b = true → le b c = true → le a c = true)
    (x : α) : ∀ l, l.Pairwise (fun a b => le a b = true) → (insertBy le x l).Pairwise (fun a b => le a b = true)
  | [], _ => by simp [insertBy]
  | y :: ys, h => by
    simp only [insertBy]
    have hy := List.pairwise_cons.mp h
    split
    · rename_i hxy
      refine List.pairwise_cons.mpr ⟨?_, h⟩
      intro z hz
      rcases List.mem_cons.mp hz with rfl | hz
      · exact hxy
      · exact trans _ _ _ hxy (hy.1 z hz)
    · rename_i hxy
      have hyx : le y x = true := by
        rcases total x y with h | h
        · exact absurd h hxy
        · exact h
      refine List.pairwise_cons.mpr ⟨?_, insertBy_pairwise le total trans x ys hy.2⟩
      intro z hz
      have := (insertBy_perm le x ys).subset hz
      rcases List.mem_cons.mp this with rfl | hz
      · exact hyx
      · exact hy.1 z hz

theorem sortBy_pairwise (le : α → α → Bool)
    (total : ∀ a b, le a b = true ∨ le b a = true) (trans : ∀ a b c, le a b = true → le b c = true → le a c = true) :
    ∀ l, (sortBy le l).Pairwise (fun a b => le a b = true)
  | [] => List.Pairwise.nil
  | x :: xs => insertBy_pairwise le total trans x _ (sortBy_pairwise le total trans xs)

/-- Two permutations of each other sort to the same list when the order separates the elements
    of the list (so any correct sort, stable or not, computes `sortBy`). -/
theorem sortBy_unique (le : α → α → Bool)
    (total : ∀ a b, le a b = true ∨ le b a = true) (trans : ∀ a b c, le a b = true → le b c = true → le a c = true)
    (l₁ l₂ : List α) (anti : ∀ a b, a ∈ l₁ → b ∈ l₁ → le a b = true → le b a = true → a = b)
    (h : l₁.Perm l₂) : sortBy le l₁ = sortBy le l₂ := by
  apply List.Perm.eq_of_pairwise (le := fun a b => le a b = true)
  · intro a b ha hb
    have ha' := (sortBy_perm le l₁).subset ha
    have hb' := h.symm.subset ((sortBy_perm le l₂).subset hb)
    exact anti a b ha' hb'
  · exact sortBy_pairwise le total trans l₁
  · exact sortBy_pairwise le total trans l₂
  · exact (sortBy_perm le l₁).trans (h.trans (sortBy_perm le l₂).symm)

/-! ### fingerprints compare contracts as sets -/

theorem svcPre_eq_iff (a b : List Bytes) (ha : ∀ x ∈ a, Short x) (hb : ∀ x ∈ b, Short x) :
    svcPre a = svcPre b ↔ a.Perm b := by
  constructor
  · intro h
    have := encodeList_injective _ _ (fun x hx => ha x ((sortBy_perm _ a).subset hx))
      (fun x hx => hb x ((sortBy_perm _ b).subset hx)) h
    exact (sortBy_perm bytesLe a).symm.trans (this ▸ sortBy_perm bytesLe b)
  · intro h
    unfold svcPre
    rw [sortBy_unique bytesLe bytesLe_total bytesLe_trans a b (fun x y _ _ => bytesLe_antisymm x y) h]

/-- well-formed file list: names pairwise distinct, each name determined by the descriptor bytes
    (`name = fd.GetName()` of the unmarshalled bytes), lengths representable. -/
structure FilesWF (nameOf : Bytes → Bytes) (fs : List File) : Prop where
  nodup : (fs.map (·.name)).Nodup
  named : ∀ f ∈ fs, f.name = nameOf f.proto
  short : ∀ f ∈ fs, Short f.proto

theorem fileLe_total (a b : File) : fileLe a b = true ∨ fileLe b a = true := bytesLe_total _ _
theorem fileLe_trans (a b c : File) : fileLe a b = true → fileLe b c = true → fileLe a c = true := bytesLe_trans _ _ _

theorem eq_of_name_eq {fs : List File} (hn : (fs.map (·.name)).Nodup) {a b : File} (ha : a ∈ fs) (hb : b ∈ fs)
    (h : a.name = b.name) : a = b := by
  induction fs with
  | nil => simp at ha
  | cons f fs ih =>
    simp only [List.map_cons, List.nodup_cons, List.mem_map, not_exists, not_and] at hn
    rcases List.mem_cons.mp ha with rfl | ha' <;> rcases List.mem_cons.mp hb with rfl | hb'
    · rfl
    · exact absurd h.symm (hn.1 b hb')
    · exact absurd h (hn.1 a ha')
    · exact ih hn.2 ha' hb'

theorem map_proto_inj (nameOf : Bytes → Bytes) : ∀ (l₁ l₂ : List File),
    (∀ f ∈ l₁, f.name = nameOf f.proto) → (∀ f ∈ l₂, f.name = nameOf f.proto) →
    l₁.map (·.proto) = l₂.map (·.proto) → l₁ = l₂
  | [], [], _, _, _ => rfl
  | [], _ :: _, _, _, h => by simp at h
  | _ :: _, [], _, _, h => by simp at h
  | a :: l₁, b :: l₂, h₁, h₂, h => by
    simp only [List.map_cons, List.cons.injEq] at h
    have hab : a = b := by
      have na := h₁ a List.mem_cons_self
      have nb := h₂ b List.mem_cons_self
      cases a; cases b; simp_all
    rw [hab, map_proto_inj nameOf l₁ l₂ (fun f hf => h₁ f (List.mem_cons_of_mem _ hf))
      (fun f hf => h₂ f (List.mem_cons_of_mem _ hf)) h.2]

theorem protoPre_eq_iff (nameOf : Bytes → Bytes) (a b : List File) (ha : FilesWF nameOf a) (hb : FilesWF nameOf b) :
    protoPre a = protoPre b ↔ a.Perm b := by
  constructor
  · intro h
    have hsa := sortBy_perm fileLe a
    have hsb := sortBy_perm fileLe b
    have e := encodeList_injective _ _
      (fun x hx => by
        obtain ⟨f, hf, rfl⟩ := List.mem_map.mp hx
        exact ha.short f (hsa.subset hf))
      (fun x hx => by
        obtain ⟨f, hf, rfl⟩ := List.mem_map.mp hx
        exact hb.short f (hsb.subset hf)) h
    have := map_proto_inj nameOf _ _ (fun f hf => ha.named f (hsa.subset hf)) (fun f hf => hb.named f (hsb.subset hf)) e
    exact hsa.symm.trans (this ▸ hsb)
  · intro h
    unfold protoPre
    rw [sortBy_unique fileLe fileLe_total fileLe_trans a b
      (fun x y hx hy h1 h2 => eq_of_name_eq ha.nodup hx hy (bytesLe_antisymm _ _ h1 h2)) h]

/-! ### `sameSet` on duplicate-free lists is permutation -/

theorem subsetB_iff [BEq α] [LawfulBEq α] (a b : List α) : subsetB a b = true ↔ ∀ x ∈ a, x ∈ b := by
  simp [subsetB, List.all_eq_true]

theorem sameSet_iff_perm [BEq α] [LawfulBEq α] (a b : List α) (ha : a.Nodup) (hb : b.Nodup) :
    sameSet a b = true ↔ a.Perm b := by
  rw [List.perm_ext_iff_of_nodup ha hb]
  simp only [sameSet, Bool.and_eq_true, subsetB_iff]
  constructor
  · rintro ⟨h1, h2⟩ x; exact ⟨h1 x, h2 x⟩
  · intro h; exact ⟨fun x hx => (h x).1 hx, fun x hx => (h x).2 hx⟩

end GB.C15
