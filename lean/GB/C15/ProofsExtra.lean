import GB.C15.Spec
/-
  C15 — options clamping and the aggregate watcher's fan-out.
-/
namespace GB.C15
open GB

theorem observedBy_append {α : Type} (i : Nat) (a b : List (Nat × α)) :
    observedBy i (a ++ b) = observedBy i a ++ observedBy i b := by
  simp [observedBy, List.filterMap_append]

theorem observedBy_fanout_ge {α : Type} (e : α) : ∀ (n i : Nat), n ≤ i → observedBy i (fanout n e) = []
  | 0, _, _ => by simp [observedBy, fanout]
  | n + 1, i, h => by
    have ih := observedBy_fanout_ge e n i (by omega)
    simp only [fanout, List.range_succ, List.map_append, List.map_cons, List.map_nil] at ih ⊢
    rw [observedBy_append, ih]
    have : n ≠ i := by omega
    simp [observedBy, this]

theorem observedBy_fanout_lt {α : Type} (e : α) : ∀ (n i : Nat), i < n → observedBy i (fanout n e) = [e]
  | 0, _, h => by omega
  | n + 1, i, h => by
    simp only [fanout, List.range_succ, List.map_append, List.map_cons, List.map_nil]
    rw [observedBy_append]
    by_cases hi : i = n
    · subst hi
      have := observedBy_fanout_ge e i i (Nat.le_refl _)
      simp only [fanout] at this
      rw [this]; simp [observedBy]
    · have := observedBy_fanout_lt e n i (by omega)
      simp only [fanout] at this
      rw [this]
      have : n ≠ i := fun e => hi e.symm
      simp [observedBy, this]

theorem observedBy_aggregateLog {α : Type} (n i : Nat) (h : i < n) : ∀ (evs : List α),
    observedBy i (aggregateLog n evs) = evs
  | [] => by simp [aggregateLog, observedBy]
  | e :: rest => by
    have ih := observedBy_aggregateLog n i h rest
    simp only [aggregateLog, List.flatMap_cons] at ih ⊢
    rw [observedBy_append, observedBy_fanout_lt e n i h, ih]
    rfl

end GB.C15
