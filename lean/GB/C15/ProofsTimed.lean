import GB.C15.Timed
import GB.C15.ProofsWake
/-
  C15 — proofs about the timed LTS: projection to `W`, timer spacing, and liveness from fairness.
-/
namespace GB.C15
open GB

set_option linter.unusedSimpArgs false
set_option linter.unusedVariables false

/-! ### projection -/

theorem tstep_proj (t t' : T) (a : TL) (h : tstep t a = some t') :
    (erase a = none ∧ t'.w = t.w) ∨ (∃ l, erase a = some l ∧ step t.w l = some t'.w) := by
  cases a with
  | tick => simp [tstep] at h; subst h; exact Or.inl ⟨rfl, rfl⟩
  | change c => simp [tstep] at h; subst h; exact Or.inl ⟨rfl, rfl⟩
  | pollFail =>
    simp only [tstep, Option.map_eq_some_iff] at h
    obtain ⟨w', hw, rfl⟩ := h
    exact Or.inr ⟨_, rfl, hw⟩
  | l x =>
    right
    refine ⟨x, rfl, ?_⟩
    cases x <;> simp only [tstep] at h
    case pollEnd cb =>
      split at h
      · simp only [Option.map_eq_some_iff] at h; obtain ⟨w', hw, rfl⟩ := h; exact hw
      · simp at h
    case timer =>
      split at h
      · simp only [Option.map_eq_some_iff] at h; obtain ⟨w', hw, rfl⟩ := h; exact hw
      · simp at h
    all_goals (simp only [Option.map_eq_some_iff] at h; obtain ⟨w', hw, rfl⟩ := h; exact hw)

theorem treach_proj (m : Bool) (iv c : Nat) (t : T) (h : GB.LTS.Reachable tstep (T.init m iv c) t) :
    GB.LTS.Reachable step (W.init m) t.w := by
  induction h with
  | init => exact .init
  | step _ hs ih =>
    rcases tstep_proj _ _ _ hs with ⟨_, hw⟩ | ⟨l, _, hw⟩
    · rw [hw]; exact ih
    · exact .step ih hw

/-- the clock fields -/
structure ClockInv (t : T) : Prop where
  d : t.deadline = t.lastEnd + t.interval
  le : t.lastEnd ≤ t.now

theorem clock_step (t t' : T) (a : TL) (hc : ClockInv t) (h : tstep t a = some t') :
    ClockInv t' ∧ t'.interval = t.interval := by
  obtain ⟨hd, hle⟩ := hc
  cases a with
  | tick => simp [tstep] at h; subst h; exact ⟨⟨hd, by simp; omega⟩, rfl⟩
  | change c => simp [tstep] at h; subst h; exact ⟨⟨hd, hle⟩, rfl⟩
  | pollFail =>
    simp only [tstep, Option.map_eq_some_iff] at h
    obtain ⟨w', hw, rfl⟩ := h
    exact ⟨⟨rfl, Nat.le_refl _⟩, rfl⟩
  | l x =>
    cases x <;> simp only [tstep] at h
    case pollEnd cb =>
      split at h
      · simp only [Option.map_eq_some_iff] at h; obtain ⟨w', hw, rfl⟩ := h; exact ⟨⟨rfl, Nat.le_refl _⟩, rfl⟩
      · simp at h
    case timer =>
      split at h
      · simp only [Option.map_eq_some_iff] at h; obtain ⟨w', hw, rfl⟩ := h; exact ⟨⟨hd, hle⟩, rfl⟩
      · simp at h
    all_goals (simp only [Option.map_eq_some_iff] at h; obtain ⟨w', hw, rfl⟩ := h; exact ⟨⟨hd, hle⟩, rfl⟩)

theorem clock_reachable (m : Bool) (iv c : Nat) (t : T) (h : GB.LTS.Reachable tstep (T.init m iv c) t) :
    ClockInv t ∧ t.interval = iv := by
  induction h with
  | init => exact ⟨⟨by simp [T.init], by simp [T.init]⟩, rfl⟩
  | step _ hs ih =>
    have := clock_step _ _ _ ih.1 hs
    exact ⟨this.1, this.2.trans ih.2⟩

/-! ### facts about single `W` steps -/

theorem step_manual (s s' : W) (l : Lbl) (h : step s l = some s') : s'.manual = s.manual := by
  cases l <;> simp only [step] at h
  all_goals (repeat' split at h)
  all_goals (first | (simp at h; done) | (simp at h; subst h; rfl))

theorem step_closer_idle (s s' : W) (l : Lbl) (h : step s l = some s') (hi : s.closer = .idle) (hl : l ≠ .closeCall) :
    s'.closer = .idle := by
  cases l <;> simp only [step] at h
  case closeCall => exact absurd rfl hl
  all_goals (repeat' split at h)
  all_goals (first | (simp at h; done) | (simp at h; subst h; simp_all))

/-- what a non-poller step leaves alone -/
theorem step_nonpoller_ppc (s s' : W) (l : Lbl) (h : step s l = some s') (hp : isPoller l = false) : s'.ppc = s.ppc := by
  cases l <;> simp [isPoller] at hp <;> simp only [step] at h
  all_goals (repeat' split at h)
  all_goals (first | (simp at h; done) | (simp at h; subst h; rfl))

/-! ### the measure -/

structure J (t : T) : Prop where
  inv : Inv t.w
  idle : t.w.closer = .idle
  timerOn : t.w.manual = false

theorem step_mu (t t' : T) (a : TL) (hj : J t) (hs : tstep t a = some t') (hnc : a ≠ .l .closeCall) :
    a = .l .pollStart ∨
    (J t' ∧ mu t' ≤ mu t ∧ (isPollerT a = true → mu t' < mu t) ∧
      (a = .tick → t.w.ppc = .atSelect → t.now < t.deadline → mu t' < mu t) ∧
      (isPollerT a = false → a ≠ .tick → t'.w.ppc = t.w.ppc ∧ t'.deadline = t.deadline ∧ t'.now = t.now)) := by
  obtain ⟨hinv, hidle, hman⟩ := hj
  have jOf : ∀ (l : Lbl) (w' : W), step t.w l = some w' → l ≠ .closeCall →
      Inv w' ∧ w'.closer = .idle ∧ w'.manual = false := fun l w' hw hl =>
    ⟨inv_step t.w w' l hinv hw, step_closer_idle t.w w' l hw hidle hl, (step_manual t.w w' l hw).trans hman⟩
  cases a with
  | tick =>
    simp [tstep] at hs; subst hs
    right
    refine ⟨⟨hinv, hidle, hman⟩, ?_, by simp [isPollerT], ?_, by simp⟩
    · simp only [mu]; cases t.w.ppc <;> simp; omega
    · intro _ hp hlt; simp only [mu, hp]; omega
  | change c =>
    simp [tstep] at hs; subst hs
    right
    exact ⟨⟨hinv, hidle, hman⟩, Nat.le_refl _, by simp [isPollerT], by simp, fun _ _ => ⟨rfl, rfl, rfl⟩⟩
  | pollFail =>
    simp only [tstep, Option.map_eq_some_iff] at hs
    obtain ⟨w', hw, rfl⟩ := hs
    right
    obtain ⟨i1, i2, i3⟩ := jOf _ w' hw (by simp)
    simp only [step] at hw; split at hw <;> simp at hw
    rename_i hp
    subst hw
    refine ⟨⟨i1, i2, i3⟩, ?_, fun _ => ?_, by simp, by simp [isPollerT]⟩ <;>
      (simp [mu, hp] <;> omega)
  | l x =>
    cases x with
    | pollStart => exact Or.inl rfl
    | closeCall => exact absurd rfl hnc
    | pollEnd cb =>
      simp only [tstep] at hs
      split at hs
      · simp only [Option.map_eq_some_iff] at hs
        obtain ⟨w', hw, rfl⟩ := hs
        right
        obtain ⟨i1, i2, i3⟩ := jOf _ w' hw (by simp)
        simp only [step] at hw; split at hw <;> simp at hw
        rename_i hp
        subst hw
        refine ⟨⟨i1, i2, i3⟩, ?_, fun _ => ?_, by simp, by simp [isPollerT, isPoller]⟩ <;>
          (simp [mu, hp] <;> omega)
      · simp at hs
    | timer =>
      simp only [tstep] at hs
      split at hs
      · simp only [Option.map_eq_some_iff] at hs
        obtain ⟨w', hw, rfl⟩ := hs
        right
        obtain ⟨i1, i2, i3⟩ := jOf _ w' hw (by simp)
        simp only [step] at hw; split at hw <;> simp at hw
        rename_i hp
        subst hw
        refine ⟨⟨i1, i2, i3⟩, ?_, fun _ => ?_, by simp, by simp [isPollerT, isPoller]⟩ <;>
          (simp [mu, hp.1] <;> omega)
      · simp at hs
    | wake =>
      simp only [tstep, Option.map_eq_some_iff] at hs
      obtain ⟨w', hw, rfl⟩ := hs
      right
      obtain ⟨i1, i2, i3⟩ := jOf _ w' hw (by simp)
      simp only [step] at hw; split at hw <;> simp at hw
      rename_i hp
      subst hw
      refine ⟨⟨i1, i2, i3⟩, ?_, fun _ => ?_, by simp, by simp [isPollerT, isPoller]⟩ <;>
        (simp [mu, hp.1] <;> omega)
    | takeDone =>
      simp only [tstep, Option.map_eq_some_iff] at hs
      obtain ⟨w', hw, rfl⟩ := hs
      simp only [step] at hw; split at hw <;> simp at hw
      rename_i hp
      simp [hidle] at hp
    | mkChan =>
      simp only [tstep, Option.map_eq_some_iff] at hs
      obtain ⟨w', hw, rfl⟩ := hs
      right
      obtain ⟨i1, i2, i3⟩ := jOf _ w' hw (by simp)
      simp only [step] at hw; split at hw <;> simp at hw
      rename_i hp
      subst hw
      refine ⟨⟨i1, i2, i3⟩, ?_, fun _ => ?_, by simp, by simp [isPollerT, isPoller]⟩ <;>
        (simp [mu, hp] <;> omega)
    | storePtr =>
      simp only [tstep, Option.map_eq_some_iff] at hs
      obtain ⟨w', hw, rfl⟩ := hs
      right
      obtain ⟨i1, i2, i3⟩ := jOf _ w' hw (by simp)
      simp only [step] at hw; split at hw <;> simp at hw
      rename_i hp
      subst hw
      refine ⟨⟨i1, i2, i3⟩, ?_, fun _ => ?_, by simp, by simp [isPollerT, isPoller]⟩ <;>
        (simp [mu, hp] <;> omega)
    | closeDone =>
      simp only [tstep, Option.map_eq_some_iff] at hs
      obtain ⟨w', hw, rfl⟩ := hs
      simp only [step] at hw; split at hw <;> simp at hw
      rename_i hp
      have := hinv.e1 (Or.inl hp)
      simp [hidle] at this
    | closeRet =>
      simp only [tstep, Option.map_eq_some_iff] at hs
      obtain ⟨w', hw, rfl⟩ := hs
      simp only [step] at hw; split at hw <;> simp at hw
      rename_i hp
      simp [hidle] at hp
    | load i =>
      simp only [tstep, Option.map_eq_some_iff] at hs
      obtain ⟨w', hw, rfl⟩ := hs
      right
      obtain ⟨i1, i2, i3⟩ := jOf _ w' hw (by simp)
      have hp := step_nonpoller_ppc t.w w' _ hw rfl
      refine ⟨⟨i1, i2, i3⟩, ?_, by simp [isPollerT, isPoller], by simp, fun _ _ => ⟨hp, rfl, rfl⟩⟩
      simp [mu, hp]
    | fire i =>
      simp only [tstep, Option.map_eq_some_iff] at hs
      obtain ⟨w', hw, rfl⟩ := hs
      right
      obtain ⟨i1, i2, i3⟩ := jOf _ w' hw (by simp)
      have hp := step_nonpoller_ppc t.w w' _ hw rfl
      refine ⟨⟨i1, i2, i3⟩, ?_, by simp [isPollerT, isPoller], by simp, fun _ _ => ⟨hp, rfl, rfl⟩⟩
      simp [mu, hp]
    | closeCh i =>
      simp only [tstep, Option.map_eq_some_iff] at hs
      obtain ⟨w', hw, rfl⟩ := hs
      right
      obtain ⟨i1, i2, i3⟩ := jOf _ w' hw (by simp)
      have hp := step_nonpoller_ppc t.w w' _ hw rfl
      refine ⟨⟨i1, i2, i3⟩, ?_, by simp [isPollerT, isPoller], by simp, fun _ _ => ⟨hp, rfl, rfl⟩⟩
      simp [mu, hp]

/-- the poller is not runnable only while it sleeps in the select before the deadline -/
theorem not_enabled_stuck (t : T) (hj : J t) (hne : ¬ PollerEnabled t) : t.w.ppc = .atSelect ∧ t.now < t.deadline := by
  obtain ⟨hinv, hidle, hman⟩ := hj
  cases hp : t.w.ppc with
  | top => exact absurd ⟨.l .pollStart, _, rfl, by simp [tstep, step, hp]; rfl⟩ hne
  | resolving =>
    refine absurd ⟨.l (.pollEnd (decide (t.delivered ≠ some t.sampled))), ?_, rfl, ?_⟩ hne
    · exact { t with w := { t.w with ppc := .atSelect, cbAfterClose := t.w.cbAfterClose || (decide (t.delivered ≠ some t.sampled) && t.w.closer == .returned) },
                     deadline := t.now + t.interval, lastEnd := t.now, delivered := some t.sampled }
    · simp [tstep, step, hp]
  | atSelect =>
    refine ⟨rfl, ?_⟩
    apply Classical.byContradiction
    intro hlt
    have hle : t.deadline ≤ t.now := by omega
    exact hne ⟨.l .timer, { t with w := { t.w with ppc := .top } }, rfl, by simp [tstep, step, hp, hman, hle]⟩
  | woken => exact absurd ⟨.l .mkChan, _, rfl, by simp [tstep, step, hp]; rfl⟩ hne
  | madeChan => exact absurd ⟨.l .storePtr, _, rfl, by simp [tstep, step, hp]; rfl⟩ hne
  | gotDone => have := hinv.e1 (Or.inl hp); simp [hidle] at this
  | exited => have := hinv.e1 (Or.inr hp); simp [hidle] at this

/-! ### liveness from fairness -/

/-- walking `m` steps: a poll start shows up, or the measure has not grown -/
theorem walk_le (st : Nat → T) (lb : Nat → TL) (hrun : IsRun st lb) (hnc : NoClose lb) :
    ∀ (m k : Nat), J (st k) →
      (∃ i, k ≤ i ∧ lb i = .l .pollStart) ∨ (J (st (k + m)) ∧ mu (st (k + m)) ≤ mu (st k))
  | 0, k, hj => Or.inr ⟨hj, Nat.le_refl _⟩
  | m + 1, k, hj => by
    rcases walk_le st lb hrun hnc m k hj with h | ⟨hjm, hle⟩
    · exact Or.inl h
    · rcases step_mu _ _ _ hjm (hrun (k + m)) (hnc (k + m)) with hps | ⟨hj', hle', _⟩
      · exact Or.inl ⟨k + m, by omega, hps⟩
      · exact Or.inr ⟨hj', Nat.le_trans hle' hle⟩

/-- walking towards a tick while asleep before the deadline: something strictly decreases the measure -/
theorem walk_sleep (st : Nat → T) (lb : Nat → TL) (hrun : IsRun st lb) (hnc : NoClose lb) :
    ∀ (m k : Nat), J (st k) → (st k).w.ppc = .atSelect → (st k).now < (st k).deadline → lb (k + m) = .tick →
      ∃ i, k ≤ i ∧ (lb i = .l .pollStart ∨ (J (st (i + 1)) ∧ mu (st (i + 1)) < mu (st k)))
  | 0, k, hj, hp, hlt, htick => by
    rcases step_mu _ _ _ hj (hrun k) (hnc k) with hps | ⟨hj', _, _, hdec, _⟩
    · exact ⟨k, Nat.le_refl _, Or.inl hps⟩
    · exact ⟨k, Nat.le_refl _, Or.inr ⟨hj', hdec htick hp hlt⟩⟩
  | m + 1, k, hj, hp, hlt, htick => by
    rcases step_mu _ _ _ hj (hrun k) (hnc k) with hps | ⟨hj', hle, hpol, hdec, hkeep⟩
    · exact ⟨k, Nat.le_refl _, Or.inl hps⟩
    · by_cases h1 : isPollerT (lb k) = true
      · exact ⟨k, Nat.le_refl _, Or.inr ⟨hj', hpol h1⟩⟩
      · by_cases h2 : lb k = .tick
        · exact ⟨k, Nat.le_refl _, Or.inr ⟨hj', hdec h2 hp hlt⟩⟩
        · obtain ⟨e1, e2, e3⟩ := hkeep (by simpa using h1) h2
          have htick' : lb (k + 1 + m) = .tick := by rw [show k + 1 + m = k + (m + 1) by omega]; exact htick
          obtain ⟨i, hi, hres⟩ := walk_sleep st lb hrun hnc m (k + 1) hj' (e1.trans hp) (by omega) htick'
          refine ⟨i, by omega, ?_⟩
          rcases hres with h | ⟨hj2, hlt2⟩
          · exact Or.inl h
          · exact Or.inr ⟨hj2, Nat.lt_of_lt_of_le hlt2 hle⟩

/-- from any point of a fair run: a poll start, or a strictly smaller measure later on -/
theorem find_dec (st : Nat → T) (lb : Nat → TL) (hrun : IsRun st lb) (hfair : FairPoller st lb)
    (htime : TimeDiverges lb) (hnc : NoClose lb) (k : Nat) (hj : J (st k)) :
    ∃ i, k ≤ i ∧ (lb i = .l .pollStart ∨ (J (st (i + 1)) ∧ mu (st (i + 1)) < mu (st k))) := by
  obtain ⟨k1, hk1, hf⟩ := hfair k
  obtain ⟨m, rfl⟩ := Nat.le.dest hk1
  rcases walk_le st lb hrun hnc m k hj with ⟨i, hi, hps⟩ | ⟨hj1, hle1⟩
  · exact ⟨i, hi, Or.inl hps⟩
  · rcases hf with hpol | hne
    · rcases step_mu _ _ _ hj1 (hrun (k + m)) (hnc (k + m)) with hps | ⟨hj', _, hdec, _⟩
      · exact ⟨k + m, by omega, Or.inl hps⟩
      · exact ⟨k + m, by omega, Or.inr ⟨hj', Nat.lt_of_lt_of_le (hdec hpol) hle1⟩⟩
    · obtain ⟨hp, hlt⟩ := not_enabled_stuck _ hj1 hne
      obtain ⟨k2, hk2, htick⟩ := htime (k + m)
      obtain ⟨m2, rfl⟩ := Nat.le.dest hk2
      obtain ⟨i, hi, hres⟩ := walk_sleep st lb hrun hnc m2 (k + m) hj1 hp hlt htick
      refine ⟨i, by omega, ?_⟩
      rcases hres with h | ⟨hj2, hlt2⟩
      · exact Or.inl h
      · exact Or.inr ⟨hj2, Nat.lt_of_lt_of_le hlt2 hle1⟩

/-- **Eventually a poll starts** on every fair run of the timer-driven loop without `Close`. -/
theorem eventually_pollStart (st : Nat → T) (lb : Nat → TL) (hrun : IsRun st lb) (hfair : FairPoller st lb)
    (htime : TimeDiverges lb) (hnc : NoClose lb) :
    ∀ (n k : Nat), J (st k) → mu (st k) ≤ n → ∃ i, k ≤ i ∧ lb i = .l .pollStart
  | 0, k, hj, hn => by
    obtain ⟨i, hi, hres⟩ := find_dec st lb hrun hfair htime hnc k hj
    rcases hres with h | ⟨_, hlt⟩
    · exact ⟨i, hi, h⟩
    · omega
  | n + 1, k, hj, hn => by
    obtain ⟨i, hi, hres⟩ := find_dec st lb hrun hfair htime hnc k hj
    rcases hres with h | ⟨hj', hlt⟩
    · exact ⟨i, hi, h⟩
    · obtain ⟨i', hi', h⟩ := eventually_pollStart st lb hrun hfair htime hnc n (i + 1) hj' (by omega)
      exact ⟨i', by omega, h⟩

/-- `J` holds all along a run without `Close` (until nothing: it is preserved by poll starts too) -/
theorem J_step (t t' : T) (a : TL) (hj : J t) (hs : tstep t a = some t') (hnc : a ≠ .l .closeCall) : J t' := by
  rcases step_mu t t' a hj hs hnc with rfl | ⟨hj', _⟩
  · simp only [tstep, Option.map_eq_some_iff] at hs
    obtain ⟨w', hw, rfl⟩ := hs
    exact ⟨inv_step _ _ _ hj.inv hw, step_closer_idle _ _ _ hw hj.idle (by simp), (step_manual _ _ _ hw).trans hj.timerOn⟩
  · exact hj'

theorem J_run (st : Nat → T) (lb : Nat → TL) (hrun : IsRun st lb) (hnc : NoClose lb) (hj : J (st 0)) : ∀ k, J (st k)
  | 0 => hj
  | k + 1 => J_step _ _ _ (J_run st lb hrun hnc hj k) (hrun k) (hnc k)

/-! ### eventual delivery -/

/-- the poll in progress has fetched `c` -/
def Fetching (c : Nat) (t : T) : Prop := t.w.ppc = .resolving ∧ t.sampled = c

/-- `c` has been delivered and every poll in progress has fetched `c` -/
def Settled (c : Nat) (t : T) : Prop := t.delivered = some c ∧ (t.w.ppc = .resolving → t.sampled = c)

theorem settled_step (c : Nat) (t t' : T) (a : TL) (hs : tstep t a = some t') (hset : Settled c t)
    (htar : t.target = c) (hnf : a ≠ .pollFail) : Settled c t' := by
  obtain ⟨hd, hsam⟩ := hset
  cases a with
  | tick => simp [tstep] at hs; subst hs; exact ⟨hd, hsam⟩
  | change c' => simp [tstep] at hs; subst hs; exact ⟨hd, hsam⟩
  | pollFail => exact absurd rfl hnf
  | l x =>
    cases x with
    | pollStart =>
      simp only [tstep, Option.map_eq_some_iff] at hs
      obtain ⟨w', hw, rfl⟩ := hs
      exact ⟨hd, fun _ => htar⟩
    | pollEnd cb =>
      simp only [tstep] at hs
      split at hs
      · simp only [Option.map_eq_some_iff] at hs
        obtain ⟨w', hw, rfl⟩ := hs
        simp only [step] at hw; split at hw <;> simp at hw
        rename_i hp
        subst hw
        exact ⟨by simp [hsam hp], by simp⟩
      · simp at hs
    | timer =>
      simp only [tstep] at hs
      split at hs
      · simp only [Option.map_eq_some_iff] at hs
        obtain ⟨w', hw, rfl⟩ := hs
        simp only [step] at hw; split at hw <;> simp at hw
        subst hw
        exact ⟨hd, by simp⟩
      · simp at hs
    | wake =>
      simp only [tstep, Option.map_eq_some_iff] at hs
      obtain ⟨w', hw, rfl⟩ := hs
      simp only [step] at hw; split at hw <;> simp at hw
      subst hw; exact ⟨hd, by simp⟩
    | takeDone =>
      simp only [tstep, Option.map_eq_some_iff] at hs
      obtain ⟨w', hw, rfl⟩ := hs
      simp only [step] at hw; split at hw <;> simp at hw
      subst hw; exact ⟨hd, by simp⟩
    | mkChan =>
      simp only [tstep, Option.map_eq_some_iff] at hs
      obtain ⟨w', hw, rfl⟩ := hs
      simp only [step] at hw; split at hw <;> simp at hw
      subst hw; exact ⟨hd, by simp⟩
    | storePtr =>
      simp only [tstep, Option.map_eq_some_iff] at hs
      obtain ⟨w', hw, rfl⟩ := hs
      simp only [step] at hw; split at hw <;> simp at hw
      subst hw; exact ⟨hd, by simp⟩
    | closeDone =>
      simp only [tstep, Option.map_eq_some_iff] at hs
      obtain ⟨w', hw, rfl⟩ := hs
      simp only [step] at hw; split at hw <;> simp at hw
      subst hw; exact ⟨hd, by simp⟩
    | load i =>
      simp only [tstep, Option.map_eq_some_iff] at hs
      obtain ⟨w', hw, rfl⟩ := hs
      have hp := step_nonpoller_ppc t.w w' _ hw rfl
      exact ⟨hd, fun h => hsam (hp ▸ h)⟩
    | fire i =>
      simp only [tstep, Option.map_eq_some_iff] at hs
      obtain ⟨w', hw, rfl⟩ := hs
      have hp := step_nonpoller_ppc t.w w' _ hw rfl
      exact ⟨hd, fun h => hsam (hp ▸ h)⟩
    | closeCh i =>
      simp only [tstep, Option.map_eq_some_iff] at hs
      obtain ⟨w', hw, rfl⟩ := hs
      have hp := step_nonpoller_ppc t.w w' _ hw rfl
      exact ⟨hd, fun h => hsam (hp ▸ h)⟩
    | closeCall =>
      simp only [tstep, Option.map_eq_some_iff] at hs
      obtain ⟨w', hw, rfl⟩ := hs
      have hp := step_nonpoller_ppc t.w w' _ hw rfl
      exact ⟨hd, fun h => hsam (hp ▸ h)⟩
    | closeRet =>
      simp only [tstep, Option.map_eq_some_iff] at hs
      obtain ⟨w', hw, rfl⟩ := hs
      have hp := step_nonpoller_ppc t.w w' _ hw rfl
      exact ⟨hd, fun h => hsam (hp ▸ h)⟩

/-- one step from a state in which a poll has fetched `c`: the poll goes on, or it ends delivering `c` -/
theorem fetching_step (c : Nat) (t t' : T) (a : TL) (hs : tstep t a = some t') (hf : Fetching c t)
    (hnf : a ≠ .pollFail) : (isPollerT a = false ∧ Fetching c t') ∨ (isPollerT a = true ∧ Settled c t') := by
  obtain ⟨hp, hsam⟩ := hf
  cases a with
  | tick => simp [tstep] at hs; subst hs; exact Or.inl ⟨rfl, hp, hsam⟩
  | change c' => simp [tstep] at hs; subst hs; exact Or.inl ⟨rfl, hp, hsam⟩
  | pollFail => exact absurd rfl hnf
  | l x =>
    cases x with
    | pollEnd cb =>
      simp only [tstep] at hs
      split at hs
      · simp only [Option.map_eq_some_iff] at hs
        obtain ⟨w', hw, rfl⟩ := hs
        simp [step, hp] at hw
        subst hw
        exact Or.inr ⟨rfl, by simp [hsam], by simp⟩
      · simp at hs
    | pollStart =>
      simp only [tstep, Option.map_eq_some_iff] at hs
      obtain ⟨w', hw, rfl⟩ := hs
      simp only [step] at hw; split at hw <;> simp at hw
      rename_i h; simp [hp] at h
    | timer =>
      simp only [tstep] at hs
      split at hs
      · simp only [Option.map_eq_some_iff] at hs
        obtain ⟨w', hw, rfl⟩ := hs
        simp only [step] at hw; split at hw <;> simp at hw
        rename_i h; simp [hp] at h
      · simp at hs
    | wake =>
      simp only [tstep, Option.map_eq_some_iff] at hs
      obtain ⟨w', hw, rfl⟩ := hs
      simp only [step] at hw; split at hw <;> simp at hw
      rename_i h; simp [hp] at h
    | takeDone =>
      simp only [tstep, Option.map_eq_some_iff] at hs
      obtain ⟨w', hw, rfl⟩ := hs
      simp only [step] at hw; split at hw <;> simp at hw
      rename_i h; simp [hp] at h
    | mkChan =>
      simp only [tstep, Option.map_eq_some_iff] at hs
      obtain ⟨w', hw, rfl⟩ := hs
      simp only [step] at hw; split at hw <;> simp at hw
      rename_i h; simp [hp] at h
    | storePtr =>
      simp only [tstep, Option.map_eq_some_iff] at hs
      obtain ⟨w', hw, rfl⟩ := hs
      simp only [step] at hw; split at hw <;> simp at hw
      rename_i h; simp [hp] at h
    | closeDone =>
      simp only [tstep, Option.map_eq_some_iff] at hs
      obtain ⟨w', hw, rfl⟩ := hs
      simp only [step] at hw; split at hw <;> simp at hw
      rename_i h; simp [hp] at h
    | load i =>
      simp only [tstep, Option.map_eq_some_iff] at hs
      obtain ⟨w', hw, rfl⟩ := hs
      exact Or.inl ⟨rfl, (step_nonpoller_ppc t.w w' _ hw rfl).trans hp, hsam⟩
    | fire i =>
      simp only [tstep, Option.map_eq_some_iff] at hs
      obtain ⟨w', hw, rfl⟩ := hs
      exact Or.inl ⟨rfl, (step_nonpoller_ppc t.w w' _ hw rfl).trans hp, hsam⟩
    | closeCh i =>
      simp only [tstep, Option.map_eq_some_iff] at hs
      obtain ⟨w', hw, rfl⟩ := hs
      exact Or.inl ⟨rfl, (step_nonpoller_ppc t.w w' _ hw rfl).trans hp, hsam⟩
    | closeCall =>
      simp only [tstep, Option.map_eq_some_iff] at hs
      obtain ⟨w', hw, rfl⟩ := hs
      exact Or.inl ⟨rfl, (step_nonpoller_ppc t.w w' _ hw rfl).trans hp, hsam⟩
    | closeRet =>
      simp only [tstep, Option.map_eq_some_iff] at hs
      obtain ⟨w', hw, rfl⟩ := hs
      exact Or.inl ⟨rfl, (step_nonpoller_ppc t.w w' _ hw rfl).trans hp, hsam⟩

theorem fetching_enabled (c : Nat) (t : T) (hf : Fetching c t) : PollerEnabled t := by
  refine ⟨.l (.pollEnd (decide (t.delivered ≠ some t.sampled))), ?_, rfl, ?_⟩
  · exact { t with w := { t.w with ppc := .atSelect, cbAfterClose := t.w.cbAfterClose || (decide (t.delivered ≠ some t.sampled) && t.w.closer == .returned) },
                   deadline := t.now + t.interval, lastEnd := t.now, delivered := some t.sampled }
  · simp [tstep, step, hf.1]

/-- while a poll that fetched `c` is in progress: within `m` steps it ends (settled), or it is still in progress -/
theorem walk_fetching (c : Nat) (st : Nat → T) (lb : Nat → TL) (hrun : IsRun st lb) (k0 : Nat)
    (hnf : ∀ j, k0 ≤ j → lb j ≠ .pollFail) :
    ∀ (m k : Nat), k0 ≤ k → Fetching c (st k) → (∃ i, k ≤ i ∧ Settled c (st (i + 1))) ∨ Fetching c (st (k + m))
  | 0, _, _, hf => Or.inr hf
  | m + 1, k, hk, hf => by
    rcases walk_fetching c st lb hrun k0 hnf m k hk hf with h | hfm
    · exact Or.inl h
    · rcases fetching_step c _ _ _ (hrun (k + m)) hfm (hnf (k + m) (by omega)) with ⟨_, h⟩ | ⟨_, h⟩
      · exact Or.inr h
      · exact Or.inl ⟨k + m, by omega, h⟩

theorem pollStart_fetches (t t' : T) (hs : tstep t (.l .pollStart) = some t') : Fetching t.target t' := by
  simp only [tstep, Option.map_eq_some_iff] at hs
  obtain ⟨w', hw, rfl⟩ := hs
  simp only [step] at hw; split at hw <;> simp at hw
  subst hw
  exact ⟨rfl, rfl⟩

theorem settled_forever (c : Nat) (st : Nat → T) (lb : Nat → TL) (hrun : IsRun st lb) (k0 : Nat)
    (htar : ∀ j, k0 ≤ j → (st j).target = c) (hnf : ∀ j, k0 ≤ j → lb j ≠ .pollFail) :
    ∀ (m k : Nat), k0 ≤ k → Settled c (st k) → Settled c (st (k + m))
  | 0, _, _, h => h
  | m + 1, k, hk, h =>
    settled_step c _ _ _ (hrun (k + m)) (settled_forever c st lb hrun k0 htar hnf m k hk h) (htar _ (by omega)) (hnf _ (by omega))

end GB.C15
