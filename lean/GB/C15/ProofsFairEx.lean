import GB.C15.ProofsTimed
/-
  C15 — the hypotheses of the fairness theorems are satisfiable: an explicit infinite fair run of the timed system
  (interval 0, the target always presents contract 5):   pollStart ; pollEnd ; tick ; timer ; pollStart ; …
-/
namespace GB.C15
open GB

set_option linter.unusedSimpArgs false

def exLb (k : Nat) : TL :=
  if k % 4 = 0 then .l .pollStart
  else if k % 4 = 1 then .l (.pollEnd (decide (k < 4)))
  else if k % 4 = 2 then .tick
  else .l .timer

def exSt : Nat → T
  | 0 => T.init false 0 5
  | k + 1 => match tstep (exSt k) (exLb k) with
    | some t => t
    | none => exSt k

theorem exSt_succ (k : Nat) (t : T) (h : tstep (exSt k) (exLb k) = some t) : exSt (k + 1) = t := by
  simp [exSt, h]

structure Base (t : T) : Prop where
  man : t.w.manual = false
  tar : t.target = 5
  iv : t.interval = 0

structure Ph0 (q : Nat) (t : T) : Prop extends Base t where
  ppc : t.w.ppc = .top
  del : t.delivered = if q = 0 then none else some 5

structure Ph1 (q : Nat) (t : T) : Prop extends Base t where
  ppc : t.w.ppc = .resolving
  sam : t.sampled = 5
  del : t.delivered = if q = 0 then none else some 5

structure Ph2 (t : T) : Prop extends Base t where
  ppc : t.w.ppc = .atSelect
  del : t.delivered = some 5
  dl : t.deadline ≤ t.now

theorem ph0_step (q : Nat) (t : T) (h : Ph0 q t) : ∃ t', tstep t (.l .pollStart) = some t' ∧ Ph1 q t' := by
  obtain ⟨⟨hm, ht, hi⟩, hp, hd⟩ := h
  cases hs : tstep t (.l .pollStart) with
  | none => simp [tstep, step, hp] at hs
  | some t' =>
    refine ⟨t', rfl, ?_⟩
    simp [tstep, step, hp] at hs
    subst hs
    exact ⟨⟨hm, ht, hi⟩, rfl, ht, hd⟩

theorem ph1_step (q : Nat) (t : T) (h : Ph1 q t) (cb : Bool) (hcb : cb = decide (q = 0)) :
    ∃ t', tstep t (.l (.pollEnd cb)) = some t' ∧ Ph2 t' := by
  obtain ⟨⟨hm, ht, hi⟩, hp, hsam, hd⟩ := h
  have hdec : cb = decide (t.delivered ≠ some t.sampled) := by
    rw [hcb, hd, hsam]
    by_cases hq : q = 0 <;> simp [hq]
  cases hs : tstep t (.l (.pollEnd cb)) with
  | none => simp [tstep, step, hp, hdec] at hs
  | some t' =>
    refine ⟨t', rfl, ?_⟩
    simp [tstep, step, hp, ← hdec] at hs
    subst hs
    exact ⟨⟨hm, ht, hi⟩, rfl, by simp [hsam], by simp [hi]⟩

theorem ph2_tick (t : T) (h : Ph2 t) : ∃ t', tstep t .tick = some t' ∧ Ph2 t' := by
  obtain ⟨⟨hm, ht, hi⟩, hp, hd, hdl⟩ := h
  exact ⟨{ t with now := t.now + 1 }, rfl, ⟨hm, ht, hi⟩, hp, hd, by simp; omega⟩

theorem ph2_timer (q : Nat) (t : T) (h : Ph2 t) : ∃ t', tstep t (.l .timer) = some t' ∧ Ph0 (q + 1) t' := by
  obtain ⟨⟨hm, ht, hi⟩, hp, hd, hdl⟩ := h
  cases hs : tstep t (.l .timer) with
  | none => simp [tstep, step, hp, hm, hdl] at hs
  | some t' =>
    refine ⟨t', rfl, ?_⟩
    simp [tstep, step, hp, hm, hdl] at hs
    subst hs
    exact ⟨⟨rfl, ht, hi⟩, rfl, by simpa using hd⟩

theorem ex_lb0 (q : Nat) : exLb (4 * q) = .l .pollStart := by
  simp [exLb, Nat.mul_mod_right]

theorem ex_lb1 (q : Nat) : exLb (4 * q + 1) = .l (.pollEnd (decide (q = 0))) := by
  have h1 : (4 * q + 1) % 4 = 1 := by omega
  have h2 : (4 * q + 1 < 4) = (q = 0) := by apply propext; constructor <;> intro h <;> omega
  simp [exLb, h1, h2]

theorem ex_lb2 (q : Nat) : exLb (4 * q + 2) = .tick := by
  have h1 : (4 * q + 2) % 4 = 2 := by omega
  simp [exLb, h1]

theorem ex_lb3 (q : Nat) : exLb (4 * q + 3) = .l .timer := by
  have h1 : (4 * q + 3) % 4 = 3 := by omega
  simp [exLb, h1]

/-- one round of the cycle: four executable steps, back to phase 0 -/
theorem ex_round (q : Nat) (h : Ph0 q (exSt (4 * q))) :
    tstep (exSt (4 * q)) (exLb (4 * q)) = some (exSt (4 * q + 1)) ∧
    tstep (exSt (4 * q + 1)) (exLb (4 * q + 1)) = some (exSt (4 * q + 2)) ∧
    tstep (exSt (4 * q + 2)) (exLb (4 * q + 2)) = some (exSt (4 * q + 3)) ∧
    tstep (exSt (4 * q + 3)) (exLb (4 * q + 3)) = some (exSt (4 * q + 4)) ∧
    Ph0 (q + 1) (exSt (4 * (q + 1))) ∧
    (exSt (4 * q)).target = 5 ∧ (exSt (4 * q + 1)).target = 5 ∧ (exSt (4 * q + 2)).target = 5 ∧ (exSt (4 * q + 3)).target = 5 := by
  obtain ⟨t1, hs1, p1⟩ := ph0_step q _ h
  rw [← ex_lb0 q] at hs1
  have e1 := exSt_succ _ _ hs1
  rw [← e1] at hs1 p1
  obtain ⟨t2, hs2, p2⟩ := ph1_step q _ p1 (decide (q = 0)) rfl
  rw [← ex_lb1 q] at hs2
  have e2 := exSt_succ _ _ hs2
  rw [← e2] at hs2 p2
  obtain ⟨t3, hs3, p3⟩ := ph2_tick _ p2
  rw [← ex_lb2 q] at hs3
  have e3 := exSt_succ _ _ hs3
  rw [← e3] at hs3 p3
  obtain ⟨t4, hs4, p4⟩ := ph2_timer q _ p3
  rw [← ex_lb3 q] at hs4
  have e4 := exSt_succ _ _ hs4
  rw [← e4] at hs4 p4
  have e5 : 4 * (q + 1) = 4 * q + 3 + 1 := by omega
  exact ⟨hs1, hs2, hs3, hs4, by rw [e5]; exact p4, h.tar, p1.tar, p2.tar, p3.tar⟩

theorem ex_ph0 : ∀ q, Ph0 q (exSt (4 * q))
  | 0 => ⟨⟨rfl, rfl, rfl⟩, rfl, rfl⟩
  | q + 1 => (ex_round q (ex_ph0 q)).2.2.2.2.1

theorem ex_split (k : Nat) : ∃ q, k = 4 * q ∨ k = 4 * q + 1 ∨ k = 4 * q + 2 ∨ k = 4 * q + 3 :=
  ⟨k / 4, by omega⟩

theorem ex_isRun : IsRun exSt exLb := by
  intro k
  obtain ⟨q, h | h | h | h⟩ := ex_split k <;> subst h
  · exact (ex_round q (ex_ph0 q)).1
  · exact (ex_round q (ex_ph0 q)).2.1
  · exact (ex_round q (ex_ph0 q)).2.2.1
  · exact (ex_round q (ex_ph0 q)).2.2.2.1

theorem ex_target (k : Nat) : (exSt k).target = 5 := by
  obtain ⟨q, h | h | h | h⟩ := ex_split k <;> subst h
  · exact (ex_round q (ex_ph0 q)).2.2.2.2.2.1
  · exact (ex_round q (ex_ph0 q)).2.2.2.2.2.2.1
  · exact (ex_round q (ex_ph0 q)).2.2.2.2.2.2.2.1
  · exact (ex_round q (ex_ph0 q)).2.2.2.2.2.2.2.2

theorem ex_fair : FairPoller exSt exLb := fun k => ⟨4 * k, by omega, Or.inl (by rw [ex_lb0]; rfl)⟩

theorem ex_time : TimeDiverges exLb := fun k => ⟨4 * k + 2, by omega, ex_lb2 k⟩

theorem ex_labels (k : Nat) : exLb k ≠ .l .closeCall ∧ exLb k ≠ .pollFail := by
  obtain ⟨q, h | h | h | h⟩ := ex_split k <;> subst h
  · rw [ex_lb0]; exact ⟨by simp, by simp⟩
  · rw [ex_lb1]; exact ⟨by simp, by simp⟩
  · rw [ex_lb2]; exact ⟨by simp, by simp⟩
  · rw [ex_lb3]; exact ⟨by simp, by simp⟩

end GB.C15
