import GB.C15.Model
/-
  C15 — invariants of the wake-up / Close protocol LTS.
-/
namespace GB.C15
open GB

/-- "A poll start is on its way": the poller is past the wake-up, or it will find its current
    channel closed (already closed, or a caller that won the once is about to close it). -/
def Coming (s : W) : Prop :=
  s.ppc = .woken ∨ s.ppc = .madeChan ∨ s.ppc = .top ∨
  ((s.ppc = .resolving ∨ s.ppc = .atSelect) ∧
    (s.cur ∈ s.closed ∨ ∃ i, (s.callers i).pc = .won ∧ (s.callers i).gen = s.cur))

structure Inv (s : W) : Prop where
  a1 : s.ppc = .madeChan → s.cur = s.ptr + 1
  a2 : s.ppc ≠ .madeChan → s.cur = s.ptr
  b : ∀ g, g ∈ s.fired → g ∈ s.closed ∨ ∃ i, (s.callers i).pc = .won ∧ (s.callers i).gen = g
  c : ∀ i, ((s.callers i).pc = .finished ∨ (s.callers i).pc = .won) → (s.callers i).gen ∈ s.fired
  d : ∀ i, (s.callers i).pc ≠ .start → (s.callers i).served = false → (s.callers i).gen ≠ s.cur →
        (s.ppc = .madeChan ∨ s.ppc = .top)
  e1 : (s.ppc = .gotDone ∨ s.ppc = .exited) → (s.closer = .sent ∨ s.closer = .returned)
  e2 : (s.closer = .sent ∨ s.closer = .returned) → (s.ppc = .gotDone ∨ s.ppc = .exited)
  f : s.cbAfterClose = false

theorem inv_init (m : Bool) : Inv (W.init m) := by
  constructor <;> simp [W.init, Caller.fresh]

theorem inv_step (s s' : W) (l : Lbl) (h : Inv s) (hs : step s l = some s') : Inv s' := by
  obtain ⟨a1, a2, b, c, d, e1, e2, f⟩ := h
  cases l with
  | pollStart =>
    simp only [step] at hs
    split at hs <;> simp at hs
    subst hs
    constructor <;> simp_all [serveAll] <;> grind
  | pollEnd cb =>
    simp only [step] at hs
    split at hs <;> simp at hs
    subst hs
    constructor <;> simp_all <;> grind
  | timer =>
    simp only [step] at hs
    split at hs <;> simp at hs
    subst hs
    constructor <;> simp_all <;> grind
  | wake =>
    simp only [step] at hs
    split at hs <;> simp at hs
    subst hs
    constructor <;> simp_all <;> grind
  | takeDone =>
    simp only [step] at hs
    split at hs <;> simp at hs
    subst hs
    constructor <;> simp_all <;> grind
  | mkChan =>
    simp only [step] at hs
    split at hs <;> simp at hs
    subst hs
    constructor <;> simp_all <;> grind
  | storePtr =>
    simp only [step] at hs
    split at hs <;> simp at hs
    subst hs
    constructor <;> simp_all <;> grind
  | closeDone =>
    simp only [step] at hs
    split at hs <;> simp at hs
    subst hs
    constructor <;> simp_all <;> grind
  | load i =>
    simp only [step] at hs
    split at hs <;> simp at hs
    subst hs
    constructor <;> simp_all [setCaller] <;> grind
  | fire i =>
    simp only [step] at hs
    split at hs <;> try simp at hs
    split at hs <;> simp at hs <;> subst hs
    · constructor <;> simp_all [setCaller] <;> grind
    · constructor <;> simp_all [setCaller] <;> grind
  | closeCh i =>
    simp only [step] at hs
    split at hs <;> simp at hs
    subst hs
    constructor <;> simp_all [setCaller] <;> grind
  | closeCall =>
    simp only [step] at hs
    split at hs <;> simp at hs
    subst hs
    constructor <;> simp_all <;> grind
  | closeRet =>
    simp only [step] at hs
    split at hs <;> simp at hs
    subst hs
    constructor <;> simp_all <;> grind


theorem inv_reachable (m : Bool) (s : W) (h : GB.LTS.Reachable step (W.init m) s) : Inv s :=
  GB.LTS.invariant step (W.init m) Inv (inv_init m) (fun s l s' hi hs => inv_step s s' l hi hs) s h

/-- From the invariant: a completed call is served, or a poll start is on its way, or Close was called. -/
theorem inv_no_lost (s : W) (h : Inv s) (i : Nat) (hf : (s.callers i).pc = .finished) :
    (s.callers i).served = true ∨ Coming s ∨ s.closer ≠ .idle := by
  obtain ⟨a1, a2, b, c, d, e1, e2, f⟩ := h
  unfold Coming
  have hc := c i (Or.inl hf)
  have hd := d i
  have hb := b _ hc
  cases hp : s.ppc <;> cases hsv : (s.callers i).served <;> simp_all <;> grind

/-- Distance to the next poll start while one is coming. -/
def rank (s : W) : Nat :=
  match s.ppc with
  | .resolving => if s.cur ∈ s.closed then 6 else 7
  | .atSelect => if s.cur ∈ s.closed then 4 else 5
  | .woken => 3
  | .madeChan => 2
  | .top => 1
  | .gotDone => 0
  | .exited => 0

/-- The steps that are NOT the environment's: the poller's own steps and the channel close a caller
    owes once it has won the once. Weak fairness is assumed for exactly these. (Pointer loads, once
    attempts and `Close` calls/returns are the environment's; `takeDone` needs a `Close` call.) -/
def isProtocol : Lbl → Bool
  | .pollStart => true
  | .pollEnd _ => true
  | .timer => true
  | .wake => true
  | .mkChan => true
  | .storePtr => true
  | .closeCh _ => true
  | _ => false

/-- While a poll is coming and Close has not been called, some protocol step is enabled and brings it closer. -/
theorem coming_progress (s : W) (hc : Coming s) :
    ∃ l s', step s l = some s' ∧ isProtocol l = true ∧ (rank s' < rank s ∨ l = .pollStart) := by
  unfold Coming at hc
  rcases hc with h | h | h | ⟨h, hcl⟩
  · have e : step s .mkChan = some { s with ppc := .madeChan, cur := s.cur + 1 } := by simp [step, h]
    exact ⟨_, _, e, rfl, by simp [rank, h]⟩
  · have e : step s .storePtr = some { s with ppc := .top, ptr := s.cur } := by simp [step, h]
    exact ⟨_, _, e, rfl, by simp [rank, h]⟩
  · have e : step s .pollStart = some { s with ppc := .resolving, polls := s.polls + 1, callers := serveAll s.callers } := by
      simp [step, h]
    exact ⟨_, _, e, rfl, Or.inr rfl⟩
  · have wakeCase : s.ppc = .atSelect → s.cur ∈ s.closed →
        ∃ l s', step s l = some s' ∧ isProtocol l = true ∧ (rank s' < rank s ∨ l = .pollStart) := by
      intro h hcl
      have e : step s .wake = some { s with ppc := .woken } := by simp [step, h, hcl]
      exact ⟨_, _, e, rfl, by simp [rank, h, hcl]⟩
    rcases h with h | h
    · have e : step s (.pollEnd false) = some { s with ppc := .atSelect, cbAfterClose := s.cbAfterClose || (false && s.closer == .returned) } := by
        simp [step, h]
      refine ⟨_, _, e, rfl, Or.inl ?_⟩
      simp [rank, h]; split <;> simp
    · rcases hcl with hcl | ⟨i, hw, hg⟩
      · exact wakeCase h hcl
      · by_cases hcl : s.cur ∈ s.closed
        · exact wakeCase h hcl
        · cases e : step s (.closeCh i) with
          | none => simp [step, hw] at e
          | some s' =>
            refine ⟨_, s', e, rfl, Or.inl ?_⟩
            simp [step, hw] at e
            subst e
            simp [rank, h, hcl, hg]

theorem rank_mono (s s' : W) (hp : s'.ppc = s.ppc) (hc : s'.cur = s.cur)
    (hcl : s.cur ∈ s.closed → s.cur ∈ s'.closed) : rank s' ≤ rank s := by
  unfold rank
  rw [hp, hc]
  cases s.ppc <;> simp <;> split <;> split <;> simp_all

/-- No step other than calling Close takes a coming poll away or moves it further off. -/
theorem coming_stable (s s' : W) (l : Lbl) (hi : Inv s) (hc : Coming s) (hidle : s.closer = .idle)
    (hs : step s l = some s') (hl : l ≠ .closeCall) :
    l = .pollStart ∨ (Coming s' ∧ rank s' ≤ rank s ∧ s'.closer = .idle) := by
  obtain ⟨a1, a2, b, c, d, e1, e2, f⟩ := hi
  unfold Coming at hc ⊢
  cases l with
  | pollStart => exact Or.inl rfl
  | closeCall => exact absurd rfl hl
  | pollEnd cb =>
    simp only [step] at hs; split at hs <;> simp at hs; subst hs
    right; simp_all [rank]; split <;> simp
  | timer =>
    simp only [step] at hs; split at hs <;> simp at hs; subst hs
    right; simp_all [rank]; split <;> simp
  | wake =>
    simp only [step] at hs; split at hs <;> simp at hs; subst hs
    right; simp_all [rank]
  | takeDone =>
    simp only [step] at hs; split at hs <;> simp at hs; subst hs
    simp_all
  | mkChan =>
    simp only [step] at hs; split at hs <;> simp at hs; subst hs
    right; simp_all [rank]
  | storePtr =>
    simp only [step] at hs; split at hs <;> simp at hs; subst hs
    right; simp_all [rank]
  | closeDone =>
    simp only [step] at hs; split at hs <;> simp at hs; subst hs
    simp_all
  | load i =>
    simp only [step] at hs; split at hs <;> simp at hs; subst hs
    right
    refine ⟨?_, rank_mono _ _ rfl rfl (fun h => h), hidle⟩
    simp_all [setCaller]; grind
  | fire i =>
    simp only [step] at hs
    split at hs <;> try simp at hs
    split at hs <;> simp at hs <;> subst hs
    · right
      refine ⟨?_, rank_mono _ _ rfl rfl (fun h => h), hidle⟩
      simp_all [setCaller]; grind
    · right
      refine ⟨?_, rank_mono _ _ rfl rfl (fun h => h), hidle⟩
      simp_all [setCaller]; grind
  | closeCh i =>
    simp only [step] at hs; split at hs <;> simp at hs; subst hs
    right
    refine ⟨?_, rank_mono _ _ rfl rfl (fun h => List.mem_cons_of_mem _ h), hidle⟩
    simp_all [setCaller]; grind
  | closeRet =>
    simp only [step] at hs; split at hs <;> simp at hs
    simp_all

/-- Once `Close` has returned the only thing the poller can still do is `close(r.done); return`. -/
theorem after_close_only_exit (s s' : W) (l : Lbl) (hi : Inv s) (hr : s.closer = .returned)
    (hs : step s l = some s') :
    l = .closeDone ∨ (∃ i, l = .load i ∨ l = .fire i ∨ l = .closeCh i) := by
  have := hi.e2 (Or.inr hr)
  cases l <;> simp only [step] at hs <;> simp_all


/-- Second group of invariants: generations. -/
structure Inv2 (s : W) : Prop where
  g1 : ∀ i, (s.callers i).pc = .won → (s.callers i).gen ∉ s.closed
  g2 : ∀ g, g < s.cur → g ∈ s.closed
  g3 : ∀ i, (s.callers i).pc ≠ .start → (s.callers i).gen ≤ s.ptr
  g4 : ∀ g, g ∈ s.closed → g ∈ s.fired
  g5 : s.ppc = .woken → s.cur ∈ s.closed
  u : ∀ i j, (s.callers i).pc = .won → (s.callers j).pc = .won → (s.callers i).gen = (s.callers j).gen → i = j

theorem inv2_init (m : Bool) : Inv2 (W.init m) := by
  constructor <;> simp [W.init, Caller.fresh]

theorem inv2_step (s s' : W) (l : Lbl) (h : Inv s) (h2 : Inv2 s) (hs : step s l = some s') : Inv2 s' := by
  obtain ⟨a1, a2, b, c, d, e1, e2, f⟩ := h
  obtain ⟨g1, g2, g3, g4, g5, u⟩ := h2
  cases l with
  | pollStart =>
    simp only [step] at hs
    split at hs <;> simp at hs
    subst hs
    constructor <;> grind [serveAll]
  | pollEnd cb =>
    simp only [step] at hs
    split at hs <;> simp at hs
    subst hs
    constructor <;> grind
  | timer =>
    simp only [step] at hs
    split at hs <;> simp at hs
    subst hs
    constructor <;> grind
  | wake =>
    simp only [step] at hs
    split at hs <;> simp at hs
    subst hs
    constructor <;> grind
  | takeDone =>
    simp only [step] at hs
    split at hs <;> simp at hs
    subst hs
    constructor <;> grind
  | mkChan =>
    simp only [step] at hs
    split at hs <;> simp at hs
    subst hs
    constructor <;> grind
  | storePtr =>
    simp only [step] at hs
    split at hs <;> simp at hs
    subst hs
    constructor <;> grind
  | closeDone =>
    simp only [step] at hs
    split at hs <;> simp at hs
    subst hs
    constructor <;> grind
  | closeCall =>
    simp only [step] at hs
    split at hs <;> simp at hs
    subst hs
    constructor <;> grind
  | closeRet =>
    simp only [step] at hs
    split at hs <;> simp at hs
    subst hs
    constructor <;> grind
  | load i =>
    simp only [step] at hs
    split at hs <;> simp at hs
    subst hs
    constructor <;> grind [setCaller]
  | fire i =>
    simp only [step] at hs
    split at hs <;> try simp at hs
    split at hs <;> simp at hs <;> subst hs
    · constructor <;> grind [setCaller]
    · constructor <;> grind [setCaller]
  | closeCh i =>
    simp only [step] at hs
    split at hs <;> simp at hs
    subst hs
    constructor <;> grind [setCaller]

theorem inv2_reachable (m : Bool) (s : W) (h : GB.LTS.Reachable step (W.init m) s) : Inv s ∧ Inv2 s :=
  GB.LTS.invariant step (W.init m) (fun s => Inv s ∧ Inv2 s) ⟨inv_init m, inv2_init m⟩
    (fun s l s' hi hs => ⟨inv_step s s' l hi.1 hs, inv2_step s s' l hi.1 hi.2 hs⟩) s h

/-- The closure of the once-func reads the FIELD `r.resolveNow` when it runs; whenever a winner is
    about to run it, that field still holds the generation the once belongs to — so modelling
    `close(r.resolveNow)` as closing the caller's own generation is faithful (and the read cannot
    race with the poller's write in `newResolveNow`, which needs that very close to happen first). -/
theorem inv_winner_current (s : W) (h : Inv s) (h2 : Inv2 s) (i : Nat) (hw : (s.callers i).pc = .won) :
    (s.callers i).gen = s.cur ∧ s.ppc ≠ .woken ∧ s.ppc ≠ .madeChan := by
  obtain ⟨a1, a2, b, c, d, e1, e2, f⟩ := h
  obtain ⟨g1, g2, g3, g4, g5, u⟩ := h2
  have h1 := g1 i hw
  have h3 := g3 i (by simp [hw])
  have hg := g2 (s.callers i).gen
  by_cases hm : s.ppc = .madeChan
  · have := a1 hm
    have : (s.callers i).gen < s.cur := by omega
    exact absurd (hg this) h1
  · have hc := a2 hm
    have hlt : ¬ (s.callers i).gen < s.cur := fun hl => h1 (hg hl)
    have heq : (s.callers i).gen = s.cur := by omega
    refine ⟨heq, ?_, hm⟩
    intro hwk
    exact h1 (heq ▸ g5 hwk)

/-! ### bounded liveness: a coming poll starts within 8 protocol steps -/

/-- An upper bound on the number of protocol steps up to and including the next `pollStart`. -/
def rank2 (s : W) : Nat :=
  match s.ppc with
  | .resolving => if s.cur ∈ s.closed then 7 else 8
  | .atSelect => if s.cur ∈ s.closed then 5 else 6
  | .woken => 4
  | .madeChan => 3
  | .top => if s.cur ∈ s.closed then 1 else 2
  | .gotDone => 0
  | .exited => 0

theorem rank2_le (s : W) : rank2 s ≤ 8 := by
  unfold rank2; cases s.ppc <;> simp <;> split <;> simp

theorem coming_rank2_pos (s : W) (hc : Coming s) : 1 ≤ rank2 s := by
  unfold Coming at hc; unfold rank2
  rcases hc with h | h | h | ⟨h | h, _⟩ <;> simp [h] <;> split <;> simp

theorem rank2_mono (s s' : W) (hp : s'.ppc = s.ppc) (hc : s'.cur = s.cur)
    (hcl : s.cur ∈ s.closed → s.cur ∈ s'.closed) : rank2 s' ≤ rank2 s := by
  unfold rank2
  rw [hp, hc]
  cases s.ppc <;> simp <;> split <;> split <;> simp_all

theorem coming_step2 (s s' : W) (l : Lbl) (hi : Inv s) (h2 : Inv2 s) (hc : Coming s) (hidle : s.closer = .idle)
    (hs : step s l = some s') (hl : l ≠ .closeCall) (hp : l ≠ .pollStart) :
    Coming s' ∧ s'.closer = .idle ∧ rank2 s' ≤ rank2 s ∧ (isProtocol l = true → rank2 s' < rank2 s) := by
  rcases coming_stable s s' l hi hc hidle hs hl with h | ⟨hc', hrk, hidle'⟩
  · exact absurd h hp
  clear hrk
  refine ⟨hc', hidle', ?_⟩
  have hcur := hi.a2
  cases l with
  | pollStart => exact absurd rfl hp
  | closeCall => exact absurd rfl hl
  | pollEnd cb =>
    simp only [step] at hs; split at hs <;> simp at hs; subst hs
    rename_i h; simp [rank2, h, isProtocol]; split <;> simp
  | timer =>
    simp only [step] at hs; split at hs <;> simp at hs; subst hs
    rename_i h; simp [rank2, h.1, isProtocol]; split <;> simp
  | wake =>
    simp only [step] at hs; split at hs <;> simp at hs; subst hs
    rename_i h; simp [rank2, h.1, h.2, isProtocol]
  | takeDone =>
    simp only [step] at hs; split at hs <;> simp at hs
    rename_i h; simp [hidle] at h
  | mkChan =>
    simp only [step] at hs; split at hs <;> simp at hs; subst hs
    rename_i h; simp [rank2, h, isProtocol]
  | storePtr =>
    simp only [step] at hs; split at hs <;> simp at hs; subst hs
    rename_i h; simp [rank2, h, isProtocol]; split <;> simp
  | closeDone =>
    simp only [step] at hs; split at hs <;> simp at hs
    rename_i h
    unfold Coming at hc; simp [h] at hc
  | load i =>
    simp only [step] at hs; split at hs <;> simp at hs; subst hs
    exact ⟨rank2_mono _ _ rfl rfl (fun h => h), by simp [isProtocol]⟩
  | fire i =>
    simp only [step] at hs
    split at hs <;> try simp at hs
    split at hs <;> simp at hs <;> subst hs
    · exact ⟨rank2_mono _ _ rfl rfl (fun h => h), by simp [isProtocol]⟩
    · exact ⟨rank2_mono _ _ rfl rfl (fun h => h), by simp [isProtocol]⟩
  | closeCh i =>
    simp only [step] at hs; split at hs <;> simp at hs; subst hs
    rename_i hw
    obtain ⟨hg, hnw, hnm⟩ := inv_winner_current s hi h2 i hw
    have hncl : s.cur ∉ s.closed := hg ▸ h2.g1 i hw
    refine ⟨rank2_mono _ _ rfl rfl (fun h => List.mem_cons_of_mem _ h), fun _ => ?_⟩
    unfold Coming at hc
    simp only [rank2, hg]
    rcases hc with h | h | h | ⟨h | h, _⟩
    · exact absurd h hnw
    · exact absurd h hnm
    · simp [h, hncl]
    · simp [h, hncl]
    · simp [h, hncl]
  | closeRet =>
    simp only [step] at hs; split at hs <;> simp at hs
    rename_i h; simp [hidle] at h

/-- Run-level bound: along ANY execution from a state with a coming poll (callers and the
    scheduler may interleave arbitrarily; only `Close` must not be called), once `rank2 s` protocol
    steps have been taken one of them was the poll start. -/
theorem coming_served_within : ∀ (ls : List Lbl) (s s' : W), Inv s → Inv2 s → Coming s → s.closer = .idle →
    GB.LTS.run step s ls = some s' → .closeCall ∉ ls → rank2 s ≤ (ls.filter isProtocol).length →
    .pollStart ∈ ls
  | [], s, _, _, _, hc, _, _, _, hk => by
    have := coming_rank2_pos s hc
    simp at hk; omega
  | l :: rest, s, s', hi, h2, hc, hidle, hrun, hncl, hk => by
    simp only [GB.LTS.run] at hrun
    cases hst : step s l with
    | none => simp [hst] at hrun
    | some s1 =>
      rw [hst] at hrun
      by_cases hp : l = .pollStart
      · simp [hp]
      · have hl : l ≠ .closeCall := fun e => hncl (e ▸ List.mem_cons_self)
        obtain ⟨hc1, hidle1, hle, hlt⟩ := coming_step2 s s1 l hi h2 hc hidle hst hl hp
        have hi1 := inv_step s s1 l hi hst
        have h21 := inv2_step s s1 l hi h2 hst
        have hk1 : rank2 s1 ≤ (rest.filter isProtocol).length := by
          by_cases hpr : isProtocol l = true
          · have := hlt hpr
            simp [hpr] at hk
            omega
          · simp [hpr] at hk
            omega
        exact List.mem_cons_of_mem _
          (coming_served_within rest s1 s' hi1 h21 hc1 hidle1 hrun (fun h => hncl (List.mem_cons_of_mem _ h)) hk1)

/-- `served` is a faithful ghost: once a call has loaded the pointer it keeps its identity, a poll
    start marks it served, and the mark stays. -/
theorem served_after_pollStart : ∀ (ls : List Lbl) (s s' : W) (i : Nat), GB.LTS.run step s ls = some s' →
    (s.callers i).pc ≠ .start → ((s.callers i).served = true ∨ .pollStart ∈ ls) →
    (s'.callers i).pc ≠ .start ∧ (s'.callers i).served = true
  | [], s, s', i, hrun, hpc, hsv => by
    simp [GB.LTS.run] at hrun; subst hrun
    simpa [hpc] using hsv
  | l :: rest, s, s', i, hrun, hpc, hsv => by
    simp only [GB.LTS.run] at hrun
    cases hst : step s l with
    | none => simp [hst] at hrun
    | some s1 =>
      rw [hst] at hrun
      have key : (s1.callers i).pc ≠ .start ∧ ((s1.callers i).served = true ∨ .pollStart ∈ rest) := by
        cases l <;> simp only [step] at hst
        case pollStart =>
          split at hst <;> simp at hst; subst hst
          simp [serveAll, hpc]
        case load j =>
          split at hst <;> simp at hst; subst hst
          rename_i hj
          have hne : i ≠ j := fun e => hpc (e ▸ hj)
          simpa [setCaller, hne, hpc] using hsv
        case fire j =>
          split at hst <;> try simp at hst
          split at hst <;> simp at hst <;> subst hst
          · by_cases e : i = j <;> simp_all [setCaller]
          · by_cases e : i = j <;> simp_all [setCaller]
        case closeCh j =>
          split at hst <;> simp at hst; subst hst
          by_cases e : i = j <;> simp_all [setCaller]
        all_goals (split at hst <;> simp at hst; subst hst; simpa [hpc] using hsv)
      exact served_after_pollStart rest s1 s' i hrun key.1 key.2

/-! ### a further Close call -/

theorem sendOnDone_after_served (s : W) (hi : Inv s) (h : s.closer = .sent ∨ s.closer = .returned) :
    sendOnDone s ≠ .delivered ∧ (s.ppc = .exited → sendOnDone s = .panics) ∧
    (s.ppc = .gotDone → ∃ s', step s .closeDone = some s' ∧ sendOnDone s' = .panics) := by
  have hp := hi.e2 h
  refine ⟨?_, ?_, ?_⟩
  · rcases hp with hp | hp <;> simp [sendOnDone, hp]
  · intro he; simp [sendOnDone, he]
  · intro hg
    exact ⟨{ s with ppc := .exited }, by simp [step, hg], by simp [sendOnDone]⟩

end GB.C15
