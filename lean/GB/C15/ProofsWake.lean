import GB.C15.Model
/-
  C15 — invariants of the wake-up / Close protocol LTS.
-/
namespace GB.C15
open GB

/-- "A poll start is on its way": the poller is past the wake-up, or it will find its current
    channel closed (already closed, or a caller that won the once is about to close it). -/
def Coming (s : W) : Prop :=
  s.ppc = .woken ∨ s.ppc = .madeChan ∨ s.ppc = .top ∨
  ((s.ppc = .resolving ∨ s.ppc = .atSelect) ∧
    (s.cur ∈ s.closed ∨ ∃ i, (s.callers i).pc = .won ∧ (s.callers i).gen = s.cur))

structure Inv (s : W) : Prop where
  a1 : s.ppc = .madeChan → s.cur = s.ptr + 1
  a2 : s.ppc ≠ .madeChan → s.cur = s.ptr
  b : ∀ g, g ∈ s.fired → g ∈ s.closed ∨ ∃ i, (s.callers i).pc = .won ∧ (s.callers i).gen = g
  c : ∀ i, ((s.callers i).pc = .finished ∨ (s.callers i).pc = .won) → (s.callers i).gen ∈ s.fired
  d : ∀ i, (s.callers i).pc ≠ .start → (s.callers i).served = false → (s.callers i).gen ≠ s.cur →
        (s.ppc = .madeChan ∨ s.ppc = .top)
  e1 : (s.ppc = .gotDone ∨ s.ppc = .exited) → (s.closer = .sent ∨ s.closer = .returned)
  e2 : (s.closer = .sent ∨ s.closer = .returned) → (s.ppc = .gotDone ∨ s.ppc = .exited)
  f : s.cbAfterClose = false

theorem inv_init (m : Bool) : Inv (W.init m) := by
  constructor <;> simp [W.init, Caller.fresh]

theorem inv_step (s s' : W) (l : Lbl) (h : Inv s) (hs : step s l = some s') : Inv s' := by
  obtain ⟨a1, a2, b, c, d, e1, e2, f⟩ := h
  cases l with
  | pollStart =>
    simp only [step] at hs
    split at hs <;> simp at hs
    subst hs
    constructor <;> simp_all [serveAll] <;> grind
  | pollEnd cb =>
    simp only [step] at hs
    split at hs <;> simp at hs
    subst hs
    constructor <;> simp_all <;> grind
  | timer =>
    simp only [step] at hs
    split at hs <;> simp at hs
    subst hs
    constructor <;> simp_all <;> grind
  | wake =>
    simp only [step] at hs
    split at hs <;> simp at hs
    subst hs
    constructor <;> simp_all <;> grind
  | takeDone =>
    simp only [step] at hs
    split at hs <;> simp at hs
    subst hs
    constructor <;> simp_all <;> grind
  | mkChan =>
    simp only [step] at hs
    split at hs <;> simp at hs
    subst hs
    constructor <;> simp_all <;> grind
  | storePtr =>
    simp only [step] at hs
    split at hs <;> simp at hs
    subst hs
    constructor <;> simp_all <;> grind
  | closeDone =>
    simp only [step] at hs
    split at hs <;> simp at hs
    subst hs
    constructor <;> simp_all <;> grind
  | load i =>
    simp only [step] at hs
    split at hs <;> simp at hs
    subst hs
    constructor <;> simp_all [setCaller] <;> grind
  | fire i =>
    simp only [step] at hs
    split at hs <;> try simp at hs
    split at hs <;> simp at hs <;> subst hs
    · constructor <;> simp_all [setCaller] <;> grind
    · constructor <;> simp_all [setCaller] <;> grind
  | closeCh i =>
    simp only [step] at hs
    split at hs <;> simp at hs
    subst hs
    constructor <;> simp_all [setCaller] <;> grind
  | closeCall =>
    simp only [step] at hs
    split at hs <;> simp at hs
    subst hs
    constructor <;> simp_all <;> grind
  | closeRet =>
    simp only [step] at hs
    split at hs <;> simp at hs
    subst hs
    constructor <;> simp_all <;> grind


theorem inv_reachable (m : Bool) (s : W) (h : GB.LTS.Reachable step (W.init m) s) : Inv s :=
  GB.LTS.invariant step (W.init m) Inv (inv_init m) (fun s l s' hi hs => inv_step s s' l hi hs) s h

/-- From the invariant: a completed call is served, or a poll start is on its way, or Close was called. -/
theorem inv_no_lost (s : W) (h : Inv s) (i : Nat) (hf : (s.callers i).pc = .finished) :
    (s.callers i).served = true ∨ Coming s ∨ s.closer ≠ .idle := by
  obtain ⟨a1, a2, b, c, d, e1, e2, f⟩ := h
  unfold Coming
  have hc := c i (Or.inl hf)
  have hd := d i
  have hb := b _ hc
  cases hp : s.ppc <;> cases hsv : (s.callers i).served <;> simp_all <;> grind

/-- Distance to the next poll start while one is coming. -/
def rank (s : W) : Nat :=
  match s.ppc with
  | .resolving => if s.cur ∈ s.closed then 6 else 7
  | .atSelect => if s.cur ∈ s.closed then 4 else 5
  | .woken => 3
  | .madeChan => 2
  | .top => 1
  | .gotDone => 0
  | .exited => 0

/-- While a poll is coming and Close has not been called, some protocol step is enabled and brings it closer. -/
theorem coming_progress (s : W) (hc : Coming s) :
    ∃ l s', step s l = some s' ∧ (rank s' < rank s ∨ l = .pollStart) := by
  unfold Coming at hc
  rcases hc with h | h | h | ⟨h, hcl⟩
  · have e : step s .mkChan = some { s with ppc := .madeChan, cur := s.cur + 1 } := by simp [step, h]
    exact ⟨_, _, e, by simp [rank, h]⟩
  · have e : step s .storePtr = some { s with ppc := .top, ptr := s.cur } := by simp [step, h]
    exact ⟨_, _, e, by simp [rank, h]⟩
  · have e : step s .pollStart = some { s with ppc := .resolving, polls := s.polls + 1, callers := serveAll s.callers } := by
      simp [step, h]
    exact ⟨_, _, e, Or.inr rfl⟩
  · have wakeCase : s.ppc = .atSelect → s.cur ∈ s.closed →
        ∃ l s', step s l = some s' ∧ (rank s' < rank s ∨ l = .pollStart) := by
      intro h hcl
      have e : step s .wake = some { s with ppc := .woken } := by simp [step, h, hcl]
      exact ⟨_, _, e, by simp [rank, h, hcl]⟩
    rcases h with h | h
    · have e : step s (.pollEnd false) = some { s with ppc := .atSelect, cbAfterClose := s.cbAfterClose || (false && s.closer == .returned) } := by
        simp [step, h]
      refine ⟨_, _, e, Or.inl ?_⟩
      simp [rank, h]; split <;> simp
    · rcases hcl with hcl | ⟨i, hw, hg⟩
      · exact wakeCase h hcl
      · by_cases hcl : s.cur ∈ s.closed
        · exact wakeCase h hcl
        · cases e : step s (.closeCh i) with
          | none => simp [step, hw] at e
          | some s' =>
            refine ⟨_, s', e, Or.inl ?_⟩
            simp [step, hw] at e
            subst e
            simp [rank, h, hcl, hg]

theorem rank_mono (s s' : W) (hp : s'.ppc = s.ppc) (hc : s'.cur = s.cur)
    (hcl : s.cur ∈ s.closed → s.cur ∈ s'.closed) : rank s' ≤ rank s := by
  unfold rank
  rw [hp, hc]
  cases s.ppc <;> simp <;> split <;> split <;> simp_all

/-- No step other than calling Close takes a coming poll away or moves it further off. -/
theorem coming_stable (s s' : W) (l : Lbl) (hi : Inv s) (hc : Coming s) (hidle : s.closer = .idle)
    (hs : step s l = some s') (hl : l ≠ .closeCall) :
    l = .pollStart ∨ (Coming s' ∧ rank s' ≤ rank s ∧ s'.closer = .idle) := by
  obtain ⟨a1, a2, b, c, d, e1, e2, f⟩ := hi
  unfold Coming at hc ⊢
  cases l with
  | pollStart => exact Or.inl rfl
  | closeCall => exact absurd rfl hl
  | pollEnd cb =>
    simp only [step] at hs; split at hs <;> simp at hs; subst hs
    right; simp_all [rank]; split <;> simp
  | timer =>
    simp only [step] at hs; split at hs <;> simp at hs; subst hs
    right; simp_all [rank]; split <;> simp
  | wake =>
    simp only [step] at hs; split at hs <;> simp at hs; subst hs
    right; simp_all [rank]
  | takeDone =>
    simp only [step] at hs; split at hs <;> simp at hs; subst hs
    simp_all
  | mkChan =>
    simp only [step] at hs; split at hs <;> simp at hs; subst hs
    right; simp_all [rank]
  | storePtr =>
    simp only [step] at hs; split at hs <;> simp at hs; subst hs
    right; simp_all [rank]
  | closeDone =>
    simp only [step] at hs; split at hs <;> simp at hs; subst hs
    simp_all
  | load i =>
    simp only [step] at hs; split at hs <;> simp at hs; subst hs
    right
    refine ⟨?_, rank_mono _ _ rfl rfl (fun h => h), hidle⟩
    simp_all [setCaller]; grind
  | fire i =>
    simp only [step] at hs
    split at hs <;> try simp at hs
    split at hs <;> simp at hs <;> subst hs
    · right
      refine ⟨?_, rank_mono _ _ rfl rfl (fun h => h), hidle⟩
      simp_all [setCaller]; grind
    · right
      refine ⟨?_, rank_mono _ _ rfl rfl (fun h => h), hidle⟩
      simp_all [setCaller]; grind
  | closeCh i =>
    simp only [step] at hs; split at hs <;> simp at hs; subst hs
    right
    refine ⟨?_, rank_mono _ _ rfl rfl (fun h => List.mem_cons_of_mem _ h), hidle⟩
    simp_all [setCaller]; grind
  | closeRet =>
    simp only [step] at hs; split at hs <;> simp at hs
    simp_all

/-- Once `Close` has returned the only thing the poller can still do is `close(r.done); return`. -/
theorem after_close_only_exit (s s' : W) (l : Lbl) (hi : Inv s) (hr : s.closer = .returned)
    (hs : step s l = some s') :
    l = .closeDone ∨ (∃ i, l = .load i ∨ l = .fire i ∨ l = .closeCh i) := by
  have := hi.e2 (Or.inr hr)
  cases l <;> simp only [step] at hs <;> simp_all


/-- Second group of invariants: generations. -/
structure Inv2 (s : W) : Prop where
  g1 : ∀ i, (s.callers i).pc = .won → (s.callers i).gen ∉ s.closed
  g2 : ∀ g, g < s.cur → g ∈ s.closed
  g3 : ∀ i, (s.callers i).pc ≠ .start → (s.callers i).gen ≤ s.ptr
  g4 : ∀ g, g ∈ s.closed → g ∈ s.fired
  g5 : s.ppc = .woken → s.cur ∈ s.closed
  u : ∀ i j, (s.callers i).pc = .won → (s.callers j).pc = .won → (s.callers i).gen = (s.callers j).gen → i = j

theorem inv2_init (m : Bool) : Inv2 (W.init m) := by
  constructor <;> simp [W.init, Caller.fresh]

theorem inv2_step (s s' : W) (l : Lbl) (h : Inv s) (h2 : Inv2 s) (hs : step s l = some s') : Inv2 s' := by
  obtain ⟨a1, a2, b, c, d, e1, e2, f⟩ := h
  obtain ⟨g1, g2, g3, g4, g5, u⟩ := h2
  cases l with
  | pollStart =>
    simp only [step] at hs
    split at hs <;> simp at hs
    subst hs
    constructor <;> grind [serveAll]
  | pollEnd cb =>
    simp only [step] at hs
    split at hs <;> simp at hs
    subst hs
    constructor <;> grind
  | timer =>
    simp only [step] at hs
    split at hs <;> simp at hs
    subst hs
    constructor <;> grind
  | wake =>
    simp only [step] at hs
    split at hs <;> simp at hs
    subst hs
    constructor <;> grind
  | takeDone =>
    simp only [step] at hs
    split at hs <;> simp at hs
    subst hs
    constructor <;> grind
  | mkChan =>
    simp only [step] at hs
    split at hs <;> simp at hs
    subst hs
    constructor <;> grind
  | storePtr =>
    simp only [step] at hs
    split at hs <;> simp at hs
    subst hs
    constructor <;> grind
  | closeDone =>
    simp only [step] at hs
    split at hs <;> simp at hs
    subst hs
    constructor <;> grind
  | closeCall =>
    simp only [step] at hs
    split at hs <;> simp at hs
    subst hs
    constructor <;> grind
  | closeRet =>
    simp only [step] at hs
    split at hs <;> simp at hs
    subst hs
    constructor <;> grind
  | load i =>
    simp only [step] at hs
    split at hs <;> simp at hs
    subst hs
    constructor <;> grind [setCaller]
  | fire i =>
    simp only [step] at hs
    split at hs <;> try simp at hs
    split at hs <;> simp at hs <;> subst hs
    · constructor <;> grind [setCaller]
    · constructor <;> grind [setCaller]
  | closeCh i =>
    simp only [step] at hs
    split at hs <;> simp at hs
    subst hs
    constructor <;> grind [setCaller]

theorem inv2_reachable (m : Bool) (s : W) (h : GB.LTS.Reachable step (W.init m) s) : Inv s ∧ Inv2 s :=
  GB.LTS.invariant step (W.init m) (fun s => Inv s ∧ Inv2 s) ⟨inv_init m, inv2_init m⟩
    (fun s l s' hi hs => ⟨inv_step s s' l hi.1 hs, inv2_step s s' l hi.1 hi.2 hs⟩) s h

/-- The closure of the once-func reads the FIELD `r.resolveNow` when it runs; whenever a winner is
    about to run it, that field still holds the generation the once belongs to — so modelling
    `close(r.resolveNow)` as closing the caller's own generation is faithful (and the read cannot
    race with the poller's write in `newResolveNow`, which needs that very close to happen first). -/
theorem inv_winner_current (s : W) (h : Inv s) (h2 : Inv2 s) (i : Nat) (hw : (s.callers i).pc = .won) :
    (s.callers i).gen = s.cur ∧ s.ppc ≠ .woken ∧ s.ppc ≠ .madeChan := by
  obtain ⟨a1, a2, b, c, d, e1, e2, f⟩ := h
  obtain ⟨g1, g2, g3, g4, g5, u⟩ := h2
  have h1 := g1 i hw
  have h3 := g3 i (by simp [hw])
  have hg := g2 (s.callers i).gen
  by_cases hm : s.ppc = .madeChan
  · have := a1 hm
    have : (s.callers i).gen < s.cur := by omega
    exact absurd (hg this) h1
  · have hc := a2 hm
    have hlt : ¬ (s.callers i).gen < s.cur := fun hl => h1 (hg hl)
    have heq : (s.callers i).gen = s.cur := by omega
    refine ⟨heq, ?_, hm⟩
    intro hwk
    exact h1 (heq ▸ g5 hwk)

end GB.C15
