import GB.Base.LTS
/-
  C15 — `sync.Once` as a small LTS (any number of callers), statement by statement after
  go/src/sync/once.go:

      func (o *Once) Do(f func()) {
          if o.done.Load() == 0 { o.doSlow(f) }            -- enter
      }
      func (o *Once) doSlow(f func()) {
          o.m.Lock()                                       -- lock
          defer o.m.Unlock()                               -- unlock   (runs last)
          if o.done.Load() == 0 {                          -- check
              defer o.done.Store(1)                        -- store    (runs after f returned)
              f()                                          -- fret = f returned
          }
      }

  `sync.OnceFunc(f)` is `once.Do(g)` around `f` (g additionally records a panic of f, which
  `close(ch)` on a fresh channel cannot raise). The wake-up LTS of Model.lean abstracts one
  `ResolveNow` call to `load ; fire ; closeCh`; this file proves what that abstraction may assume:
  exactly one caller executes f, and NO caller returns before f has completed.  Core-only Lean.
-/
namespace GB.C15.Once

inductive Pc where
  | idle | wantLock | locked | running | storing | unlocking | returned
deriving DecidableEq, Repr

structure S where
  pc : Nat → Pc
  /-- `o.done` -/
  done : Bool
  /-- `o.m`: the caller holding the mutex -/
  holder : Option Nat
  /-- ghost: how often `f` was entered -/
  execs : Nat
  /-- ghost: how often `f` returned -/
  completed : Nat

def S.init : S := { pc := fun _ => .idle, done := false, holder := none, execs := 0, completed := 0 }

inductive L where
  | enter (i : Nat) | lock (i : Nat) | check (i : Nat) | fret (i : Nat) | store (i : Nat) | unlock (i : Nat)
deriving DecidableEq, Repr

def setPc (f : Nat → Pc) (i : Nat) (p : Pc) : Nat → Pc := fun j => if j = i then p else f j

def step (s : S) : L → Option S
  | .enter i =>
    if s.pc i = .idle then
      some { s with pc := setPc s.pc i (if s.done then .returned else .wantLock) }
    else none
  | .lock i =>
    if s.pc i = .wantLock ∧ s.holder = none then
      some { s with pc := setPc s.pc i .locked, holder := some i }
    else none
  | .check i =>
    if s.pc i = .locked then
      (if s.done then some { s with pc := setPc s.pc i .unlocking }
       else some { s with pc := setPc s.pc i .running, execs := s.execs + 1 })
    else none
  | .fret i =>
    if s.pc i = .running then some { s with pc := setPc s.pc i .storing, completed := s.completed + 1 } else none
  | .store i =>
    if s.pc i = .storing then some { s with pc := setPc s.pc i .unlocking, done := true } else none
  | .unlock i =>
    if s.pc i = .unlocking then some { s with pc := setPc s.pc i .returned, holder := none } else none

/-- inside `doSlow` with the mutex held -/
def crit : Pc → Bool
  | .locked | .running | .storing | .unlocking => true
  | _ => false

structure Inv (s : S) : Prop where
  hc : ∀ i, crit (s.pc i) = true → s.holder = some i
  hh : ∀ i, s.holder = some i → crit (s.pc i) = true
  hr : ∀ i, s.pc i = .returned → s.done = true
  hu : ∀ i, s.pc i = .unlocking → s.done = true
  hd : s.done = true → s.execs = 1 ∧ s.completed = 1
  hn : s.done = false → (∀ i, s.pc i ≠ .running ∧ s.pc i ≠ .storing) → s.execs = 0 ∧ s.completed = 0
  hrun : ∀ i, s.pc i = .running → s.done = false ∧ s.execs = 1 ∧ s.completed = 0
  hst : ∀ i, s.pc i = .storing → s.done = false ∧ s.execs = 1 ∧ s.completed = 1

theorem inv_init : Inv S.init := by
  constructor <;> simp [S.init, crit]

theorem inv_step (s s' : S) (l : L) (h : Inv s) (hs : step s l = some s') : Inv s' := by
  obtain ⟨hc, hh, hr, hu, hd, hn, hrun, hst⟩ := h
  cases l with
  | enter i =>
    simp only [step] at hs
    split at hs <;> simp at hs
    subst hs
    constructor <;> simp only [setPc] <;> intros <;> grind [crit]
  | lock i =>
    simp only [step] at hs
    split at hs <;> simp at hs
    subst hs
    constructor <;> simp only [setPc] <;> intros <;> grind [crit]
  | check i =>
    simp only [step] at hs
    split at hs <;> try simp at hs
    split at hs <;> simp at hs <;> subst hs
    · constructor <;> simp only [setPc] <;> intros <;> grind [crit]
    · constructor <;> simp only [setPc] <;> intros <;> grind [crit]
  | fret i =>
    simp only [step] at hs
    split at hs <;> simp at hs
    subst hs
    constructor <;> simp only [setPc] <;> intros <;> grind [crit]
  | store i =>
    simp only [step] at hs
    split at hs <;> simp at hs
    subst hs
    constructor <;> simp only [setPc] <;> intros <;> grind [crit]
  | unlock i =>
    simp only [step] at hs
    split at hs <;> simp at hs
    subst hs
    constructor <;> simp only [setPc] <;> intros <;> grind [crit]

theorem inv_reachable (s : S) (h : GB.LTS.Reachable step S.init s) : Inv s :=
  GB.LTS.invariant step S.init Inv inv_init (fun s l s' hi hs => inv_step s s' l hi hs) s h

/-- No deadlock: while some caller is inside `Do`, a step is enabled (the mutex holder's next
    statement, or a `Lock` when the mutex is free). -/
theorem progress (s : S) (h : Inv s) (i : Nat) (hi : s.pc i ≠ .idle) (hr : s.pc i ≠ .returned) :
    ∃ l s', step s l = some s' := by
  cases hh : s.holder with
  | some j =>
    have hj := h.hh j hh
    cases hp : s.pc j <;> simp [hp, crit] at hj
    · exact ⟨.check j, by cases hd : s.done <;> simp [step, hp, hd]⟩
    · exact ⟨.fret j, by simp [step, hp]⟩
    · exact ⟨.store j, by simp [step, hp]⟩
    · exact ⟨.unlock j, by simp [step, hp]⟩
  | none =>
    have hnc : crit (s.pc i) = false := by
      cases hcr : crit (s.pc i) with
      | false => rfl
      | true => have := h.hc i hcr; simp [hh] at this
    cases hp : s.pc i <;> simp [hp, crit] at hnc hi hr
    exact ⟨.lock i, by simp [step, hp, hh]⟩

end GB.C15.Once
