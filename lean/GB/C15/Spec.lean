import GB.C15.Model
/-
  C15 — the specification the property is stated against (core-only).

  Contracts are compared as SETS (of service names, of file descriptors); the watcher must be
  told about a fetched contract exactly when it differs from the last DELIVERED one and can be
  parsed; every other failed poll only reports an error and leaves the delivered state alone.
-/
namespace GB.C15
open GB

def subsetB {α : Type} [BEq α] (a b : List α) : Bool := a.all (fun x => b.contains x)

/-- equality as sets -/
def sameSet {α : Type} [BEq α] (a b : List α) : Bool := subsetB a b && subsetB b a

def sameContract (a b : Obs) : Bool := sameSet a.names b.names && sameSet a.files b.files

/-- What a poll amounts to for the property: it fetched a contract (parsable or not) or it failed. -/
inductive Outcome (D : Type) where
  | fetched (o : Obs) (parsed : Option D)
  | failed (c : ErrClass)

/-- The poll outcome under the version fallback: the first version, in priority order, that does
    not answer Unimplemented decides; if there is none the poll failed. -/
def outcomeOf {D : Type} (env : Version → Attempt D) : List Version → Outcome D
  | [] => .failed .unimplemented
  | m :: rest =>
    match env m with
    | .unimplemented => outcomeOf env rest
    | .fail c => .failed c
    | .fetched o p => .fetched o p

/-- the fetched contract equals (as a set) the last delivered one -/
def sameAsLast (last : Option Obs) (o : Obs) : Bool :=
  match last with
  | some l => sameContract o l
  | none => false

/-- One poll of the specification: ghost state = the last delivered contract. -/
def specPoll {D : Type} (last : Option Obs) : Outcome D → Option Obs × List (Callback D)
  | .failed c => (last, [.reportError c])
  | .fetched o p =>
    if sameAsLast last o then (last, [])
    else match p with
      | none => (last, [.reportError .other])
      | some d => (some o, [.update d])

def specRun {D : Type} (last : Option Obs) : List (Outcome D) → List (List (Callback D))
  | [] => []
  | oc :: rest => let (l', cbs) := specPoll last oc; cbs :: specRun l' rest

/-- the last delivered contract after a history of outcomes -/
def lastDelivered {D : Type} (last : Option Obs) : List (Outcome D) → Option Obs
  | [] => last
  | oc :: rest => lastDelivered (specPoll last oc).1 rest

end GB.C15
